//go:build !c09ae

package main

// Suite (4b): SEQUENCES of operations on ONE Query / ONE Batch object.
//
// Suite (4) asks every object exactly once. Here one object lives through every sequence of
// up to L operations (re-binding other values, setting / clearing an explicit routing key,
// copying it with WithContext, releasing it to the pool and taking a query again, asking for
// the routing key in between) and every key it hands out is compared with the reference key
// of the values that are bound AT THAT MOMENT.

import (
	"bytes"
	"context"
	"fmt"
	"runtime"
	"strconv"
	"strings"
	"sync"

	"github.com/gocql/gocql"
	"verif/engine/refcass"
	"verif/engine/report"
)

// seqGroup: the atoms of suite (4) that can be bound to one column of a given CQL type.
type seqGroup struct {
	name  string
	typ   gocql.Type
	atoms []atom
}

func seqGroups() []seqGroup {
	gs := []seqGroup{
		{name: "int", typ: gocql.TypeInt}, {name: "bigint", typ: gocql.TypeBigInt}, {name: "text", typ: gocql.TypeText},
		{name: "blob", typ: gocql.TypeBlob}, {name: "uuid", typ: gocql.TypeUUID}, {name: "timestamp", typ: gocql.TypeTimestamp},
		{name: "boolean", typ: gocql.TypeBoolean},
	}
	for _, a := range atoms() {
		fam := a.name[:strings.IndexByte(a.name, ':')]
		for i := range gs {
			if gs[i].name == fam {
				gs[i].atoms = append(gs[i].atoms, a)
			}
		}
	}
	return gs
}

const seqNK = 3 // value sets K0..K2 per statement

// seqShape: one statement (partition-key column types, bind layout) with its value sets.
type seqShape struct {
	id      string // e.g. "text|bigint:layout1"
	shape   string // single | composite
	arity   int
	stmt    string
	indexes []int
	types   []gocql.TypeInfo
	vals    [seqNK][]interface{} // full bound value list of K_j (layout 1: with the non-key values)
	names   [seqNK]string
	ref     [seqNK][]byte // reference routing key of K_j
	maxLen  int
}

// bindLayout is the bind layout of suite (4): 0 = values in partition-key order; 1 = a non-key
// value first, the key values in reverse order, another non-key value last.
func bindLayout(layout int, keyVals []interface{}) (values []interface{}, indexes []int) {
	indexes = make([]int, len(keyVals))
	if layout == 0 {
		values = append(values, keyVals...)
		for i := range indexes {
			indexes[i] = i
		}
		return
	}
	values = append(values, "not-a-key")
	for i := len(keyVals) - 1; i >= 0; i-- {
		values = append(values, keyVals[i])
		indexes[i] = len(values) - 1
	}
	values = append(values, int64(77))
	return
}

func newSeqShape(gs []seqGroup, sel []int, layout, maxLen int) *seqShape {
	sh := &seqShape{arity: len(sel), shape: "single", maxLen: maxLen}
	if len(sel) > 1 {
		sh.shape = "composite"
	}
	var gn []string
	for _, g := range sel {
		gn = append(gn, gs[g].name)
		sh.types = append(sh.types, gocql.NewNativeType(4, gs[g].typ, ""))
	}
	sh.id = fmt.Sprintf("%s:layout%d", strings.Join(gn, "|"), layout)
	sh.stmt = "SELECT v FROM ks.t WHERE seq:" + sh.id
	for j := 0; j < seqNK; j++ {
		var keyVals []interface{}
		var comps [][]byte
		var names []string
		for i, g := range sel {
			a := gs[g].atoms[(j+i)%len(gs[g].atoms)] // column i of K_j: shifted by i so that the columns of one K differ
			keyVals = append(keyVals, a.value)
			comps = append(comps, a.enc)
			names = append(names, a.name)
		}
		sh.vals[j], sh.indexes = bindLayout(layout, keyVals)
		sh.names[j] = strings.Join(names, "|")
		sh.ref[j] = refcass.RoutingKey(comps)
	}
	return sh
}

// seqMaxLen: longest operation sequence (before the final GetRoutingKey) per key arity.
func seqMaxLen(thorough bool, arity int) int {
	if thorough {
		return []int{0, 5, 4, 3}[arity]
	}
	return []int{0, 4, 3, 3}[arity]
}

// seqShapes: quick = every single-column type, every pair of types, and the 7 "rotation"
// triples (g, g+1, g+2); thorough = every list of 1..3 types. Both bind layouts each.
func seqShapes(thorough bool) []*seqShape {
	gs := seqGroups()
	var out []*seqShape
	var rec func(sel []int)
	rec = func(sel []int) {
		if n := len(sel); n >= 1 {
			keep := thorough || n < 3 || (sel[1] == (sel[0]+1)%len(gs) && sel[2] == (sel[0]+2)%len(gs))
			if keep {
				for layout := 0; layout < 2; layout++ {
					out = append(out, newSeqShape(gs, sel, layout, seqMaxLen(thorough, n)))
				}
			}
		}
		if len(sel) == 3 {
			return
		}
		for g := range gs {
			rec(append(append([]int{}, sel...), g))
		}
	}
	rec(nil)
	return out
}

// explicit routing keys a caller sets with Query.RoutingKey
var seqExplicit = [][]byte{
	{0x09, 0x09},
	refcass.RoutingKey([][]byte{[]byte("bob"), be(8, 258)}), // looks like a composite key of other values
}

const (
	qGet = iota
	qBind0
	qBind1
	qBind2
	qExp0
	qExp1
	qExpNil
	qCopy
	qRenew
	qNOps
)

var qOpNames = []string{"GetRoutingKey", "Bind(K0)", "Bind(K1)", "Bind(K2)", "RoutingKey(E0)", "RoutingKey(E1)", "RoutingKey(nil)", "WithContext-copy", "Release+Session.Query(current values)"}

const (
	bGet = iota
	bAdd0
	bAdd1
	bAdd2
	bRepl0
	bRepl1
	bRepl2
	bClear
	bNOps
)

var bOpNames = []string{"GetRoutingKey", "Query(K0)", "Query(K1)", "Query(K2)", "Entries[0]=K0", "Entries[0]=K1", "Entries[0]=K2", "Entries=Entries[:0]"}

func opNames(names []string, ops []int) []string {
	out := make([]string, len(ops))
	for i, o := range ops {
		out[i] = names[o]
	}
	return out
}

type seqStats struct {
	mu                            sync.Mutex
	qSeqs, bSeqs, obs, nontrivial int64
	obsAfterRebind, obsExplicit   int64
	shapes                        map[string]int
	samples                       int
	localEvals                    int64
	localKeys                     [][8]byte
}

func (st *seqStats) flush() {
	r.AddCounts(st.localEvals, st.localKeys)
	st.localEvals, st.localKeys = 0, st.localKeys[:0]
}

func (st *seqStats) countCase(key string, nontrivial bool) {
	st.localEvals++
	if nontrivial {
		st.nontrivial++
		st.localKeys = append(st.localKeys, report.KeyHash(key))
	}
	if len(st.localKeys) >= 4096 {
		st.flush()
	}
}

type handedOut struct {
	got, snapshot []byte
	step          int
}

func tokenOf(m3 *gocql.VerifC09Partitioner, key []byte) string {
	if len(key) == 0 {
		return "-"
	}
	return m3.Hash(key)
}

func freshVals(v []interface{}) []interface{} { return append([]interface{}(nil), v...) }

// runQuerySeq drives one Query object through ops (+ a final GetRoutingKey).
func runQuerySeq(sh *seqShape, sess *gocql.VerifC09Session, m3 *gocql.VerifC09Partitioner, ops []int, st *seqStats) {
	rpf := func() map[string]interface{} {
		return map[string]interface{}{"object": "Query", "statement_key": sh.id, "ops": append(opNames(qOpNames, ops), "GetRoutingKey"),
			"K0": sh.names[0], "K1": sh.names[1], "K2": sh.names[2]}
	}
	defer func() {
		if p := recover(); p != nil {
			r.Violation("panic:Query.sequence", fmt.Sprint(p), rpf())
		}
	}()
	prefix := "routing-key:Query.sequence:" + sh.shape + ":"
	cur := 0                // index of the value set bound now
	var explicit []byte     // explicit routing key in force now
	boundBefore := []int{}  // value sets bound earlier on this object
	var droppedExp [][]byte // explicit keys that were set and are no longer in force
	rebound := false
	q := sess.NewQuery(sh.stmt, freshVals(sh.vals[0]))
	var handed []handedOut
	observe := func(step int) {
		st.obs++
		got, err := q.GetRoutingKey()
		if err != nil {
			r.Violation(prefix+"error", fmt.Sprintf("%s ops %v step %d: %v", sh.id, rpf()["ops"], step, err), rpf())
			return
		}
		handed = append(handed, handedOut{got, append([]byte(nil), got...), step})
		if explicit != nil {
			st.obsExplicit++
			// C09 speaks about the key BUILT from bound values; with an explicit key in force the answer must be that key or,
			// at least, the correct key of the values bound now (never some other bytes)
			if !bytes.Equal(got, explicit) && !bytes.Equal(got, sh.ref[cur]) {
				r.Violation(prefix+"explicit-key-not-returned", fmt.Sprintf("%s ops %v step %d: RoutingKey(%x) is in force, GetRoutingKey = %x", sh.id, rpf()["ops"], step, explicit, trunc(got)), rpf())
			}
			return
		}
		if rebound {
			st.obsAfterRebind++
		}
		want := sh.ref[cur]
		if bytes.Equal(got, want) {
			return
		}
		class := "bytes-differ"
		if len(got) == 0 {
			class = "no-key"
		}
		for _, e := range droppedExp {
			if bytes.Equal(got, e) {
				class = "explicit-key-survives-its-removal"
			}
		}
		for _, p := range boundBefore {
			if !bytes.Equal(sh.ref[p], want) && bytes.Equal(got, sh.ref[p]) {
				class = "key-of-earlier-bound-values"
			}
		}
		r.Violation(prefix+class, fmt.Sprintf("%s ops %v step %d: (%s) is bound, GetRoutingKey = %x (token %s); Cassandra's key for the bound values is %x (token %s)",
			sh.id, rpf()["ops"], step, sh.names[cur], trunc(got), tokenOf(m3, got), trunc(want), strconv.FormatInt(refcass.Murmur3Token(want), 10)), rpf())
	}
	bind := func(j int) {
		boundBefore = append(boundBefore, cur)
		cur = j
		rebound = true
		q.Bind(freshVals(sh.vals[j])...)
	}
	dropExplicit := func() {
		if explicit != nil {
			droppedExp = append(droppedExp, explicit)
		}
	}
	nontrivial, seenGet := false, false
	for i, op := range ops {
		if op != qGet && seenGet {
			nontrivial = true // the object changes after it has handed out a key
		}
		switch op {
		case qGet:
			seenGet = true
			observe(i)
		case qBind0, qBind1, qBind2:
			bind(op - qBind0)
		case qExp0, qExp1:
			dropExplicit()
			explicit = seqExplicit[op-qExp0]
			q.RoutingKey(explicit)
		case qExpNil:
			dropExplicit()
			explicit = nil
			q.RoutingKey(nil)
		case qCopy:
			q = q.WithContext(context.Background())
		case qRenew:
			dropExplicit()
			explicit = nil
			q.Release()
			q = sess.NewQuery(sh.stmt, freshVals(sh.vals[cur]))
		}
	}
	observe(len(ops))
	for _, h := range handed {
		if !bytes.Equal(h.got, h.snapshot) {
			r.Violation(prefix+"handed-out-key-changed-later", fmt.Sprintf("%s ops %v: the key returned at step %d was %x and reads %x at the end of the sequence", sh.id, rpf()["ops"], h.step, trunc(h.snapshot), trunc(h.got)), rpf())
		}
	}
	q.Release()
	st.qSeqs++
	st.countCase("seq:Q:"+sh.id+":"+fmt.Sprint(ops), nontrivial)
}

// runBatchSeq drives one Batch object through ops (+ a final GetRoutingKey). The routing key of
// a batch is the one of its first entry.
func runBatchSeq(sh *seqShape, sess *gocql.VerifC09Session, m3 *gocql.VerifC09Partitioner, ops []int, st *seqStats) {
	rpf := func() map[string]interface{} {
		return map[string]interface{}{"object": "Batch", "statement_key": sh.id, "ops": append(opNames(bOpNames, ops), "GetRoutingKey"),
			"K0": sh.names[0], "K1": sh.names[1], "K2": sh.names[2]}
	}
	defer func() {
		if p := recover(); p != nil {
			r.Violation("panic:Batch.sequence", fmt.Sprint(p), rpf())
		}
	}()
	prefix := "routing-key:Batch.sequence:" + sh.shape + ":"
	first := -1 // value set of Entries[0]; -1: no entry
	var firstBefore []int
	b := sess.NewBatch()
	var handed []handedOut
	observe := func(step int) {
		st.obs++
		got, err := b.GetRoutingKey()
		if err != nil {
			r.Violation(prefix+"error", fmt.Sprintf("%s ops %v step %d: %v", sh.id, rpf()["ops"], step, err), rpf())
			return
		}
		handed = append(handed, handedOut{got, append([]byte(nil), got...), step})
		if first < 0 {
			if len(got) != 0 {
				r.Violation(prefix+"key-without-entries", fmt.Sprintf("%s ops %v step %d: the batch has no entry, GetRoutingKey = %x", sh.id, rpf()["ops"], step, trunc(got)), rpf())
			}
			return
		}
		if len(firstBefore) > 0 {
			st.obsAfterRebind++
		}
		want := sh.ref[first]
		if bytes.Equal(got, want) {
			return
		}
		class := "bytes-differ"
		if len(got) == 0 {
			class = "no-key"
		}
		for _, p := range firstBefore {
			if !bytes.Equal(sh.ref[p], want) && bytes.Equal(got, sh.ref[p]) {
				class = "key-of-earlier-bound-values"
			}
		}
		r.Violation(prefix+class, fmt.Sprintf("%s ops %v step %d: the first entry has (%s), GetRoutingKey = %x (token %s); Cassandra's key for these values is %x (token %s)",
			sh.id, rpf()["ops"], step, sh.names[first], trunc(got), tokenOf(m3, got), trunc(want), strconv.FormatInt(refcass.Murmur3Token(want), 10)), rpf())
	}
	setFirst := func(j int) {
		if first >= 0 {
			firstBefore = append(firstBefore, first)
		}
		first = j
	}
	nontrivial, seenGet := false, false
	for i, op := range ops {
		if op != bGet && seenGet {
			nontrivial = true
		}
		switch op {
		case bGet:
			seenGet = true
			observe(i)
		case bAdd0, bAdd1, bAdd2:
			if len(b.Entries) == 0 {
				setFirst(op - bAdd0)
			}
			b.Query(sh.stmt, freshVals(sh.vals[op-bAdd0])...)
		case bRepl0, bRepl1, bRepl2:
			e := gocql.BatchEntry{Stmt: sh.stmt, Args: freshVals(sh.vals[op-bRepl0])}
			if len(b.Entries) == 0 {
				b.Entries = append(b.Entries, e)
			} else {
				b.Entries[0] = e
			}
			setFirst(op - bRepl0)
		case bClear:
			if first >= 0 {
				firstBefore = append(firstBefore, first)
			}
			first = -1
			b.Entries = b.Entries[:0]
		}
	}
	observe(len(ops))
	for _, h := range handed {
		if !bytes.Equal(h.got, h.snapshot) {
			r.Violation(prefix+"handed-out-key-changed-later", fmt.Sprintf("%s ops %v: the key returned at step %d was %x and reads %x at the end of the sequence", sh.id, rpf()["ops"], h.step, trunc(h.snapshot), trunc(h.got)), rpf())
		}
	}
	st.bSeqs++
	st.countCase("seq:B:"+sh.id+":"+fmt.Sprint(ops), nontrivial)
}

// forEachOpSeq calls f with every sequence over nOps operations of length 0..maxLen.
func forEachOpSeq(nOps, maxLen int, f func(ops []int)) {
	ops := make([]int, 0, maxLen)
	var rec func()
	rec = func() {
		f(ops)
		if len(ops) == maxLen {
			return
		}
		for o := 0; o < nOps; o++ {
			ops = append(ops, o)
			rec()
			ops = ops[:len(ops)-1]
		}
	}
	rec()
}

func suiteRoutingSequences() {
	shapes := seqShapes(r.Thorough())
	type job struct {
		sh    *seqShape
		batch bool
	}
	jobs := make(chan job, 2*len(shapes))
	for _, sh := range shapes {
		jobs <- job{sh, false}
		jobs <- job{sh, true}
	}
	close(jobs)
	total := &seqStats{shapes: map[string]int{}}
	for _, sh := range shapes {
		total.shapes[fmt.Sprintf("arity%d:max-ops-%d", sh.arity, sh.maxLen)]++
	}
	var wg sync.WaitGroup
	for w := 0; w < runtime.NumCPU(); w++ {
		wg.Add(1)
		go func() {
			defer wg.Done()
			m3 := mustPartitioner(nameM3)
			st := &seqStats{}
			for j := range jobs {
				sh := j.sh
				sess := gocql.VerifC09NewSession()
				sess.Seed(sh.stmt, sh.indexes, sh.types, "ks", "t")
				if j.batch {
					forEachOpSeq(bNOps, sh.maxLen, func(ops []int) {
						runBatchSeq(sh, sess, m3, ops, st)
					})
				} else {
					forEachOpSeq(qNOps, sh.maxLen, func(ops []int) {
						runQuerySeq(sh, sess, m3, ops, st)
					})
				}
			}
			st.flush()
			total.mu.Lock()
			total.qSeqs += st.qSeqs
			total.bSeqs += st.bSeqs
			total.obs += st.obs
			total.nontrivial += st.nontrivial
			total.obsAfterRebind += st.obsAfterRebind
			total.obsExplicit += st.obsExplicit
			total.mu.Unlock()
		}()
	}
	wg.Wait()
	r.Extra("routing_key_sequences", map[string]interface{}{
		"statements_by_arity_and_max_ops":           total.shapes,
		"query_sequences":                           total.qSeqs,
		"batch_sequences":                           total.bSeqs,
		"sequences_changing_the_object_after_a_key": total.nontrivial,
		"keys_compared":                             total.obs,
		"keys_compared_after_a_rebind":              total.obsAfterRebind,
		"keys_compared_with_explicit_key_in_force":  total.obsExplicit,
		"query_ops":                                 qOpNames,
		"batch_ops":                                 bOpNames,
	})
	// two samples: the shortest sequences that re-bind after a key was handed out
	for _, sh := range shapes {
		if sh.id == "int:layout0" || sh.id == "text|bigint:layout1" {
			r.Sample(map[string]interface{}{"object": "Query", "statement_key": sh.id, "ops": []string{"Session.Query(K0)", "GetRoutingKey", "Bind(K1)", "GetRoutingKey"},
				"K0": sh.names[0], "key_K0": fmt.Sprintf("%x", sh.ref[0]), "K1": sh.names[1], "key_K1": fmt.Sprintf("%x", sh.ref[1]),
				"token_K1": strconv.FormatInt(refcass.Murmur3Token(sh.ref[1]), 10)})
		}
	}
}

func seqLenText(thorough bool) string {
	return fmt.Sprintf("%d (1 key column) / %d (2) / %d (3)", seqMaxLen(thorough, 1), seqMaxLen(thorough, 2), seqMaxLen(thorough, 3))
}
