package main

// Shared by the worker and by the appengine-variant child (no build constraint):
// the enumerated byte strings of check C09.

var alphabet = []byte{0x00, 0x01, 0x7f, 0x80, 0xff}

// baseFill returns the base string of the given length: fill 0 has every byte in
// 0x01..0x7f, fill 1 has every byte >= 0x80; both vary with the position so that a
// byte read from the wrong offset or shifted to the wrong lane changes the hash.
func baseFill(fill, length int) []byte {
	b := make([]byte, length)
	for i := range b {
		if fill == 0 {
			b[i] = byte((i*37+11)%0x7f) + 1
		} else {
			b[i] = 0x80 | byte((i*29+5)%0x80)
		}
	}
	return b
}

type inputSpace struct {
	shortMax int // all strings over the alphabet of length <= shortMax
	substMax int // substitution family for every length 0..substMax
}

func spaceFor(thorough bool) inputSpace {
	if thorough {
		return inputSpace{shortMax: 7, substMax: 130}
	}
	return inputSpace{shortMax: 5, substMax: 64}
}

// forEachInput calls f(family, bytes) for every enumerated byte string. The slice
// passed to f is reused; f must not retain it.
func forEachInput(sp inputSpace, f func(family string, b []byte)) {
	// family "short": all strings over the alphabet, by length
	for n := 0; n <= sp.shortMax; n++ {
		idx := make([]int, n)
		b := make([]byte, n)
		for {
			for i, x := range idx {
				b[i] = alphabet[x]
			}
			f("short", b)
			i := n - 1
			for ; i >= 0; i-- {
				idx[i]++
				if idx[i] < len(alphabet) {
					break
				}
				idx[i] = 0
			}
			if i < 0 {
				break
			}
		}
	}
	// family "subst": per length and base fill, the base, every single-position and
	// every adjacent-pair substitution from the alphabet
	for n := 0; n <= sp.substMax; n++ {
		for fill := 0; fill < 2; fill++ {
			base := baseFill(fill, n)
			b := make([]byte, n)
			copy(b, base)
			f("base", b)
			for p := 0; p < n; p++ {
				for _, s := range alphabet {
					copy(b, base)
					b[p] = s
					f("subst1", b)
				}
			}
			for p := 0; p+1 < n; p++ {
				for _, s := range alphabet {
					for _, u := range alphabet {
						copy(b, base)
						b[p], b[p+1] = s, u
						f("subst2", b)
					}
				}
			}
		}
	}
}

// hashClass is the stable part of a murmur finding key: which code path the input takes.
func hashClass(b []byte) string {
	blocks := "0"
	if len(b) >= 16 {
		blocks = "1+"
	}
	hi := "0"
	for _, x := range b[len(b)/16*16:] {
		if x >= 0x80 {
			hi = "1"
		}
	}
	return "blocks=" + blocks + ":tail=" + itoa(len(b)&15) + ":tail-byte>=0x80=" + hi
}

func itoa(n int) string {
	if n == 0 {
		return "0"
	}
	s := ""
	for n > 0 {
		s = string(rune('0'+n%10)) + s
		n /= 10
	}
	return s
}

// refLE reads 8 bytes little-endian as a Java long (reference for getBlock).
func refLE(b []byte) int64 {
	var v uint64
	for i := 7; i >= 0; i-- {
		v = v<<8 | uint64(b[i])
	}
	return int64(v)
}
