//go:build !c09ae

// Worker of check C09: partition tokens and routing keys equal Cassandra's.
package main

import (
	"bytes"
	"crypto/md5"
	"encoding/binary"
	"encoding/hex"
	"encoding/json"
	"fmt"
	"math"
	"math/big"
	"os"
	"os/exec"
	"path/filepath"
	"runtime"
	"strconv"
	"strings"
	"sync"
	"time"

	"github.com/gocql/gocql"
	"github.com/gocql/gocql/internal/murmur"
	"verif/engine/refcass"
	"verif/engine/report"
)

var r *report.Run

var prevKey, prevWant []byte

func main() {
	r = report.New("C09", "exploration")
	sp := spaceFor(r.Thorough())
	r.SetRule(fmt.Sprintf("(1) every byte string of length <= %d over {00,01,7f,80,ff}, and for every length 0..%d over two base fills "+
		"(all bytes < 0x80 / all bytes >= 0x80, position dependent) the base, every single-position and every adjacent-pair substitution "+
		"from that alphabet: murmur.Murmur3H1 (both getBlock build variants), the Murmur3, Random and ByteOrdered partitioners' Hash, against "+
		"ports of Cassandra's MurmurHash.hash3_x64_128 / Murmur3Partitioner / RandomPartitioner; a case is non-trivial when the key is non-empty. "+
		"(2) token order: all pairs of strings of length <= %d (ordered partitioner: unsigned byte order; murmur3/random on a subset: signed / big.Int order). "+
		"(3) token strings at range boundaries: ParseString round trip and Less on all pairs, and against hashed tokens. "+
		"(4) partition keys of 1..3 components over 20 (CQL type, value) atoms, identity and permuted bind-marker positions, through "+
		"createRoutingKey, Query.GetRoutingKey and Batch.GetRoutingKey (routing-key info seeded in the session cache), and the Murmur3 token of the result. "+
		"(4c) GO REPRESENTATIONS: for the key-column types int, smallint, tinyint, bigint, varint, text, varchar, ascii, blob, uuid, timeuuid, timestamp, boolean, inet, date and 2..9 values each, "+
		"the value bound in EVERY Go representation gocql.Marshal documents for the type (decimal / uuid / address / date strings, []byte and [16]byte, every Go integer type that holds the value, big.Int, "+
		"net.IP of length 4 and 16, time.Time in two locations, int64, named types, pointers to these): every single-column key, every two-column key over one binding per distinct (CQL type, Go type) "+
		"(thorough: all bindings x those, both orders), every three-column key with a binding at each position and every pair of six fillers at the others; both bind layouts, the three entry points; "+
		"the reference key is built from the column's ENCODED value (refcql/value for varint), so it does not depend on the Go representation. "+
		"(4b) SEQUENCES on one object: for every statement shape (quick: every single key-column type, every pair of types, 7 triples; thorough: every list of 1..3 of the 7 types; "+
		"both bind layouts; three value sets K0..K2 each) every sequence of up to %s operations on ONE Query from {GetRoutingKey, Bind(K0|K1|K2), RoutingKey(E0|E1|nil), "+
		"WithContext copy, Release + Session.Query again} and on ONE Batch from {GetRoutingKey, Query(K0|K1|K2) appended, Entries[0] replaced by K0|K1|K2, Entries truncated}, followed by a final GetRoutingKey: "+
		"every key handed out must be the reference key of the values bound AT THAT MOMENT (or the explicit key in force), and must not change afterwards; "+
		"a sequence is non-trivial when the object is changed after it has handed out a key.",
		sp.shortMax, sp.substMax, orderedPairMax(r.Thorough()), seqLenText(r.Thorough())))
	r.Assume("Cassandra's algorithms are as ported in /verif/engine/refcass (unit-tested against canonical MurmurHash3 vectors, third-party Cassandra vectors incl. one with sign extension, python-computed MD5 tokens)",
		"empty partition keys are outside the property (Cassandra rejects them; its partitioners short-cut them to the MINIMUM token): for the empty string only the raw hash is compared",
		"the single Murmur3 hash value Long.MIN_VALUE that Cassandra remaps to Long.MAX_VALUE is not reachable by enumeration",
		"Query.GetRoutingKey is driven with routing-key info seeded into Session.routingKeyInfoCache (no scripted node here): the prepare/metadata derivation of that info is not covered by this check",
		"encodings of the component values (int, smallint, tinyint, bigint, text, blob, uuid, timestamp, boolean, inet = 4/16 address bytes, date = days since epoch + 2^31) are written by hand from the CQL spec; varint by refcql/value.EncVarint",
		"(4c) only Go representations listed in gocql.Marshal's conversion table (plus named types of the same kind and pointers, 'if value is a pointer, the pointed-to value is marshaled') are bound; unsigned Go values only within the signed range of the column; varint strings only within int64 (gocql parses them as 64-bit); IPv4-mapped IPv6 strings are not used",
		"sequences (4b): Query.RoutingKey(nil) means 'no explicit key' (GetRoutingKey's documentation: 'if a routing key has not been explicitly set'); an explicit non-nil key stays in force across Bind and WithContext and is what GetRoutingKey returns (documented contract of Query.RoutingKey); a batch without entries has no routing key")

	suiteHash(sp)
	suiteOrder()
	suiteTokenStrings()
	suiteRoutingKeys()
	suiteRoutingSequences()
	suiteAppengineChild()

	os.Exit(r.Finish(true))
}

func mustPartitioner(name string) *gocql.VerifC09Partitioner {
	p, err := gocql.VerifC09NewPartitioner(name)
	if err != nil {
		r.Infra("partitioner %s: %v", name, err)
		os.Exit(r.Finish(false))
	}
	return p
}

const (
	nameM3  = "org.apache.cassandra.dht.Murmur3Partitioner"
	nameRnd = "org.apache.cassandra.dht.RandomPartitioner"
	nameBO  = "org.apache.cassandra.dht.ByteOrderedPartitioner"
)

// guard runs f and turns a panic of the code under test into a violation.
func guard(site string, replay interface{}, f func()) {
	defer func() {
		if p := recover(); p != nil {
			r.Violation("panic:"+site, fmt.Sprint(p), replay)
		}
	}()
	f()
}

// ---------------------------------------------------------------- (1) hashes

func suiteHash(sp inputSpace) {
	m3, rnd, bo := mustPartitioner(nameM3), mustPartitioner(nameRnd), mustPartitioner(nameBO)
	variant := murmur.VerifVariant
	var n, blocks int64
	fam := map[string]int64{}
	tails := map[int]int64{}
	sampled := map[int]bool{}
	forEachInput(sp, func(family string, b []byte) {
		n++
		fam[family]++
		tails[len(b)&15]++
		hx := hex.EncodeToString(b)
		r.Case("hash:"+hx, len(b) > 0)
		if family == "subst2" && !sampled[len(b)] && (len(b) == 13 || len(b) == 31 || len(b) == 48 || len(b) == 63) && b[len(b)-2] == 0x80 && b[len(b)-1] == 0xff {
			sampled[len(b)] = true
			r.Sample(map[string]string{"family": family, "key": hx, "murmur3": m3.Hash(b), "random": rnd.Hash(b)})
		}
		guard("hash", hx, func() {
			want, _ := refcass.Hash3X64128(b, 0, len(b), 0)
			if got := murmur.Murmur3H1(b); got != want {
				r.Violation("murmur3["+variant+"]:hash-differs:"+hashClass(b), fmt.Sprintf("key %s: Murmur3H1 = %d, Cassandra hash3_x64_128[0] = %d", hx, got, want), hx)
			}
			for i := 0; i < len(b)/16; i++ {
				blocks++
				k1, k2 := murmur.VerifGetBlock(b, i)
				if k1 != refLE(b[i*16:]) || k2 != refLE(b[i*16+8:]) {
					r.Violation("murmur3["+variant+"]:getBlock-differs", fmt.Sprintf("key %s block %d: %x %x", hx, i, uint64(k1), uint64(k2)), hx)
				}
			}
			if len(b) == 0 {
				return // outside the property, see assumptions
			}
			if got, want := m3.Hash(b), strconv.FormatInt(refcass.Murmur3Token(b), 10); got != want {
				r.Violation("Murmur3Partitioner:token-differs:"+hashClass(b), fmt.Sprintf("key %s: token %s, Cassandra %s", hx, got, want), hx)
			}
			if got, want := rnd.Hash(b), refcass.RandomToken(b).String(); got != want {
				r.Violation("RandomPartitioner:token-differs:"+md5Class(b), fmt.Sprintf("key %s: token %s, Cassandra %s", hx, got, want), hx)
			}
			if got := bo.Hash(b); got != string(b) {
				r.Violation("OrderedPartitioner:token-is-not-the-key", fmt.Sprintf("key %s: token %x", hx, got), hx)
			}
		})
	})
	r.Extra("hash_inputs", n)
	r.Extra("hash_inputs_by_family", fam)
	r.Extra("hash_inputs_by_tail_length", tails)
	r.Extra("getBlock_calls_checked", blocks)
	r.Extra("murmur_variant_in_worker", variant)
}

// md5Class: does abs() matter for this key (MD5 sign bit set)?
func md5Class(b []byte) string {
	if refcass.RandomToken(b).Cmp(new(big.Int).SetBytes(md5raw(b))) != 0 {
		return "md5-sign-bit-set"
	}
	return "md5-sign-bit-clear"
}

func md5raw(b []byte) []byte { s := md5.Sum(b); return s[:] }

// ---------------------------------------------------------------- (2) order

func orderedPairMax(thorough bool) int {
	if thorough {
		return 5
	}
	return 4
}

func shortStrings(max int) [][]byte {
	var out [][]byte
	forEachInput(inputSpace{shortMax: max, substMax: -1}, func(_ string, b []byte) {
		out = append(out, append([]byte{}, b...))
	})
	return out
}

func suiteOrder() {
	bo, m3, rnd := mustPartitioner(nameBO), mustPartitioner(nameM3), mustPartitioner(nameRnd)
	keys := shortStrings(orderedPairMax(r.Thorough()))
	var pairs int64
	var mu sync.Mutex
	var wg sync.WaitGroup
	workers := runtime.NumCPU()
	for w := 0; w < workers; w++ {
		wg.Add(1)
		go func(w int) {
			defer wg.Done()
			var local int64
			for i := w; i < len(keys); i += workers {
				a := keys[i]
				for _, b := range keys {
					local++
					want := refcass.CompareUnsignedBytes(a, b) < 0
					var got bool
					guard("orderedToken.Less", []string{hex.EncodeToString(a), hex.EncodeToString(b)}, func() { got = bo.HashLess(a, b) })
					if got != want {
						r.Violation("OrderedPartitioner:Less-not-unsigned-byte-order", fmt.Sprintf("%x < %x: got %v want %v", a, b, got, want),
							[]string{hex.EncodeToString(a), hex.EncodeToString(b)})
					}
				}
			}
			mu.Lock()
			pairs += local
			mu.Unlock()
		}(w)
	}
	wg.Wait()
	r.Case(fmt.Sprintf("ordered-pairs:%d", len(keys)), true)
	r.Extra("ordered_partitioner_pairs_checked", pairs)

	// murmur3 / random: order of hashed tokens, all pairs over strings of length 1..3
	sub := shortStrings(3)[1:]
	type tk struct {
		m int64
		r *big.Int
	}
	ref := make([]tk, len(sub))
	for i, k := range sub {
		ref[i] = tk{refcass.Murmur3Token(k), refcass.RandomToken(k)}
	}
	var hp int64
	for i, a := range sub {
		for j, b := range sub {
			hp++
			rp := []string{hex.EncodeToString(a), hex.EncodeToString(b)}
			guard("hashed-token.Less", rp, func() {
				if got, want := m3.HashLess(a, b), ref[i].m < ref[j].m; got != want {
					r.Violation("Murmur3Partitioner:Less-not-signed-order", fmt.Sprintf("token(%x)=%d < token(%x)=%d: got %v", a, ref[i].m, b, ref[j].m, got), rp)
				}
				if got, want := rnd.HashLess(a, b), ref[i].r.Cmp(ref[j].r) < 0; got != want {
					r.Violation("RandomPartitioner:Less-not-numeric-order", fmt.Sprintf("token(%x)=%s < token(%x)=%s: got %v", a, ref[i].r, b, ref[j].r, got), rp)
				}
			})
		}
	}
	r.Case(fmt.Sprintf("hashed-pairs:%d", len(sub)), true)
	r.Extra("hashed_token_pairs_checked", hp)
}

// ---------------------------------------------------------------- (3) token strings

func suiteTokenStrings() {
	m3, rnd := mustPartitioner(nameM3), mustPartitioner(nameRnd)
	big2 := func(e uint) *big.Int { return new(big.Int).Lsh(big.NewInt(1), e) }
	add := func(a *big.Int, d int64) *big.Int { return new(big.Int).Add(a, big.NewInt(d)) }
	// Murmur3: every long is a token; boundaries of the signed range and of the 32-bit lanes
	var m3s []*big.Int
	for _, c := range []*big.Int{new(big.Int).Neg(big2(63)), new(big.Int).Neg(big2(62)), new(big.Int).Neg(big2(32)), new(big.Int).Neg(big2(31)), big.NewInt(0), big2(31), big2(32), big2(62), add(big2(63), -2)} {
		for d := int64(-1); d <= 1; d++ {
			v := add(c, d)
			if v.IsInt64() {
				m3s = append(m3s, v)
			}
		}
	}
	m3s = append(m3s, big.NewInt(math.MaxInt64), big.NewInt(-4611686018427387905), big.NewInt(1234567890123456789))
	// Random: tokens are 0 .. 2^127
	var rs []*big.Int
	for _, c := range []*big.Int{big.NewInt(1), big2(31), big2(32), big2(63), big2(64), big2(96), big2(126), add(big2(127), -1)} {
		for d := int64(-1); d <= 1; d++ {
			rs = append(rs, add(c, d))
		}
	}
	rs = append(rs, big2(127), mustBig("85070591730234615865843651857942052864"), mustBig("56713727820156410577229101238628035242"), mustBig("113427455640312821154458202477256070485"))
	keys := shortStrings(2)[1:]

	check := func(p *gocql.VerifC09Partitioner, name string, toks []*big.Int, refTok func([]byte) *big.Int) {
		for _, a := range toks {
			s := a.String()
			r.Case("tokenstr:"+name+":"+s, true)
			guard(name+".ParseString", s, func() {
				if got := p.Parse(s); got != s {
					r.Violation(name+":ParseString-changes-value", fmt.Sprintf("ParseString(%q).String() = %q", s, got), s)
				}
				for _, b := range toks {
					if got, want := p.ParseLess(s, b.String()), a.Cmp(b) < 0; got != want {
						r.Violation(name+":parsed-Less-not-numeric-order", fmt.Sprintf("%s < %s: got %v", s, b, got), []string{s, b.String()})
					}
				}
				for _, k := range keys {
					kt := refTok(k)
					if got, want := p.HashLessParsed(k, s), kt.Cmp(a) < 0; got != want {
						r.Violation(name+":hashed-vs-parsed-Less", fmt.Sprintf("token(%x)=%s < %s: got %v", k, kt, s, got), []string{hex.EncodeToString(k), s})
					}
					if got, want := p.ParsedLessHash(s, k), a.Cmp(kt) < 0; got != want {
						r.Violation(name+":parsed-vs-hashed-Less", fmt.Sprintf("%s < token(%x)=%s: got %v", s, k, kt, got), []string{s, hex.EncodeToString(k)})
					}
				}
			})
		}
	}
	check(m3, "Murmur3Partitioner", m3s, func(k []byte) *big.Int { return big.NewInt(refcass.Murmur3Token(k)) })
	check(rnd, "RandomPartitioner", rs, refcass.RandomToken)
	r.Extra("token_strings", map[string]int{"murmur3": len(m3s), "random": len(rs), "keys_compared_with_each": len(keys)})
	r.Sample(map[string]string{"murmur3_token_string": m3s[0].String(), "random_token_string": rs[len(rs)-4].String()})
}

func mustBig(s string) *big.Int {
	v, ok := new(big.Int).SetString(s, 10)
	if !ok {
		panic(s)
	}
	return v
}

// ---------------------------------------------------------------- (4) routing keys

type atom struct {
	name  string
	typ   gocql.Type
	value interface{} // bound Go value
	enc   []byte      // CQL serialisation, written by hand
}

func be(n int, v uint64) []byte {
	b := make([]byte, 8)
	binary.BigEndian.PutUint64(b, v)
	return b[8-n:]
}

func atoms() []atom {
	u1, _ := gocql.ParseUUID("00000000-0000-1000-8000-000000000001")
	u2, _ := gocql.ParseUUID("ffeeddcc-bbaa-4988-b766-554433221100")
	u2b, _ := hex.DecodeString("ffeeddccbbaa4988b766554433221100")
	u1b, _ := hex.DecodeString("00000000000010008000000000000001")
	long := bytes.Repeat([]byte{0xab}, 300)
	return []atom{
		{"int:0", gocql.TypeInt, int(0), be(4, 0)},
		{"int:-1", gocql.TypeInt, int32(-1), be(4, 0xffffffff)},
		{"int:max", gocql.TypeInt, int(math.MaxInt32), be(4, 0x7fffffff)},
		{"bigint:1", gocql.TypeBigInt, int64(1), be(8, 1)},
		{"bigint:-2", gocql.TypeBigInt, int64(-2), be(8, 0xfffffffffffffffe)},
		{"bigint:min", gocql.TypeBigInt, int64(math.MinInt64), be(8, 0x8000000000000000)},
		{"text:empty", gocql.TypeText, "", []byte{}},
		{"text:a", gocql.TypeText, "a", []byte("a")},
		{"text:utf8", gocql.TypeVarchar, "héllo€", []byte{'h', 0xc3, 0xa9, 'l', 'l', 'o', 0xe2, 0x82, 0xac}},
		{"blob:empty", gocql.TypeBlob, []byte{}, []byte{}},
		{"blob:00", gocql.TypeBlob, []byte{0x00}, []byte{0x00}},
		{"blob:ff8000", gocql.TypeBlob, []byte{0xff, 0x80, 0x00}, []byte{0xff, 0x80, 0x00}},
		{"blob:300", gocql.TypeBlob, long, long},
		{"uuid:low", gocql.TypeTimeUUID, u1, u1b},
		{"uuid:high", gocql.TypeUUID, u2, u2b},
		{"timestamp:epoch", gocql.TypeTimestamp, time.Unix(0, 0).UTC(), be(8, 0)},
		{"timestamp:ms", gocql.TypeTimestamp, time.Unix(1234567890, 123000000).UTC(), be(8, 1234567890123)},
		{"timestamp:-1ms", gocql.TypeTimestamp, int64(-1), be(8, 0xffffffffffffffff)},
		{"boolean:true", gocql.TypeBoolean, true, []byte{1}},
		{"boolean:false", gocql.TypeBoolean, false, []byte{0}},
	}
}

func suiteRoutingKeys() {
	at := atoms()
	m3 := mustPartitioner(nameM3)
	sess := gocql.VerifC09NewSession()
	var keys, evals int64
	nsamples := 0
	perArity := map[int]int64{}
	// checkKey compares the routing key of one partition key (sel = its components in
	// partition-key order). reps=true (suite 4c): the violation keys name the
	// "cqltype<-Go type" binding of the first component whose bytes are wrong.
	checkKey := func(sel []atom, reps bool) {
		keys++
		perArity[len(sel)]++
		comps := make([][]byte, len(sel))
		names := make([]string, len(sel))
		for i, s := range sel {
			comps[i] = s.enc
			names[i] = s.name
		}
		want := refcass.RoutingKey(comps)
		id := strings.Join(names, "|")
		// two bind layouts: (a) values in partition-key order; (b) a non-key value first,
		// then the key values in reverse order, then another non-key value
		for layout := 0; layout < 2; layout++ {
			var values []interface{}
			indexes := make([]int, len(sel))
			types := make([]gocql.TypeInfo, len(sel))
			for i, s := range sel {
				types[i] = gocql.NewNativeType(4, s.typ, "")
			}
			if layout == 0 {
				for i, s := range sel {
					values = append(values, s.value)
					indexes[i] = i
				}
			} else {
				values = append(values, "not-a-key")
				for i := len(sel) - 1; i >= 0; i-- {
					values = append(values, sel[i].value)
					indexes[i] = len(values) - 1
				}
				values = append(values, int64(77))
			}
			cid := fmt.Sprintf("rk:%s:layout%d", id, layout)
			shape := "single"
			if len(sel) > 1 {
				shape = "composite"
			}
			rp := map[string]interface{}{"components": names, "layout": layout}
			report3 := func(via string, got []byte, err error) {
				evals++
				r.Case(cid+":"+via, err == nil)
				if err != nil {
					suffix := ""
					if reps {
						suffix = ":go-representation"
					}
					r.Violation("routing-key:"+via+":"+shape+":error"+suffix, fmt.Sprintf("%s: %v", id, err), rp)
					return
				}
				if !bytes.Equal(got, want) {
					suffix := ""
					if reps {
						suffix = ":" + repOf[sel[firstWrongComponent(got, comps)].name]
					}
					r.Violation("routing-key:"+via+":"+shape+":bytes-differ"+suffix, fmt.Sprintf("%s layout %d: got %x want %x", id, layout, trunc(got), trunc(want)), rp)
				}
			}
			guard("createRoutingKey", rp, func() {
				got, err := gocql.VerifC09CreateRoutingKey(indexes, types, values)
				report3("createRoutingKey", got, err)
				// a key handed out earlier must not change when later keys are built (no shared scratch buffer)
				if prevKey != nil && !bytes.Equal(prevKey, prevWant) {
					r.Violation("routing-key:earlier-key-overwritten-by-a-later-one", fmt.Sprintf("the key built just before %s changed from %x to %x when this key was built", id, trunc(prevWant), trunc(prevKey)), rp)
				}
				if err == nil {
					prevKey, prevWant = got, append([]byte(nil), got...)
				}
				if err == nil && len(got) > 0 {
					if tok, wantTok := m3.Hash(got), strconv.FormatInt(refcass.Murmur3Token(want), 10); tok != wantTok {
						r.Violation("routing-key:token-differs:"+shape, fmt.Sprintf("%s: token %s, Cassandra %s", id, tok, wantTok), rp)
					}
				}
			})
			stmt := "SELECT v FROM ks.t WHERE " + cid
			sess.Seed(stmt, indexes, types, "ks", "t")
			guard("Query.GetRoutingKey", rp, func() {
				got, err, ks, tbl := sess.QueryRoutingKey(stmt, values)
				report3("Query.GetRoutingKey", got, err)
				if err == nil && (ks != "ks" || tbl != "t") {
					r.Violation("routing-key:Query.GetRoutingKey:keyspace-table-not-recorded", fmt.Sprintf("%q %q", ks, tbl), rp)
				}
			})
			guard("Batch.GetRoutingKey", rp, func() {
				got, err := sess.BatchRoutingKey(stmt, values)
				report3("Batch.GetRoutingKey", got, err)
			})
			if !reps && nsamples < 4 && len(sel) == 3 && layout == 1 && strings.HasPrefix(names[0], "int:-1") && strings.HasPrefix(names[1], "text:") && strings.HasPrefix(names[2], "blob:") {
				nsamples++
				r.Sample(map[string]interface{}{"partition_key": names, "bind_positions": indexes, "routing_key": hex.EncodeToString(trunc(want)), "token": strconv.FormatInt(refcass.Murmur3Token(want), 10)})
			}
		}
	}
	var rec func(sel []atom)
	rec = func(sel []atom) {
		if len(sel) >= 1 {
			checkKey(sel, false)
		}
		if len(sel) == 3 {
			return
		}
		for i := range at {
			rec(append(append([]atom{}, sel...), at[i]))
		}
	}
	rec(nil)
	r.Extra("routing_keys", keys)
	r.Extra("routing_keys_by_arity", perArity)
	r.Extra("routing_key_evaluations", evals)

	// ---- (4c) every Go representation of every key-column value
	keys, evals = 0, 0
	perArity = map[int]int64{}
	suiteRoutingRepresentations(func(sel []atom) { checkKey(sel, true) })
	r.Extra("representation_routing_keys", keys)
	r.Extra("representation_routing_keys_by_arity", perArity)
	r.Extra("representation_routing_key_evaluations", evals)
}

// firstWrongComponent walks got along the reference framing and returns the index of the
// first component whose segment (single: the bytes; composite: length, bytes, 0) differs.
func firstWrongComponent(got []byte, comps [][]byte) int {
	if len(comps) == 1 {
		return 0
	}
	off := 0
	for i, c := range comps {
		seg := refcass.RoutingKey([][]byte{c, nil})
		seg = seg[:len(seg)-3] // the framed first component only
		if off+len(seg) > len(got) || !bytes.Equal(got[off:off+len(seg)], seg) {
			return i
		}
		off += len(seg)
	}
	return len(comps) - 1
}

func trunc(b []byte) []byte {
	if len(b) > 64 {
		return b[:64]
	}
	return b
}

// ---------------------------------------------------------------- (5) appengine variant

// suiteAppengineChild rebuilds the scratch tree this worker was built from with the
// `appengine` tag (murmur_appengine.go's getBlock), runs the byte-string enumeration in
// that binary and merges the result. The scratch tree is located next to the worker
// binary (bin/check layout: <scratch>/worker, <scratch>/repo).
func suiteAppengineChild() {
	exe, err := os.Executable()
	if err != nil {
		r.Infra("os.Executable: %v", err)
		return
	}
	dir := filepath.Dir(exe)
	repo := filepath.Join(dir, "repo")
	if _, err := os.Stat(filepath.Join(repo, "zz_verif_main")); err != nil {
		r.Infra("appengine variant: scratch tree not found next to the worker (%v); run through bin/check", err)
		return
	}
	child := filepath.Join(dir, "worker_appengine")
	cmd := exec.Command("go", "build", "-tags", "verif,appengine,c09ae", "-o", child, "./zz_verif_main")
	cmd.Dir = repo
	if out, err := cmd.CombinedOutput(); err != nil {
		r.Infra("appengine variant build failed: %v\n%s", err, out)
		return
	}
	args := []string{}
	if r.Thorough() {
		args = append(args, "-thorough")
	}
	out, err := exec.Command(child, args...).Output()
	if err != nil {
		r.Infra("appengine variant run failed: %v", err)
		return
	}
	var res aeResultJSON
	if err := json.Unmarshal(out, &res); err != nil {
		r.Infra("appengine variant output: %v", err)
		return
	}
	if res.Variant != "appengine" {
		r.Infra("appengine child was built with variant %q", res.Variant)
		return
	}
	if res.Panic != "" {
		r.Violation("panic:murmur3[appengine]", res.Panic, nil)
	}
	for _, m := range res.Mismatches {
		r.Violation(m.Key, fmt.Sprintf("key %s: got %d, Cassandra %d (%d mismatching inputs in the appengine build)", m.Hex, m.Got, m.Want, res.NMismatch), m.Hex)
	}
	for i := int64(0); i < res.Evaluations; i++ {
		// one evaluation per input hashed by the child; keys are not distinct from suite (1)
		r.Case("", false)
	}
	r.Extra("appengine_variant", map[string]interface{}{"inputs_hashed": res.Evaluations, "getBlock_calls_checked": res.BlockEvals, "mismatches": res.NMismatch})
}

type aeResultJSON struct {
	Variant     string
	Evaluations int64
	BlockEvals  int64
	Mismatches  []struct {
		Key, Hex  string
		Got, Want int64
	}
	NMismatch int64
	Panic     string
}
