//go:build c09ae

// Child of the C09 worker: the same scratch tree built a second time with
// `-tags verif,appengine,c09ae`, so that internal/murmur is compiled with
// murmur_appengine.go's getBlock. It imports only internal/murmur and refcass,
// runs the byte-string enumeration and prints one JSON object.
package main

import (
	"encoding/hex"
	"encoding/json"
	"flag"
	"fmt"
	"os"

	"github.com/gocql/gocql/internal/murmur"
	"verif/engine/refcass"
)

type aeMismatch struct {
	Key, Hex  string
	Got, Want int64
}

type aeResult struct {
	Variant     string
	Evaluations int64
	BlockEvals  int64
	Mismatches  []aeMismatch
	NMismatch   int64
	Panic       string
}

func main() {
	thorough := flag.Bool("thorough", false, "")
	flag.Parse()
	res := aeResult{Variant: murmur.VerifVariant}
	seen := map[string]bool{}
	add := func(key string, b []byte, got, want int64) {
		res.NMismatch++
		if !seen[key] && len(res.Mismatches) < 40 {
			seen[key] = true
			res.Mismatches = append(res.Mismatches, aeMismatch{key, hex.EncodeToString(b), got, want})
		}
	}
	func() {
		defer func() {
			if p := recover(); p != nil {
				res.Panic = fmt.Sprint(p)
			}
		}()
		forEachInput(spaceFor(*thorough), func(fam string, b []byte) {
			res.Evaluations++
			want, _ := refcass.Hash3X64128(b, 0, len(b), 0)
			if got := murmur.Murmur3H1(b); got != want {
				add("murmur3["+murmur.VerifVariant+"]:hash-differs:"+hashClass(b), b, got, want)
			}
			for n := 0; n < len(b)/16; n++ {
				res.BlockEvals++
				k1, k2 := murmur.VerifGetBlock(b, n)
				w1, w2 := refLE(b[n*16:]), refLE(b[n*16+8:])
				if k1 != w1 || k2 != w2 {
					add("murmur3["+murmur.VerifVariant+"]:getBlock-differs", b, k1, w1)
				}
			}
		})
	}()
	json.NewEncoder(os.Stdout).Encode(res)
}
