//go:build !c09ae

package main

// Suite (4c): the routing key is built from the column's ENCODED value, whatever Go
// representation the value was bound in. For every key-column type of the harness and every
// value, the value is bound in every Go representation gocql.Marshal documents for that CQL
// type (string forms, []byte / [16]byte forms, integer types of every width that holds the
// value, big.Int, net.IP in both lengths, time.Time in two locations, named types, pointers).

import (
	"encoding/hex"
	"fmt"
	"math"
	"math/big"
	"net"
	"strconv"
	"time"

	"github.com/gocql/gocql"
	"verif/engine/refcql/value"
)

type (
	c09Int    int64
	c09String string
	c09Bytes  []byte
	c09Bool   bool
)

// repOf: atom name -> "cqltype<-Go type" of the binding (suite 4c violation keys).
var repOf = map[string]string{}

// repAtoms returns one atom per (CQL type, value, Go representation).
func repAtoms() []atom {
	var out []atom
	add := func(typ gocql.Type, tname, vname string, enc []byte, reps ...interface{}) {
		seen := map[string]int{}
		for _, v := range reps {
			g := fmt.Sprintf("%T", v)
			seen[g]++
			name := fmt.Sprintf("%s:%s<-%s", tname, vname, g)
			if seen[g] > 1 {
				name += "#" + strconv.Itoa(seen[g])
			}
			out = append(out, atom{name: name, typ: typ, value: v, enc: enc})
			repOf[name] = tname + "<-" + g
		}
	}
	// every Go integer type that holds v, its decimal string, a named integer type, pointers
	ints := func(v int64, withBig bool) []interface{} {
		var l []interface{}
		l = append(l, int(v), v, c09Int(v), strconv.FormatInt(v, 10))
		if v >= math.MinInt32 && v <= math.MaxInt32 {
			l = append(l, int32(v))
		}
		if v >= math.MinInt16 && v <= math.MaxInt16 {
			l = append(l, int16(v))
		}
		if v >= math.MinInt8 && v <= math.MaxInt8 {
			l = append(l, int8(v))
		}
		if v >= 0 {
			l = append(l, uint(v), uint64(v))
			if v <= math.MaxUint32 {
				l = append(l, uint32(v))
			}
			if v <= math.MaxUint16 {
				l = append(l, uint16(v))
			}
			if v <= math.MaxUint8 {
				l = append(l, uint8(v))
			}
		}
		if withBig {
			l = append(l, *big.NewInt(v), big.NewInt(v))
		}
		pv, ps := v, strconv.FormatInt(v, 10)
		l = append(l, &pv, &ps)
		return l
	}
	for _, v := range []int64{0, -1, 1000, math.MaxInt32, math.MinInt32} {
		add(gocql.TypeInt, "int", strconv.FormatInt(v, 10), be(4, uint64(v)), ints(v, false)...)
	}
	for _, v := range []int64{0, -1, 300, math.MaxInt16, math.MinInt16} {
		add(gocql.TypeSmallInt, "smallint", strconv.FormatInt(v, 10), be(2, uint64(v)), ints(v, false)...)
	}
	for _, v := range []int64{0, -1, math.MaxInt8, math.MinInt8} {
		add(gocql.TypeTinyInt, "tinyint", strconv.FormatInt(v, 10), be(1, uint64(v)), ints(v, false)...)
	}
	for _, v := range []int64{1, -2, 1 << 40, math.MaxInt64, math.MinInt64} {
		add(gocql.TypeBigInt, "bigint", strconv.FormatInt(v, 10), be(8, uint64(v)), ints(v, true)...)
	}
	for _, v := range []int64{0, -1, 127, 128, -128, -129, 1 << 40, math.MaxInt64, math.MinInt64} {
		add(gocql.TypeVarint, "varint", strconv.FormatInt(v, 10), value.EncVarint(big.NewInt(v)), ints(v, true)...)
	}
	// varint beyond int64: big.Int, and uint64 where it fits (the string form is not used here:
	// gocql parses varint strings as 64-bit numbers)
	two64 := new(big.Int).Lsh(big.NewInt(1), 64)
	add(gocql.TypeVarint, "varint", "2^64", value.EncVarint(two64), *two64, two64)
	negTwo64 := new(big.Int).Neg(two64)
	add(gocql.TypeVarint, "varint", "-2^64", value.EncVarint(negTwo64), *negTwo64, negTwo64)
	maxU64 := new(big.Int).SetUint64(math.MaxUint64)
	add(gocql.TypeVarint, "varint", "2^64-1", value.EncVarint(maxU64), *maxU64, maxU64, uint64(math.MaxUint64))

	texts := func(typ gocql.Type, tname string, vals ...string) {
		for i, s := range vals {
			s, b := s, []byte(s)
			add(typ, tname, strconv.Itoa(i), []byte(s), s, []byte(s), c09String(s), c09Bytes(s), &s, &b)
		}
	}
	texts(gocql.TypeText, "text", "", "a", "héllo€", "550e8400-e29b-41d4-a716-446655440000")
	texts(gocql.TypeVarchar, "varchar", "", "42", "héllo€")
	texts(gocql.TypeAscii, "ascii", "", "a", "127.0.0.1")
	texts(gocql.TypeBlob, "blob", "", "\x00", "\xff\x80\x00", "0123456789abcdef")

	uuids := func(typ gocql.Type, tname string, texts ...string) {
		for i, s := range texts {
			u, err := gocql.ParseUUID(s)
			if err != nil {
				panic(err)
			}
			raw, _ := hex.DecodeString(s[0:8] + s[9:13] + s[14:18] + s[19:23] + s[24:])
			var arr [16]byte
			copy(arr[:], raw)
			s, b := s, append([]byte{}, raw...)
			add(typ, tname, strconv.Itoa(i), raw, u, arr, append([]byte{}, raw...), s, &u, &s, &b, &arr)
		}
	}
	uuids(gocql.TypeUUID, "uuid", "ffeeddcc-bbaa-4988-b766-554433221100", "550e8400-e29b-41d4-a716-446655440000", "00000000-0000-0000-0000-000000000000")
	uuids(gocql.TypeTimeUUID, "timeuuid", "00000000-0000-1000-8000-000000000001", "c0ffee00-1dea-11ee-be56-0242ac120002")

	east := time.FixedZone("east", 5*3600+1800)
	for _, ms := range []int64{0, 1234567890123, -1, -86400000 * 365} {
		t := time.Unix(0, 0).Add(time.Duration(ms) * time.Millisecond)
		tu, te := t.UTC(), t.In(east)
		pms := ms
		add(gocql.TypeTimestamp, "timestamp", strconv.FormatInt(ms, 10), be(8, uint64(ms)), tu, te, ms, c09Int(ms), &tu, &pms)
	}
	for _, b := range []bool{true, false} {
		b := b
		enc := []byte{0}
		if b {
			enc = []byte{1}
		}
		add(gocql.TypeBoolean, "boolean", strconv.FormatBool(b), enc, b, c09Bool(b), &b)
	}
	for _, s := range []string{"1.2.3.4", "0.0.0.0", "255.255.255.255", "127.0.0.1"} {
		ip16 := net.ParseIP(s) // 16-byte form of an IPv4 address
		ip4 := ip16.To4()
		s := s
		add(gocql.TypeInet, "inet", s, []byte(ip4), ip4, ip16, s, &s, &ip4)
	}
	for _, f := range [][2]string{{"2001:db8::1", "2001:0db8:0000:0000:0000:0000:0000:0001"}, {"::1", "0:0:0:0:0:0:0:1"}, {"fe80::ff:fe00:80", "FE80::FF:FE00:80"}} {
		ip := net.ParseIP(f[0])
		s := f[0]
		add(gocql.TypeInet, "inet", f[0], []byte(ip.To16()), ip, f[0], f[1], &s, &ip)
	}
	for _, d := range []string{"1970-01-01", "2024-02-29", "1969-12-31", "1900-03-01"} {
		t, err := time.Parse("2006-01-02", d)
		if err != nil {
			panic(err)
		}
		days := t.Unix() / 86400 // exact: t is a midnight
		d, ms := d, t.Unix()*1000
		add(gocql.TypeDate, "date", d, be(4, uint64(days+(1<<31))), t, ms, d, &t, &d, &ms)
	}
	return out
}

// suiteRoutingRepresentations enumerates, over R = repAtoms() (one atom per CQL type, value and
// Go representation) and P = one atom of R per distinct (CQL type, Go type) binding (the last
// value listed for it, so never the empty/zero one where there is another):
//   - every single-column key of R;
//   - every two-column key of P x P (thorough: also R x P and P x R);
//   - every three-column key with one component from P (thorough: R) at each of the three
//     positions and the other two positions filled with every pair of the six fillers F
//     (int<-string, text<-string, uuid<-string, blob<-[]byte, inet<-string, bigint<-int64).
func suiteRoutingRepresentations(check func(sel []atom)) {
	R := repAtoms()
	byRep := map[string]int{}
	last := map[string]int{}
	for i, a := range R {
		byRep[repOf[a.name]]++
		last[repOf[a.name]] = i
		check([]atom{a})
	}
	var P []atom
	for i, a := range R {
		if last[repOf[a.name]] == i {
			P = append(P, a)
		}
	}
	for _, a := range P {
		for _, b := range P {
			check([]atom{a, b})
		}
	}
	varied := P
	if r.Thorough() {
		varied = R
		for i, a := range R {
			if last[repOf[a.name]] == i {
				continue // a is in P: done above
			}
			for _, b := range P {
				check([]atom{a, b})
				check([]atom{b, a})
			}
		}
	}
	var F []atom
	want := map[string]bool{"int<-string": true, "text<-string": true, "uuid<-string": true, "blob<-[]uint8": true, "inet<-string": true, "bigint<-int64": true}
	for _, a := range P {
		if want[repOf[a.name]] {
			F = append(F, a)
			delete(want, repOf[a.name])
		}
	}
	if len(want) != 0 {
		r.Infra("suite 4c: filler bindings missing: %v", want)
	}
	for pos := 0; pos < 3; pos++ {
		for _, a := range varied {
			for _, f1 := range F {
				for _, f2 := range F {
					sel := make([]atom, 0, 3)
					sel = append(sel, f1, f2)
					sel = append(sel[:pos], append([]atom{a}, sel[pos:]...)...)
					check(sel)
				}
			}
		}
	}
	r.Extra("representation_atoms", len(R))
	r.Extra("representation_distinct_bindings", len(P))
	r.Extra("representation_bindings", byRep)
	r.Sample(map[string]interface{}{"suite": "4c", "binding": R[len(R)/2].name, "encoded": hex.EncodeToString(R[len(R)/2].enc)})
}
