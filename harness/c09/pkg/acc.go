//go:build verif

package gocql

import (
	"github.com/gocql/gocql/internal/lru"
)

// In-package accessors for check C09 (no logic of their own).

// VerifC09Partitioner wraps the partitioner newTokenRing selects for a cluster-reported name.
type VerifC09Partitioner struct{ p partitioner }

func VerifC09NewPartitioner(clusterName string) (*VerifC09Partitioner, error) {
	tr, err := newTokenRing(clusterName, nil)
	if err != nil {
		return nil, err
	}
	return &VerifC09Partitioner{tr.partitioner}, nil
}

func (v *VerifC09Partitioner) Name() string              { return v.p.Name() }
func (v *VerifC09Partitioner) Hash(key []byte) string    { return v.p.Hash(key).String() }
func (v *VerifC09Partitioner) Parse(s string) string     { return v.p.ParseString(s).String() }
func (v *VerifC09Partitioner) HashLess(a, b []byte) bool { return v.p.Hash(a).Less(v.p.Hash(b)) }
func (v *VerifC09Partitioner) ParseLess(a, b string) bool {
	return v.p.ParseString(a).Less(v.p.ParseString(b))
}
func (v *VerifC09Partitioner) HashLessParsed(key []byte, s string) bool {
	return v.p.Hash(key).Less(v.p.ParseString(s))
}
func (v *VerifC09Partitioner) ParsedLessHash(s string, key []byte) bool {
	return v.p.ParseString(s).Less(v.p.Hash(key))
}

// VerifC09CreateRoutingKey calls createRoutingKey with the given routing-key info.
func VerifC09CreateRoutingKey(indexes []int, types []TypeInfo, values []interface{}) ([]byte, error) {
	return createRoutingKey(&routingKeyInfo{indexes: indexes, types: types}, values)
}

// VerifC09Session is a Session that is never connected; its routing-key-info cache
// is seeded so that Query.GetRoutingKey / Batch.GetRoutingKey run their real code
// (cache lookup, createRoutingKey) without a node.
type VerifC09Session struct{ s *Session }

func VerifC09NewSession() *VerifC09Session {
	s := &Session{}
	s.routingKeyInfoCache.lru = lru.New(1 << 16)
	return &VerifC09Session{s}
}

// Seed stores routing-key info for stmt the way Session.routingKeyInfo caches it.
func (v *VerifC09Session) Seed(stmt string, indexes []int, types []TypeInfo, keyspace, table string) {
	e := new(inflightCachedEntry)
	e.value = &routingKeyInfo{indexes: indexes, types: types, keyspace: keyspace, table: table}
	v.s.routingKeyInfoCache.mu.Lock()
	v.s.routingKeyInfoCache.lru.Add(stmt, e)
	v.s.routingKeyInfoCache.mu.Unlock()
}

// QueryRoutingKey is (*Query).GetRoutingKey() on a query bound to values; it also
// returns the keyspace and table the query reports afterwards.
func (v *VerifC09Session) QueryRoutingKey(stmt string, values []interface{}) ([]byte, error, string, string) {
	q := &Query{session: v.s, stmt: stmt, values: values, routingInfo: &queryRoutingInfo{}}
	k, err := q.GetRoutingKey()
	return k, err, q.Keyspace(), q.Table()
}

// BatchRoutingKey is (*Batch).GetRoutingKey() for a batch whose first entry is stmt/values.
func (v *VerifC09Session) BatchRoutingKey(stmt string, values []interface{}) ([]byte, error) {
	b := &Batch{session: v.s, routingInfo: &queryRoutingInfo{}}
	b.Entries = append(b.Entries, BatchEntry{Stmt: stmt, Args: values}, BatchEntry{Stmt: "other", Args: nil})
	return b.GetRoutingKey()
}

// NewQuery is Session.Query on the seeded session: a pooled *Query the harness then drives
// through its public methods (Bind, RoutingKey, WithContext, GetRoutingKey, Release).
func (v *VerifC09Session) NewQuery(stmt string, values []interface{}) *Query {
	return v.s.Query(stmt, values...)
}

// NewBatch is Session.NewBatch on the seeded session (driven through Batch.Query, Batch.Entries,
// Batch.GetRoutingKey).
func (v *VerifC09Session) NewBatch() *Batch { return v.s.NewBatch(LoggedBatch) }
