//go:build verif

package murmur

// VerifGetBlock exposes whichever getBlock variant is compiled (accessor only).
func VerifGetBlock(data []byte, n int) (int64, int64) { return getBlock(data, n) }
