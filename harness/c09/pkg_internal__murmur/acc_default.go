//go:build verif && !appengine && !s390x

package murmur

// VerifVariant names the getBlock implementation compiled into this binary.
const VerifVariant = "unsafe"
