// C14: prepared statements are prepared once, failures are not cached, lost ids are re-prepared.
//
// A real Session (instrumented gocql, no control connection) over one or two
// scripted nodes. 2-3 executor threads run 1-2 operations each (prepared queries,
// batches with prepared entries, operations with a wrong number of bound values).
// The nodes keep a table id -> statement (+ generation), may fail a PREPARE
// (ERROR frame / no reply) and may "forget" an id (UNPREPARED on EXECUTE/BATCH).
// Everything is decided from the node logs and from what the callers got.
package main

import (
	"encoding/binary"
	"errors"
	"fmt"
	"os"
	"sort"
	"strconv"
	"strings"
	"time"
	"unsafe"

	"github.com/gocql/gocql"

	"verif/engine/mcreport"
	"verif/engine/refcql/frame"
	"verif/engine/vnode"
	vs "verif/engine/vsched"
	"verif/engine/vsched/vatomic"
	context "verif/engine/vsched/vcontext"
)

// ---------------------------------------------------------------- statements

type stmtDef struct {
	tag   string
	text  string
	binds string // one letter per '?': 'i' int, 't' text
	names []string
	res   byte // 0: void; 'i' / 't': one result column of that type
	rcol  string
}

var stmtList = []*stmtDef{
	{tag: "A", text: "SELECT v FROM ks.t WHERE k = ?", binds: "i", names: []string{"k"}, res: 't', rcol: "v"},
	{tag: "B", text: "SELECT k FROM ks.t WHERE v = ?", binds: "t", names: []string{"v"}, res: 'i', rcol: "k"},
	{tag: "C", text: "SELECT v FROM ks.t WHERE k = ? AND c = ?", binds: "it", names: []string{"k", "c"}, res: 't', rcol: "v"},
	{tag: "I", text: "INSERT INTO ks.t (k, v) VALUES (?, ?)", binds: "it", names: []string{"k", "v"}},
	{tag: "U", text: "UPDATE ks.t SET v = ? WHERE k = ?", binds: "ti", names: []string{"v", "k"}},
}

// Pairs of DISTINCT statements whose texts are "almost equal": the variant differs from the base text only in the
// white space inside a string literal / a quoted identifier or in letter case inside a literal / a quoted identifier, i.e.
// statements that MEAN something different. A server identifies a prepared statement by its
// exact text, so the node issues different ids for the two and the driver has to keep them apart.
const (
	simSelect = `SELECT "My Col" FROM ks.t WHERE k = ? AND c = 'a b'`
	simInsert = `INSERT INTO ks.t (k, "My Col") VALUES (?, 'a b')`
)

var simKinds = []struct {
	kind string
	f    func(base string) string
}{
	{"lit-2sp", func(b string) string { return strings.Replace(b, "'a b'", "'a  b'", 1) }},
	{"lit-tab", func(b string) string { return strings.Replace(b, "'a b'", "'a\tb'", 1) }},
	{"lit-nl", func(b string) string { return strings.Replace(b, "'a b'", "'a\nb'", 1) }},
	{"qid-2sp", func(b string) string { return strings.Replace(b, `"My Col"`, `"My  Col"`, 1) }},
	{"lit-case", func(b string) string { return strings.Replace(b, "'a b'", "'A b'", 1) }},
	{"qid-case", func(b string) string { return strings.Replace(b, `"My Col"`, `"my col"`, 1) }},
	// (variants that mean the same to a CQL parser - keyword case, leading/trailing blank, trailing semicolon - are left
	// out on purpose: a driver that shared one cache entry between them would send an id "of the same statement")
}

func init() {
	stmtList = append(stmtList,
		&stmtDef{tag: "S", text: simSelect, binds: "i", names: []string{"k"}, res: 't', rcol: "My Col"},
		&stmtDef{tag: "J", text: simInsert, binds: "i", names: []string{"k"}})
	for _, k := range simKinds {
		stmtList = append(stmtList,
			&stmtDef{tag: "S~" + k.kind, text: k.f(simSelect), binds: "i", names: []string{"k"}, res: 't', rcol: "My Col"},
			&stmtDef{tag: "J~" + k.kind, text: k.f(simInsert), binds: "i", names: []string{"k"}})
	}
	seen := map[string]string{}
	for _, d := range stmtList {
		if o, dup := seen[d.text]; dup {
			panic("c14: statements " + o + " and " + d.tag + " have the same text")
		}
		seen[d.text] = d.tag
	}
}

func stmtByTag(tag string) *stmtDef {
	for _, d := range stmtList {
		if d.tag == tag {
			return d
		}
	}
	panic("c14: unknown statement tag " + tag)
}

func stmtByText(text string) *stmtDef {
	for _, d := range stmtList {
		if d.text == text {
			return d
		}
	}
	return nil
}

func leaf(k byte) *frame.Type {
	if k == 'i' {
		return frame.Leaf(frame.TInt)
	}
	return frame.Leaf(frame.TVarchar)
}

// ---------------------------------------------------------------- operations

// opSpec is one caller operation. Query: entries has one tag. Batch: one tag per entry.
// arity[i] >= 0 overrides the number of values bound to entry i (wrong arity); -1: correct.
type opSpec struct {
	batch   bool
	entries []string
	arity   []int
}

func q(tag string) opSpec         { return opSpec{entries: []string{tag}, arity: []int{-1}} }
func qN(tag string, n int) opSpec { return opSpec{entries: []string{tag}, arity: []int{n}} }
func batch(tags ...string) opSpec {
	o := opSpec{batch: true, entries: tags}
	for range tags {
		o.arity = append(o.arity, -1)
	}
	return o
}
func batchN(tag string, n int, more ...string) opSpec {
	o := batch(append([]string{tag}, more...)...)
	o.arity[0] = n
	return o
}

func (o opSpec) wrongArity() bool {
	for i, a := range o.arity {
		if a >= 0 && a != len(stmtByTag(o.entries[i]).binds) {
			return true
		}
	}
	return false
}

func (o opSpec) String() string {
	var p []string
	for i, t := range o.entries {
		if o.arity[i] >= 0 {
			p = append(p, fmt.Sprintf("%s/%dvals", t, o.arity[i]))
		} else {
			p = append(p, t)
		}
	}
	if o.batch {
		return "batch[" + strings.Join(p, ",") + "]"
	}
	return p[0]
}

// Every bound value carries the number 100*thread + 10*opIndex + position, as an
// int (int column) or as the text "x<number>" (text column): the node can tell which
// operation an EXECUTE/BATCH entry belongs to from its values alone.
func valueFor(kind byte, n int) interface{} {
	if kind == 'i' {
		return n
	}
	return "x" + strconv.Itoa(n)
}

type opInfo struct {
	th, oi int
	spec   opSpec
	key    int
	start  int // seq stamps
	end    int
	err    error
	got    string // what Scan produced ("" for void / error)
	rows   int
	// context scenarios: every operation has its OWN context; only the victim's (the first operation of a freely chosen thread) is ever ended
	ctx      context.Context
	cancel   context.CancelFunc
	ctxEnded bool // a canceller thread cancels it / it carries a deadline
}

func (o *opInfo) name() string { return fmt.Sprintf("t%d.op%d(%s)", o.th, o.oi, o.spec) }

// values returns the Go values bound for entry e and the numbers they carry.
func (o *opInfo) values(e int) ([]interface{}, []int) {
	def := stmtByTag(o.spec.entries[e])
	pos := 0
	for i := 0; i < e; i++ {
		pos += 3
	}
	n := len(def.binds)
	if o.spec.arity[e] >= 0 {
		n = o.spec.arity[e]
	}
	var vals []interface{}
	var ns []int
	for i := 0; i < n; i++ {
		kind := byte('i')
		if i < len(def.binds) {
			kind = def.binds[i]
		}
		num := o.key*10 + pos + i
		vals = append(vals, valueFor(kind, num))
		ns = append(ns, num)
	}
	return vals, ns
}

// ---------------------------------------------------------------- world (node side)

type prepRec struct {
	id        string
	def       *stmtDef
	host      string
	gen       int
	forgotten bool
}

type prepLog struct {
	seq     int
	host    string
	def     *stmtDef
	outcome string // ok, error, never
	late    bool
	msg     string
	id      string
}

type execEntry struct {
	id  string
	rec *prepRec // nil: id unknown to this host
	ns  []int
	op  int // operation key derived from the values (-1 unknown)
}

type execLog struct {
	seq     int
	host    string
	batch   bool
	entries []execEntry
	outcome string // ok, unprepared, invalid
	unprep  string // id named by the UNPREPARED answer
}

type nodeState struct {
	ip   string
	tag  string
	byID map[string]*prepRec
	gen  map[string]int
}

type world struct {
	cfg      *c14cfg
	obj      byte
	seq      int
	sess     *gocql.Session
	nodes    map[string]*nodeState
	prepares []*prepLog
	execs    []*execLog
	plain    []string
	ops      map[int]*opInfo
	told     map[int]map[string]bool // operation -> ids it was told are unknown
	nTold    map[string]int          // "<operation>|<id>" -> how many times that operation (-1: unknown) was answered UNPREPARED(id)
	maxLen   int
	cancelAt int     // seq stamp of the canceller's cancel() (0: not yet / none)
	victim   *opInfo // context scenarios: the operation whose context ends (first operation of a freely chosen executor)
	phase    int     // 1: a PREPARE has reached a node; 2: an EXECUTE of the victim operation has reached a node
	gate     int     // phase the canceller waits for (free choice)
	finished int     // executor threads that have returned
}

// tell records that the operations whose values are in el were answered UNPREPARED(id). It returns how many times
// (including this one) the same operation has been given that answer for that id.
func (w *world) tell(el *execLog, id string) int {
	el.outcome, el.unprep = "unprepared", id
	most := 0
	seen := map[int]bool{}
	for _, en := range el.entries {
		if en.op >= 0 {
			if w.told[en.op] == nil {
				w.told[en.op] = map[string]bool{}
			}
			w.told[en.op][id] = true
		}
		if !seen[en.op] {
			seen[en.op] = true
			k := fmt.Sprintf("%d|%s", en.op, id)
			w.nTold[k]++
			if w.nTold[k] > most {
				most = w.nTold[k]
			}
		}
	}
	return most
}

// unknownID is the node's answer to a request with an id it does not know (never issued here / forgotten): UNPREPARED(id).
// An operation that gets this answer for the same id a second time has already been flagged (c14:id-of-another-host,
// c14:id-never-issued on the first, c14:forgotten-id-sent-again on the second request); from the fourth time on the node
// answers with a plain error instead, which ends the driver's resend loop: a livelocking driver is then reported from
// short executions instead of executions that run to the step limit (60 000 steps, gigabytes of search stack per shard).
func (w *world) unknownID(el *execLog, id string) vnode.Reply {
	if w.tell(el, id) > 3 {
		el.outcome = "invalid"
		return vnode.Reply{Msg: &frame.Error{Code: 0x2200, Message: "harness: the same unknown prepared id was sent again and again"}}
	}
	return unprepared(id)
}

func (w *world) touch()    { vs.Touch(unsafe.Pointer(&w.obj), true) }
func (w *world) next() int { w.touch(); w.seq++; return w.seq }

func (w *world) checkLRU(where string) {
	if w.sess == nil {
		return
	}
	n := gocql.VerifPreparedLen(w.sess)
	if n > w.maxLen {
		w.maxLen = n
	}
	if w.cfg.max > 0 && n > w.cfg.max {
		vs.Failf("c14:cache-exceeds-MaxPreparedStmts", "prepared-statement cache holds %d entries, MaxPreparedStmts=%d (%s)", n, w.cfg.max, where)
	}
}

// decodeValues checks the bound values of one EXECUTE / BATCH entry against the
// bind metadata of the statement the id was issued for and returns the numbers they carry.
func (w *world) decodeValues(def *stmtDef, vals []frame.Value, where string) ([]int, bool) {
	// which operation is this? (first decodable number)
	ok := true
	if len(vals) != len(def.binds) {
		vs.Failf("c14:wrong-number-of-values-sent", "%s: %d values sent for statement %s (%q) which has %d bind markers", where, len(vals), def.tag, def.text, len(def.binds))
		ok = false
	}
	var ns []int
	for i, v := range vals {
		kind := byte(0)
		if i < len(def.binds) {
			kind = def.binds[i]
		}
		if v.Kind != frame.ValNormal {
			vs.Failf("c14:value-not-encoded-per-bind-metadata", "%s: value %d of statement %s is %s, a normal value was bound", where, i, def.tag, v.Kind)
			ok = false
			ns = append(ns, -1)
			continue
		}
		n := -1
		switch {
		case len(v.Bytes) == 4 && (kind == 'i' || kind == 0):
			n = int(int32(binary.BigEndian.Uint32(v.Bytes)))
		case len(v.Bytes) > 1 && v.Bytes[0] == 'x' && (kind == 't' || kind == 0):
			if k, err := strconv.Atoi(string(v.Bytes[1:])); err == nil {
				n = k
			}
		}
		if n < 0 && kind != 0 {
			want := "int (4 bytes big-endian)"
			if kind == 't' {
				want = "text"
			}
			vs.Failf("c14:value-not-encoded-per-bind-metadata", "%s: value %d of statement %s should be %s, got bytes % x", where, i, def.tag, want, v.Bytes)
			ok = false
		}
		ns = append(ns, n)
	}
	return ns, ok
}

func opOf(ns []int) int {
	for _, n := range ns {
		if n >= 0 {
			return n / 10
		}
	}
	return -1
}

// checkEntry validates one prepared id + values as received by node ns.
func (w *world) checkEntry(ns *nodeState, id []byte, vals []frame.Value, entryIdx int, where string) (execEntry, bool) {
	e := execEntry{id: string(id), op: -1}
	pr := ns.byID[string(id)]
	if pr == nil {
		// issued by another host? (ids embed the issuing host)
		for _, other := range w.nodes {
			if r := other.byID[string(id)]; r != nil {
				vs.Failf("c14:id-of-another-host", "%s: prepared id %q was issued by host %s for statement %s, not by %s", where, id, r.host, r.def.tag, ns.ip)
				return e, false
			}
		}
		vs.Failf("c14:id-never-issued", "%s: prepared id %q was never returned by any PREPARE", where, id)
		return e, false
	}
	e.rec = pr
	nums, ok := w.decodeValues(pr.def, vals, where)
	e.ns = nums
	e.op = opOf(nums)
	if op := w.ops[e.op]; op != nil && w.told[e.op][e.id] {
		// (flagged when it happens: a driver that keeps re-sending the id never returns to the caller)
		vs.Failf("c14:forgotten-id-sent-again", "%s: %s was answered UNPREPARED for id %q and sent the same id again", where, op.name(), e.id)
	}
	if op := w.ops[e.op]; op != nil {
		// the operation is known from its values: the id must belong to the statement that operation executes
		want := ""
		for i, t := range op.spec.entries {
			lo := op.key*10 + 3*i
			if len(nums) > 0 && nums[0] >= lo && nums[0] < lo+3 {
				want = t
			}
		}
		if want != "" && want != pr.def.tag {
			vs.Failf("c14:id-of-another-statement", "%s: %s sent statement %s's values with id %q, which %s issued for statement %s", where, op.name(), want, id, ns.ip, pr.def.tag)
			ok = false
		}
	}
	return e, ok
}

func unprepared(id string) vnode.Reply {
	return vnode.Reply{Msg: &frame.Error{Code: 0x2500, Message: "Prepared query with ID " + id + " not found", StatementID: []byte(id)}}
}

// stale: the answer to a request that carried an id forgotten EARLIER may be slow (free choice when the
// scenario asks for it): it then reaches the driver after the other executors have re-prepared.
func (w *world) stale(r vnode.Reply) vnode.Reply {
	if w.cfg.lateStale && vs.Choose(2, vs.Free) == 1 {
		r.Delay = 30 * time.Millisecond
	}
	return r
}

func (w *world) handler(ip string, idx int) vnode.Handler {
	ns := &nodeState{ip: ip, tag: fmt.Sprintf("h%d", idx), byID: map[string]*prepRec{}, gen: map[string]int{}}
	w.nodes[ip] = ns
	return vnode.Basic(func(n *vnode.Node, sc *vnode.ServerConn, rec *vnode.ReqRec) vnode.Reply {
		w.touch()
		switch m := rec.Req.Msg.(type) {
		case *frame.Query:
			if strings.HasPrefix(m.Statement, "USE ") {
				return vnode.Reply{Msg: frame.ResultSetKeyspace{Keyspace: w.cfg.keyspace}}
			}
			w.plain = append(w.plain, m.Statement)
			return vnode.Reply{Msg: frame.ResultVoid{}}

		case *frame.Prepare:
			w.checkLRU("PREPARE at " + ip)
			def := stmtByText(m.Statement)
			if def == nil {
				vs.Failf("c14:prepare-of-unknown-text", "PREPARE of %q: no caller executes this text", m.Statement)
				return vnode.Reply{Msg: &frame.Error{Code: 0x2000, Message: "syntax error"}}
			}
			alt := 0
			if w.cfg.prepFaults > 0 {
				alt = vs.Choose(1+w.cfg.prepFaults, vs.CostF)
			}
			if w.phase < 1 {
				w.phase = 1
			}
			pl := &prepLog{seq: w.next(), host: ip, def: def}
			w.prepares = append(w.prepares, pl)
			switch alt {
			case 1:
				pl.outcome = "error"
				pl.msg = fmt.Sprintf("prep-fail#%d", pl.seq)
				return vnode.Reply{Msg: &frame.Error{Code: 0x2200, Message: pl.msg}}
			case 2:
				pl.outcome = "never"
				return vnode.Reply{Never: true}
			}
			ns.gen[def.tag]++
			pr := &prepRec{id: fmt.Sprintf("%s/%s/g%d", ns.tag, def.tag, ns.gen[def.tag]), def: def, host: ip, gen: ns.gen[def.tag]}
			ns.byID[pr.id] = pr
			pl.outcome, pl.id = "ok", pr.id
			p := &frame.ResultPrepared{ID: []byte(pr.id), Bind: frame.PreparedMetadata{GlobalTableSpec: true, GlobalKeyspace: "ks", GlobalTable: "t"}}
			for i := range def.binds {
				p.Bind.Columns = append(p.Bind.Columns, frame.ColumnSpec{Keyspace: "ks", Table: "t", Name: def.names[i], Type: leaf(def.binds[i])})
				if def.names[i] == "k" {
					p.Bind.PKIndexes = append(p.Bind.PKIndexes, uint16(i))
				}
			}
			if def.res == 0 {
				p.Result = frame.RowsMetadata{NoMetadata: true}
			} else {
				p.Result = frame.RowsMetadata{GlobalTableSpec: true, GlobalKeyspace: "ks", GlobalTable: "t", ColumnCount: 1,
					Columns: []frame.ColumnSpec{{Keyspace: "ks", Table: "t", Name: def.rcol, Type: leaf(def.res)}}}
			}
			if w.cfg.latePrep && vs.Choose(2, vs.Free) == 1 {
				pl.late = true
				return vnode.Reply{Msg: p, Delay: 30 * time.Millisecond}
			}
			return vnode.Reply{Msg: p}

		case *frame.Execute:
			w.checkLRU("EXECUTE at " + ip)
			el := &execLog{seq: w.next(), host: ip}
			w.execs = append(w.execs, el)
			where := fmt.Sprintf("EXECUTE #%d at %s", el.seq, ip)
			e, ok := w.checkEntry(ns, m.ID, m.Params.Values, 0, where)
			el.entries = []execEntry{e}
			if w.victim != nil && e.op == w.victim.key && w.phase < 2 {
				w.phase = 2
			}
			if e.rec == nil {
				return w.unknownID(el, e.id)
			}
			if !ok {
				el.outcome = "invalid"
				return vnode.Reply{Msg: &frame.Error{Code: 0x2200, Message: "Invalid amount of bind variables"}}
			}
			if e.rec.forgotten {
				return w.stale(w.unknownID(el, e.id))
			}
			if w.cfg.unprep && vs.Choose(2, vs.CostF) == 1 {
				e.rec.forgotten = true
				w.tell(el, e.id)
				return unprepared(e.id)
			}
			el.outcome = "ok"
			def := e.rec.def
			if def.res == 0 {
				return vnode.Reply{Msg: frame.ResultVoid{}}
			}
			rows := &frame.ResultRows{Meta: frame.RowsMetadata{GlobalTableSpec: true, GlobalKeyspace: "ks", GlobalTable: "t", ColumnCount: 1}}
			if m.Params.SkipMetadata {
				rows.Meta.NoMetadata = true
				rows.Meta.GlobalTableSpec = false
			} else {
				rows.Meta.Columns = []frame.ColumnSpec{{Keyspace: "ks", Table: "t", Name: def.rcol, Type: leaf(def.res)}}
			}
			if def.res == 'i' {
				rows.Rows = [][][]byte{{frame.IntCell(int32(e.ns[0]*10 + idx))}}
			} else {
				rows.Rows = [][][]byte{{frame.TextCell(fmt.Sprintf("%s:%v@%s", def.tag, e.ns, ns.tag))}}
			}
			return vnode.Reply{Msg: rows}

		case *frame.Batch:
			w.checkLRU("BATCH at " + ip)
			el := &execLog{seq: w.next(), host: ip, batch: true}
			w.execs = append(w.execs, el)
			where := fmt.Sprintf("BATCH #%d at %s", el.seq, ip)
			allOK := true
			for i, be := range m.Entries {
				if !be.Prepared {
					w.plain = append(w.plain, be.Statement)
					el.entries = append(el.entries, execEntry{op: -1})
					continue
				}
				e, ok := w.checkEntry(ns, be.ID, be.Values, i, fmt.Sprintf("%s entry %d", where, i))
				el.entries = append(el.entries, e)
				if e.rec == nil {
					return w.unknownID(el, e.id)
				}
				allOK = allOK && ok
			}
			if !allOK {
				el.outcome = "invalid"
				return vnode.Reply{Msg: &frame.Error{Code: 0x2200, Message: "Invalid amount of bind variables"}}
			}
			// ids the node no longer knows
			for _, e := range el.entries {
				if e.rec != nil && e.rec.forgotten {
					return w.stale(w.unknownID(el, e.id))
				}
			}
			if w.cfg.unprep {
				var cand []*prepRec
				for _, e := range el.entries {
					if e.rec != nil && (len(cand) == 0 || cand[len(cand)-1] != e.rec) && len(cand) < 2 {
						cand = append(cand, e.rec)
					}
				}
				if k := vs.Choose(1+len(cand), vs.CostF); k > 0 {
					cand[k-1].forgotten = true
					w.tell(el, cand[k-1].id)
					return unprepared(cand[k-1].id)
				}
			}
			el.outcome = "ok"
			return vnode.Reply{Msg: frame.ResultVoid{}}
		}
		return vnode.Reply{Msg: frame.ResultVoid{}}
	})
}

// ---------------------------------------------------------------- host selection by host id

// byIDPolicy is a round-robin HostSelectionPolicy (public extension point) that identifies hosts by their host id, so that
// two hosts which share an IP address and differ in their port are both offered. It has no scheduling points of its own
// (HostInfo.IsUp takes the host's lock, as in gocql's round robin); accesses are announced to the scheduler with vs.Touch.
type byIDPolicy struct {
	obj   byte
	hosts []*gocql.HostInfo // sorted by ip:port
	n     int
}

type pickedHost struct{ h *gocql.HostInfo }

func (p pickedHost) Info() *gocql.HostInfo { return p.h }
func (p pickedHost) Mark(error)            {}

func (p *byIDPolicy) touch() { vs.Touch(unsafe.Pointer(&p.obj), true) }

func (p *byIDPolicy) AddHost(h *gocql.HostInfo) {
	p.touch()
	for _, o := range p.hosts {
		if o.HostID() == h.HostID() {
			return
		}
	}
	l := append(append([]*gocql.HostInfo(nil), p.hosts...), h)
	sort.Slice(l, func(i, j int) bool { return gocql.VerifHostAddrPort(l[i]) < gocql.VerifHostAddrPort(l[j]) })
	p.hosts = l
}

func (p *byIDPolicy) RemoveHost(h *gocql.HostInfo) {
	p.touch()
	var l []*gocql.HostInfo
	for _, o := range p.hosts {
		if o.HostID() != h.HostID() {
			l = append(l, o)
		}
	}
	p.hosts = l
}

func (p *byIDPolicy) HostUp(h *gocql.HostInfo)                  { p.AddHost(h) }
func (p *byIDPolicy) HostDown(h *gocql.HostInfo)                { p.RemoveHost(h) }
func (p *byIDPolicy) SetPartitioner(string)                     {}
func (p *byIDPolicy) KeyspaceChanged(gocql.KeyspaceUpdateEvent) {}
func (p *byIDPolicy) Init(*gocql.Session)                       {}
func (p *byIDPolicy) IsLocal(*gocql.HostInfo) bool              { return true }

func (p *byIDPolicy) Pick(gocql.ExecutableQuery) gocql.NextHost {
	p.touch()
	hosts, shift, i := p.hosts, p.n, 0 // the list is replaced, never modified in place
	p.n++
	return func() gocql.SelectedHost {
		for i < len(hosts) {
			h := hosts[(shift+i)%len(hosts)]
			i++
			if h.IsUp() {
				return pickedHost{h}
			}
		}
		return nil
	}
}

// ---------------------------------------------------------------- scenario

type c14cfg struct {
	name       string
	hosts      int
	sameIP     bool // address layout of the hosts: false = one IP address per host, all on port 9042; true = ONE IP address, one port per host (address translation / NAT, local clusters)
	max        int  // MaxPreparedStmts; 0: the default (1000)
	threads    [][]opSpec
	prepFaults int    // 0: PREPARE always succeeds; 1: may be answered with an ERROR frame; 2: ... or never answered
	unprep     bool   // EXECUTE/BATCH may be answered UNPREPARED (the node forgets the id)
	ctxEnd     string // "": no contexts. "cancel": every operation runs under its own context and a canceller thread cancels the one of the victim (first operation of a freely chosen executor) at an arbitrary point; "deadline": that context has a 20ms deadline instead
	joinLate   bool   // cancel scenarios: the executors other than thread 1 start only once a PREPARE has reached a node (they can then only JOIN it)
	gates      int    // cancel scenarios: number of canceller gates to choose from (0: all three)
	latePrep   bool   // a successful PREPARE may be answered 30ms late (free choice): the window in which the winner's context ends
	lateStale  bool   // UNPREPARED answers for an id forgotten earlier may be delayed by 30ms (free choice)
	keyspace   string
	t          [2]int // {T quick, T thorough} of a scenario of its own; ignored inside a group
	grp        string // "": a scenario of its own; else the group (one explored scenario whose first, free, choice selects the variant)
	quick      bool   // grouped variants: explored in the quick tier too
}

func (c *c14cfg) distinctStatements() int {
	m := map[string]bool{}
	for _, th := range c.threads {
		for _, o := range th {
			for _, t := range o.entries {
				m[t] = true
			}
		}
	}
	return len(m)
}

func (c *c14cfg) body() {
	gocql.VerifResetGlobals()
	vatomic.Yield = false
	w := &world{cfg: c, nodes: map[string]*nodeState{}, ops: map[int]*opInfo{}, told: map[int]map[string]bool{}, nTold: map[string]int{}}
	cl := newCluster(true)
	var ips []string
	for i := 1; i <= c.hosts; i++ {
		if c.sameIP {
			// the hosts differ ONLY in their port; they are still different hosts (own host id, own prepared ids)
			addr := fmt.Sprintf("10.0.0.1:%d", 9041+i)
			ips = append(ips, addr)
			cl.addAt("10.0.0.1", 9041+i, w.handler(addr, i))
			continue
		}
		ip := fmt.Sprintf("10.0.0.%d", i)
		ips = append(ips, ip)
		cl.add(ip, w.handler(ip, i))
	}
	cfg := gocql.NewCluster(ips...)
	cfg.ProtoVersion = 4
	cfg.Timeout = 100 * time.Millisecond
	cfg.ConnectTimeout = 100 * time.Millisecond
	cfg.NumConns = 1
	cfg.ReconnectInterval = 0
	cfg.WriteCoalesceWaitTime = 0
	cfg.HostDialer = cl.dialer()
	cfg.Keyspace = c.keyspace
	if c.sameIP {
		// every host selection policy that ships with gocql keeps its host list by IP address (cowHostList / HostInfo.Equal,
		// hostpool by address string): of two hosts on one IP address it would only ever offer one. Sessions over such a
		// topology need a policy that tells hosts apart by host id; this is the minimal one (round robin, like the default).
		cfg.PoolConfig.HostSelectionPolicy = &byIDPolicy{}
	}
	if c.max > 0 {
		cfg.MaxPreparedStmts = c.max
	}
	// operations
	var all []*opInfo
	for ti, th := range c.threads {
		for oi, spec := range th {
			o := &opInfo{th: ti + 1, oi: oi, spec: spec, key: 10*(ti+1) + oi}
			w.ops[o.key] = o
			all = append(all, o)
		}
	}
	vs.Quiet(true)
	sess, err := gocql.VerifNewSession(*cfg, true)
	vs.Quiet(false)
	if err != nil {
		vs.Failf("harness:session", "NewSession failed in the quiet prefix: %v", err)
		return
	}
	w.sess = sess

	nWait := len(c.threads)
	done := make(chan int, len(c.threads)+1)
	late := false
	if c.ctxEnd != "" {
		// the victim: the first operation of ANY executor (free choice) - by default thread 1 wins the race to PREPARE and the
		// others wait on its PREPARE, so this covers the winner's and a waiter's context ending
		w.victim = w.ops[10*(1+vs.Choose(len(c.threads), vs.Free))]
		w.victim.ctxEnded = true
		late = c.joinLate
		for _, o := range all {
			if c.ctxEnd == "deadline" && o == w.victim {
				o.ctx, o.cancel = context.WithTimeout(context.Background(), 20*time.Millisecond)
			} else {
				o.ctx, o.cancel = context.WithCancel(context.Background())
			}
		}
	}
	for ti := range c.threads {
		ti := ti
		vs.GoNamed(fmt.Sprintf("exec%d", ti+1), func() {
			if late && ti > 0 {
				// arrives while a PREPARE is in flight (or after an executor has returned without one)
				w.touch()
				vs.PointObj("join-late", func() bool { return w.phase >= 1 || w.finished > 0 }, unsafe.Pointer(&w.obj), false)
			}
			for oi := range c.threads[ti] {
				w.run(w.ops[10*(ti+1)+oi])
			}
			if c.ctxEnd != "" {
				w.touch()
				w.finished++
			}
			vs.Send(done, ti)
		})
	}
	if c.ctxEnd == "cancel" {
		victim := w.victim
		nWait++
		vs.GoNamed("canceller", func() {
			// where the cancel lands: as soon as the canceller is scheduled (0), once a PREPARE is at the node and
			// unanswered (1), or once the victim's own EXECUTE is at the node (2); schedule deviations move it further
			ng := 3
			if c.gates > 0 {
				ng = c.gates
			}
			w.gate = vs.Choose(ng, vs.Free)
			w.touch()
			vs.PointObj("canceller-gate", func() bool { return w.phase >= w.gate || w.finished == len(c.threads) }, unsafe.Pointer(&w.obj), false)
			w.cancelAt = w.next()
			victim.cancel()
			vs.Send(done, -1)
		})
	}
	for i := 0; i < nWait; i++ {
		vs.Recv[int](done)
	}
	vs.WaitQuiescent()
	w.checkLRU("quiescence")
	w.oracle(all)
	vs.Quiet(true)
	for _, o := range all {
		if o.cancel != nil {
			o.cancel()
		}
	}
	sess.Close()
	vs.Quiet(false)
}

// run executes one operation through the public API.
func (w *world) run(o *opInfo) {
	o.start = w.next()
	if o.spec.batch {
		b := w.sess.NewBatch(gocql.LoggedBatch)
		for e, tag := range o.spec.entries {
			vals, _ := o.values(e)
			b.Query(stmtByTag(tag).text, vals...)
		}
		if o.ctx != nil {
			b = b.WithContext(o.ctx)
		}
		o.err = w.sess.ExecuteBatch(b)
	} else {
		def := stmtByTag(o.spec.entries[0])
		vals, _ := o.values(0)
		qry := w.sess.Query(def.text, vals...)
		if o.ctx != nil {
			qry = qry.WithContext(o.ctx)
		}
		switch def.res {
		case 0:
			o.err = qry.Exec()
		case 'i':
			it := qry.Iter()
			var k int
			for it.Scan(&k) {
				o.rows++
				o.got = strconv.Itoa(k)
			}
			o.err = it.Close()
		default:
			it := qry.Iter()
			var s string
			for it.Scan(&s) {
				o.rows++
				o.got = s
			}
			o.err = it.Close()
		}
	}
	o.end = w.next()
}

// ---------------------------------------------------------------- oracle

func (w *world) describe(all []*opInfo) string {
	b := []string{"configuration " + w.cfg.name}
	for _, o := range all {
		b = append(b, fmt.Sprintf("[%d..%d] %s -> %s %q", o.start, o.end, o.name(), gocql.VerifErrClass(o.err), o.got))
	}
	for _, p := range w.prepares {
		late := ""
		if p.late {
			late = "(late)"
		}
		b = append(b, fmt.Sprintf("#%d PREPARE %s@%s=%s%s %s%s", p.seq, p.def.tag, p.host, p.outcome, late, p.id, p.msg))
	}
	if w.victim != nil && w.cancelAt == 0 {
		b = append(b, fmt.Sprintf("context of %s ends (%s, not cancelled yet)", w.victim.name(), w.cfg.ctxEnd))
	}
	if w.cancelAt > 0 {
		b = append(b, fmt.Sprintf("#%d cancel of %s's context (gate %d)", w.cancelAt, w.victim.name(), w.gate))
	}
	for _, e := range w.execs {
		kind := "EXECUTE"
		if e.batch {
			kind = "BATCH"
		}
		var ids []string
		for _, en := range e.entries {
			ids = append(ids, fmt.Sprintf("%s%v", en.id, en.ns))
		}
		b = append(b, fmt.Sprintf("#%d %s@%s %s=%s", e.seq, kind, e.host, strings.Join(ids, ","), e.outcome))
	}
	return strings.Join(b, "; ")
}

func (w *world) oracle(all []*opInfo) {
	c := w.cfg
	_, dDev, fDev := vs.Deviations()
	desc := func() string { return w.describe(all) }

	// requests of each operation, in arrival order (the values identify the operation)
	reqs := map[int][]*execLog{}
	for _, e := range w.execs {
		seen := map[int]bool{}
		for _, en := range e.entries {
			if en.op >= 0 && !seen[en.op] {
				seen[en.op] = true
				reqs[en.op] = append(reqs[en.op], e)
			}
		}
		if len(seen) > 1 {
			vs.Failf("c14:request-mixes-operations", "request #%d carries values of several operations: %s", e.seq, desc())
		}
	}

	// (1) one PREPARE per (host, statement) unless something was lost: every further PREPARE needs a
	// failed PREPARE, a forgotten id, or a possible eviction (more cache keys than MaxPreparedStmts).
	evictionPossible := c.max > 0 && c.hosts*c.distinctStatements() > c.max
	type hk struct{ host, tag string }
	nPrep, nLost, nForgot := map[hk]int{}, map[hk]int{}, map[hk]int{}
	for _, p := range w.prepares {
		k := hk{p.host, p.def.tag}
		nPrep[k]++
		if p.outcome != "ok" {
			nLost[k]++
		}
	}
	for _, ns := range w.nodes {
		for _, pr := range ns.byID {
			if pr.forgotten {
				nLost[hk{pr.host, pr.def.tag}]++
				nForgot[hk{pr.host, pr.def.tag}]++
			}
		}
	}
	if v := w.victim; v != nil {
		// a PREPARE abandoned because its INITIATOR's context ended may be followed by another one: the allowance covers the
		// PREPARE that FOLLOWS one the victim may have initiated. The victim can have initiated only a PREPARE that reached the
		// node after the victim's operation had started (the initiator may return before its PREPARE is on the wire), so the
		// allowance needs two PREPAREs of the victim's statement after that moment; a victim that started when a PREPARE had
		// already reached the node merely waited on it, and a single later PREPARE has no excuse.
		after := map[hk]int{}
		for _, p := range w.prepares {
			if p.def.tag == v.spec.entries[0] && v.start < p.seq {
				after[hk{p.host, p.def.tag}]++
			}
		}
		for k, n := range after {
			if n >= 2 {
				nLost[k]++
			}
		}
	}
	if !evictionPossible && dDev == 0 {
		// "all of them then execute with the id that PREPARE returned": as long as the node has not forgotten an id of this
		// (host, statement), every EXECUTE / BATCH entry of the statement carries ONE id - also when a caller's context ended
		// (a PREPARE that was abandoned with its initiator is used by nobody)
		ids := map[hk][]string{}
		for _, e := range w.execs {
			for _, en := range e.entries {
				if en.rec == nil {
					continue
				}
				k := hk{en.rec.host, en.rec.def.tag}
				if dup := false; nForgot[k] == 0 {
					for _, id := range ids[k] {
						dup = dup || id == en.id
					}
					if !dup {
						ids[k] = append(ids[k], en.id)
					}
				}
			}
		}
		for k, l := range ids {
			if len(l) > 1 {
				vs.Failf("c14:executions-with-ids-of-different-PREPAREs", "host %s received executions of statement %s with the ids %v of different PREPAREs although it forgot none of them and no eviction is possible: %s", k.host, k.tag, l, desc())
			}
		}
		for k, n := range nPrep {
			if n > 1+nLost[k] {
				key := "c14:statement-prepared-more-than-once"
				if nLost[k] > 0 {
					key = "c14:more-PREPAREs-than-losses-explain"
				}
				vs.Failf(key, "host %s received %d PREPAREs of statement %s; %d failed PREPAREs/forgotten ids, no eviction possible: %s", k.host, n, k.tag, nLost[k], desc())
			}
		}
	}

	// (2) per operation
	failedPrep := map[string]*prepLog{}
	neverFor := map[string]bool{}
	for _, p := range w.prepares {
		if p.outcome == "error" {
			failedPrep[p.msg] = p
		}
		if p.outcome == "never" {
			neverFor[p.def.tag] = true
		}
	}
	firstEnd := map[string]int{} // failure message -> first moment a caller had it in hand
	for _, o := range all {
		if o.err == nil {
			continue
		}
		for msg := range failedPrep {
			if strings.Contains(o.err.Error(), msg) && (firstEnd[msg] == 0 || o.end < firstEnd[msg]) {
				firstEnd[msg] = o.end
			}
		}
	}
	for _, o := range all {
		cls := gocql.VerifErrClass(o.err)
		rs := reqs[o.key]
		if o.spec.wrongArity() {
			// reported as an error, nothing sent (the node flags a sent request itself: c14:wrong-number-of-values-sent)
			if o.err == nil {
				vs.Failf("c14:wrong-arity-not-reported", "%s bound a wrong number of values and got no error: %s", o.name(), desc())
			}
			continue
		}
		if o.err == nil {
			// success: the last request of the operation was answered with a result, by a host that knew every id in it
			if len(rs) == 0 || rs[len(rs)-1].outcome != "ok" {
				vs.Failf("c14:success-without-executed-request", "%s returned no error but no node executed it: %s", o.name(), desc())
				continue
			}
			def := stmtByTag(o.spec.entries[0])
			if !o.spec.batch && def.res != 0 {
				_, ns := o.values(0)
				good := o.rows == 1
				if def.res == 'i' {
					k, _ := strconv.Atoi(o.got)
					good = good && k/10 == ns[0]
				} else {
					good = good && strings.HasPrefix(o.got, fmt.Sprintf("%s:%v@", def.tag, ns))
				}
				if !good {
					vs.Failf("c14:wrong-result", "%s got %d rows, last %q; expected the row computed from its own values %v: %s", o.name(), o.rows, o.got, ns, desc())
				}
			}
			continue
		}
		// an error must be explained by a fault: a failed PREPARE of one of its statements, or a timeout
		explained := false
		if cls == "ctx-canceled" || cls == "ctx-deadline" || errors.Is(o.err, context.Canceled) || errors.Is(o.err, context.DeadlineExceeded) {
			// only the operation whose own context ended may see a context error, and (cancel) only after the cancel() call
			own := o.ctxEnded && (c.ctxEnd == "deadline" || (w.cancelAt > 0 && w.cancelAt < o.end))
			if !own {
				vs.Failf("c14:foreign-context-error", "%s failed with %v although its own context was never cancelled and has no deadline: %s", o.name(), o.err, desc())
			}
			continue
		}
		for msg, p := range failedPrep {
			if !strings.Contains(o.err.Error(), msg) {
				continue
			}
			for _, t := range o.spec.entries {
				if t == p.def.tag {
					explained = true
				}
			}
			if !explained {
				vs.Failf("c14:failure-of-another-statement", "%s got the failure of the PREPARE of statement %s: %s", o.name(), p.def.tag, desc())
				explained = true
			}
			// not remembered: an execution that started after some caller already held this failure cannot see it
			if o.start > firstEnd[msg] {
				vs.Failf("c14:failed-prepare-remembered", "%s started at #%d, after a caller had already been given %s (#%d), and got the same failure: %s", o.name(), o.start, msg, firstEnd[msg], desc())
			}
		}
		if !explained && cls == "timeout" {
			for _, t := range o.spec.entries {
				if neverFor[t] {
					explained = true
				}
			}
			if dDev > 0 {
				explained = true
			}
		}
		if !explained {
			key := "c14:unexplained-error"
			if _, ok := o.err.(*gocql.RequestErrUnprepared); ok {
				key = "c14:unprepared-reached-caller"
			}
			vs.Failf(key, "%s failed with %v (%s) although no PREPARE of its statements failed (faults taken: %d, timer deviations: %d): %s", o.name(), o.err, cls, fDev, dDev, desc())
		}
	}

	// outcome signature
	var sig []string
	for _, o := range all {
		cls := gocql.VerifErrClass(o.err)
		if strings.HasPrefix(cls, "other:") {
			cls = "err"
		}
		sig = append(sig, fmt.Sprintf("%s=%s/%d", o.name(), cls, len(reqs[o.key])))
	}
	var ks []string
	for k, n := range nPrep {
		ks = append(ks, fmt.Sprintf("%s@%s:%d", k.tag, k.host[len(k.host)-1:], n))
	}
	sort.Strings(ks)
	vs.Observe("%s: %s prep[%s] lru=%d", c.name, strings.Join(sig, " "), strings.Join(ks, ","), w.maxLen)
}

func (c *c14cfg) build() *vs.Scenario {
	return &vs.Scenario{Name: c.name, Cfg: vs.Config{MaxSteps: 60000, Horizon: 900 * time.Millisecond, DelayBounded: true}, Body: c.body}
}

// group is one explored scenario whose first choice (free) selects one of several configurations.
type group struct {
	name     string
	variants []*c14cfg
}

func (g *group) build() *vs.Scenario {
	return &vs.Scenario{Name: g.name, Cfg: vs.Config{MaxSteps: 60000, Horizon: 900 * time.Millisecond, DelayBounded: true}, Body: func() {
		g.variants[vs.Choose(len(g.variants), vs.Free)].body()
	}}
}

func main() {
	T := func(ops ...opSpec) []opSpec { return ops }
	// t = {T quick, T thorough}. Scenarios with grp set are variants of ONE explored scenario named after the group (its first
	// choice, free, selects the variant): the thorough budget is shared equally between explored scenarios, and the T=3
	// scenarios need the larger share. Grouped variants without quick:true are explored in the thorough tier only.
	cfgs := []*c14cfg{
		// 1. the same statement from 2-3 threads at once on one host
		{name: "same-stmt-2-threads", hosts: 1, threads: [][]opSpec{T(q("A")), T(q("A"))}, prepFaults: 2, unprep: true, lateStale: true, t: [2]int{2, 3}},
		{name: "same-stmt-3-threads", hosts: 1, threads: [][]opSpec{T(q("A")), T(q("A")), T(q("A"))}, prepFaults: 2, unprep: true, lateStale: true, grp: "t2-one-host", quick: true},
		// 1b. a second execution after the first: the execution after a failed PREPARE prepares again
		{name: "same-stmt-2+1", hosts: 1, threads: [][]opSpec{T(q("A"), q("A")), T(q("A"))}, prepFaults: 2, unprep: true, t: [2]int{2, 3}},
		{name: "same-stmt-2x2", hosts: 1, threads: [][]opSpec{T(q("A"), q("A")), T(q("A"), q("A"))}, prepFaults: 2, unprep: true, grp: "t2-one-host"},
		// 2. two different statements with different bind and result metadata
		{name: "two-stmts-2+1", hosts: 1, threads: [][]opSpec{T(q("A"), q("B")), T(q("B"))}, prepFaults: 1, unprep: true, grp: "t2-one-host", quick: true},
		{name: "two-stmts-2x2", hosts: 1, threads: [][]opSpec{T(q("A"), q("B")), T(q("B"), q("A"))}, prepFaults: 1, unprep: true, grp: "t2-one-host"},
		// 3. evictions interleaved with in-flight PREPAREs
		{name: "lru1-two-stmts-2+1", hosts: 1, max: 1, threads: [][]opSpec{T(q("A")), T(q("B"), q("A"))}, prepFaults: 1, unprep: true, t: [2]int{2, 3}},
		{name: "lru1-two-stmts-2x2", hosts: 1, max: 1, threads: [][]opSpec{T(q("A"), q("A")), T(q("B"), q("B"))}, prepFaults: 1, unprep: true, grp: "t2-eviction"},
		{name: "lru1-three-threads", hosts: 1, max: 1, threads: [][]opSpec{T(q("A")), T(q("B")), T(q("A"))}, prepFaults: 1, unprep: true, grp: "t2-eviction"},
		{name: "lru2-three-stmts", hosts: 1, max: 2, threads: [][]opSpec{T(q("A")), T(q("B")), T(q("C"))}, prepFaults: 1, unprep: true, grp: "t2-eviction", quick: true},
		{name: "lru2-three-stmts-4-ops", hosts: 1, max: 2, threads: [][]opSpec{T(q("A")), T(q("B"), q("A")), T(q("C"))}, prepFaults: 1, unprep: true, grp: "t2-eviction"},
		// 4. two hosts share the cache; ids are host specific
		{name: "two-hosts-2-threads", hosts: 2, threads: [][]opSpec{T(q("A")), T(q("A"))}, prepFaults: 1, unprep: true, lateStale: true, t: [2]int{2, 3}},
		{name: "two-hosts-2+1", hosts: 2, threads: [][]opSpec{T(q("A"), q("A")), T(q("A"))}, prepFaults: 1, unprep: true, grp: "t2-two-hosts", quick: true},
		{name: "two-hosts-2x2", hosts: 2, threads: [][]opSpec{T(q("A"), q("A")), T(q("A"), q("A"))}, prepFaults: 1, unprep: true, grp: "t2-two-hosts"},
		{name: "two-hosts-3-threads-lru1", hosts: 2, max: 1, threads: [][]opSpec{T(q("A")), T(q("A")), T(q("A"))}, prepFaults: 1, unprep: true, grp: "t2-two-hosts", quick: true},
		// 4b. the same four configurations with the other ADDRESS LAYOUT: the two hosts share one IP address and differ only in
		// their port (10.0.0.1:9042 / 10.0.0.1:9043; address translation / NAT, local clusters). They are still two hosts with
		// their own host ids and their own prepared ids.
		{name: "two-hosts-2-threads-same-ip", hosts: 2, sameIP: true, threads: [][]opSpec{T(q("A")), T(q("A"))}, prepFaults: 1, unprep: true, lateStale: true, grp: "t12-similar+same-ip", quick: true},
		{name: "two-hosts-2+1-same-ip", hosts: 2, sameIP: true, threads: [][]opSpec{T(q("A"), q("A")), T(q("A"))}, prepFaults: 1, unprep: true, grp: "t12-similar+same-ip", quick: true},
		{name: "two-hosts-2x2-same-ip", hosts: 2, sameIP: true, threads: [][]opSpec{T(q("A"), q("A")), T(q("A"), q("A"))}, prepFaults: 1, unprep: true, grp: "t12-similar+same-ip"},
		{name: "two-hosts-3-threads-lru1-same-ip", hosts: 2, sameIP: true, max: 1, threads: [][]opSpec{T(q("A")), T(q("A")), T(q("A"))}, prepFaults: 1, unprep: true, grp: "t12-similar+same-ip", quick: true},
		// 5. batches with prepared entries
		{name: "batch-and-query", hosts: 1, threads: [][]opSpec{T(batch("I", "U")), T(q("I"), batch("U", "I"))}, prepFaults: 1, unprep: true, lateStale: true, grp: "t2-batch-arity", quick: true},
		{name: "batch-lru1", hosts: 1, max: 1, threads: [][]opSpec{T(batch("I", "U")), T(batch("U", "U"))}, prepFaults: 1, unprep: true, t: [2]int{2, 3}},
		// 7. every executor has its own context; the context of the first operation of ANY one executor (free choice: the one that
		// by default wins the race to PREPARE, or one that waits on the winner's PREPARE) ends (cancelled by a canceller thread at an
		// arbitrary point / 20ms deadline) while the shared PREPARE may be answered 30ms late; in the 2+1 / 1+2 / deadline
		// configurations the victim's thread or another one executes the statement AGAIN while that PREPARE is still unanswered
		{name: "cancel-any-2-threads", hosts: 1, threads: [][]opSpec{T(q("A")), T(q("A"))}, prepFaults: 1, unprep: true, ctxEnd: "cancel", t: [2]int{2, 3}},
		{name: "cancel-any-3-threads", hosts: 1, threads: [][]opSpec{T(q("A")), T(q("A")), T(q("A"))}, ctxEnd: "cancel", grp: "t12-context", quick: true},
		{name: "cancel-any-2+1", hosts: 1, threads: [][]opSpec{T(q("A"), q("A")), T(q("A"))}, ctxEnd: "cancel", gates: 2, latePrep: true, grp: "t12-context-rejoin", quick: true},
		{name: "cancel-late-joiner-1+2", hosts: 1, threads: [][]opSpec{T(q("A")), T(q("A"), q("A"))}, ctxEnd: "cancel", gates: 2, latePrep: true, joinLate: true, grp: "t12-context-rejoin", quick: true},
		{name: "deadline-any-2+1", hosts: 1, threads: [][]opSpec{T(q("A")), T(q("A"), q("A"))}, ctxEnd: "deadline", latePrep: true, grp: "t12-context", quick: true},
		// 6. wrong number of bound values
		{name: "wrong-arity-2-threads", hosts: 1, threads: [][]opSpec{T(qN("A", 2)), T(q("A"))}, prepFaults: 1, unprep: true, t: [2]int{2, 3}},
		{name: "wrong-arity-batch", hosts: 1, keyspace: "ks", threads: [][]opSpec{T(q("I"), qN("I", 0)), T(batchN("I", 1, "U"))}, prepFaults: 1, unprep: true, grp: "t2-batch-arity", quick: true},
		{name: "wrong-arity-3-threads", hosts: 1, keyspace: "ks", threads: [][]opSpec{T(qN("A", 2), q("A")), T(q("A"), qN("A", 0)), T(batchN("I", 1, "U"))}, prepFaults: 1, unprep: true, grp: "t2-batch-arity"},
	}
	// 8. pairs of distinct statements with almost equal texts (simKinds), as queries (SELECT) and as entries of one batch (INSERT)
	for _, k := range simKinds {
		cfgs = append(cfgs,
			&c14cfg{name: "similar-" + k.kind, hosts: 1, threads: [][]opSpec{T(q("S")), T(q("S~"+k.kind), q("S"))}, unprep: true, grp: "t12-context", quick: true},
			&c14cfg{name: "similar-batch-" + k.kind, hosts: 1, threads: [][]opSpec{T(batch("J", "J~"+k.kind)), T(q("J~" + k.kind))}, unprep: true, grp: "t12-similar+same-ip", quick: true})
	}
	tier := os.Getenv("VERIF_TIER")
	for i, a := range os.Args {
		if (a == "-tier" || a == "--tier") && i+1 < len(os.Args) {
			tier = os.Args[i+1]
		} else if strings.HasPrefix(a, "-tier=") || strings.HasPrefix(a, "--tier=") {
			tier = a[strings.Index(a, "=")+1:]
		}
	}
	os.Setenv("VERIF_TIER", tier) // shard children see the same tier
	var defs []mcreport.Def
	b := func(t int) vs.Bounds { return vs.Bounds{P: t, D: t, F: t, T: t} }
	groups := map[string]*group{}
	for _, c := range cfgs {
		c := c
		if c.grp == "" {
			defs = append(defs, mcreport.Def{Name: c.name, Build: c.build, Quick: b(c.t[0]), Thorough: b(c.t[1])})
			continue
		}
		g := groups[c.grp]
		if g == nil {
			g = &group{name: c.grp}
			groups[c.grp] = g
			qt := 2
			if strings.HasPrefix(c.grp, "t12") {
				qt = 1
			}
			defs = append(defs, mcreport.Def{Name: g.name, Build: g.build, Quick: b(qt), Thorough: b(2)})
		}
		if v := os.Getenv("C14_VARIANT"); v != "" && !strings.Contains(c.name, v) {
			continue // development aid: explore only the matching variants of a group
		}
		if tier == "thorough" || c.quick {
			g.variants = append(g.variants, c)
		}
	}
	mcreport.Main("C14", "model_checking",
		"delay-bounded exhaustive exploration of 2-3 executor threads (1-2 prepared queries / batches each) on a real Session over 1-2 scripted nodes: every schedule, timer and fault placement with at most T deviations from the default schedule (P: run another thread, D: fire a request timeout early, F: the node fails a PREPARE with an ERROR frame / never answers it / forgets a prepared id and answers UNPREPARED); scenarios vary the statements (5 statements with different bind and result metadata; 6 kinds of PAIRS of distinct statements with almost equal texts - white space inside a string literal / quoted identifier (two blanks, tab, newline), letter case inside a literal / quoted identifier - each as two queries and as two entries of one batch), MaxPreparedStmts (default, 1, 2), hosts (1, 2), the ADDRESS LAYOUT of two hosts (one IP address each on the same port / ONE shared IP address and different ports - every two-host configuration in both layouts), queries vs batches, right vs wrong number of bound values, and whose context ends (the first operation of ANY one executor - the one that wins the race to PREPARE or one waiting on that PREPARE - cancelled at a freely chosen gate or by a 20ms deadline, with the same statement executed again while the PREPARE, answered 30ms late, is still in flight); node logs (ids issued per host and statement, values decoded against the statement's bind metadata) and caller results are checked against the property",
		[]string{"1 connection per host, round-robin host selection, request timeout 100ms, protocol v4, no control connection, no retry policy",
			"two hosts on one IP address: gocql's own host selection policies keep their host list by IP address and would offer only one of them, so these configurations use a harness round-robin policy that identifies hosts by host id (public HostSelectionPolicy extension point); the hosts are contact points 'ip:port' with their own (random) host ids",
			"every PREPARE returns a fresh host-specific id (<host>/<statement>/g<n>); earlier ids stay valid until the node forgets them",
			"the node identifies a statement by its exact text (as a server does: the id is a digest of the text): texts that differ in any byte are different statements with different ids",
			"stream-allocator atomics are not scheduling points (C08); the LRU has no internal scheduling points, so its length is read between steps"},
		defs, 75*time.Second, 25*time.Minute, nil)
}
