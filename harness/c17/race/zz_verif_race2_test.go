//go:build unit
// +build unit

package gocql

// Second part of the free-running data-race pass (sampled, NOT a deciding step): a
// small in-process node that also serves the system tables, PREPARE / EXECUTE with
// paging, BATCH and pushes events, so that a session WITH a control connection can be
// used from many goroutines (prepared statements, paged iteration, batches) while
// status/topology events, ring refreshes and Close run. Only race reports matter.

import (
	"bytes"
	"context"
	"net"
	"strings"
	"sync"
	"testing"
	"time"
)

type vrConn struct {
	c  net.Conn
	mu sync.Mutex // serialises whole-frame writes
}

func (vc *vrConn) send(f *framer) {
	f.buf[0] = 4 | 0x80
	if err := f.finish(); err != nil {
		return
	}
	vc.mu.Lock()
	defer vc.mu.Unlock()
	f.writeTo(vc.c)
}

type vrServer struct {
	ln   net.Listener
	ip   net.IP
	port int

	mu         sync.Mutex
	closed     bool
	conns      []*vrConn
	registered []*vrConn
}

func newVRServer(t testing.TB) *vrServer {
	ln, err := net.Listen("tcp", "127.0.0.1:0")
	if err != nil {
		t.Fatal(err)
	}
	a := ln.Addr().(*net.TCPAddr)
	s := &vrServer{ln: ln, ip: a.IP.To4(), port: a.Port}
	go s.serve()
	return s
}

func (s *vrServer) addr() string { return s.ln.Addr().String() }

func (s *vrServer) stop() {
	s.mu.Lock()
	s.closed = true
	conns := s.conns
	s.mu.Unlock()
	s.ln.Close()
	for _, c := range conns {
		c.c.Close()
	}
}

func (s *vrServer) serve() {
	for {
		c, err := s.ln.Accept()
		if err != nil {
			return
		}
		vc := &vrConn{c: c}
		s.mu.Lock()
		if s.closed {
			s.mu.Unlock()
			c.Close()
			return
		}
		s.conns = append(s.conns, vc)
		s.mu.Unlock()
		go s.handle(vc)
	}
}

type vrCol struct {
	name string
	typ  uint16
	elem uint16
}

func vrWriteCols(f *framer, cols []vrCol) {
	for _, c := range cols {
		f.writeString(c.name)
		f.writeShort(c.typ)
		if c.typ == 0x22 {
			f.writeShort(c.elem)
		}
	}
}

func vrRows(f *framer, stream int, ks, tbl string, cols []vrCol, rows [][][]byte, paging []byte) {
	f.writeHeader(0, opResult, stream)
	f.writeInt(resultKindRows)
	flags := flagGlobalTableSpec
	if paging != nil {
		flags |= flagHasMorePages
	}
	f.writeInt(int32(flags))
	f.writeInt(int32(len(cols)))
	if paging != nil {
		f.writeBytes(paging)
	}
	f.writeString(ks)
	f.writeString(tbl)
	vrWriteCols(f, cols)
	f.writeInt(int32(len(rows)))
	for _, r := range rows {
		for _, cell := range r {
			f.writeBytes(cell)
		}
	}
}

func vrTextSet(vals ...string) []byte {
	var b bytes.Buffer
	n := len(vals)
	b.Write([]byte{byte(n >> 24), byte(n >> 16), byte(n >> 8), byte(n)})
	for _, v := range vals {
		l := len(v)
		b.Write([]byte{byte(l >> 24), byte(l >> 16), byte(l >> 8), byte(l)})
		b.WriteString(v)
	}
	return b.Bytes()
}

var vrHostID = []byte{0, 0, 0, 0, 0, 0, 0x40, 0, 0x80, 0, 0, 0, 0, 0, 0, 1}
var vrSchema = []byte{0x11, 0x11, 0x11, 0x11, 0x11, 0x11, 0x41, 0x11, 0x81, 0x11, 0x11, 0x11, 0x11, 0x11, 0x11, 0x11}

func (s *vrServer) handle(vc *vrConn) {
	defer vc.c.Close()
	var hb [9]byte
	for {
		head, err := readHeader(vc.c, hb[:])
		if err != nil {
			return
		}
		req := newFramer(nil, 4)
		if err := req.readFrame(vc.c, &head); err != nil {
			return
		}
		f := newFramer(nil, 4)
		switch head.op {
		case opStartup:
			f.writeHeader(0, opReady, head.stream)
		case opOptions:
			f.writeHeader(0, opSupported, head.stream)
			f.writeShort(0)
		case opRegister:
			s.mu.Lock()
			s.registered = append(s.registered, vc)
			s.mu.Unlock()
			f.writeHeader(0, opReady, head.stream)
		case opQuery:
			stmt := strings.ToLower(req.readLongString())
			switch {
			case strings.Contains(stmt, "system.peers_v2"):
				f.writeHeader(0, opError, head.stream)
				f.writeInt(0x2200)
				f.writeString("unconfigured table peers_v2")
			case strings.Contains(stmt, "system.peers"):
				vrRows(f, head.stream, "system", "peers", []vrCol{{"peer", 0x10, 0}, {"host_id", 0x0C, 0}, {"data_center", 0x0D, 0}, {"rack", 0x0D, 0},
					{"release_version", 0x0D, 0}, {"tokens", 0x22, 0x0D}, {"rpc_address", 0x10, 0}, {"schema_version", 0x0C, 0}}, nil, nil)
			case strings.Contains(stmt, "schema_version from system.local"):
				vrRows(f, head.stream, "system", "local", []vrCol{{"schema_version", 0x0C, 0}}, [][][]byte{{vrSchema}}, nil)
			case strings.Contains(stmt, "system.local"):
				vrRows(f, head.stream, "system", "local", []vrCol{{"key", 0x0D, 0}, {"host_id", 0x0C, 0}, {"data_center", 0x0D, 0}, {"rack", 0x0D, 0},
					{"release_version", 0x0D, 0}, {"partitioner", 0x0D, 0}, {"cluster_name", 0x0D, 0}, {"tokens", 0x22, 0x0D},
					{"broadcast_address", 0x10, 0}, {"rpc_address", 0x10, 0}, {"schema_version", 0x0C, 0}},
					[][][]byte{{[]byte("local"), vrHostID, []byte("dc1"), []byte("r1"), []byte("3.11.4"), []byte("org.apache.cassandra.dht.Murmur3Partitioner"),
						[]byte("verif"), vrTextSet("0", "1000"), []byte(s.ip), []byte(s.ip), vrSchema}}, nil)
			case strings.HasPrefix(stmt, "select"):
				vrRows(f, head.stream, "ks", "tbl", []vrCol{{"v", 0x0D, 0}}, [][][]byte{{[]byte("a")}, {[]byte("b")}}, nil)
			default:
				f.writeHeader(0, opResult, head.stream)
				f.writeInt(resultKindVoid)
			}
		case opPrepare:
			stmt := req.readLongString()
			f.writeHeader(0, opResult, head.stream)
			f.writeInt(resultKindPrepared)
			f.writeShortBytes([]byte("id:" + stmt))
			// bind metadata: one int column per marker, no partition key indexes
			var binds []vrCol
			for i := 0; i < strings.Count(stmt, "?"); i++ {
				binds = append(binds, vrCol{"k", 0x09, 0})
			}
			f.writeInt(int32(flagGlobalTableSpec))
			f.writeInt(int32(len(binds)))
			f.writeInt(0)
			f.writeString("ks")
			f.writeString("tbl")
			vrWriteCols(f, binds)
			// result metadata
			f.writeInt(int32(flagGlobalTableSpec))
			f.writeInt(1)
			f.writeString("ks")
			f.writeString("tbl")
			vrWriteCols(f, []vrCol{{"v", 0x0D, 0}})
		case opExecute:
			if bytes.Contains(req.buf, []byte("vr-page-2")) {
				vrRows(f, head.stream, "ks", "tbl", []vrCol{{"v", 0x0D, 0}}, [][][]byte{{[]byte("c")}}, nil)
			} else {
				vrRows(f, head.stream, "ks", "tbl", []vrCol{{"v", 0x0D, 0}}, [][][]byte{{[]byte("a")}, {[]byte("b")}}, []byte("vr-page-2"))
			}
		case opBatch:
			f.writeHeader(0, opResult, head.stream)
			f.writeInt(resultKindVoid)
		default:
			f.writeHeader(0, opError, head.stream)
			f.writeInt(0)
			f.writeString("not supported")
		}
		vc.send(f)
	}
}

func (s *vrServer) writeInet(f *framer) {
	f.writeByte(4)
	f.buf = append(f.buf, s.ip...)
	f.writeInt(int32(s.port))
}

// push sends an event to every registered connection.
func (s *vrServer) push(kind, change string) {
	s.mu.Lock()
	regs := append([]*vrConn(nil), s.registered...)
	s.mu.Unlock()
	for _, vc := range regs {
		f := newFramer(nil, 4)
		f.writeHeader(0, opEvent, -1)
		f.writeString(kind)
		f.writeString(change)
		s.writeInet(f)
		vc.send(f)
	}
}

func vrSession(t testing.TB, srv *vrServer) *Session {
	cluster := NewCluster(srv.addr())
	cluster.ProtoVersion = 4
	cluster.NumConns = 2
	cluster.Timeout = 500 * time.Millisecond
	cluster.ConnectTimeout = 500 * time.Millisecond
	cluster.ReconnectInterval = 20 * time.Millisecond
	cluster.Logger = &testLogger{}
	cluster.PoolConfig.HostSelectionPolicy = TokenAwareHostPolicy(RoundRobinHostPolicy())
	db, err := cluster.CreateSession()
	if err != nil {
		t.Fatalf("CreateSession: %v", err)
	}
	return db
}

// prepared statements, paged iteration and batches from many goroutines while events arrive, the ring is refreshed
// and the session is closed
func TestVerifRaceFullSessionEventsClose(t *testing.T) {
	for round := 0; round < 30; round++ {
		srv := newVRServer(t)
		db := vrSession(t, srv)
		var wg sync.WaitGroup
		for g := 0; g < 6; g++ {
			g := g
			wg.Add(1)
			go func() {
				defer wg.Done()
				for i := 0; i < 12; i++ {
					switch (i + g) % 4 {
					case 0: // prepared + paged
						it := db.Query("SELECT v FROM tbl WHERE k = ?", i%3).PageSize(2).Iter()
						var v string
						for it.Scan(&v) {
						}
						_ = it.Close()
					case 1: // batch
						b := db.NewBatch(LoggedBatch)
						b.Query("INSERT INTO tbl (k) VALUES (?)", i)
						b.Query("INSERT INTO tbl (k) VALUES (?)", i+1)
						_ = db.ExecuteBatch(b)
					case 2: // plain, with routing key, retry policy and speculative execution
						q := db.Query("SELECT v FROM tbl").RoutingKey([]byte{byte(i)}).Idempotent(true).
							RetryPolicy(&SimpleRetryPolicy{NumRetries: 1}).
							SetSpeculativeExecutionPolicy(&SimpleSpeculativeExecution{NumAttempts: 1, TimeoutDelay: time.Millisecond})
						_ = q.Exec()
					case 3: // scanner with a context
						ctx, cancel := context.WithTimeout(context.Background(), time.Duration(1+i)*time.Millisecond)
						sc := db.Query("SELECT v FROM tbl WHERE k = ?", 7).WithContext(ctx).PageSize(2).Iter().Scanner()
						for sc.Next() {
							var v string
							_ = sc.Scan(&v)
						}
						_ = sc.Err()
						cancel()
					}
				}
			}()
		}
		wg.Add(1)
		go func() { // the cluster talks
			defer wg.Done()
			for i := 0; i < 6; i++ {
				switch i % 3 {
				case 0:
					srv.push("STATUS_CHANGE", "DOWN")
				case 1:
					srv.push("STATUS_CHANGE", "UP")
				case 2:
					srv.push("TOPOLOGY_CHANGE", "NEW_NODE")
				}
				time.Sleep(2 * time.Millisecond)
			}
		}()
		wg.Add(1)
		go func() { // application-driven refreshes and metadata reads
			defer wg.Done()
			for i := 0; i < 4; i++ {
				_ = db.refreshRing()
				_ = db.ring.allHosts()
				time.Sleep(time.Millisecond)
			}
		}()
		if round%2 == 1 {
			wg.Add(1)
			go func() {
				defer wg.Done()
				time.Sleep(time.Duration(round) * time.Millisecond)
				db.Close()
			}()
		}
		wg.Wait()
		db.Close()
		srv.stop()
	}
}
