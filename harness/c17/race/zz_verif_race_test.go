//go:build unit
// +build unit

package gocql

// Free-running data-race pass (sampled, NOT a deciding step of the model-checking
// checks): the cooperative scheduler's hand-offs are happens-before edges that
// blind the race detector, so unsynchronised accesses are looked for here, with
// real goroutines under `go test -race`, against the repository's own in-process
// TestServer. Only race reports matter; there is no timing oracle.

import (
	"context"
	"sync"
	"testing"
	"time"
)

func verifRaceSession(t *testing.T, srv *TestServer, numConns int) *Session {
	cluster := testCluster(defaultProto, srv.Address)
	cluster.NumConns = numConns
	cluster.Timeout = 500 * time.Millisecond
	cluster.ConnectTimeout = 500 * time.Millisecond
	cluster.Logger = &testLogger{}
	db, err := cluster.CreateSession()
	if err != nil {
		t.Fatalf("CreateSession: %v", err)
	}
	return db
}

// queries from many goroutines while connections are killed (pool refill) and the session is closed
func TestVerifRaceQueriesKillClose(t *testing.T) {
	for round := 0; round < 40; round++ {
		srv := NewTestServer(t, defaultProto, context.Background())
		db := verifRaceSession(t, srv, 2)
		var wg sync.WaitGroup
		for g := 0; g < 6; g++ {
			g := g
			wg.Add(1)
			go func() {
				defer wg.Done()
				for i := 0; i < 15; i++ {
					stmt := "void"
					if (i+g)%5 == 0 {
						stmt = "kill"
					}
					q := db.Query(stmt)
					if g%2 == 0 {
						q = q.Idempotent(true).RetryPolicy(&SimpleRetryPolicy{NumRetries: 1})
					}
					_ = q.Exec()
				}
			}()
		}
		wg.Add(1)
		go func() {
			defer wg.Done()
			time.Sleep(time.Duration(round) * 3 * time.Millisecond)
			db.Close()
			db.Close()
		}()
		wg.Wait()
		_ = db.Query("void").Exec()
		srv.Stop()
	}
}

// speculative execution and timeouts racing responses
func TestVerifRaceSpeculativeTimeout(t *testing.T) {
	srv := NewTestServer(t, defaultProto, context.Background())
	defer srv.Stop()
	db := verifRaceSession(t, srv, 2)
	defer db.Close()
	var wg sync.WaitGroup
	for g := 0; g < 4; g++ {
		g := g
		wg.Add(1)
		go func() {
			defer wg.Done()
			for i := 0; i < 40; i++ {
				ctx, cancel := context.WithTimeout(context.Background(), time.Duration(5+3*g)*time.Millisecond)
				stmt := "void"
				if i%3 == 0 {
					stmt = "slow"
				}
				q := db.Query(stmt).WithContext(ctx).Idempotent(true).SetSpeculativeExecutionPolicy(&SimpleSpeculativeExecution{NumAttempts: 2, TimeoutDelay: 2 * time.Millisecond})
				_ = q.Exec()
				cancel()
			}
		}()
	}
	wg.Wait()
}

// concurrent time-UUID generation (C19) and host-selection policies under topology changes (C11)
func TestVerifRaceUUIDAndPolicies(t *testing.T) {
	var wg sync.WaitGroup
	seen := make([]map[UUID]bool, 4)
	for g := 0; g < 4; g++ {
		g := g
		seen[g] = map[UUID]bool{}
		wg.Add(1)
		go func() {
			defer wg.Done()
			for i := 0; i < 2000; i++ {
				seen[g][TimeUUID()] = true
			}
		}()
	}
	wg.Wait()
	all := map[UUID]bool{}
	for _, m := range seen {
		for u := range m {
			if all[u] {
				t.Fatalf("duplicate time UUID %v", u)
			}
			all[u] = true
		}
	}
	for _, p := range []HostSelectionPolicy{RoundRobinHostPolicy(), DCAwareRoundRobinPolicy("dc1"), RackAwareRoundRobinPolicy("dc1", "r1")} {
		hosts := []*HostInfo{
			{hostId: "1", connectAddress: []byte{10, 0, 0, 1}, dataCenter: "dc1", state: NodeUp, tokens: []string{"0"}},
			{hostId: "2", connectAddress: []byte{10, 0, 0, 2}, dataCenter: "dc1", state: NodeUp, tokens: []string{"100"}},
			{hostId: "3", connectAddress: []byte{10, 0, 0, 3}, dataCenter: "dc2", state: NodeUp, tokens: []string{"200"}},
		}
		p.SetPartitioner("Murmur3Partitioner")
		for _, h := range hosts {
			p.AddHost(h)
		}
		var wg sync.WaitGroup
		wg.Add(2)
		go func() {
			defer wg.Done()
			for i := 0; i < 300; i++ {
				q := &Query{routingInfo: &queryRoutingInfo{}}
				q.RoutingKey([]byte{byte(i)})
				it := p.Pick(q)
				for h := it(); h != nil; h = it() {
					_ = h.Info()
				}
			}
		}()
		go func() {
			defer wg.Done()
			for i := 0; i < 300; i++ {
				h := hosts[i%3]
				switch i % 4 {
				case 0:
					p.RemoveHost(h)
				case 1:
					p.AddHost(h)
				case 2:
					p.HostDown(h)
				case 3:
					p.HostUp(h)
				}
			}
		}()
		wg.Wait()
	}
}
