// C17: pools stay within bounds; a session is safe to share and always closes.
package main

import (
	"fmt"
	"sort"
	"strings"
	"time"

	"github.com/gocql/gocql"

	"verif/engine/mcreport"
	"verif/engine/refcql/frame"
	"verif/engine/vnode"
	vs "verif/engine/vsched"
	"verif/engine/vsched/vatomic"
	context "verif/engine/vsched/vcontext"
)

// settleTime lets every bounded background activity of a live session finish (replacement dials: 3 attempts 1s apart,
// fill back-off <= 130ms, connect timeout 100-300ms) before the at-rest oracles look at the pools.
const settleTime = 5 * time.Second

type c17cfg struct {
	name              string
	control           bool // with a control connection (system tables served by the scripted nodes)
	hosts             int
	numConns          int
	callers           int
	closers           int  // threads calling Session.Close concurrently
	earlyClose        bool // Close right after NewSession, without waiting for quiescence
	refresh           bool // a topology event / ring refresh races Close
	dropCtl           bool // the control connection is dropped before Close (reconnect in progress)
	closeAfterQueries bool // closers start only after the callers returned (e.g. while a dropped connection is being replaced)
	removeHost        bool // a thread removes a host (as a refresh would) while others query
	dialFault         bool
	closeDelay        time.Duration // the closers first let this much virtual time pass (e.g. the event debounce interval: Close lands on the flush)
	lateClose         bool          // the closers first let 1ms of virtual time pass (Close lands wherever timer deviations put it)
	upTwice           bool          // a host without a pool (reported down) is brought back by two concurrent triggers (UP event and reconnect tick)
	refill3           bool          // two of three connections are lost; the replacing handshakes may be dropped or slow (free choices) while queries keep arriving
	closeErr          bool
	fates             []string
	t                 [2]int
}

func (c *c17cfg) body() {
	gocql.VerifResetGlobals()
	vatomic.Yield = false
	cl := newCluster(true)
	view := &cview{}
	var ips []string
	for i := 1; i <= c.hosts; i++ {
		ip := fmt.Sprintf("10.0.0.%d", i)
		ips = append(ips, ip)
		view.hosts = append(view.hosts, vhost{id: hostUUID(i), ip: ip, dc: "dc1", rack: "r1", tokens: []string{fmt.Sprint(i * 1000)}})
	}
	var sysnodes []*sysnode
	settling := false // final phase: queries are simply answered
	qhandler := func(n *vnode.Node, sc *vnode.ServerConn, rec *vnode.ReqRec) vnode.Reply {
		if _, ok := rec.Req.Msg.(*frame.Query); !ok {
			return vnode.Reply{Msg: frame.ResultVoid{}}
		}
		if settling {
			return vnode.Reply{Msg: vnode.TextRows("t", "ok")}
		}
		switch c.fates[vs.Choose(len(c.fates), vs.CostF)] {
		case "drop":
			return vnode.Reply{Drop: true}
		case "never":
			return vnode.Reply{Never: true}
		}
		return vnode.Reply{Msg: vnode.TextRows("t", "ok")}
	}
	hsLeft := 2      // ... for the first two replacement connections
	hsFates := false // refill3: the handshake of a new connection may be dropped or slow (free choice per connection)
	wrapHS := func(h vnode.Handler) vnode.Handler {
		return func(n *vnode.Node, sc *vnode.ServerConn, rec *vnode.ReqRec) vnode.Reply {
			if _, ok := rec.Req.Msg.(*frame.Startup); ok && hsFates && !settling && hsLeft > 0 {
				hsLeft--
				switch vs.Choose(3, vs.Free) {
				case 1:
					return vnode.Reply{Drop: true}
				case 2:
					r := h(n, sc, rec)
					r.Delay = 250 * time.Millisecond
					return r
				}
			}
			return h(n, sc, rec)
		}
	}
	for _, ip := range ips {
		sn := &sysnode{cl: cl, view: func() *cview { return view }, self: ip, next: qhandler}
		sysnodes = append(sysnodes, sn)
		cl.add(ip, wrapHS(sn.wrapRegister(sn.handler())))
	}
	maxPool := 0
	var sess *gocql.Session
	dialing := true // while true the dial fate may fail
	cl.dialFate = func(ip string, n int) error {
		if sess != nil {
			for _, p := range gocql.VerifPools(sess) {
				if p.Conns > maxPool {
					maxPool = p.Conns
				}
				if p.Conns > p.Size {
					vs.Failf("c17:pool-over-capacity", "pool of %s holds %d connections, configured size %d (observed at dial #%d)", p.Addr, p.Conns, p.Size, n)
				}
			}
		}
		if c.dialFault && dialing && vs.Choose(2, vs.CostF) == 1 {
			return fmt.Errorf("vnet: connect %s: connection refused", ip)
		}
		return nil
	}
	cfg := gocql.NewCluster(ips[0])
	cfg.ProtoVersion = 4
	cfg.Timeout = 100 * time.Millisecond
	cfg.ConnectTimeout = 100 * time.Millisecond
	cfg.NumConns = c.numConns
	if c.refill3 {
		cfg.ConnectTimeout = 300 * time.Millisecond
		cfg.ReconnectionPolicy = &gocql.ConstantReconnectionPolicy{MaxRetries: 1, Interval: 10 * time.Millisecond}
	}
	cfg.ReconnectInterval = 0
	cfg.WriteCoalesceWaitTime = 0
	cfg.HostDialer = cl.dialer()
	if !c.control {
		cfg.Hosts = ips
	}
	vs.Quiet(true)
	dialing = false
	s, err := gocql.VerifNewSession(*cfg, !c.control)
	if err != nil {
		vs.Quiet(false)
		vs.Failf("harness:session", "NewSession failed in the quiet prefix: %v", err)
		return
	}
	sess = s
	if !c.earlyClose {
		vs.WaitIdle() // (not WaitQuiescent: a live session has periodic timers, which would run the clock to the horizon)
	}
	dialing = true
	vs.Quiet(false)
	if c.closeErr {
		cl.closeErr = fmt.Errorf("vnet: close failed (tls close_notify)")
		for _, cc := range cl.clients {
			cc.CloseErr = cl.closeErr
		}
	}

	type res struct {
		who string
		err error
	}
	n := c.callers + c.closers
	if c.removeHost {
		n++
	}
	if c.upTwice {
		n += 2
	}
	if c.refill3 {
		n++
	}
	done := make(chan res, n+2)
	got0 := 0
	var sig0 []string
	for i := 0; i < c.callers; i++ {
		i := i
		vs.GoNamed(fmt.Sprintf("caller%d", i), func() {
			err := sess.Query("QUERYX 'x'").WithContext(context.Background()).Exec()
			vs.Send(done, res{fmt.Sprintf("q%d", i), err})
		})
	}
	if c.upTwice {
		vs.Quiet(true)
		gocql.VerifMarkHostDown(sess, ips[len(ips)-1])
		vs.WaitIdle()
		vs.Quiet(false)
		for i := 0; i < 2; i++ {
			i := i
			vs.GoNamed(fmt.Sprintf("up%d", i), func() {
				gocql.VerifStartPoolFill(sess, ips[len(ips)-1])
				vs.Send(done, res{fmt.Sprintf("up%d", i), nil})
			})
		}
	}
	if c.refill3 {
		// two of the three connections of the pool are lost at once; queries keep arriving while they are replaced
		hsFates = true
		lost := 0
		for _, sc := range cl.nodes[ips[0]].Conns {
			if lost < 2 && !sc.C.Closed() {
				sc.C.Close()
				lost++
			}
		}
		vs.GoNamed("ticker", func() {
			for i := 0; i < 7; i++ {
				sess.Query("QUERYX 'tick'").WithContext(context.Background()).Exec()
				vs.Sleep(45 * time.Millisecond)
			}
			vs.Send(done, res{"ticker", nil})
		})
	}
	if c.removeHost && c.closeAfterQueries {
		// remove the host only after the callers returned (while a dropped connection is being replaced)
		for ; got0 < c.callers; got0++ {
			r := vs.Recv[res](done)
			sig0 = append(sig0, r.who+":"+gocql.VerifErrClass(r.err))
		}
	}
	if c.removeHost {
		vs.GoNamed("remover", func() {
			if !gocql.VerifRemoveHost(sess, ips[len(ips)-1]) {
				vs.Failf("harness:remove-host", "host %s not found in the ring", ips[len(ips)-1])
			}
			vs.Send(done, res{"remove", nil})
		})
	}
	if c.refresh {
		// a topology event arrives (debounced refresh) and a refresh is requested directly
		sysnodes[0].push(&frame.EventTopologyChange{Change: "NEW_NODE", Addr: []byte{10, 0, 0, 9}, Port: 9042})
		gocql.VerifDebounceRingRefresh(sess)
	}
	if c.dropCtl {
		for _, sc := range sysnodes[0].registered {
			sc.C.Close()
		}
	}
	sig := sig0
	got := got0
	if c.closeAfterQueries && got == 0 {
		for ; got < c.callers; got++ {
			r := vs.Recv[res](done)
			sig = append(sig, r.who+":"+gocql.VerifErrClass(r.err))
		}
	}
	for i := 0; i < c.closers; i++ {
		i := i
		vs.GoNamed(fmt.Sprintf("closer%d", i), func() {
			if c.lateClose {
				vs.Sleep(time.Millisecond)
			}
			if c.closeDelay > 0 {
				vs.Sleep(c.closeDelay)
			}
			sess.Close()
			vs.Send(done, res{fmt.Sprintf("close%d", i), nil})
		})
	}
	for ; got < n; got++ {
		r := vs.Recv[res](done)
		sig = append(sig, r.who+":"+gocql.VerifErrClass(r.err))
	}
	vs.Settle(settleTime)
	// "a connection reported closed is removed from its pool and replaced": replacement is triggered by the
	// connection's error callback or, if a fill was already running then, by the next Pick. Give every host
	// one more (answered) query as that trigger, then let the fills finish.
	_, dBefore, _ := vs.Deviations()
	if c.closers == 0 && !c.removeHost {
		settling = true
		dialing = false
		for i := 0; i < 2*c.hosts; i++ {
			sess.Query("QUERYX 'settle'").WithContext(context.Background()).Exec()
		}
		vs.Settle(settleTime)
	}
	// pool invariants at quiescence
	for _, p := range gocql.VerifPools(sess) {
		if p.Conns > p.Size {
			vs.Failf("c17:pool-over-capacity", "pool of %s holds %d connections, configured size %d", p.Addr, p.Conns, p.Size)
		}
		if p.ClosedConn > 0 && !p.PoolClosed {
			vs.Failf("c17:closed-conn-left-in-pool", "pool of %s still holds %d closed connection(s) at quiescence", p.Addr, p.ClosedConn)
		}
		// (a timer fired ahead of runnable threads during the settling phase can time a replacement dial out: not counted)
		if _, dAfter, _ := vs.Deviations(); c.closers == 0 && !c.removeHost && !p.PoolClosed && p.HostUp && p.Conns != p.Size && dAfter == dBefore {
			vs.Failf("c17:pool-not-refilled", "pool of %s has %d of %d connections at quiescence, after a further query on every host and with every later dial succeeding", p.Addr, p.Conns, p.Size)
		}
	}
	for _, ip := range ips {
		open := 0
		for _, cc := range cl.clients {
			if strings.HasPrefix(cc.Name, ip+"#") && !cc.Closed() {
				open++
			}
		}
		lim := c.numConns
		if c.control {
			lim++
		}
		if open > lim {
			vs.Failf("c17:host-over-capacity", "%d transports to %s are open at quiescence; configured connections per host %d (control connection: %v)", open, ip, c.numConns, c.control)
		}
	}
	// a final Close (also the second/third Close in the closers scenarios) must return
	sess.Close()
	if err := sess.Query("QUERYX 'after'").Exec(); gocql.VerifErrClass(err) != "session-closed" {
		vs.Failf("c17:query-after-close", "a query after Session.Close returned %v, want ErrSessionClosed", err)
	}
	vs.WaitQuiescent()
	for _, cc := range cl.clients {
		if !cc.Closed() {
			vs.Failf("c17:connection-left-open", "transport %s is still open after Session.Close", cc.Name)
		}
	}
	var leaked []string
	for _, t := range vs.LiveThreads() {
		if strings.Contains(t, "@gocql.") {
			leaked = append(leaked, t)
		}
	}
	if len(leaked) > 0 {
		sort.Strings(leaked)
		key := leaked[0]
		if i := strings.Index(key, "@"); i >= 0 {
			key = key[i+1:]
		}
		if j := strings.Index(key, "["); j >= 0 {
			key = key[:j]
		}
		vs.Failf("c17:goroutine-alive-after-close:"+key, "driver goroutines still alive after Session.Close and quiescence (horizon %v): %v", 60*time.Second, leaked)
	}
	sort.Strings(sig)
	vs.Observe("%s maxpool=%d", strings.Join(sig, " "), maxPool)
}

// debouncerStopBody: Session.Close stops the event debouncers; stop() must return and the flusher goroutine must exit
// also when it lands on the instant a batch is flushed while another event arrives.
func debouncerStopBody() {
	gocql.VerifResetGlobals()
	d := gocql.VerifNewEventDebouncer(func(tags []string) {})
	done := make(chan struct{}, 2)
	vs.GoNamed("arrivals", func() {
		d.Debounce("e1")
		vs.Sleep(time.Second) // the debounce period
		d.Debounce("e2")
		vs.Send(done, struct{}{})
	})
	vs.GoNamed("closer", func() {
		vs.Sleep(time.Second)
		d.Stop()
		vs.Send(done, struct{}{})
	})
	vs.Recv[struct{}](done)
	vs.Recv[struct{}](done)
	vs.WaitQuiescent()
	for _, t := range vs.LiveThreads() {
		if strings.Contains(t, "@gocql.") {
			vs.Failf("c17:goroutine-alive-after-close:eventDebouncer", "the debouncer's goroutine is still alive after stop() returned and quiescence: %s", t)
		}
	}
}

func (c *c17cfg) build() *vs.Scenario {
	return &vs.Scenario{Name: c.name, Cfg: vs.Config{MaxSteps: 100000, Horizon: 60 * time.Second, DelayBounded: true}, Body: c.body}
}

func main() {
	ok := []string{"reply"}
	rd := []string{"reply", "drop", "never"}
	cfgs := []*c17cfg{
		{name: "pool2-2callers-drop", hosts: 1, numConns: 2, callers: 2, fates: rd, t: [2]int{2, 3}},
		{name: "pool1-drop-refill", hosts: 1, numConns: 1, callers: 2, fates: []string{"drop", "reply"}, t: [2]int{2, 3}},
		{name: "pool2-drop-refill", hosts: 2, numConns: 2, callers: 2, fates: []string{"drop", "reply"}, t: [2]int{1, 2}},
		{name: "pool3-dialfault", hosts: 1, numConns: 3, callers: 1, dialFault: true, fates: rd, t: [2]int{2, 3}},
		{name: "host-up-twice-concurrently", hosts: 1, numConns: 2, upTwice: true, fates: ok, t: [2]int{1, 2}},
		{name: "pool3-two-lost-handshake-fates", hosts: 1, numConns: 3, refill3: true, fates: ok, t: [2]int{1, 2}},
		{name: "pool2-closeerr-close", hosts: 1, numConns: 2, callers: 1, closers: 1, closeErr: true, fates: rd, t: [2]int{2, 3}},
		{name: "close-during-refill-closeerr", hosts: 1, numConns: 2, callers: 1, closers: 1, closeErr: true, closeAfterQueries: true, fates: []string{"drop", "reply"}, t: [2]int{2, 3}},
		{name: "close-during-refill", hosts: 1, numConns: 2, callers: 1, closers: 1, closeAfterQueries: true, dialFault: true, fates: []string{"drop", "reply"}, t: [2]int{2, 3}},
		{name: "removehost-during-refill-closeerr", hosts: 1, numConns: 2, callers: 1, removeHost: true, closeErr: true, closeAfterQueries: true, fates: []string{"drop", "reply"}, t: [2]int{2, 3}},
		{name: "2hosts-removehost", hosts: 2, numConns: 2, callers: 2, removeHost: true, fates: rd, t: [2]int{1, 3}},
		{name: "close-vs-queries", hosts: 2, numConns: 1, callers: 2, closers: 1, fates: rd, t: [2]int{2, 3}},
		{name: "close-twice-concurrently", hosts: 1, numConns: 1, callers: 1, closers: 2, fates: ok, t: [2]int{2, 3}},
		{name: "control-close", control: true, hosts: 2, numConns: 1, callers: 1, closers: 1, fates: ok, t: [2]int{1, 3}},
		{name: "control-early-close", control: true, hosts: 1, numConns: 1, closers: 1, earlyClose: true, fates: ok, t: [2]int{2, 3}},
		{name: "control-close-vs-refresh", control: true, hosts: 2, numConns: 1, closers: 1, refresh: true, fates: ok, t: [2]int{2, 3}},
		{name: "control-close-at-the-debounce-instant", control: true, hosts: 1, numConns: 1, closers: 1, refresh: true, closeDelay: time.Second, fates: ok, t: [2]int{2, 3}},
		{name: "control-late-close-vs-reconnect", control: true, hosts: 1, numConns: 1, closers: 1, dropCtl: true, lateClose: true, fates: ok, t: [2]int{2, 3}},
		{name: "control-close-vs-reconnect", control: true, hosts: 2, numConns: 1, closers: 1, dropCtl: true, fates: ok, t: [2]int{1, 3}},
	}
	var defs []mcreport.Def
	for _, c := range cfgs {
		c := c
		b := func(t int) vs.Bounds { return vs.Bounds{P: t, D: t, F: t, T: t} }
		defs = append(defs, mcreport.Def{Name: c.name, Build: c.build, Quick: b(c.t[0]), Thorough: b(c.t[1])})
	}
	// the event debouncer alone: stop() arriving at the instant of a flush, with another event (every interleaving up to P4 D2)
	defs = append(defs, mcreport.Def{Name: "event-debouncer-stop-at-the-flush-instant",
		Build: func() *vs.Scenario {
			return &vs.Scenario{Name: "event-debouncer-stop-at-the-flush-instant", Cfg: vs.Config{MaxSteps: 20000, Horizon: 10 * time.Second}, Body: debouncerStopBody}
		}, Quick: vs.Bounds{P: 3, D: 2}, Thorough: vs.Bounds{P: 5, D: 3}})
	mcreport.Main("C17", "model_checking",
		"delay-bounded exhaustive exploration (total deviations <= T) of the pool / close scenarios listed in the evidence on a real Session over scripted nodes: concurrent Pick-triggered fills, connections dropped by the node, dial failures, a transport whose Close fails, host removal racing queries, Session.Close racing queries, a second Close, a ring refresh, a control-connection reconnect, and Close immediately after NewSession",
		[]string{"1-2 hosts, pool size 1-3, 1-2 callers, 1-2 closers; horizon 60s of virtual time (heartbeats and debounce timers run); ReconnectInterval 0",
			"data races proper are looked for by the separate free-running -race pass; here shared-state errors show up through the oracles (pool bound, closed connections in pools, open transports, live goroutines, Close not returning = deadlock report)"},
		defs, 80*time.Second, 25*time.Minute, nil)
}
