package main

import (
	"bytes"
	"context"
	"crypto/tls"
	"crypto/x509"
	"fmt"
	"io"
	"net"
	"sync"
	"time"

	"github.com/gocql/gocql"
	"verif/engine/report"
)

type serverResult struct {
	err   error
	peers []*x509.Certificate
	sni   string
}

// pipeDialer is the gocql.Dialer of the cluster under test: no network, the "node" is a
// crypto/tls server on the other end of a net.Pipe presenting the scenario's certificate.
type pipeDialer struct {
	serverCfg *tls.Config
	res       chan serverResult
	mu        sync.Mutex
	dialed    []string
}

func (d *pipeDialer) DialContext(ctx context.Context, network, addr string) (net.Conn, error) {
	d.mu.Lock()
	d.dialed = append(d.dialed, addr)
	d.mu.Unlock()
	c, s := net.Pipe()
	go func() {
		var sr serverResult
		cfg := d.serverCfg.Clone()
		cfg.GetConfigForClient = func(chi *tls.ClientHelloInfo) (*tls.Config, error) { sr.sni = chi.ServerName; return nil, nil }
		srv := tls.Server(s, cfg)
		srv.SetDeadline(time.Now().Add(30 * time.Second)) // safety net only; expiry is reported as infrastructure error
		sr.err = srv.Handshake()
		if sr.err == nil {
			sr.peers = srv.ConnectionState().PeerCertificates
			srv.Write([]byte("ok"))
			// drain until the client's close_notify: tls.Conn.Close writes an alert, and on an unbuffered
			// net.Pipe that write would otherwise wait for its 5 s internal deadline
			io.Copy(io.Discard, srv)
		}
		srv.Close()
		d.res <- sr
	}()
	return c, nil
}

type hsCase struct {
	Config                 string
	EnableHostVerification bool
	CaPath, KeyPair, Host  string
	ServerCertificate      string
	NodeTLSVersions        string
}

func suiteTLSHandshake(r *report.Run) {
	m, err := material()
	if err != nil {
		r.Infra("key material: %v", err)
		return
	}
	scenarios := []string{"good", "wrong-ca", "wrong-name", "expired", "repo-cassandra"}
	var cas []caVariant
	for _, ca := range caVariants(m) {
		if ca.ok {
			cas = append(cas, ca)
		}
	}
	var kps []keyPairVariant
	for _, kp := range keyPairVariants(m) {
		if kp.ok && (kp.name == "absent" || kp.generated || r.Thorough()) {
			kps = append(kps, kp)
		}
	}
	// node's protocol range: default (1.2..1.3); thorough adds 1.2-only and 1.3-only nodes
	type vrange struct {
		name     string
		min, max uint16
	}
	vranges := []vrange{{"tls1.2-1.3", tls.VersionTLS12, 0}}
	if r.Thorough() {
		vranges = append(vranges, vrange{"tls1.2-only", tls.VersionTLS12, tls.VersionTLS12}, vrange{"tls1.3-only", tls.VersionTLS13, tls.VersionTLS13})
	}
	type job struct {
		k   cfgKind
		ehv bool
		ca  caVariant
		kp  keyPairVariant
		hk  hostKind
		sc  string
		vr  vrange
	}
	jobs := make(chan job, 64)
	var wg sync.WaitGroup
	var mu sync.Mutex
	outcomes := map[string]int{}
	n := 0
	run := func(j job) {
		tc := hsCase{j.k.name, j.ehv, j.ca.name, j.kp.name, j.hk.name, j.sc, j.vr.name}
		id := fmt.Sprintf("%s|EHV=%v|ca=%s|pair=%s|host=%s|server=%s|%s", j.k.name, j.ehv, j.ca.name, j.kp.name, j.hk.name, j.sc, j.vr.name)
		guard(r, "DialHost", tc, func() {
			caller := j.k.build(m)
			snap := snapshot(caller)
			cluster := gocql.NewCluster("127.0.0.1")
			cluster.SslOpts = &gocql.SslOptions{Config: caller, EnableHostVerification: j.ehv, CaPath: j.ca.path, CertPath: j.kp.cert, KeyPath: j.kp.key}
			d := &pipeDialer{res: make(chan serverResult, 1), serverCfg: &tls.Config{
				Certificates: []tls.Certificate{m.serverCerts[j.sc]}, ClientAuth: tls.RequestClientCert, MinVersion: j.vr.min, MaxVersion: j.vr.max,
			}}
			cluster.Dialer = d
			hd, _, err := gocql.VerifHostDialer(cluster)
			if err != nil {
				r.Violation("tls:unexpected-error", fmt.Sprintf("%s: %v", id, err), tc)
				return
			}
			h, err := j.hk.make()
			if err != nil {
				r.Infra("%v", err)
				return
			}
			ctx, cancel := context.WithTimeout(context.Background(), 30*time.Second)
			defer cancel()
			dh, derr := hd.DialHost(ctx, h)
			var got []byte
			if derr == nil {
				dh.Conn.SetDeadline(time.Now().Add(30 * time.Second))
				buf := make([]byte, 2)
				if _, e := io.ReadFull(dh.Conn, buf); e == nil {
					got = buf
				} else {
					derr = fmt.Errorf("handshake returned but the session is unusable: %v", e)
				}
				dh.Conn.Close()
			}
			var sr serverResult
			select {
			case sr = <-d.res:
			case <-time.After(40 * time.Second):
				r.Infra("%s: the TLS server goroutine did not finish", id)
				return
			}
			if ctx.Err() != nil {
				r.Infra("%s: safety deadline expired", id)
				return
			}
			r.Case("hs|"+id, true)
			ok := derr == nil && bytes.Equal(got, []byte("ok")) && sr.err == nil

			verify, row := documentedVerify(j.k, j.ehv)
			trustGood := j.ca.good || j.k.rootCAs
			chainValid := trustGood && (j.sc == "good" || j.sc == "wrong-name")
			name := j.k.serverName
			if name == "" {
				name = j.hk.accepted[0]
			}
			nameValid := j.sc != "wrong-name" && (name == dialName || name == explicitName || name == "127.0.0.1" || name == "::1")
			want := !verify || (chainValid && nameValid)
			mu.Lock()
			n++
			outcomes[fmt.Sprintf("verify=%v chain=%v name=%v -> success=%v", verify, chainValid, nameValid, ok)]++
			mu.Unlock()
			if ok != want {
				key := "tls:handshake:succeeds-although-it-must-fail:" + row
				if want {
					key = "tls:handshake:fails-although-it-must-succeed:" + row
				}
				why := "chain-invalid"
				if chainValid && !nameValid {
					why = "name-invalid"
				}
				if !want {
					key += ":" + why
				}
				r.Violation(key, fmt.Sprintf("%s: documented verify=%v, chain valid=%v, name %q valid=%v => handshake must %s; client error: %v; server error: %v",
					id, verify, chainValid, name, nameValid, map[bool]string{true: "succeed", false: "fail"}[want], derr, sr.err), tc)
			}
			if ok {
				// the key pair from CertPath/KeyPath is really offered to the node (not silently dropped)
				if j.kp.leafDER != nil && (len(sr.peers) == 0 || !bytes.Equal(sr.peers[0].Raw, j.kp.leafDER)) {
					r.Violation("tls:client-certificate-not-presented", fmt.Sprintf("%s: the node saw %d client certificates", id, len(sr.peers)), tc)
				}
				if j.kp.leafDER == nil && len(sr.peers) != 0 {
					r.Violation("tls:client-certificate-presented-without-key-pair", id, tc)
				}
			}
			if ch := snap.changed(caller); len(ch) > 0 {
				for _, f := range ch {
					r.Violation("tls:caller-config-modified:"+f, fmt.Sprintf("%s: the caller's own tls.Config differs after dialling in %v", id, ch), tc)
				}
			}
			if j.sc == "good" && j.ca.good && j.kp.generated && j.k.present && !j.k.isv && j.k.serverName == "" && !j.k.rootCAs {
				sample(r, "tls-handshake", 2, map[string]interface{}{"case": tc, "verify": verify, "handshake_ok": ok, "sni_seen_by_node": sr.sni, "client_certs_seen_by_node": len(sr.peers)})
			}
			if j.sc == "wrong-name" && verify && chainValid && j.hk.name == "ipv4:port" && j.k.serverName == "" && !j.kp.generated {
				sample(r, "tls-handshake/refused", 1, map[string]interface{}{"case": tc, "verify": verify, "handshake_ok": ok, "client_error": fmt.Sprint(derr)})
			}
		})
	}
	for w := 0; w < 16; w++ {
		wg.Add(1)
		go func() {
			defer wg.Done()
			for j := range jobs {
				run(j)
			}
		}()
	}
	for _, k := range cfgKinds(true) {
		for _, ehv := range []bool{false, true} {
			for _, ca := range cas {
				for _, kp := range kps {
					for _, hk := range hostKinds() {
						for _, sc := range scenarios {
							for _, vr := range vranges {
								jobs <- job{k, ehv, ca, kp, hk, sc, vr}
							}
						}
					}
				}
			}
		}
	}
	close(jobs)
	wg.Wait()
	r.Extra("tls_handshakes", n)
	r.Extra("tls_handshake_outcomes", outcomes)
}
