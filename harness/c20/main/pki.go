package main

import (
	"crypto/ecdsa"
	"crypto/elliptic"
	"crypto/rand"
	"crypto/tls"
	"crypto/x509"
	"crypto/x509/pkix"
	"encoding/pem"
	"fmt"
	"math/big"
	"net"
	"os"
	"path/filepath"
	"sync"
	"time"
)

// Names and addresses the harness dials.
const (
	dialName     = "node1.cass.verif.test"
	explicitName = "explicit.cass.verif.test" // a second SAN of the good certificate, for explicit ServerName
	mismatchName = "mismatch.cass.verif.test" // in no certificate
	dialPort     = 9042
)

var (
	dialV4 = net.ParseIP("127.0.0.1")
	dialV6 = net.ParseIP("::1")
)

type keyMaterial struct {
	dir string
	// generated
	goodCA, otherCA          *x509.Certificate
	goodCAPool               *x509.CertPool
	goodCAFile               string
	clientCertFile, clientKeyFile string
	clientCert               tls.Certificate
	serverCerts              map[string]tls.Certificate // good, wrong-ca, wrong-name, expired, repo-cassandra
	// repository testdata
	repoCA, repoClientCert, repoClientKey, repoServerCert, repoServerKey, repoCAKey string
	// bad files
	missing, directory, garbage, empty string
}

var (
	pkiOnce sync.Once
	pki     *keyMaterial
	pkiErr  error
)

func cleanupPKI() {
	if pki != nil && pki.dir != "" {
		os.RemoveAll(pki.dir)
	}
}

func newCA(cn string) (*x509.Certificate, *ecdsa.PrivateKey, error) {
	key, err := ecdsa.GenerateKey(elliptic.P256(), rand.Reader)
	if err != nil {
		return nil, nil, err
	}
	tmpl := &x509.Certificate{
		SerialNumber: big.NewInt(1), Subject: pkix.Name{CommonName: cn},
		NotBefore: time.Now().Add(-24 * time.Hour), NotAfter: time.Now().Add(10 * 365 * 24 * time.Hour),
		IsCA: true, BasicConstraintsValid: true, KeyUsage: x509.KeyUsageCertSign | x509.KeyUsageCRLSign,
	}
	der, err := x509.CreateCertificate(rand.Reader, tmpl, tmpl, &key.PublicKey, key)
	if err != nil {
		return nil, nil, err
	}
	c, err := x509.ParseCertificate(der)
	return c, key, err
}

func newLeaf(ca *x509.Certificate, caKey *ecdsa.PrivateKey, cn string, dns []string, ips []net.IP, notBefore, notAfter time.Time, usage x509.ExtKeyUsage) (tls.Certificate, []byte, []byte, error) {
	key, err := ecdsa.GenerateKey(elliptic.P256(), rand.Reader)
	if err != nil {
		return tls.Certificate{}, nil, nil, err
	}
	tmpl := &x509.Certificate{
		SerialNumber: big.NewInt(time.Now().UnixNano()), Subject: pkix.Name{CommonName: cn},
		NotBefore: notBefore, NotAfter: notAfter, DNSNames: dns, IPAddresses: ips,
		KeyUsage: x509.KeyUsageDigitalSignature, ExtKeyUsage: []x509.ExtKeyUsage{usage},
	}
	der, err := x509.CreateCertificate(rand.Reader, tmpl, ca, &key.PublicKey, caKey)
	if err != nil {
		return tls.Certificate{}, nil, nil, err
	}
	kd, err := x509.MarshalECPrivateKey(key)
	if err != nil {
		return tls.Certificate{}, nil, nil, err
	}
	cp := pem.EncodeToMemory(&pem.Block{Type: "CERTIFICATE", Bytes: der})
	kp := pem.EncodeToMemory(&pem.Block{Type: "EC PRIVATE KEY", Bytes: kd})
	tc, err := tls.X509KeyPair(cp, kp)
	return tc, cp, kp, err
}

// material generates the certificates and files once per worker run.
func material() (*keyMaterial, error) {
	pkiOnce.Do(func() {
		m := &keyMaterial{serverCerts: map[string]tls.Certificate{}}
		exe, err := os.Executable()
		if err != nil {
			pkiErr = err
			return
		}
		// bin/check builds the worker at <scratch>/worker next to <scratch>/repo (the tree under check)
		repoPKI := filepath.Join(filepath.Dir(exe), "repo", "testdata", "pki")
		if _, err := os.Stat(repoPKI); err != nil {
			repoPKI = filepath.Join(envOr("VERIF_REPO", "/repo"), "testdata", "pki")
		}
		m.repoCA = filepath.Join(repoPKI, "ca.crt")
		m.repoCAKey = filepath.Join(repoPKI, "ca.key")
		m.repoClientCert, m.repoClientKey = filepath.Join(repoPKI, "gocql.crt"), filepath.Join(repoPKI, "gocql.key")
		m.repoServerCert, m.repoServerKey = filepath.Join(repoPKI, "cassandra.crt"), filepath.Join(repoPKI, "cassandra.key")
		for _, f := range []string{m.repoCA, m.repoCAKey, m.repoClientCert, m.repoClientKey, m.repoServerCert, m.repoServerKey} {
			if _, err := os.Stat(f); err != nil {
				pkiErr = fmt.Errorf("repository PKI file missing: %v", err)
				return
			}
		}
		m.dir, err = os.MkdirTemp("/var/tmp", "verif-c20-pki-")
		if err != nil {
			pkiErr = err
			return
		}
		goodCA, goodKey, err := newCA("verif good CA")
		if err != nil {
			pkiErr = err
			return
		}
		otherCA, otherKey, err := newCA("verif other CA")
		if err != nil {
			pkiErr = err
			return
		}
		m.goodCA, m.otherCA = goodCA, otherCA
		m.goodCAPool = x509.NewCertPool()
		m.goodCAPool.AddCert(goodCA)
		m.goodCAFile = filepath.Join(m.dir, "good-ca.pem")
		if err := os.WriteFile(m.goodCAFile, pem.EncodeToMemory(&pem.Block{Type: "CERTIFICATE", Bytes: goodCA.Raw}), 0o644); err != nil {
			pkiErr = err
			return
		}
		now := time.Now()
		sans, ips := []string{dialName, explicitName}, []net.IP{dialV4, dialV6}
		type spec struct {
			name       string
			ca         *x509.Certificate
			key        *ecdsa.PrivateKey
			dns        []string
			ips        []net.IP
			nb, na     time.Time
		}
		for _, s := range []spec{
			{"good", goodCA, goodKey, sans, ips, now.Add(-time.Hour), now.Add(365 * 24 * time.Hour)},
			{"wrong-ca", otherCA, otherKey, sans, ips, now.Add(-time.Hour), now.Add(365 * 24 * time.Hour)},
			{"wrong-name", goodCA, goodKey, []string{"other.cass.verif.test"}, []net.IP{net.ParseIP("10.9.9.9"), net.ParseIP("fd00::9")}, now.Add(-time.Hour), now.Add(365 * 24 * time.Hour)},
			{"expired", goodCA, goodKey, sans, ips, now.Add(-48 * time.Hour), now.Add(-24 * time.Hour)},
		} {
			tc, _, _, err := newLeaf(s.ca, s.key, s.name, s.dns, s.ips, s.nb, s.na, x509.ExtKeyUsageServerAuth)
			if err != nil {
				pkiErr = err
				return
			}
			m.serverCerts[s.name] = tc
		}
		rc, err := tls.LoadX509KeyPair(m.repoServerCert, m.repoServerKey)
		if err != nil {
			pkiErr = fmt.Errorf("repository server key pair: %v", err)
			return
		}
		m.serverCerts["repo-cassandra"] = rc
		cc, cp, kp, err := newLeaf(goodCA, goodKey, "verif client", nil, nil, now.Add(-time.Hour), now.Add(365*24*time.Hour), x509.ExtKeyUsageClientAuth)
		if err != nil {
			pkiErr = err
			return
		}
		m.clientCert = cc
		m.clientCertFile, m.clientKeyFile = filepath.Join(m.dir, "client.crt"), filepath.Join(m.dir, "client.key")
		os.WriteFile(m.clientCertFile, cp, 0o644)
		os.WriteFile(m.clientKeyFile, kp, 0o600)
		m.missing = filepath.Join(m.dir, "does-not-exist.pem")
		m.directory = filepath.Join(m.dir, "a-directory")
		os.Mkdir(m.directory, 0o755)
		m.garbage = filepath.Join(m.dir, "garbage.pem")
		os.WriteFile(m.garbage, []byte("this is not PEM\x00\x01\x02 -----BEGIN NOTHING-----\n"), 0o644)
		m.empty = filepath.Join(m.dir, "empty.pem")
		os.WriteFile(m.empty, nil, 0o644)
		pki = m
	})
	return pki, pkiErr
}

func envOr(k, d string) string {
	if v := os.Getenv(k); v != "" {
		return v
	}
	return d
}
