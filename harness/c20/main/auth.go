package main

import (
	"bytes"
	"fmt"
	"strings"

	"github.com/gocql/gocql"
	"verif/engine/report"
)

type authCase struct {
	Class    string
	Allowed  []string
	Username string
	Password string
}

// suitePasswordAuthenticator: PasswordAuthenticator.Challenge(class) returns the SASL PLAIN
// token 0x00 user 0x00 password exactly for an approved class (the caller's list if non-empty,
// else the built-in default list), and an error and no token otherwise.
func suitePasswordAuthenticator(r *report.Run) {
	builtin := gocql.VerifDefaultApprovedAuthenticators()
	if len(builtin) == 0 {
		r.Violation("auth:built-in-approved-list-is-empty", "defaultApprovedAuthenticators is empty", nil)
		return
	}
	for _, b := range builtin {
		if b == "" {
			r.Violation("auth:built-in-approved-list-contains-empty-class", fmt.Sprintf("%q", builtin), nil)
		}
	}
	const custom = "com.example.auth.CustomAuthenticator"
	const unknown = "org.evil.auth.GiveMeYourPassword"
	classes := append([]string{}, builtin...)
	classes = append(classes, custom, unknown, "")
	// near-misses of an approved name: must not be approved by the default list
	p := builtin[0]
	classes = append(classes, p+" ", " "+p, strings.ToLower(p), p+"\x00", p[:len(p)-1], p+"2")
	allowedSets := [][]string{nil, {}, {custom}, {custom, builtin[0]}, {""}}
	creds := []string{"", "cassandra", "pässwörd-✓-ユーザー", "with\x00nul"}
	n, approvedN, refusedN := 0, 0, 0
	for _, class := range classes {
		for _, allowed := range allowedSets {
			// reference: the caller's list if it has entries, otherwise the built-in list
			list := allowed
			if len(list) == 0 {
				list = builtin
			}
			approved := false
			for _, a := range list {
				approved = approved || a == class
			}
			for _, user := range creds {
				for _, pass := range creds {
					tc := authCase{class, allowed, user, pass}
					id := fmt.Sprintf("%q|%q|%q|%q", class, allowed, user, pass)
					n++
					guard(r, "PasswordAuthenticator.Challenge", tc, func() {
						a := gocql.PasswordAuthenticator{Username: user, Password: pass, AllowedAuthenticators: allowed}
						resp, next, err := a.Challenge([]byte(class))
						r.Case("auth|"+id, true)
						want := append(append(append([]byte{0}, user...), 0), pass...)
						kind := "default-list"
						if len(allowed) > 0 {
							kind = "callers-list"
						}
						if approved {
							approvedN++
							if err != nil {
								r.Violation("auth:approved-class-refused:"+kind, fmt.Sprintf("%s: %v", id, err), tc)
							} else if !bytes.Equal(resp, want) {
								r.Violation("auth:token-is-not-SASL-PLAIN", fmt.Sprintf("%s: token %x, want %x", id, resp, want), tc)
							}
							if next != nil {
								r.Violation("auth:unexpected-follow-up-authenticator", id, tc)
							}
						} else {
							refusedN++
							if err == nil {
								r.Violation("auth:credentials-for-unapproved-class:"+kind, fmt.Sprintf("%s: Challenge returned token %x and no error", id, resp), tc)
							} else if len(resp) != 0 {
								r.Violation("auth:token-returned-together-with-error:"+kind, fmt.Sprintf("%s: token %x, err %v", id, resp, err), tc)
							}
						}
						if user == "pässwörd-✓-ユーザー" && pass == "cassandra" && allowed == nil && (class == builtin[0] || class == unknown) {
							sample(r, "password-authenticator", 2, map[string]interface{}{"class": class, "allowed": allowed, "user": user, "password": pass, "token": fmt.Sprintf("%x", resp), "error": fmt.Sprint(err)})
						}
					})
				}
			}
		}
	}
	r.Extra("auth_cases", n)
	r.Extra("auth_cases_approved", approvedN)
	r.Extra("auth_cases_refused", refusedN)
	r.Extra("auth_builtin_approved_classes", len(builtin))
}
