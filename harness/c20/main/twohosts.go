package main

import (
	"bytes"
	"context"
	"crypto/tls"
	"fmt"
	"io"
	"net"
	"time"

	"github.com/gocql/gocql"

	"verif/engine/report"
)

// suiteTLSTwoHosts: "when verifying without an explicit server name [the driver] uses the name of
// the host being dialled" must hold for EVERY host a session dials, not only the first one: one
// dialer (as one session has) dials host A and host B in both orders, each node presenting either
// its own certificate or the other node's. Complete product of {config kind} x {order} x {who presents what}.
func suiteTLSTwoHosts(r *report.Run) {
	m, err := material()
	if err != nil {
		r.Infra("pki: %v", err)
		return
	}
	type node struct {
		name string
		ip   net.IP
		cert string // certificate valid for this node's name
	}
	a := node{dialName, dialV4, "good"}
	b := node{"other.cass.verif.test", net.ParseIP("10.9.9.9"), "wrong-name"}
	type kind struct {
		name string
		opts func() *gocql.SslOptions
	}
	kinds := []kind{
		{"no-user-config+EHV+CaPath", func() *gocql.SslOptions {
			return &gocql.SslOptions{EnableHostVerification: true, CaPath: m.goodCAFile}
		}},
		{"user-config-with-RootCAs", func() *gocql.SslOptions {
			return &gocql.SslOptions{Config: &tls.Config{RootCAs: m.goodCAPool}}
		}},
	}
	dial := func(hd gocql.HostDialer, d *pipeDialer, target node, presented string) (bool, error) {
		d.serverCfg = &tls.Config{Certificates: []tls.Certificate{m.serverCerts[presented]}, ClientAuth: tls.RequestClientCert}
		ctx, cancel := context.WithTimeout(context.Background(), 30*time.Second)
		defer cancel()
		dh, derr := hd.DialHost(ctx, gocql.VerifNamedHost(target.name, target.ip, dialPort))
		ok := false
		if derr == nil {
			dh.Conn.SetDeadline(time.Now().Add(30 * time.Second))
			buf := make([]byte, 2)
			if _, e := io.ReadFull(dh.Conn, buf); e == nil && bytes.Equal(buf, []byte("ok")) {
				ok = true
			}
			dh.Conn.Close()
		}
		select {
		case <-d.res:
		case <-time.After(40 * time.Second):
			return false, fmt.Errorf("the TLS server goroutine did not finish")
		}
		return ok, nil
	}
	for _, k := range kinds {
		for _, order := range [][2]node{{a, b}, {b, a}} {
			for _, secondPresentsOwn := range []bool{true, false} {
				id := fmt.Sprintf("%s|first=%s|second=%s|second-presents-own-cert=%v", k.name, order[0].name, order[1].name, secondPresentsOwn)
				guard(r, "two-hosts", id, func() {
					cluster := gocql.NewCluster("127.0.0.1")
					cluster.SslOpts = k.opts()
					d := &pipeDialer{res: make(chan serverResult, 1)}
					cluster.Dialer = d
					hd, _, err := gocql.VerifHostDialer(cluster)
					if err != nil {
						r.Violation("tls:unexpected-error", fmt.Sprintf("%s: %v", id, err), id)
						return
					}
					ok1, ierr := dial(hd, d, order[0], order[0].cert)
					if ierr != nil {
						r.Infra("%s: %v", id, ierr)
						return
					}
					if !ok1 {
						r.Violation("tls:two-hosts:first-host-rejected-with-its-own-valid-certificate", id, id)
						return
					}
					presented := order[1].cert
					if !secondPresentsOwn {
						presented = order[0].cert
					}
					ok2, ierr := dial(hd, d, order[1], presented)
					if ierr != nil {
						r.Infra("%s: %v", id, ierr)
						return
					}
					r.Case("two-hosts|"+id, true)
					if secondPresentsOwn && !ok2 {
						r.Violation("tls:two-hosts:second-host-verified-against-another-hosts-name", id+": the second host presents a certificate valid for its own name and is rejected", id)
					}
					if !secondPresentsOwn && ok2 {
						r.Violation("tls:two-hosts:certificate-of-another-host-accepted", id+": the second host presents the FIRST host's certificate and is accepted", id)
					}
				})
			}
		}
	}
}
