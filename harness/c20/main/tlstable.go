package main

import (
	"bytes"
	"crypto/tls"
	"crypto/x509"
	"encoding/pem"
	"fmt"
	"os"
	"reflect"

	"github.com/gocql/gocql"
	"verif/engine/report"
)

// ---- the enumerated dimensions ---------------------------------------------------------------

type cfgKind struct {
	name       string
	present    bool
	isv        bool
	serverName string
	rootCAs    bool // caller's config already carries a RootCAs pool (holding the generated good CA)
}

func cfgKinds(withMismatch bool) []cfgKind {
	out := []cfgKind{{name: "Config=nil"}}
	names := []string{"", explicitName}
	if withMismatch {
		names = append(names, mismatchName)
	}
	for _, isv := range []bool{false, true} {
		for _, sn := range names {
			for _, roots := range []bool{false, true} {
				out = append(out, cfgKind{
					name:    fmt.Sprintf("Config{InsecureSkipVerify=%v,ServerName=%q,RootCAs=%v}", isv, sn, map[bool]string{false: "nil", true: "set"}[roots]),
					present: true, isv: isv, serverName: sn, rootCAs: roots})
			}
		}
	}
	return out
}

// build returns a fresh caller-owned tls.Config for the kind (nil for Config=nil).
func (k cfgKind) build(m *keyMaterial) *tls.Config {
	if !k.present {
		return nil
	}
	c := &tls.Config{InsecureSkipVerify: k.isv, ServerName: k.serverName, MinVersion: tls.VersionTLS12, NextProtos: []string{"verif"}}
	if k.rootCAs {
		c.RootCAs = x509.NewCertPool()
		c.RootCAs.AddCert(m.goodCA)
	}
	return c
}

// documented table (doc.go "Transport layer security", conn.go SslOptions, connectionpool.go):
//
//	Config.InsecureSkipVerify | EnableHostVerification | Result
//	Config is nil             | false                  | do not verify host
//	Config is nil             | true                   | verify host
//	false                     | false                  | verify host
//	true                      | false                  | do not verify host
//	false                     | true                   | verify host
//	true                      | true                   | verify host
func documentedVerify(k cfgKind, ehv bool) (verify bool, row string) {
	switch {
	case !k.present && !ehv:
		return false, "Config-nil|EHV=false"
	case !k.present && ehv:
		return true, "Config-nil|EHV=true"
	case !k.isv && !ehv:
		return true, "ISV=false|EHV=false"
	case k.isv && !ehv:
		return false, "ISV=true|EHV=false"
	case !k.isv && ehv:
		return true, "ISV=false|EHV=true"
	default:
		return true, "ISV=true|EHV=true"
	}
}

type caVariant struct {
	name, path string
	ok         bool
	subject    []byte // RawSubject of the CA the file holds (ok variants)
	good       bool   // holds the generated good CA
}

type keyPairVariant struct {
	name, cert, key string
	ok              bool
	leafDER         []byte
	generated       bool
}

func firstCertDER(path string) []byte {
	b, err := os.ReadFile(path)
	if err != nil {
		return nil
	}
	for {
		var blk *pem.Block
		blk, b = pem.Decode(b)
		if blk == nil {
			return nil
		}
		if blk.Type == "CERTIFICATE" {
			return blk.Bytes
		}
	}
}

func caVariants(m *keyMaterial) []caVariant {
	repoCA, _ := x509.ParseCertificate(firstCertDER(m.repoCA))
	return []caVariant{
		{name: "absent", path: "", ok: true},
		{name: "valid-repo-ca.crt", path: m.repoCA, ok: true, subject: repoCA.RawSubject},
		{name: "valid-generated-ca", path: m.goodCAFile, ok: true, subject: m.goodCA.RawSubject, good: true},
		{name: "missing-file", path: m.missing},
		{name: "directory", path: m.directory},
		{name: "garbage-not-PEM", path: m.garbage},
		{name: "empty-file", path: m.empty},
		{name: "PEM-without-certificate", path: m.repoCAKey},
	}
}

func keyPairVariants(m *keyMaterial) []keyPairVariant {
	return []keyPairVariant{
		{name: "absent", ok: true},
		{name: "valid-pair-repo", cert: m.repoClientCert, key: m.repoClientKey, ok: true, leafDER: firstCertDER(m.repoClientCert)},
		{name: "valid-pair-generated", cert: m.clientCertFile, key: m.clientKeyFile, ok: true, leafDER: firstCertDER(m.clientCertFile), generated: true},
		{name: "only-cert", cert: m.repoClientCert},
		{name: "only-key", key: m.repoClientKey},
		{name: "mismatched-pair", cert: m.repoClientCert, key: m.repoServerKey},
		{name: "missing-cert-file", cert: m.missing, key: m.repoClientKey},
		{name: "missing-key-file", cert: m.repoClientCert, key: m.missing},
		{name: "garbage-cert", cert: m.garbage, key: m.repoClientKey},
		{name: "garbage-key", cert: m.repoClientCert, key: m.garbage},
		{name: "swapped-cert-and-key", cert: m.repoClientKey, key: m.repoClientCert},
	}
}

type hostKind struct {
	name     string
	make     func() (*gocql.HostInfo, error)
	accepted []string // acceptable ServerName values denoting the dialled host
}

func hostKinds() []hostKind {
	first := func(addr string) func() (*gocql.HostInfo, error) {
		return func() (*gocql.HostInfo, error) {
			hs, err := gocql.VerifHostInfos(addr, dialPort)
			if err != nil || len(hs) != 1 {
				return nil, fmt.Errorf("hostInfo(%q): %v, %d hosts", addr, err, len(hs))
			}
			return hs[0], nil
		}
	}
	return []hostKind{
		{"name:port", func() (*gocql.HostInfo, error) { return gocql.VerifNamedHost(dialName, dialV4, dialPort), nil }, []string{dialName}},
		{"ipv4:port", first("127.0.0.1:9042"), []string{"127.0.0.1"}},
		// crypto/x509 accepts an IP literal with or without brackets as the name to verify
		{"[ipv6]:port", first("[::1]:9042"), []string{"::1", "[::1]"}},
		{"ipv6-default-port", first("::1"), []string{"::1", "[::1]"}},
	}
}

// ---- snapshot of the caller's tls.Config -----------------------------------------------------

type cfgSnapshot struct {
	clone    *tls.Config
	rootsPtr *x509.CertPool
	roots    *x509.CertPool
	certs    [][]byte
}

func snapshot(c *tls.Config) *cfgSnapshot {
	if c == nil {
		return nil
	}
	s := &cfgSnapshot{clone: c.Clone(), rootsPtr: c.RootCAs}
	if c.RootCAs != nil {
		s.roots = c.RootCAs.Clone()
	}
	for _, tc := range c.Certificates {
		for _, der := range tc.Certificate {
			s.certs = append(s.certs, append([]byte(nil), der...))
		}
	}
	return s
}

// changed lists the exported fields of the caller's config that differ from the snapshot.
func (s *cfgSnapshot) changed(c *tls.Config) []string {
	if s == nil {
		return nil
	}
	var out []string
	before, after := reflect.ValueOf(s.clone).Elem(), reflect.ValueOf(c).Elem()
	t := before.Type()
	for i := 0; i < t.NumField(); i++ {
		f := t.Field(i)
		if f.PkgPath != "" { // unexported (mutex, once, session ticket keys)
			continue
		}
		b, a := before.Field(i), after.Field(i)
		switch {
		case f.Type.Kind() == reflect.Func:
			if b.IsNil() != a.IsNil() || (!b.IsNil() && b.Pointer() != a.Pointer()) {
				out = append(out, f.Name)
			}
		case f.Name == "RootCAs":
			if c.RootCAs != s.rootsPtr {
				out = append(out, "RootCAs(pointer)")
			} else if c.RootCAs != nil && !c.RootCAs.Equal(s.roots) {
				out = append(out, "RootCAs(pool-contents)")
			}
		default:
			if !reflect.DeepEqual(b.Interface(), a.Interface()) {
				out = append(out, f.Name)
			}
		}
	}
	var certs [][]byte
	for _, tc := range c.Certificates {
		certs = append(certs, tc.Certificate...)
	}
	if len(certs) != len(s.certs) {
		out = append(out, "Certificates(count)")
	} else {
		for i := range certs {
			if !bytes.Equal(certs[i], s.certs[i]) {
				out = append(out, "Certificates(content)")
				break
			}
		}
	}
	return out
}

func poolHasSubject(p *x509.CertPool, subj []byte) bool {
	if p == nil {
		return false
	}
	for _, s := range p.Subjects() { //nolint:staticcheck // fine for pools built from files
		if bytes.Equal(s, subj) {
			return true
		}
	}
	return false
}

func contains(list []string, s string) bool {
	for _, x := range list {
		if x == s {
			return true
		}
	}
	return false
}

// ---- suite -----------------------------------------------------------------------------------

type tlsCase struct {
	Config                 string
	EnableHostVerification bool
	CaPath, KeyPair, Host  string
}

func suiteTLSTable(r *report.Run) {
	m, err := material()
	if err != nil {
		r.Infra("key material: %v", err)
		return
	}
	var nCfg, nErr, nOK, nHost int
	rows := map[string]int{}
	for _, k := range cfgKinds(false) {
		for _, ehv := range []bool{false, true} {
			for _, ca := range caVariants(m) {
				for _, kp := range keyPairVariants(m) {
					tc := tlsCase{k.name, ehv, ca.name, kp.name, ""}
					id := fmt.Sprintf("%s|EHV=%v|ca=%s|pair=%s", k.name, ehv, ca.name, kp.name)
					nCfg++
					guard(r, "connConfig", tc, func() {
						caller := k.build(m)
						snap := snapshot(caller)
						opts := &gocql.SslOptions{Config: caller, EnableHostVerification: ehv, CaPath: ca.path, CertPath: kp.cert, KeyPath: kp.key}
						optsBefore := *opts
						cluster := gocql.NewCluster("127.0.0.1")
						cluster.SslOpts = opts
						_, shared, err := gocql.VerifHostDialer(cluster)
						r.Case("table|"+id, err == nil)
						if ch := snap.changed(caller); len(ch) > 0 {
							for _, f := range ch {
								r.Violation("tls:caller-config-modified:"+f, fmt.Sprintf("%s: the caller's own tls.Config differs after connConfig/setupTLSConfig in %v", id, ch), tc)
							}
						}
						if *opts != optsBefore {
							r.Violation("tls:caller-SslOptions-modified", id, tc)
						}
						wantErr := !ca.ok || !kp.ok
						if wantErr {
							nErr++
							if err == nil {
								which := "ca:" + ca.name
								if ca.ok {
									which = "keypair:" + kp.name
								}
								r.Violation("tls:bad-file-accepted:"+which, fmt.Sprintf("%s: connConfig returned no error", id), tc)
							}
							return
						}
						if err != nil {
							r.Violation("tls:unexpected-error", fmt.Sprintf("%s: %v", id, err), tc)
							return
						}
						nOK++
						if shared == nil {
							r.Violation("tls:no-tls-config-although-SslOpts-set", id, tc)
							return
						}
						verify, row := documentedVerify(k, ehv)
						rows[row]++
						if shared.InsecureSkipVerify != !verify {
							r.Violation("tls:table:"+row, fmt.Sprintf("%s: documented result verify=%v, the dial config has InsecureSkipVerify=%v", id, verify, shared.InsecureSkipVerify), tc)
						}
						if ca.subject != nil && !poolHasSubject(shared.RootCAs, ca.subject) {
							r.Violation("tls:ca-file-not-in-root-pool", fmt.Sprintf("%s: RootCAs of the dial config lacks the CA from CaPath", id), tc)
						}
						if k.rootCAs && !poolHasSubject(shared.RootCAs, m.goodCA.RawSubject) {
							r.Violation("tls:callers-root-pool-dropped", fmt.Sprintf("%s: RootCAs of the dial config lacks the caller's CA", id), tc)
						}
						if kp.leafDER != nil {
							found := false
							for _, c := range shared.Certificates {
								found = found || (len(c.Certificate) > 0 && bytes.Equal(c.Certificate[0], kp.leafDER))
							}
							if !found {
								r.Violation("tls:client-key-pair-not-loaded", fmt.Sprintf("%s: Certificates of the dial config lacks the pair from CertPath/KeyPath", id), tc)
							}
						}
						for _, hk := range hostKinds() {
							tc := tc
							tc.Host = hk.name
							nHost++
							h, err := hk.make()
							if err != nil {
								r.Infra("%v", err)
								continue
							}
							addr := h.HostnameAndPort()
							sharedName := shared.ServerName
							eff := gocql.VerifTLSConfigForAddr(shared, addr)
							r.Case("table|"+id+"|"+hk.name, true)
							if eff == nil {
								r.Violation("tls:no-effective-config", id+"|"+hk.name, tc)
								continue
							}
							if eff.InsecureSkipVerify != !verify {
								r.Violation("tls:table:"+row, fmt.Sprintf("%s host %s (%s): documented result verify=%v, the config handed to tls.Client has InsecureSkipVerify=%v", id, hk.name, addr, verify, eff.InsecureSkipVerify), tc)
							}
							switch {
							case k.serverName != "":
								if eff.ServerName != k.serverName {
									r.Violation("tls:explicit-ServerName-not-used", fmt.Sprintf("%s host %s: ServerName %q, caller set %q", id, hk.name, eff.ServerName, k.serverName), tc)
								}
							case verify:
								if !contains(hk.accepted, eff.ServerName) {
									r.Violation("tls:server-name-is-not-the-dialled-host:"+hk.name, fmt.Sprintf("%s: dialling %s, ServerName used for verification is %q, want one of %q", id, addr, eff.ServerName, hk.accepted), tc)
								}
							}
							if shared.ServerName != sharedName {
								r.Violation("tls:shared-dial-config-modified-per-host", fmt.Sprintf("%s host %s: the config shared by all connections got ServerName %q", id, hk.name, shared.ServerName), tc)
							}
							if ch := snap.changed(caller); len(ch) > 0 {
								for _, f := range ch {
									r.Violation("tls:caller-config-modified:"+f, fmt.Sprintf("%s host %s: the caller's own tls.Config differs after tlsConfigForAddr in %v", id, hk.name, ch), tc)
								}
							}
							if verify && k.serverName == "" && hk.name != "name:port" && ca.good && kp.generated {
								sample(r, "tls-table", 2, map[string]interface{}{"case": tc, "documented_verify": verify, "InsecureSkipVerify_used": eff.InsecureSkipVerify, "ServerName_used": eff.ServerName, "dialled": addr})
							}
						}
					})
				}
			}
		}
	}
	r.Extra("tls_table_configurations", nCfg)
	r.Extra("tls_table_configurations_with_a_bad_file", nErr)
	r.Extra("tls_table_configurations_ok", nOK)
	r.Extra("tls_table_per_host_cases", nHost)
	r.Extra("tls_table_rows_exercised", rows)
}
