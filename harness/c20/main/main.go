// Worker of check C20 (TLS verification table, key material errors, PasswordAuthenticator).
// Sequential, bounded-exhaustive part ("mode B"). Each sub-suite is a func(*report.Run); the
// controlled-scheduler sub-suite for the on-the-wire authentication handshake is appended to
// `suites` by the lead. See NOTES.md.
package main

import (
	"fmt"
	"os"
	"runtime/debug"
	"sync"

	"verif/engine/report"
)

type suite struct {
	name string
	fn   func(r *report.Run)
}

var suites = []suite{
	{"tls-table", suiteTLSTable},
	{"tls-handshake", suiteTLSHandshake},
	{"tls-two-hosts", suiteTLSTwoHosts},
	{"password-authenticator", suitePasswordAuthenticator},
}

func main() {
	r := report.New("C20", "exploration")
	r.SetRule("complete products, nested loops: " +
		"(1) tls-table: SslOptions.Config in {nil, present x InsecureSkipVerify x ServerName unset/set x RootCAs nil/pre-populated} x EnableHostVerification x CaPath in {absent, valid (repo ca.crt), valid (generated CA), missing file, directory, garbage, empty file, PEM without certificate} x CertPath/KeyPath in {absent, valid pair (repo), valid pair (generated), only cert, only key, mismatched pair, missing cert, missing key, garbage cert, garbage key, swapped} x contact point as name / IPv4:port / [IPv6]:port / IPv6 without port -> connConfig (setupTLSConfig) + tlsConfigForAddr; " +
		"(2) tls-handshake: the error-free subset x server certificate in {good, wrong CA, wrong name, expired, repo's cassandra.crt} x explicit ServerName in {unset, matching, mismatching}: real crypto/tls handshakes over net.Pipe through defaultHostDialer.DialHost / WrapTLS; " +
		"(3) password-authenticator: authenticator class offered in {each built-in approved class, a custom one, an unknown one, empty, 5 near-misses of an approved name} x AllowedAuthenticators in {nil, empty, [custom], [custom, PasswordAuthenticator], [\"\"]} x user x password in {\"\", ascii, non-ASCII, with NUL}. " +
		"A case is distinct by its configuration tuple; non-trivial = a TLS config was produced / a handshake ran / Challenge returned.")
	r.Assume(
		"the documented table is doc.go / conn.go SslOptions / connectionpool.go setupTLSConfig (all three agree): Config nil -> verify iff EnableHostVerification; Config present -> verify unless InsecureSkipVerify && !EnableHostVerification",
		"TLS is exercised through crypto/tls over in-process net.Pipe connections only; outcome of the handshake only, no timing",
		"the repository's testdata/pki certificates expired in 2024 and carry no SANs: they are used for the file-loading enumeration and as a must-fail server certificate; the certificates that must verify are generated in the worker (ECDSA P-256, SANs for the dialled name and addresses)",
		"the on-the-wire authentication handshake (AUTHENTICATE -> AUTH_RESPONSE only for approved classes; AUTHENTICATE without configured credentials is an error) is decided by the handshake sub-suite, not here",
	)
	for _, s := range suites {
		runSuite(r, s)
	}
	cleanupPKI()
	os.Exit(r.Finish(true))
}

func runSuite(r *report.Run, s suite) {
	defer func() {
		if p := recover(); p != nil {
			r.Violation("panic:suite:"+s.name, fmt.Sprintf("panic escaped suite %s: %v\n%s", s.name, p, debug.Stack()), s.name)
		}
	}()
	s.fn(r)
}

func guard(r *report.Run, site string, replay interface{}, f func()) (ok bool) {
	defer func() {
		if p := recover(); p != nil {
			ok = false
			r.Violation("panic:"+site, fmt.Sprintf("%v\n%s", p, debug.Stack()), replay)
		}
	}()
	f()
	return true
}

var (
	sampleMu sync.Mutex
	sampleN  = map[string]int{}
)

func sample(r *report.Run, suite string, max int, v map[string]interface{}) {
	sampleMu.Lock()
	defer sampleMu.Unlock()
	if sampleN[suite] >= max {
		return
	}
	sampleN[suite]++
	v["suite"] = suite
	r.Sample(v)
}
