// C20, controlled-scheduler part: authentication on the wire. One real handshake of the
// instrumented gocql (gocql.VerifDial) over an in-memory pipe against a scripted node that answers
// STARTUP with AUTHENTICATE(class). Free choices (all explored): the class the node names, how the
// client is configured (no authenticator / ClusterConfig.Authenticator = PasswordAuthenticator with the
// default or a custom allow-list / ClusterConfig.AuthProvider returning such an authenticator,
// returning (nil, nil) for the host, or returning an error), user name and password (empty, ASCII, non-ASCII) and the node's answer to the
// AUTH_RESPONSE (AUTH_SUCCESS / AUTH_CHALLENGE then AUTH_SUCCESS / ERROR bad credentials).
// The oracle reads what the node received and the complete client->server byte log.
package main

import (
	"bytes"
	"fmt"
	"net"
	"os"
	"strings"
	"time"

	"github.com/gocql/gocql"

	"verif/engine/mcreport"
	"verif/engine/refcql/frame"
	"verif/engine/vnode"
	vs "verif/engine/vsched"
	"verif/engine/vsched/vatomic"
	context "verif/engine/vsched/vcontext"
	"verif/engine/vsched/vnet"
)

// the built-in approved list, copied from the documentation of the defect-free behaviour (conn.go
// defaultApprovedAuthenticators); the first two are used as "approved by default"
var defaultApproved = []string{
	"org.apache.cassandra.auth.PasswordAuthenticator",
	"com.instaclustr.cassandra.auth.SharedSecretAuthenticator",
	"com.datastax.bdp.cassandra.auth.DseAuthenticator",
	"io.aiven.cassandra.auth.AivenAuthenticator",
	"com.ericsson.bss.cassandra.ecaudit.auth.AuditPasswordAuthenticator",
	"com.amazon.helenus.auth.HelenusAuthenticator",
	"com.ericsson.bss.cassandra.ecaudit.auth.AuditAuthenticator",
	"com.scylladb.auth.SaslauthdAuthenticator",
	"com.scylladb.auth.TransitionalAuthenticator",
	"com.instaclustr.cassandra.auth.InstaclustrPasswordAuthenticator",
}

// observations the outcome classifier looks for
const (
	obsNoCreds       = "no-credentials-for-the-host+node-demands-authentication"
	obsChallengeSent = "node-sent-AUTH_CHALLENGE"
)

const noAuth = "<READY: the node demands no authentication>"

var classes = []string{
	"org.apache.cassandra.auth.PasswordAuthenticator",
	"com.datastax.bdp.cassandra.auth.DseAuthenticator",
	"com.example.Custom",
	"",
	"org.apache.cassandra.auth.AllowAllAuthenticatorX", // unknown to every list
	"org.apache.cassandra.auth.passwordauthenticator",  // differs from an approved name by case only
	noAuth,
}

// how the client's authenticator is configured. auth: the configuration resolves to credentials for the host
// being dialled (only then may an AUTH_RESPONSE ever be sent); provider: through ClusterConfig.AuthProvider
// instead of ClusterConfig.Authenticator
const (
	provNone  = iota // ClusterConfig.Authenticator (or nothing)
	provAuth         // AuthProvider returns the PasswordAuthenticator
	provNil          // AuthProvider returns (nil, nil): no credentials for this host
	provError        // AuthProvider returns (nil, error)
)

var clients = []struct {
	name     string
	auth     bool
	allowed  []string
	provider int
}{
	{"no-authenticator", false, nil, provNone},
	{"password/default-list", true, nil, provNone},
	{"password/custom-list", true, []string{"com.example.Custom", "com.example.Other"}, provNone},
	{"provider->password/default-list", true, nil, provAuth},
	{"provider->password/custom-list", true, []string{"com.example.Custom", "com.example.Other"}, provAuth},
	{"provider->nil,nil", false, nil, provNil},
	{"provider->nil,error", false, nil, provError},
}

var errProvider = fmt.Errorf("c20: the AuthProvider has no credentials for this host")

var creds = []struct{ user, pass string }{
	{"", ""},
	{"cassandra", "s3cret-pw"},
	{"üser-ñ", "pässwörd-密码"},
}

var followUps = []string{"success", "challenge-then-success", "error-bad-credentials"}

var debug = os.Getenv("MC_DEBUG") != ""

// development switch: VERIF_C20_ALARM_C05_PANIC=1 reports the AUTH_CHALLENGE panic here as well
var alarmC05Panic = os.Getenv("VERIF_C20_ALARM_C05_PANIC") != ""

type c20cfg struct {
	name  string
	proto int
}

func approvedBy(class string, allowed []string) bool {
	if len(allowed) == 0 {
		allowed = defaultApproved
	}
	for _, a := range allowed {
		if a == class {
			return true
		}
	}
	return false
}

// c05Defect: with AUTH_CHALLENGE the unchanged tree calls the nil challenger PasswordAuthenticator.Challenge
// returned (conn.go authenticateHandshake) and panics on the handshake goroutine. That is a violation of C05
// ("well-formed frames of a kind not expected at that point ... never panics"), found and keyed there
// (harness/c05/mc). C20's statement has no no-panic clause, so here that one outcome is counted, not alarmed.
func onOutcome(name string) func(o *vs.Outcome) []vs.Failure {
	return func(o *vs.Outcome) []vs.Failure {
		switch o.Kind {
		case vs.Deadlock:
			return []vs.Failure{{Key: "deadlock:" + name, Detail: "blocked: " + strings.Join(o.Blocked, "; ")}}
		case vs.Panicked:
			challenge, noCreds := false, false
			for _, s := range o.Observed {
				if s == obsChallengeSent {
					challenge = true
				}
				if s == obsNoCreds {
					noCreds = true
				}
			}
			if noCreds {
				// "a server that demands authentication from a client configured without credentials gets an error"
				return []vs.Failure{{Key: "c20:auth:panic-instead-of-an-error-for-AUTHENTICATE-without-credentials",
					Detail: fmt.Sprintf("the node demanded authentication, the configuration yields no authenticator for the host, and the driver panicked at %s: %v\n%s", o.PanicSite, o.PanicVal, o.Stack)}}
			}
			// tolerated only once the node has really sent an AUTH_CHALLENGE (the C05 defect cannot arise before)
			if challenge && strings.Contains(o.PanicSite, "authenticateHandshake") && !alarmC05Panic {
				return nil
			}
			return []vs.Failure{{Key: "panic:" + o.PanicSite, Detail: fmt.Sprintf("%v\n%s", o.PanicVal, o.Stack)}}
		}
		return nil
	}
}

func (c *c20cfg) body() {
	gocql.VerifResetGlobals()
	vatomic.Yield = false
	class := classes[vs.Choose(len(classes), vs.Free)]
	cl := clients[vs.Choose(len(clients), vs.Free)]
	cr := creds[0]
	if cl.auth {
		cr = creds[vs.Choose(len(creds), vs.Free)]
	}
	follow := followUps[0]
	if class != noAuth {
		follow = followUps[vs.Choose(len(followUps), vs.Free)]
	}
	desc := fmt.Sprintf("v%d AUTHENTICATE(%q) client=%s user=%q password=%q node-follow-up=%s", c.proto, class, cl.name, cr.user, cr.pass, follow)
	vs.Observe("class=%q client=%s user=%q followup=%s", class, cl.name, cr.user, follow)

	if !cl.auth && class != noAuth {
		// the property demands an error here: a panic on the handshake thread is not one (see onOutcome)
		vs.Observe(obsNoCreds)
	}

	approved := cl.auth && class != noAuth && approvedBy(class, cl.allowed)
	wantToken := append(append(append([]byte{0}, cr.user...), 0), cr.pass...)
	secret := []byte(cr.pass)
	authResponses, sentSuccess, sentChallenge := 0, false, false

	handler := func(n *vnode.Node, sc *vnode.ServerConn, rec *vnode.ReqRec) vnode.Reply {
		// every client frame passes here: the checks are made on receipt so that they hold whatever happens later
		if len(secret) > 0 && bytes.Contains(rec.Raw, secret) {
			if _, isAuth := rec.Req.Msg.(*frame.AuthResponse); !isAuth || !approved {
				vs.Failf("c20:auth:password-on-the-wire-outside-an-approved-AUTH_RESPONSE", "request %d (%s) contains the password bytes [%s]", rec.Seq, frame.OpName(rec.Op), desc)
			}
		}
		switch m := rec.Req.Msg.(type) {
		case *frame.Options:
			return vnode.Reply{Msg: &frame.Supported{Options: []frame.KL{{Key: "CQL_VERSION", Values: []string{"3.4.5"}}, {Key: "COMPRESSION", Values: []string{"snappy", "lz4"}}}}}
		case *frame.Startup:
			if class == noAuth {
				sc.Ready = true
				return vnode.Reply{Msg: frame.Ready{}}
			}
			return vnode.Reply{Msg: &frame.Authenticate{Class: class}}
		case *frame.AuthResponse:
			authResponses++
			if !cl.auth {
				vs.Failf("c20:auth:AUTH_RESPONSE-from-a-client-without-authenticator", "AUTH_RESPONSE token % x [%s]", m.Token, desc)
			} else if !approved {
				vs.Failf("c20:auth:AUTH_RESPONSE-for-a-class-not-on-the-approved-list", "AUTH_RESPONSE token % x [%s]", m.Token, desc)
			}
			if authResponses == 1 && !bytes.Equal(m.Token, wantToken) {
				vs.Failf("c20:auth:token-is-not-NUL-user-NUL-password", "AUTH_RESPONSE token % x, want % x [%s]", m.Token, wantToken, desc)
			}
			switch {
			case follow == "error-bad-credentials":
				return vnode.Reply{Msg: &frame.Error{Code: 0x0100, Message: "Provided username and/or password are incorrect"}}
			case follow == "challenge-then-success" && authResponses == 1:
				sentChallenge = true
				vs.Observe(obsChallengeSent)
				return vnode.Reply{Msg: &frame.AuthChallenge{Token: []byte("verif-challenge")}}
			}
			sentSuccess = true
			sc.Ready = true
			return vnode.Reply{Msg: &frame.AuthSuccess{Token: nil}}
		case *frame.Query:
			if !sc.Ready {
				vs.Failf("c20:auth:request-on-an-unauthenticated-connection", "QUERY %q received before the node declared the connection ready [%s]", m.Statement, desc)
			}
			return vnode.Reply{Msg: vnode.TextRows("t", "c20")}
		}
		if !sc.Ready {
			vs.Failf("c20:auth:request-on-an-unauthenticated-connection", "%s received before the node declared the connection ready [%s]", frame.OpName(rec.Op), desc)
		}
		return vnode.Reply{Msg: frame.ResultVoid{}}
	}

	var wlog []vnet.WriteRec
	node := vnode.New("n1", net.IPv4(10, 0, 0, 1), 9042, handler)
	client, server := vnet.Pipe("c0", &net.TCPAddr{IP: net.IPv4(10, 0, 0, 9), Port: 40000}, node.Addr)
	client.Log = &wlog
	node.AcceptSync(server)

	cluster := gocql.NewCluster("10.0.0.1")
	cluster.ProtoVersion = c.proto
	cluster.Timeout = 100 * time.Millisecond
	cluster.ConnectTimeout = 100 * time.Millisecond
	cluster.WriteCoalesceWaitTime = 0
	pa := gocql.PasswordAuthenticator{Username: cr.user, Password: cr.pass, AllowedAuthenticators: cl.allowed}
	switch cl.provider {
	case provNone:
		if cl.auth {
			cluster.Authenticator = pa
		}
	case provAuth:
		cluster.AuthProvider = func(*gocql.HostInfo) (gocql.Authenticator, error) { return pa, nil }
	case provNil:
		cluster.AuthProvider = func(*gocql.HostInfo) (gocql.Authenticator, error) { return nil, nil }
	case provError:
		cluster.AuthProvider = func(*gocql.HostInfo) (gocql.Authenticator, error) { return nil, errProvider }
	}
	live, derr := gocql.VerifDial(client, *cluster, true)
	queryRes := "-"
	if derr == nil {
		// the connection is handed to the caller as usable: use it
		it := live.Query(context.Background(), "QUERYX 'c20'").Iter()
		var s string
		n := 0
		for it.Scan(&s) {
			n++
		}
		queryRes = fmt.Sprintf("%d rows/%s", n, strings.SplitN(gocql.VerifErrClass(it.Close()), ":", 2)[0])
	}
	vs.WaitQuiescent()

	// ---------------------------------------------------------------- oracle (the rest; see the handler)
	if derr == nil && class != noAuth && !sentSuccess {
		vs.Failf("c20:auth:usable-connection-without-completed-authentication", "VerifDial returned a connection although the node demanded authentication and never sent AUTH_SUCCESS [%s]", desc)
	}
	if !cl.auth && class != noAuth {
		if derr == nil {
			vs.Failf("c20:auth:no-error-for-AUTHENTICATE-without-configured-authenticator", "the node demanded authentication, the client has no authenticator, and the handshake returned no error [%s]", desc)
		}
		for _, r := range node.Log {
			if r.Op != frame.OpOptions && r.Op != frame.OpStartup {
				vs.Failf("c20:auth:client-without-authenticator-sent-more-than-OPTIONS-STARTUP", "request %d is %s [%s]", r.Seq, frame.OpName(r.Op), desc)
			}
		}
	}
	if len(node.FrameErrors) > 0 {
		vs.Failf("c20:wire:node-cannot-decode-request", "%v [%s]", node.FrameErrors, desc)
	}
	// the whole client->server byte stream, not only whole frames
	if len(secret) > 0 {
		var stream []byte
		for _, w := range wlog {
			stream = append(stream, w.Data...)
		}
		n := bytes.Count(stream, secret)
		allowed := 0
		if approved {
			allowed = authResponses // at most once per AUTH_RESPONSE
		}
		if n > allowed {
			vs.Failf("c20:auth:password-on-the-wire-outside-an-approved-AUTH_RESPONSE", "the password bytes occur %d times in the client->server byte stream, %d AUTH_RESPONSE frames for an approved class were sent [%s]", n, allowed, desc)
		}
	}
	vs.Observe("dial=%v authResponses=%d challenge=%v success=%v query=%s", derr == nil, authResponses, sentChallenge, sentSuccess, queryRes)
	if debug {
		fmt.Fprintf(os.Stderr, "DEBUG %s => dial err=%v authResponses=%d query=%s\n", desc, derr, authResponses, queryRes)
	}
}

func main() {
	b := func(t int) vs.Bounds { return vs.Bounds{P: t, D: t, F: t, T: t} }
	var defs []mcreport.Def
	for _, c := range []*c20cfg{{"auth-handshake-v4", 4}, {"auth-handshake-v3", 3}, {"auth-handshake-v2", 2}} {
		c := c
		defs = append(defs, mcreport.Def{Name: c.name, Quick: b(1), Thorough: b(2), Build: func() *vs.Scenario {
			return &vs.Scenario{Name: c.name, Cfg: vs.Config{MaxSteps: 30000, Horizon: 700 * time.Millisecond, DelayBounded: true}, Body: c.body, OnOutcome: onOutcome(c.name)}
		}})
	}
	mcreport.Main("C20", "exploration",
		"controlled-scheduler part (authentication on the wire): free choices, all explored: class named in AUTHENTICATE {PasswordAuthenticator, DseAuthenticator (both on the built-in list), com.example.Custom, empty, unknown, approved name in lower case, none (READY: the node demands no authentication)} x how the client's authenticator is configured {nothing; ClusterConfig.Authenticator = PasswordAuthenticator with empty / with a custom allow-list; ClusterConfig.AuthProvider returning such a PasswordAuthenticator (empty / custom allow-list); AuthProvider returning (nil, nil) for the host; AuthProvider returning an error} x user/password {empty, ASCII, non-ASCII} x node's answer to AUTH_RESPONSE {AUTH_SUCCESS, AUTH_CHALLENGE then AUTH_SUCCESS, ERROR bad credentials} x protocol {4,3,2} (285 configurations per version), each through the real handshake (VerifDial) on the instrumented Conn, followed by one query when a connection is returned; schedules/timers delay-bounded (at most T departures from the default schedule). Oracle (checked as each frame arrives at the node, and on the complete client->server byte log): AUTH_RESPONSE only from a client whose configuration yields an authenticator for the host and only for a class on the applicable approved list; its token is exactly 00 user 00 password; the password bytes occur nowhere else on the wire; AUTHENTICATE when the configuration yields no authenticator (none configured, provider returned nil or an error) => an error - not a panic - and nothing but OPTIONS/STARTUP sent; a connection is returned only after the node sent AUTH_SUCCESS; no request before the node declared the connection ready",
		[]string{"one connection, connect/request timeout 100ms, horizon 700ms; the scripted node decodes requests with the independent reference decoder",
			"the panic of the unchanged tree on AUTH_CHALLENGE (nil challenger) violates C05, not C20: counted here as an outcome, alarmed by C05's conversation sub-suite"},
		defs, 45*time.Second, 8*time.Minute, nil)
}
