//go:build verif

package gocql

import (
	"crypto/tls"
	"fmt"
	"net"
)

// In-package accessors for check C20. They only call gocql's own functions
// (connConfig, setupTLSConfig via connConfig, tlsConfigForAddr, hostInfo) and expose what
// those return. No logic of their own.

// VerifHostDialer runs connConfig(cfg) — what NewSession does with the cluster configuration —
// and returns the HostDialer connections are dialled with and, for gocql's default dialer, the
// tls.Config it was given (nil if TLS is off).
func VerifHostDialer(cfg *ClusterConfig) (HostDialer, *tls.Config, error) {
	cc, err := connConfig(cfg)
	if err != nil {
		return nil, nil, err
	}
	hd, ok := cc.HostDialer.(*defaultHostDialer)
	if !ok {
		return cc.HostDialer, nil, fmt.Errorf("verif: HostDialer is %T, not the default dialer", cc.HostDialer)
	}
	return hd, hd.tlsConfig, nil
}

// VerifTLSConfigForAddr is dial.go's tlsConfigForAddr: the per-connection config WrapTLS hands to tls.Client.
func VerifTLSConfigForAddr(c *tls.Config, addr string) *tls.Config { return tlsConfigForAddr(c, addr) }

// VerifHostInfos is control.go's hostInfo: how a contact point string becomes HostInfo(s).
func VerifHostInfos(addr string, defaultPort int) ([]*HostInfo, error) {
	return hostInfo(addr, defaultPort)
}

// VerifNamedHost builds the HostInfo hostInfo() builds for a DNS name that resolved to ip
// (control.go: &HostInfo{hostname: host, connectAddress: ip, port: port}), without a DNS lookup.
func VerifNamedHost(name string, ip net.IP, port int) *HostInfo {
	return &HostInfo{hostname: name, connectAddress: ip, port: port}
}

// VerifDefaultApprovedAuthenticators returns a copy of the built-in approved list.
func VerifDefaultApprovedAuthenticators() []string {
	return append([]string(nil), defaultApprovedAuthenticators...)
}
