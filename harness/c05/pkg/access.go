//go:build verif

package gocql

// In-package accessors for the C05 check ("no bytes from the network can crash the
// application"). Nothing here changes driver behaviour: every function only drives
// the driver's own read path (readHeader -> framer.readFrame -> framer.parseFrame ->
// Iter / Session.handleEvent, and the schema type-string parsers) the way conn.go,
// events.go and metadata.go do, under recover, and renders the result
// deterministically so that two runs can be compared.

import (
	"bytes"
	"fmt"
	"reflect"
	"runtime/debug"
	"sort"
	"strconv"
	"strings"
	"sync"
)

// VerifC05FrameIn is one frame-level case.
type VerifC05FrameIn struct {
	// ConnVersion is the protocol version negotiated for the connection (newFramer's
	// argument in Conn.recv); the version byte of the frame itself is Raw[0].
	ConnVersion byte
	// Raw is the complete frame as received: header + body.
	Raw []byte
	// Compressor is the connection's compressor or nil.
	Compressor Compressor
	// Pad is written over the framer's whole (128 byte) initial read buffer before the
	// body is read into it. A parse that looks at bytes past the received body inside
	// that buffer's capacity gives a different result under two different pads.
	Pad byte
	// Consumer selects what the caller does with a RESULT/rows response:
	// "scan" (Iter.Scan into Dests()), "scan-meta" (Iter.Scan into RowData().Values),
	// "scanner" (Iter.Scanner Next/Scan), "mapscan", "slicemap". For any other
	// response the frame is parsed and rendered. "event" sends the frame down the
	// stream -1 path (Session.handleEvent on its own goroutine in production).
	Consumer string
	// Dests returns fresh destinations for "scan"/"scanner" (what the application
	// expects the row to look like). nil = use RowData().
	Dests func() []interface{}
	// MaxIter bounds the harness's own row loop.
	MaxIter int
}

// VerifC05FrameOut is the observed behaviour.
type VerifC05FrameOut struct {
	Stage   string // last stage entered: header, body, parse, iterate, event, done
	Outcome string // deterministic rendering of what the caller saw
	Panic   string // panic value ("" = none)
	Stack   string // stack at the panic
	Rows    int    // rows successfully scanned
	Capped  bool   // harness loop bound reached
}

var (
	verifC05SessOnce sync.Once
	verifC05Sess     *Session
)

// verifC05Session is the smallest Session on which handleEvent can run: a logger and
// the two debouncers with no-op callbacks (the callbacks need a live cluster and are
// outside this check; handleEvent itself, which is what parses the bytes, is real).
func verifC05Session() *Session {
	verifC05SessOnce.Do(func() {
		s := &Session{logger: nopLogger{}}
		s.nodeEvents = newEventDebouncer("verif-node", func([]frame) {}, s.logger)
		s.schemaEvents = newEventDebouncer("verif-schema", func([]frame) {}, s.logger)
		verifC05Sess = s
	})
	return verifC05Sess
}

func verifC05Framer(in *VerifC05FrameIn) (*framer, *frameHeader, string) {
	r := bytes.NewReader(in.Raw)
	var headerBuf [maxFrameHeaderSize]byte
	head, err := readHeader(r, headerBuf[:])
	if err != nil {
		return nil, nil, "header-error: " + err.Error()
	}
	f := newFramer(in.Compressor, in.ConnVersion)
	rb := f.readBuffer[:cap(f.readBuffer)]
	for i := range rb {
		rb[i] = in.Pad
	}
	if err := f.readFrame(r, &head); err != nil {
		return nil, &head, "body-error: " + err.Error()
	}
	return f, &head, ""
}

// VerifC05Frame runs one frame through the driver's read path.
func VerifC05Frame(in VerifC05FrameIn) (out VerifC05FrameOut) {
	defer func() {
		if p := recover(); p != nil {
			out.Panic = fmt.Sprint(p)
			out.Stack = string(debug.Stack())
		}
	}()
	if in.MaxIter <= 0 {
		in.MaxIter = 1 << 16
	}
	out.Stage = "header"
	f, head, msg := verifC05Framer(&in)
	if f == nil {
		if head != nil {
			out.Stage = "body"
		}
		out.Outcome = msg
		return
	}

	if in.Consumer == "event" {
		// Conn.recv: stream -1 -> go c.session.handleEvent(framer). First the parse
		// alone (to have something to render), then the real handleEvent on an
		// identically prepared framer.
		out.Stage = "parse"
		fr, err := f.parseFrame()
		if err != nil {
			out.Outcome = "parse-error: " + err.Error()
		} else {
			out.Outcome = "frame: " + verifC05Render(reflect.ValueOf(fr), 0)
		}
		out.Stage = "event"
		f2, _, _ := verifC05Framer(&in)
		if f2 != nil {
			verifC05Session().handleEvent(f2)
		}
		out.Stage = "done"
		return
	}

	out.Stage = "parse"
	fr, err := f.parseFrame()
	if err != nil {
		out.Outcome = "parse-error: " + err.Error()
		out.Stage = "done"
		return
	}
	rows, ok := fr.(*resultRowsFrame)
	if !ok {
		out.Outcome = "frame: " + verifC05Render(reflect.ValueOf(fr), 0) +
			" warnings=" + fmt.Sprintf("%q", f.header.warnings) +
			" payload=" + verifC05Render(reflect.ValueOf(f.customPayload), 0) +
			" trace=" + fmt.Sprintf("%x", f.traceID)
		out.Stage = "done"
		return
	}

	// Conn.executeQuery, case *resultRowsFrame (auto paging needs a live session and
	// is not modelled: iter.next stays nil, as with Query.PageState/disableAutoPage).
	iter := &Iter{meta: rows.meta, framer: f, numRows: rows.numRows}
	out.Stage = "iterate"
	var sb strings.Builder
	fmt.Fprintf(&sb, "rows: numRows=%d colCount=%d actual=%d cols=%s paging=%x |",
		rows.numRows, rows.meta.colCount, rows.meta.actualColCount,
		verifC05Render(reflect.ValueOf(rows.meta.columns), 0), rows.meta.pagingState)

	dests := func() []interface{} {
		if in.Dests != nil {
			return in.Dests()
		}
		rd, err := iter.RowData()
		if err != nil {
			fmt.Fprintf(&sb, " rowdata-error: %v", err)
			return nil
		}
		return rd.Values
	}

	switch in.Consumer {
	case "scan", "scan-meta":
		if in.Consumer == "scan-meta" {
			in.Dests = nil
		}
		for {
			if out.Rows >= in.MaxIter {
				out.Capped = true
				break
			}
			d := dests()
			if !iter.Scan(d...) {
				break
			}
			out.Rows++
			if out.Rows <= 8 {
				sb.WriteString(" row" + verifC05Render(reflect.ValueOf(d), 0))
			}
		}
		fmt.Fprintf(&sb, " close=%v", iter.Close())
	case "scanner":
		sc := iter.Scanner()
		for sc.Next() {
			if out.Rows >= in.MaxIter {
				out.Capped = true
				break
			}
			d := dests()
			if err := sc.Scan(d...); err != nil {
				fmt.Fprintf(&sb, " scan-error: %v", err)
				break
			}
			out.Rows++
			if out.Rows <= 8 {
				sb.WriteString(" row" + verifC05Render(reflect.ValueOf(d), 0))
			}
		}
		fmt.Fprintf(&sb, " err=%v", sc.Err())
	case "mapscan":
		for {
			if out.Rows >= in.MaxIter {
				out.Capped = true
				break
			}
			m := map[string]interface{}{}
			if !iter.MapScan(m) {
				break
			}
			out.Rows++
			if out.Rows <= 8 {
				sb.WriteString(" row" + verifC05Render(reflect.ValueOf(m), 0))
			}
		}
		fmt.Fprintf(&sb, " close=%v", iter.Close())
	case "slicemap":
		// SliceMap has its own loop; the harness bound cannot apply. The caller keeps
		// declared row counts for zero-column shapes small (see NOTES.md).
		ms, err := iter.SliceMap()
		out.Rows = len(ms)
		if len(ms) > 8 {
			ms = ms[:8]
		}
		fmt.Fprintf(&sb, " slicemap=%s err=%v", verifC05Render(reflect.ValueOf(ms), 0), err)
	default:
		fmt.Fprintf(&sb, " (not consumed)")
	}
	fmt.Fprintf(&sb, " n=%d", out.Rows)
	out.Outcome = sb.String()
	out.Stage = "done"
	return
}

// VerifC05TypeString runs one schema type string through one of the type-string
// entry points, under recover.
//
//	parseType            metadata.go parseType (Cassandra 2.x marshal class syntax)
//	getCassandraType     helpers.go getCassandraType (3.x CQL syntax)
//	getTypeInfo          metadata.go getTypeInfo (functions/aggregates/UDT field types)
//	apacheToCassandraType, splitCompositeTypes   the helpers of the above
//	compile:<pv>:<slot>  the string placed in a schema row and compiled by the real
//	                     compileMetadata, pv in {1,2,4}, slot in {col2x, col3x,
//	                     keyvalidator, comparator, defaultvalidator}
func VerifC05TypeString(fn, s string) (outcome, panicVal, stack string) {
	defer func() {
		if p := recover(); p != nil {
			panicVal = fmt.Sprint(p)
			stack = string(debug.Stack())
		}
	}()
	logger := nopLogger{}
	switch {
	case fn == "parseType":
		res := parseType(s, logger)
		outcome = verifC05Render(reflect.ValueOf(res), 0)
	case fn == "getCassandraType":
		outcome = verifC05Render(reflect.ValueOf(getCassandraType(s, logger)), 0)
	case fn == "getTypeInfo":
		outcome = verifC05Render(reflect.ValueOf(getTypeInfo(s, logger)), 0)
	case fn == "apacheToCassandraType":
		outcome = apacheToCassandraType(s)
	case fn == "splitCompositeTypes":
		outcome = fmt.Sprintf("%q", splitCompositeTypes(s))
	case strings.HasPrefix(fn, "compile:"):
		parts := strings.Split(fn, ":")
		pv, _ := strconv.Atoi(parts[1])
		const intType = "org.apache.cassandra.db.marshal.Int32Type"
		ks := &KeyspaceMetadata{Name: "ks"}
		tbl := TableMetadata{Keyspace: "ks", Name: "t", KeyValidator: intType, Comparator: intType, DefaultValidator: intType}
		col := ColumnMetadata{Keyspace: "ks", Table: "t", Name: "c", Validator: intType, Kind: ColumnRegular}
		switch parts[2] {
		case "col2x":
			col.Validator = s
		case "col3x":
			col.Validator = s
			col.ClusteringOrder = "none"
			tbl.KeyValidator = ""
		case "keyvalidator":
			tbl.KeyValidator = s
		case "comparator":
			tbl.Comparator = s
		case "defaultvalidator":
			tbl.DefaultValidator = s
		default:
			return "bad-slot", "", ""
		}
		tables := []TableMetadata{tbl}
		compileMetadata(pv, ks, tables, []ColumnMetadata{col}, nil, nil, nil, nil, logger)
		outcome = verifC05Render(reflect.ValueOf(tables[0]), 0)
	default:
		outcome = "bad-fn"
	}
	return
}

// verifC05Render renders any value deterministically (no addresses, sorted map keys).
// It only reads; unexported fields are read through reflect's kind accessors.
func verifC05Render(v reflect.Value, depth int) string {
	if depth > 12 {
		return "…"
	}
	if !v.IsValid() {
		return "nil"
	}
	switch v.Kind() {
	case reflect.Ptr, reflect.Interface:
		if v.IsNil() {
			return "nil"
		}
		if v.Kind() == reflect.Ptr {
			return "&" + verifC05Render(v.Elem(), depth+1)
		}
		return verifC05Render(v.Elem(), depth+1)
	case reflect.Struct:
		if v.CanInterface() {
			if s, ok := v.Interface().(interface{ String() string }); ok && v.Type().PkgPath() != "github.com/gocql/gocql" {
				return v.Type().String() + "(" + verifC05SafeString(s) + ")"
			}
		}
		var sb strings.Builder
		sb.WriteString(v.Type().Name() + "{")
		for i := 0; i < v.NumField(); i++ {
			if i > 0 {
				sb.WriteByte(' ')
			}
			sb.WriteString(v.Type().Field(i).Name + ":" + verifC05Render(v.Field(i), depth+1))
		}
		sb.WriteByte('}')
		return sb.String()
	case reflect.Slice, reflect.Array:
		if v.Kind() == reflect.Slice && v.IsNil() {
			return "nil[]"
		}
		if v.Type().Elem().Kind() == reflect.Uint8 {
			b := make([]byte, v.Len())
			for i := range b {
				b[i] = byte(v.Index(i).Uint())
			}
			return fmt.Sprintf("x%x", b)
		}
		var sb strings.Builder
		sb.WriteByte('[')
		n := v.Len()
		for i := 0; i < n && i < 64; i++ {
			if i > 0 {
				sb.WriteByte(' ')
			}
			sb.WriteString(verifC05Render(v.Index(i), depth+1))
		}
		if n > 64 {
			fmt.Fprintf(&sb, " …(%d)", n)
		}
		sb.WriteByte(']')
		return sb.String()
	case reflect.Map:
		if v.IsNil() {
			return "nil{}"
		}
		var items []string
		it := v.MapRange()
		for it.Next() {
			items = append(items, verifC05Render(it.Key(), depth+1)+"="+verifC05Render(it.Value(), depth+1))
			if len(items) > 256 {
				break
			}
		}
		sort.Strings(items)
		return "map{" + strings.Join(items, " ") + "}"
	case reflect.String:
		return strconv.Quote(v.String())
	case reflect.Bool:
		return strconv.FormatBool(v.Bool())
	case reflect.Int, reflect.Int8, reflect.Int16, reflect.Int32, reflect.Int64:
		return strconv.FormatInt(v.Int(), 10)
	case reflect.Uint, reflect.Uint8, reflect.Uint16, reflect.Uint32, reflect.Uint64, reflect.Uintptr:
		return strconv.FormatUint(v.Uint(), 10)
	case reflect.Float32, reflect.Float64:
		return strconv.FormatFloat(v.Float(), 'g', -1, 64)
	case reflect.Func, reflect.Chan, reflect.UnsafePointer:
		return v.Kind().String()
	}
	return "?" + v.Kind().String()
}

func verifC05SafeString(s interface{ String() string }) (out string) {
	defer func() {
		if p := recover(); p != nil {
			out = "<String panicked>"
		}
	}()
	return s.String()
}

// VerifC05Render exposes the renderer to the worker (targets of Unmarshal).
func VerifC05Render(v interface{}) string { return verifC05Render(reflect.ValueOf(v), 0) }
