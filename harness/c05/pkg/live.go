//go:build verif

package gocql

// Live part of C05: a real *Conn (real handshake over an in-memory net.Conn, real
// recv loop, real Conn.executeQuery / executeBatch / prepareStatement) attached to a
// Session that is built like NewSession builds it, minus Session.init: instead of
// discovering a cluster, the one connection is put into a policyConnPool and a
// round-robin policy, so that the public entry points that go through the session's
// query executor (Query.ScanCAS, Query.MapScanCAS, Session.ExecuteBatchCAS,
// Session.MapExecuteBatchCAS, automatic paging via Iter.next) run unchanged, and into
// a controlConn, so that ringDescriber.getLocalHostInfo / getClusterPeerInfo (the ring
// refresh, a driver goroutine in production) run unchanged. The peer is a scripted
// node in the worker (harness/c05/main/livenode.go).

import (
	"context"
	"fmt"
	"net"
	"runtime/debug"
	"time"

	"github.com/gocql/gocql/internal/lru"
)

type VerifC05Live struct {
	S *Session
	C *Conn
}

type verifC05PipeDialer struct{ conn net.Conn }

func (d verifC05PipeDialer) DialHost(ctx context.Context, host *HostInfo) (*DialedHost, error) {
	return &DialedHost{Conn: d.conn, DisableCoalesce: true}, nil
}

// VerifC05Dial performs the real connection handshake on clientEnd.
func VerifC05Dial(clientEnd net.Conn, proto int) (*VerifC05Live, error) {
	cfg := *NewCluster("127.0.0.1")
	cfg.ProtoVersion = proto
	cfg.Timeout = 5 * time.Second
	cfg.ConnectTimeout = 5 * time.Second
	cfg.HostDialer = verifC05PipeDialer{clientEnd}
	cfg.Logger = nopLogger{}
	ctx, cancel := context.WithCancel(context.Background())
	s := &Session{
		cons:     cfg.Consistency,
		prefetch: 0.25,
		cfg:      cfg,
		pageSize: cfg.PageSize,
		stmtsLRU: &preparedLRU{lru: lru.New(cfg.MaxPreparedStmts)},
		ctx:      ctx,
		cancel:   cancel,
		logger:   cfg.logger(),
	}
	connCfg, err := connConfig(&s.cfg)
	if err != nil {
		cancel()
		return nil, err
	}
	s.connCfg = connCfg
	host := &HostInfo{hostId: "verif-host-1", connectAddress: net.IPv4(127, 0, 0, 1), port: 9042, state: NodeUp,
		version: cassVersion{Major: 3, Minor: 11, Patch: 0}}
	c, err := s.connect(ctx, host, connErrorHandlerFn(func(conn *Conn, err error, closed bool) {}))
	if err != nil {
		cancel()
		return nil, err
	}
	// the session's executor: one host, one pool, one connection
	s.policy = RoundRobinHostPolicy()
	s.policy.AddHost(host)
	s.pool = &policyConnPool{session: s, port: 9042, numConns: 1,
		hostConnPools: map[string]*hostConnPool{
			host.HostID(): {session: s, host: host, port: 9042, size: 1, conns: []*Conn{c}, logger: s.logger},
		}}
	s.executor = &queryExecutor{pool: s.pool, policy: s.policy}
	// the control connection of the ring refresh
	s.control = &controlConn{session: s, quit: make(chan struct{}), retry: &SimpleRetryPolicy{NumRetries: 0}}
	s.control.conn.Store(&connHost{conn: c, host: host})
	s.hostSource = &ringDescriber{session: s}
	return &VerifC05Live{S: s, C: c}, nil
}

func (l *VerifC05Live) Close() {
	l.C.Close()
	l.S.cancel()
}

// Pin pins a query to the live connection the way Conn.query does for the driver's
// own queries (q.conn): paging then stays on this connection.
func (l *VerifC05Live) Pin(q *Query) *Query {
	q.conn = l.C
	return q
}

// VerifC05RingResult is what one ring refresh step did.
type VerifC05RingResult struct {
	Outcome string
	Panic   string
	Stack   string
}

// RefreshPeers runs the real ringDescriber.getClusterPeerInfo (system.peers ->
// Iter.SliceMap -> hostInfoFromMap -> isValidPeer) and then offers every host it
// returned to a fresh ring (ring.addHostIfMissing), as Session.refreshRing does.
func (l *VerifC05Live) RefreshPeers() (res VerifC05RingResult) {
	defer func() {
		if p := recover(); p != nil {
			res.Panic = fmt.Sprint(p)
			res.Stack = string(debug.Stack())
		}
	}()
	local := &HostInfo{hostId: "verif-host-1", connectAddress: net.IPv4(127, 0, 0, 1), port: 9042,
		version: cassVersion{Major: 3, Minor: 11, Patch: 0}}
	peers, err := l.S.hostSource.getClusterPeerInfo(local)
	if err != nil {
		res.Outcome = "error: " + err.Error()
		return
	}
	var r ring
	for _, h := range peers {
		r.addHostIfMissing(h)
	}
	res.Outcome = fmt.Sprintf("peers: %d", len(peers))
	for _, h := range peers {
		res.Outcome += " " + h.ConnectAddress().String()
	}
	return
}

// RefreshLocal runs the real ringDescriber.getLocalHostInfo (system.local).
func (l *VerifC05Live) RefreshLocal() (res VerifC05RingResult) {
	defer func() {
		if p := recover(); p != nil {
			res.Panic = fmt.Sprint(p)
			res.Stack = string(debug.Stack())
		}
	}()
	h, err := l.S.hostSource.getLocalHostInfo()
	if err != nil {
		res.Outcome = "error: " + err.Error()
		return
	}
	var r ring
	r.addHostIfMissing(h)
	res.Outcome = "local: " + h.ConnectAddress().String()
	return
}

// VerifC05HostFromMap runs one row, in the form Iter.SliceMap hands it over, through
// Session.hostInfoFromMap / isValidPeer / ring.addHostIfMissing.
func VerifC05HostFromMap(row map[string]interface{}) (res VerifC05RingResult) {
	defer func() {
		if p := recover(); p != nil {
			res.Panic = fmt.Sprint(p)
			res.Stack = string(debug.Stack())
		}
	}()
	s := &Session{logger: nopLogger{}}
	s.cfg.Port = 9042
	h, err := s.hostInfoFromMap(row, &HostInfo{port: 9042})
	if err != nil {
		res.Outcome = "error: " + err.Error()
		return
	}
	if !isValidPeer(h) {
		res.Outcome = "skipped: invalid peer"
		return
	}
	var r ring
	r.addHostIfMissing(h)
	res.Outcome = "host: " + h.ConnectAddress().String()
	return
}

// VerifC05UUID gives the worker a UUID value as SliceMap produces it.
func VerifC05UUID() UUID {
	u, _ := ParseUUID("5a3c1f10-0b7a-4c5d-9e21-334455667788")
	return u
}
