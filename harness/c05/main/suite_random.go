package main

// Supplementary NON-DECIDING pass: deterministic pseudo-random bytes (seeded from
// VERIF_SEED). It is not part of the exhaustive claim, is not counted in evaluations /
// distinct_nontrivial, and can only add findings (reported under "supplementary:").

import (
	"fmt"
	"runtime"

	"github.com/gocql/gocql"
	"verif/engine/report"
)

type prng uint64

func (p *prng) next() uint64 {
	*p += 0x9e3779b97f4a7c15
	z := uint64(*p)
	z = (z ^ (z >> 30)) * 0xbf58476d1ce4e5b9
	z = (z ^ (z >> 27)) * 0x94d049bb133111eb
	return z ^ (z >> 31)
}
func (p *prng) intn(n int) int { return int(p.next() % uint64(n)) }
func (p *prng) bytes(n int) []byte {
	b := make([]byte, n)
	for i := range b {
		b[i] = byte(p.next())
	}
	return b
}

const randomBlocks = 64

var randomSuite = &suite{
	name:     "random",
	deciding: false,
	memKiB:   2 << 20,
	blocks: func(thorough bool) int {
		return randomBlocks
	},
	describe: func(r *report.Run, thorough bool) {},
	run: func(c *child, b int) {
		per := 400
		if c.thorough {
			per = 2500
		}
		rng := prng(uint64(c.seed)*0x100000001b3 + uint64(b) + 1)
		cat := catalogue(false)
		frames := append(append([]*frameCase{}, getRowsCat()...), otherCatalogue()...)
		for k := 0; k < per; k++ {
			kind := rng.intn(3)
			// all random draws happen before begin() so that replay/skip see the same stream
			n := cat[rng.intn(len(cat))]
			proto := valueVersions[rng.intn(2)]
			tgs := n.targets(false)
			tg := tgs[rng.intn(len(tgs))]
			data := rng.bytes(rng.intn(40))
			fc := frames[rng.intn(len(frames))]
			raw := append([]byte(nil), fc.raw...)
			nflip := 1 + rng.intn(4)
			for j := 0; j < nflip; j++ {
				raw[rng.intn(len(raw))] = byte(rng.next())
			}
			if kind == 2 { // random body under the intact header
				body := rng.bytes(rng.intn(96))
				raw = append(append([]byte(nil), fc.raw[:fc.headLen]...), body...)
				setN(raw, fc.headLen-4, 4, int64(len(body)))
			}
			cons := rowConsumers[rng.intn(len(rowConsumers))]
			if !c.begin() {
				continue
			}
			if kind == 0 {
				if c.wantSample() {
					c.sample(fmt.Sprintf("random: Unmarshal(%s v%d, [%x], %s)", n, proto, data, tg.name))
				}
				if c.describe {
					continue
				}
				in := vinput{data: data}
				var a runOut
				alloc := c.measure(func() { a = callUnmarshal(n.info(proto), exact(&in), tg.mk()) })
				replay := map[string]interface{}{"suite": "random", "type": n.String(), "proto": proto, "target": tg.name, "input_hex": fmt.Sprintf("%x", data)}
				if a.panicked {
					c.viol(fmt.Sprintf("panic:%s:%s", a.site(), panicClass(a.panicMsg)), func() (string, map[string]interface{}) {
						return fmt.Sprintf("random bytes: Unmarshal(%s v%d, [%x], %s) panicked: %s\n%s", n, proto, data, tg.name, a.panicMsg, trimStack(a.stack())), replay
					})
				}
				if alloc > allocBound(len(data)) {
					c.viol(fmt.Sprintf("alloc?:%s->%s", n.name, tg.generic()), func() (string, map[string]interface{}) {
						return fmt.Sprintf("random bytes: Unmarshal(%s v%d, [%x], %s) allocated %d bytes", n, proto, data, tg.name, alloc), replay
					})
				}
				continue
			}
			consumer := cons
			if st, ok := streamOf(raw); ok && st == -1 {
				consumer = "event"
			}
			if c.wantSample() {
				c.sample(fmt.Sprintf("random: %s mutated [%x] -> %s", fc.name, raw, consumer))
			}
			if c.describe {
				continue
			}
			in := gocql.VerifC05FrameIn{ConnVersion: fc.connVersion, Raw: raw, Consumer: consumer, MaxIter: 1 << 12}
			var a gocql.VerifC05FrameOut
			alloc := c.measure(func() { a = gocql.VerifC05Frame(in) })
			_ = runtime.GC
			replay := map[string]interface{}{"suite": "random", "frame": fc.name, "conn_version": fc.connVersion, "raw_hex": fmt.Sprintf("%x", raw), "consumer": consumer}
			if a.Panic != "" {
				c.viol(fmt.Sprintf("panic:%s:%s", siteFromTrace(a.Stack), panicClass(a.Panic)), func() (string, map[string]interface{}) {
					return fmt.Sprintf("random mutation of %s, consumer %s: raw=[%x]: %s\n%s", fc.name, consumer, raw, a.Panic, trimStack(a.Stack)), replay
				})
			}
			bound := allocBound(len(raw))
			if consumer != "slicemap" {
				bound += uint64(a.Rows) * 64 * uint64(len(raw))
			}
			if alloc > bound {
				c.viol(fmt.Sprintf("alloc?:%s/%s", baseName(fc), consumer), func() (string, map[string]interface{}) {
					return fmt.Sprintf("random mutation of %s, consumer %s: raw=[%x]: %d bytes allocated", fc.name, consumer, raw, alloc), replay
				})
			}
		}
	},
}
