// C05 — "No bytes from the network can crash the application".
//
// Fault enumeration: stated finite sets of malformed inputs (every truncation, every
// length/count field replaced from a fixed alphabet, all short byte strings, every
// single-character mutation of schema type strings) are each run against the real
// decoders with panic capture, an over-read differential and an allocation bound.
//
// The worker is its own supervisor: the parent process enumerates blocks of cases and
// hands them to single-threaded child processes (re-exec of this binary under
// `ulimit -v`) which journal the case they are in through a shared mapping, so that a
// runtime fatal (out of memory, stack overflow) or a hang is attributed to one case and
// the enumeration continues after it.
package main

import (
	"bufio"
	"bytes"
	"encoding/binary"
	"encoding/json"
	"flag"
	"fmt"
	"os"
	"os/exec"
	"path/filepath"
	"regexp"
	"runtime"
	"runtime/debug"
	"sort"
	"strings"
	"sync"
	"sync/atomic"
	"syscall"
	"time"

	"verif/engine/report"
)

var (
	flagChild   = flag.String("child", "", "internal: run as child of the given suite")
	flagJournal = flag.String("journal", "", "internal: journal file")
	flagResume  = flag.Int("resume", 0, "internal: first case to run in the first block")
	flagSkip    = flag.String("skip", "", "internal: comma separated cases of the first block not to run (already attributed deaths)")
	flagOnly    = flag.String("only", "", "internal/replay: run exactly <suite>:<block>:<case>")
	flagSuites  = flag.String("suites", "", "comma separated subset of suites to run (default all)")
	flagProcs   = flag.Int("procs", 0, "child processes (default min(NumCPU,16))")
	flagProfile = flag.Bool("allocsite", false, "with -only: profile the measured call and report the function that allocated most")
)

// A suite is a list of blocks; a block is a deterministic sequence of cases.
type suite struct {
	name string
	// deciding = part of the exhaustive claim; false for the supplementary random pass
	deciding bool
	// memKiB is the address space limit of the suite's children
	memKiB int
	// blocks returns the number of blocks for the tier.
	blocks func(thorough bool) int
	// run runs every case of block b whose index is >= c.resume.
	run func(c *child, b int)
	// describe adds the suite's part of the rule / assumptions to the report.
	describe func(r *report.Run, thorough bool)
}

var suites = []*suite{valuesSuite, rowsSuite, typeStringSuite, framesSuite, casSuite, peersSuite, bindSuite, pagesSuite, randomSuite}

func findSuite(name string) *suite {
	for _, s := range suites {
		if s.name == name {
			return s
		}
	}
	return nil
}

// ----------------------------------------------------------------------------------
// child side

type violRec struct {
	Case   int         `json:"case"`
	Key    string      `json:"key"`
	Detail string      `json:"detail"`
	Replay interface{} `json:"replay"`
	Count  int64       `json:"count"`
}

type blockResult struct {
	Kind       string           `json:"k"` // "part" (more follows for this block) or "block" (block complete)
	Block      int              `json:"block"`
	Upto       int              `json:"upto"` // every case of the block with index <= Upto is accounted for
	Evals      int64            `json:"evals"`
	Nontrivial int64            `json:"nontrivial"`
	Distinct   []string         `json:"distinct"` // hex of 8-byte digests
	Viol       []*violRec       `json:"viol"`
	Samples    []interface{}    `json:"samples"`
	Counters   map[string]int64 `json:"counters"`
	AllocSite  string           `json:"allocsite,omitempty"`
	CaseNo     int              `json:"caseno"` // index of the first case reported in Viol (for re-runs)
}

type child struct {
	suite     *suite
	thorough  bool
	seed      int64
	journal   []byte // mmap: [0:8] block, [8:16] case, [16:24] phase
	resume    int
	skip      map[int]bool
	out       *bufio.Writer
	sincePart int
	only      int  // -1 = all
	describe  bool // only produce the description of case `only`, run nothing
	profile   bool // measure() profiles allocations instead of counting them
	block     int
	caseIdx   int
	res       *blockResult
	distinct  map[[8]byte]struct{}
	violIdx   map[string]*violRec
	m0, m1    runtime.MemStats
}

// begin starts the next case of the block: returns false if it is to be skipped
// (before the resume point / not the replayed one). It journals the case first.
var dbgCase = os.Getenv("C05_DEBUG_CASE") != ""
var dbgLast time.Time

func (c *child) begin() bool {
	if dbgCase {
		if d := time.Since(dbgLast); !dbgLast.IsZero() && d > time.Millisecond {
			fmt.Fprintf(os.Stderr, "debug: case %d:%d took %v\n", c.block, c.caseIdx-1, d)
		}
		dbgLast = time.Now()
	}
	idx := c.caseIdx
	c.caseIdx++
	if idx < c.resume || (c.only >= 0 && idx != c.only) || c.skip[idx] {
		return false
	}
	if c.sincePart >= 1024 {
		c.flushPart()
	}
	c.sincePart++
	if c.journal != nil {
		binary.LittleEndian.PutUint64(c.journal[8:], uint64(idx))
	}
	c.res.Evals++
	return true
}

// cur is the index of the case begun last.
func (c *child) cur() int { return c.caseIdx - 1 }

func (c *child) count(name string, n int64) { c.res.Counters[name] += n }

// nontrivial records that the case got past the trivial early exits; key is the
// behaviour class counted in distinct_nontrivial.
func (c *child) nontrivial(key string) {
	c.res.Nontrivial++
	c.distinct[report.KeyHash(c.suite.name+"|"+key)] = struct{}{}
}

// wantSample: a couple of arbitrary (not the first) cases per result part.
func (c *child) wantSample() bool {
	return c.only >= 0 || (len(c.res.Samples) < 2 && c.caseIdx%97 == 41)
}
func (c *child) sample(v interface{}) {
	if len(c.res.Samples) < 2 {
		c.res.Samples = append(c.res.Samples, v)
	}
}

func (c *child) violation(key, detail string, replay map[string]interface{}) {
	if v, ok := c.violIdx[key]; ok {
		v.Count++
		return
	}
	if replay == nil {
		replay = map[string]interface{}{}
	}
	replay["cmd"] = fmt.Sprintf("worker -only %s:%d:%d -tier %s", c.suite.name, c.block, c.cur(), tierName(c.thorough))
	v := &violRec{Case: c.cur(), Key: key, Detail: detail, Replay: replay, Count: 1}
	c.violIdx[key] = v
	c.res.Viol = append(c.res.Viol, v)
}

// viol is violation with the detail built only for the first case of a key.
func (c *child) viol(key string, mk func() (string, map[string]interface{})) {
	if v, ok := c.violIdx[key]; ok {
		v.Count++
		return
	}
	d, r := mk()
	c.violation(key, d, r)
}

// measure runs f and returns the bytes of heap allocated meanwhile (TotalAlloc
// delta). The child is single threaded (GOMAXPROCS=1, no other goroutine allocates).
func (c *child) measure(f func()) uint64 {
	if c.profile {
		c.res.AllocSite = allocSite(f)
		return 0
	}
	runtime.ReadMemStats(&c.m0)
	f()
	runtime.ReadMemStats(&c.m1)
	d := c.m1.TotalAlloc - c.m0.TotalAlloc
	if d > 32<<20 {
		// do not let the garbage of a big allocation count against the next cases'
		// address space (the collector may lag behind a single-threaded child)
		runtime.GC()
	}
	return d
}

func tierName(th bool) string {
	if th {
		return "thorough"
	}
	return "quick"
}

// flushPart sends what has been accumulated for the block so far (everything before
// the case begun last) to the parent, so that it survives the death of this process.
func (c *child) flushPart() {
	if c.out == nil || c.only >= 0 {
		return
	}
	c.res.Kind = "part"
	c.res.Upto = c.caseIdx - 2 // the case being begun (caseIdx-1) is not covered
	c.emit()
	c.resetAcc()
}

func (c *child) emit() {
	for k := range c.distinct {
		c.res.Distinct = append(c.res.Distinct, fmt.Sprintf("%x", k[:]))
	}
	b, err := json.Marshal(c.res)
	if err != nil {
		fmt.Fprintf(os.Stderr, "child: marshal result: %v\n", err)
		os.Exit(3)
	}
	c.out.Write(b)
	c.out.WriteByte('\n')
	c.out.Flush()
}

func (c *child) resetAcc() {
	c.res = &blockResult{Kind: "block", Block: c.block, Counters: map[string]int64{}}
	c.distinct = map[[8]byte]struct{}{}
	c.violIdx = map[string]*violRec{}
	c.sincePart = 0
}

func (c *child) startBlock(b int) {
	c.block = b
	c.caseIdx = 0
	c.resetAcc()
	if c.journal != nil {
		binary.LittleEndian.PutUint64(c.journal[0:], uint64(b))
		binary.LittleEndian.PutUint64(c.journal[8:], ^uint64(0))
	}
}

func (c *child) finishBlock() {
	c.res.Kind = "block"
	c.res.Upto = c.caseIdx - 1
	c.emit()
}

func childMain(name string, thorough bool) {
	s := findSuite(name)
	if s == nil {
		fmt.Fprintf(os.Stderr, "no suite %q\n", name)
		os.Exit(3)
	}
	debug.SetTraceback("all")
	c := &child{suite: s, thorough: thorough, only: -1}
	fmt.Sscan(os.Getenv("VERIF_SEED"), &c.seed)
	if *flagJournal != "" {
		f, err := os.OpenFile(*flagJournal, os.O_RDWR, 0)
		if err == nil {
			c.journal, err = syscall.Mmap(int(f.Fd()), 0, 64, syscall.PROT_READ|syscall.PROT_WRITE, syscall.MAP_SHARED)
		}
		if err != nil {
			fmt.Fprintf(os.Stderr, "child: journal: %v\n", err)
			os.Exit(3)
		}
	}
	in := bufio.NewScanner(os.Stdin)
	c.out = bufio.NewWriterSize(os.Stdout, 1<<16)
	first := true
	for in.Scan() {
		var b, only int
		only = -1
		if n, _ := fmt.Sscanf(in.Text(), "%d %d", &b, &only); n < 1 {
			continue
		}
		c.resume = 0
		c.skip = nil
		if first {
			c.resume = *flagResume
			c.skip = map[int]bool{}
			for _, f := range strings.Split(*flagSkip, ",") {
				var k int
				if _, err := fmt.Sscan(f, &k); err == nil {
					c.skip[k] = true
				}
			}
			first = false
		}
		c.only = only
		c.startBlock(b)
		s.run(c, b)
		c.finishBlock()
	}
}

// ----------------------------------------------------------------------------------
// parent side

type parent struct {
	r        *report.Run
	exe      string
	tmp      string
	thorough bool
	mu       sync.Mutex
	counters map[string]int64
	violCnt  map[string]int64
	samples  map[string]int
	deaths   int64
	rerunSeq int64
	siteMu   sync.Mutex
	sites    map[string]*siteEntry
	bySuite  map[string]map[string]int64
	capped   atomic.Bool
}

type proc struct {
	cmd     *exec.Cmd
	stdin   *bufio.Writer
	stdinC  interface{ Close() error }
	lines   chan []byte
	stderr  *bytes.Buffer
	journal string
	done    chan struct{}
}

func (p *parent) spawn(s *suite, id int, resume int, skip []int) (*proc, error) {
	skipArg := "-"
	var ss []string
	for _, k := range skip {
		if k >= resume { // earlier ones are behind the resume point anyway
			ss = append(ss, fmt.Sprint(k))
		}
	}
	if len(ss) > 0 {
		skipArg = strings.Join(ss, ",")
	}
	j := filepath.Join(p.tmp, fmt.Sprintf("journal-%s-%d", s.name, id))
	if err := os.WriteFile(j, make([]byte, 64), 0o600); err != nil {
		return nil, err
	}
	args := fmt.Sprintf("ulimit -v %d; exec \"$0\" -child %s -journal %s -resume %d -skip %s -tier %s",
		s.memKiB, s.name, j, resume, skipArg, tierName(p.thorough))
	cmd := exec.Command("sh", "-c", args, p.exe)
	cmd.Env = append(os.Environ(), "GOMAXPROCS=1", "GOTRACEBACK=all")
	stdin, err := cmd.StdinPipe()
	if err != nil {
		return nil, err
	}
	stdout, err := cmd.StdoutPipe()
	if err != nil {
		return nil, err
	}
	pr := &proc{cmd: cmd, stdin: bufio.NewWriter(stdin), stdinC: stdin, lines: make(chan []byte, 4),
		stderr: &bytes.Buffer{}, journal: j, done: make(chan struct{})}
	cmd.Stderr = &capWriter{buf: pr.stderr, max: 1 << 20}
	if err := cmd.Start(); err != nil {
		return nil, err
	}
	go func() {
		rd := bufio.NewReaderSize(stdout, 1<<20)
		for {
			line, err := rd.ReadBytes('\n')
			if len(line) > 0 && err == nil {
				pr.lines <- line
			}
			if err != nil {
				break
			}
		}
		close(pr.lines)
		cmd.Wait()
		close(pr.done)
	}()
	return pr, nil
}

type capWriter struct {
	buf *bytes.Buffer
	max int
}

func (w *capWriter) Write(b []byte) (int, error) {
	if room := w.max - w.buf.Len(); room > 0 {
		if len(b) > room {
			w.buf.Write(b[:room])
		} else {
			w.buf.Write(b)
		}
	}
	return len(b), nil
}

func (pr *proc) kill() {
	pr.cmd.Process.Kill()
	<-pr.done
}

func (pr *proc) readJournal() (block, cs int64) {
	b, err := os.ReadFile(pr.journal)
	if err != nil || len(b) < 16 {
		return -1, -1
	}
	return int64(binary.LittleEndian.Uint64(b[0:])), int64(binary.LittleEndian.Uint64(b[8:]))
}

var oomRe = regexp.MustCompile(`cannot allocate ([0-9]+)-byte block`)

var fatalRe = regexp.MustCompile(`(?m)^(fatal error: .*|runtime: .*|panic: .*|signal: .*)$`)

// siteFromTrace extracts the first gocql frame (not a harness accessor) from a Go
// traceback, plus its caller when that is informative.
func siteFromTrace(trace string) string {
	var frames []string
	lines := strings.Split(trace, "\n")
	// when a recovered panic was re-raised (framer.parseFrame does that for runtime
	// errors) the original site is below the last panic frame
	last := -1
	for i, line := range lines {
		if strings.HasPrefix(line, "panic(") || strings.HasPrefix(line, "runtime.gopanic(") {
			last = i
		}
	}
	lines = lines[last+1:]
	for _, line := range lines {
		if line == "" || line[0] == '\t' || line[0] == ' ' {
			continue
		}
		if !strings.Contains(line, "(") {
			continue
		}
		fn := line[:strings.LastIndex(line, "(")]
		const pfx = "github.com/gocql/gocql."
		if !strings.HasPrefix(fn, pfx) {
			if len(frames) > 0 && !strings.HasPrefix(fn, "reflect.") && !strings.HasPrefix(fn, "runtime.") {
				break // left the driver: stop collecting
			}
			continue
		}
		fn = strings.TrimPrefix(fn, pfx)
		if strings.Contains(fn, "erifC05") {
			if len(frames) > 0 {
				break
			}
			continue
		}
		fn = strings.NewReplacer("(*", "", ")", "").Replace(fn)
		if i := strings.Index(fn, ".func"); i > 0 {
			fn = fn[:i]
		}
		if len(frames) == 0 || frames[len(frames)-1] != fn {
			frames = append(frames, fn)
		}
		if len(frames) == 2 {
			break
		}
	}
	switch {
	case len(frames) == 0:
		return "unknown-site"
	case len(frames) == 1 || entryPoints[frames[1]]:
		return frames[0]
	default:
		return frames[0] + "<-" + frames[1]
	}
}

// entry points: not informative as a caller
var entryPoints = map[string]bool{"Unmarshal": true, "unmarshalNullable": true, "framer.parseFrame": true,
	"parseType": true, "typeParser.parse": true}

var numRe = regexp.MustCompile(`\[[^\]]*\]|-?[0-9]+`)

// panicClass reduces a panic message to its kind (no indexes / sizes).
func panicClass(msg string) string {
	msg = strings.TrimPrefix(msg, "runtime error: ")
	if i := strings.Index(msg, " with "); i > 0 {
		msg = msg[:i]
	}
	if strings.HasPrefix(msg, "interface conversion") {
		msg = "interface conversion" // the dynamic type found is not part of the class
	}
	if i := strings.Index(msg, "no valid connect address for host"); i >= 0 {
		msg = "no valid connect address for host"
	}
	if i := strings.Index(msg, "invalid key type"); i >= 0 {
		msg = msg[:i+len("invalid key type")] // reflect.MapOf: the offending Go type is not part of the class
	}
	msg = numRe.ReplaceAllString(msg, "")
	if w := strings.Fields(msg); len(w) > 7 {
		msg = strings.Join(w[:7], " ")
	}
	if len(msg) > 60 {
		msg = msg[:60]
	}
	msg = strings.TrimSpace(msg)
	msg = strings.NewReplacer(" ", "-", ":", "", ",", "", "\"", "", "'", "").Replace(msg)
	return strings.Trim(msg, "-")
}

func (p *parent) merge(s *suite, br *blockResult) {
	var ds [][8]byte
	for _, h := range br.Distinct {
		var k [8]byte
		fmt.Sscanf(h, "%x", &k)
		var raw []byte
		fmt.Sscanf(h, "%x", &raw)
		copy(k[:], raw)
		ds = append(ds, k)
	}
	if s.deciding {
		p.r.AddCounts(br.Evals, ds)
	}
	for _, v := range br.Viol {
		if strings.HasPrefix(v.Key, "alloc?:") {
			v.Key = fmt.Sprintf("alloc:%s:exceeds-1MiB+64n", p.allocSiteFor(s, strings.TrimPrefix(v.Key, "alloc?:"), br.Block, v.Case))
		}
	}
	p.mu.Lock()
	p.counters[s.name+".cases"] += br.Evals
	p.counters[s.name+".nontrivial"] += br.Nontrivial
	for k, v := range br.Counters {
		p.counters[s.name+"."+k] += v
	}
	for _, v := range br.Viol {
		p.violCnt[v.Key] += v.Count
		if p.bySuite[s.name] == nil {
			p.bySuite[s.name] = map[string]int64{}
		}
		p.bySuite[s.name][v.Key] += v.Count
	}
	take := p.samples[s.name] < 3
	if take && len(br.Samples) > 0 {
		p.samples[s.name]++
	}
	p.mu.Unlock()
	if take && len(br.Samples) > 0 && s.deciding {
		p.r.Sample(map[string]interface{}{"suite": s.name, "case": br.Samples[0]})
	}
	for _, v := range br.Viol {
		if !s.deciding {
			v.Detail = "[found by the NON-DECIDING supplementary pass] " + v.Detail
		}
		p.r.Violation(v.Key, v.Detail, v.Replay)
	}
}

// runSuite distributes the suite's blocks over nproc children.
func (p *parent) runSuite(s *suite, nproc int, deadline time.Time) {
	nblocks := s.blocks(p.thorough)
	var next int64 = -1
	blockTimeout := 5 * time.Minute
	if p.thorough {
		blockTimeout = 15 * time.Minute
	}
	var wg sync.WaitGroup
	for w := 0; w < nproc; w++ {
		wg.Add(1)
		go func(id int) {
			defer wg.Done()
			var pr *proc
			defer func() {
				if pr != nil {
					pr.stdinC.Close()
					select {
					case <-pr.done:
					case <-time.After(10 * time.Second):
						pr.kill()
					}
				}
			}()
			for {
				b := int(atomic.AddInt64(&next, 1))
				if b >= nblocks {
					return
				}
				if time.Now().After(deadline) {
					p.capped.Store(true)
					return
				}
				resume := 0
				restarts := 0
				var skip []int
				flaky := map[int]int{}
				bt0 := time.Now()
				dbg := func() {
					if d := time.Since(bt0); os.Getenv("C05_DEBUG") != "" && d > time.Second {
						fmt.Fprintf(os.Stderr, "debug: %s block %d took %v restarts=%d\n", s.name, b, d, restarts)
					}
				}
			attempts:
				for { // until block b is complete
					if pr == nil {
						var err error
						pr, err = p.spawn(s, id, resume, skip)
						if err != nil {
							p.r.Infra("cannot start child for %s: %v", s.name, err)
							return
						}
					}
					fmt.Fprintf(pr.stdin, "%d -1\n", b)
					pr.stdin.Flush()
					var ok, timedOut bool
					for {
						var line []byte
						timer := time.NewTimer(blockTimeout)
						select {
						case line, ok = <-pr.lines:
						case <-timer.C:
							timedOut = true
						}
						timer.Stop()
						if !ok {
							break
						}
						var br blockResult
						if err := json.Unmarshal(line, &br); err != nil || br.Block != b {
							p.r.Infra("%s: bad result line from child for block %d: %v", s.name, b, err)
							pr.kill()
							pr = nil
							break attempts
						}
						p.merge(s, &br)
						resume = br.Upto + 1
						if br.Kind == "block" {
							dbg()
							break attempts
						}
					}
					// the child died or hangs inside a case
					td0 := time.Now()
					if timedOut {
						pr.kill()
					} else {
						<-pr.done
					}
					jb, jc := pr.readJournal()
					stderr := pr.stderr.String()
					pr = nil
					td1 := time.Now()
					if jb != int64(b) || jc < 0 || int(jc) < resume {
						p.r.Infra("%s: child failed outside a case (block %d, journal %d:%d, timeout=%v): %s",
							s.name, b, jb, jc, timedOut, tail(stderr, 600))
						break
					}
					attributed, alone := p.attribute(s, b, int(jc), timedOut, stderr)
					if !attributed && alone != nil && alone.Evals == 1 {
						// The case does not kill a fresh child: what it did there is its
						// result (typically an allocation of hundreds of MiB that only fits
						// an empty address space). Take that and go on after it.
						alone.Block = b
						p.merge(s, alone)
						skip = append(skip, int(jc))
						restarts++
						continue
					}
					if !attributed {
						// not attributable and not evaluated alone either: run the rest of
						// the block again from where results are safe
						flaky[int(jc)]++
						if flaky[int(jc)] >= 3 {
							p.r.Infra("%s: case %d:%d: child died there 3 times but never when the case is run alone: %s",
								s.name, b, jc, tail(stderr, 400))
							break
						}
						restarts++
						continue
					}
					atomic.AddInt64(&p.deaths, 1)
					if s.deciding {
						p.r.AddCounts(1, nil) // the case itself was evaluated
					}
					skip = append(skip, int(jc))
					restarts++
					if os.Getenv("C05_DEBUG") != "" {
						fmt.Fprintf(os.Stderr, "debug: death wait=%v attribute=%v sinceblockstart=%v\n", td1.Sub(td0), time.Since(td1), time.Since(bt0))
					}
					if restarts > 100000 {
						p.r.Infra("%s: block %d: too many child deaths", s.name, b)
						break
					}
				}
			}
		}(w)
	}
	wg.Wait()
}

// mainGoroutine cuts a GOTRACEBACK=all dump down to the first (running) goroutine.
func mainGoroutine(stderr string) string {
	i := strings.Index(stderr, "goroutine ")
	if i < 0 {
		return stderr
	}
	s := stderr[i:]
	if j := strings.Index(s, "\n\n"); j > 0 {
		s = s[:j]
	}
	return s
}

func head(s string, n int) string {
	if len(s) > n {
		return s[:n] + "…"
	}
	return s
}

func tail(s string, n int) string {
	if len(s) > n {
		return "…" + s[len(s)-n:]
	}
	return s
}

// allocSiteFor resolves which driver function allocated most in a case that broke the
// allocation bound, by re-running that one case in a child with every allocation
// profiled. One re-run per provisional key (CQL kind -> Go target, or frame shape).
func (p *parent) allocSiteFor(s *suite, prov string, b, cs int) string {
	k := s.name + "|" + prov
	p.siteMu.Lock()
	e, ok := p.sites[k]
	if !ok {
		e = &siteEntry{}
		p.sites[k] = e
	}
	p.siteMu.Unlock()
	e.once.Do(func() { e.site = p.resolveAllocSite(s, prov, b, cs) })
	return e.site
}

type siteEntry struct {
	once sync.Once
	site string
}

func (p *parent) resolveAllocSite(s *suite, prov string, b, cs int) string {
	site := "unresolved(" + prov + ")"
	cmd := exec.Command("sh", "-c", fmt.Sprintf("ulimit -v %d; exec \"$0\" -only %s:%d:%d -allocsite -tier %s",
		s.memKiB, s.name, b, cs, tierName(p.thorough)), p.exe)
	cmd.Env = append(os.Environ(), "GOMAXPROCS=1")
	if out, err := cmd.Output(); err == nil {
		var br blockResult
		if json.Unmarshal(out, &br) == nil && br.AllocSite != "" {
			site = br.AllocSite
		}
	}
	return site
}

var describeMu sync.Mutex

// describeCase re-enumerates block b in this process up to case cs and returns its
// human readable description, without running anything.
func describeCase(s *suite, b, cs int, thorough bool) (desc string) {
	describeMu.Lock()
	defer describeMu.Unlock()
	defer func() { recover() }()
	c := &child{suite: s, thorough: thorough, only: cs, describe: true}
	fmt.Sscan(os.Getenv("VERIF_SEED"), &c.seed)
	c.startBlock(b)
	s.run(c, b)
	if len(c.res.Samples) > 0 {
		return fmt.Sprint(c.res.Samples[0])
	}
	return ""
}

// attribute turns the death (or hang) of a child inside a journalled case into a
// finding. A death is re-run once in a fresh child to make sure it belongs to the
// case and not to the machine; a hang must reproduce three times.
func (p *parent) attribute(s *suite, b, cs int, hang bool, stderr string) (attributed bool, alone *blockResult) {
	replay := map[string]interface{}{
		"cmd": fmt.Sprintf("worker -only %s:%d:%d -tier %s", s.name, b, cs, tierName(p.thorough)),
	}
	reruns := 1
	if hang {
		reruns = 3
	} else if strings.Contains(stderr, "fatal error: ") && siteFromTrace(mainGoroutine(stderr)) != "unknown-site" {
		// A runtime fatal raised under a driver function while the journalled case was
		// running is attributable as it stands — for an out-of-memory death only if the
		// single failed request was itself a sizeable part of the address space (a small
		// request failing means the space was used up before this case).
		reruns = 0
		if m := oomRe.FindStringSubmatch(stderr); m != nil {
			var n int64
			fmt.Sscan(m[1], &n)
			if n < int64(s.memKiB)*1024/4 {
				reruns = 1
			}
		}
	}
	for i := 0; i < reruns; i++ {
		died, hung, se, br := p.rerunOne(s, b, cs)
		if hang && !hung || !hang && !died {
			return false, br
		}
		if !hang {
			stderr = se
		}
	}
	if hang {
		p.r.Violation(fmt.Sprintf("hang:%s:block%d", s.name, b),
			fmt.Sprintf("case %d:%d did not return within the (generous) time limit in 3 separate re-runs; infrastructure-attributed", b, cs), replay)
		return true, nil
	}
	what := "fatal"
	if m := fatalRe.FindString(stderr); m != "" {
		what = m
	}
	cls := "runtime-fatal"
	switch {
	case strings.Contains(what, "out of memory") || strings.Contains(what, "cannot allocate memory"):
		cls = "out-of-memory"
	case strings.Contains(what, "stack overflow") || strings.Contains(what, "stack exceeds"):
		cls = "stack-overflow"
	case strings.HasPrefix(what, "panic:"):
		cls = "uncaught-" + panicClass(strings.TrimPrefix(what, "panic: "))
	}
	site := siteFromTrace(mainGoroutine(stderr))
	key := fmt.Sprintf("fatal:%s:%s", site, cls)
	if cls == "out-of-memory" {
		// running out of the child's address space is the allocation bound exceeded a
		// fortiori: same finding as a measured excess at that site
		key = fmt.Sprintf("alloc:%s:exceeds-1MiB+64n", site)
	}
	p.mu.Lock()
	p.violCnt[key]++
	if p.bySuite[s.name] == nil {
		p.bySuite[s.name] = map[string]int64{}
	}
	p.bySuite[s.name][key]++
	first := p.violCnt[key] == 1
	p.mu.Unlock()
	if !first {
		return true, nil
	}
	replay["case"] = describeCase(s, b, cs, p.thorough)
	p.r.Violation(key, fmt.Sprintf("child process died in %s case %d:%d (%v): %s\n%s", s.name, b, cs, replay["case"], what, head(mainGoroutine(stderr), 1500)), replay)
	return true, nil
}

// rerunOne runs a single case in a fresh child.
func (p *parent) rerunOne(s *suite, b, cs int) (died, hung bool, stderr string, alone *blockResult) {
	pr, err := p.spawn(s, 1000+int(atomic.AddInt64(&p.rerunSeq, 1)), 0, nil)
	if err != nil {
		return false, false, "", nil
	}
	fmt.Fprintf(pr.stdin, "%d %d\n", b, cs)
	pr.stdin.Flush()
	select {
	case line, ok := <-pr.lines:
		if ok {
			br := &blockResult{}
			if json.Unmarshal(line, br) != nil {
				br = nil
			}
			pr.stdinC.Close()
			<-pr.done
			return false, false, "", br
		}
		<-pr.done
		return true, false, pr.stderr.String(), nil
	case <-time.After(60 * time.Second):
		pr.kill()
		return false, true, pr.stderr.String(), nil
	}
}

func main() {
	flag.Parse()
	thorough := false
	if f := flag.Lookup("tier"); f != nil && f.Value.String() == "thorough" {
		thorough = true
	}
	if *flagChild != "" {
		childMain(*flagChild, thorough)
		return
	}
	if *flagOnly != "" {
		replayOne(*flagOnly, thorough)
		return
	}

	r := report.New("C05", "fault_enumeration")
	thorough = r.Thorough()
	exe, err := os.Executable()
	if err != nil {
		r.Infra("os.Executable: %v", err)
		os.Exit(r.Finish(false))
	}
	tmp, err := os.MkdirTemp(filepath.Dir(exe), "c05-")
	if err != nil {
		tmp, err = os.MkdirTemp("/var/tmp", "c05-")
	}
	if err != nil {
		r.Infra("tmp dir: %v", err)
		os.Exit(r.Finish(false))
	}
	defer os.RemoveAll(tmp)
	os.Setenv("C05_CACHE_DIR", tmp)

	p := &parent{r: r, exe: exe, tmp: tmp, thorough: thorough,
		counters: map[string]int64{}, violCnt: map[string]int64{}, samples: map[string]int{}, sites: map[string]*siteEntry{}, bySuite: map[string]map[string]int64{}}
	nproc := *flagProcs
	if nproc <= 0 {
		nproc = runtime.NumCPU()
		if nproc > 16 {
			nproc = 16
		}
	}
	budget := 85 * time.Second
	if thorough {
		budget = 14 * time.Minute
	}
	deadline := time.Now().Add(budget)

	var rules []string
	selected := map[string]bool{}
	for _, n := range strings.Split(*flagSuites, ",") {
		if n != "" {
			selected[n] = true
		}
	}
	r.Assume(
		"the Go runtime and reflect report every out-of-bounds access as a panic (bounds checks on)",
		"children are single-threaded (GOMAXPROCS=1): TotalAlloc deltas belong to the measured call",
		"targets handed to Unmarshal / Scan are ones a correct application may pass for that CQL type",
	)
	supp := map[string]interface{}{}
	for _, s := range suites {
		if len(selected) > 0 && !selected[s.name] {
			continue
		}
		if s.blocks(thorough) == 0 {
			continue
		}
		t0 := time.Now()
		s.describe(r, thorough)
		p.runSuite(s, nproc, deadline)
		r.Extra("wall_s."+s.name, float64(time.Since(t0).Milliseconds())/1000)
		if !s.deciding {
			supp[s.name] = map[string]interface{}{"note": "NON-DECIDING supplementary pass (deterministic pseudo-random bytes from VERIF_SEED); can only add findings; not part of the exhaustive claim or of evaluations/distinct_nontrivial"}
		}
		_ = rules
	}
	for name, info := range supp {
		m := info.(map[string]interface{})
		var keys, only []string
		for k := range p.bySuite[name] {
			keys = append(keys, k)
			found := false
			for other, ks := range p.bySuite {
				if other != name && ks[k] > 0 {
					found = true
				}
			}
			if !found {
				only = append(only, k)
			}
		}
		sort.Strings(keys)
		sort.Strings(only)
		m["cases"] = p.counters[name+".cases"]
		m["finding_keys"] = keys
		m["finding_keys_not_found_by_the_deciding_suites"] = only
	}
	counters := map[string]int64{}
	for k, v := range p.counters {
		counters[k] = v
	}
	r.Extra("counters", counters)
	r.Extra("child_process_deaths_attributed", p.deaths)
	if len(supp) > 0 {
		r.Extra("extra", supp)
	}
	if len(p.violCnt) > 0 {
		type kv struct {
			Key   string `json:"key"`
			Cases int64  `json:"cases"`
		}
		var l []kv
		for k, v := range p.violCnt {
			l = append(l, kv{k, v})
		}
		sort.Slice(l, func(i, j int) bool { return l[i].Key < l[j].Key })
		r.Extra("finding_case_counts", l)
	}
	r.SetRule(strings.Join(ruleParts, " || "))
	code := r.Finish(!p.capped.Load())
	os.RemoveAll(tmp)
	os.Exit(code)
}

var ruleParts []string

// replayOne runs a single case in this process, printing what the child would report.
func replayOne(spec string, thorough bool) {
	var name string
	var b, cs int
	parts := strings.Split(spec, ":")
	if len(parts) != 3 {
		fmt.Fprintln(os.Stderr, "usage: -only suite:block:case")
		os.Exit(2)
	}
	name = parts[0]
	fmt.Sscan(parts[1], &b)
	fmt.Sscan(parts[2], &cs)
	s := findSuite(name)
	if s == nil {
		fmt.Fprintln(os.Stderr, "no such suite")
		os.Exit(2)
	}
	runtime.GOMAXPROCS(1)
	c := &child{suite: s, thorough: thorough, only: cs, profile: *flagProfile}
	fmt.Sscan(os.Getenv("VERIF_SEED"), &c.seed)
	c.startBlock(b)
	s.run(c, b)
	out, _ := json.MarshalIndent(c.res, "", " ")
	fmt.Println(string(out))
}
