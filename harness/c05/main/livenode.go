package main

// A scripted protocol-v4 node on the other end of an in-memory pipe. It reads request
// frames (only the header is interpreted: version, stream, opcode, length) and answers
// STARTUP/REGISTER with READY, OPTIONS with SUPPORTED, PREPARE with the scripted
// PREPARED body and QUERY/EXECUTE/BATCH with the next scripted body of the queue (RESULT
// void when the queue is empty). Every reply is a well-formed frame on the request's
// stream; what the sub-suites vary is the *content* of well-formed RESULT bodies.

import (
	"io"
	"net"
	"sync"

	"github.com/gocql/gocql"
)

const (
	opStartup  = 0x01
	opOptions  = 0x05
	opQuery    = 0x07
	opPrepare  = 0x09
	opExecute  = 0x0A
	opRegister = 0x0B
	opBatch    = 0x0D
)

type liveNode struct {
	conn net.Conn
	mu   sync.Mutex
	// prepared is the body answered to the next PREPAREs
	prepared []byte
	// queue holds the bodies answered to the next QUERY / EXECUTE / BATCH requests
	queue [][]byte
	// counts of requests seen since the last script()
	nPrepare, nExec int
}

func (n *liveNode) script(prepared []byte, queue ...[]byte) {
	n.mu.Lock()
	n.prepared, n.queue = prepared, queue
	n.nPrepare, n.nExec = 0, 0
	n.mu.Unlock()
}

func (n *liveNode) serve() {
	defer n.conn.Close()
	hdr := make([]byte, 9)
	for {
		if _, err := io.ReadFull(n.conn, hdr); err != nil {
			return
		}
		length := int(hdr[5])<<24 | int(hdr[6])<<16 | int(hdr[7])<<8 | int(hdr[8])
		if length < 0 || length > 16<<20 {
			return
		}
		if _, err := io.CopyN(io.Discard, n.conn, int64(length)); err != nil {
			return
		}
		stream := int(int16(uint16(hdr[2])<<8 | uint16(hdr[3])))
		var op byte
		var body []byte
		n.mu.Lock()
		switch hdr[4] {
		case opStartup, opRegister:
			op = opReady
		case opOptions:
			op = opSupported
			var b fbuf
			b.Short(1, "x")
			b.Str("CQL_VERSION", "x")
			b.StrList([]string{"3.4.4"}, "x")
			body = b.b
		case opPrepare:
			op = opResult
			body = n.prepared
			n.nPrepare++
		case opQuery, opExecute, opBatch:
			op = opResult
			n.nExec++
			if len(n.queue) > 0 {
				body = n.queue[0]
				n.queue = n.queue[1:]
			} else {
				body = []byte{0, 0, 0, 1} // void
			}
		default:
			op = opReady
		}
		n.mu.Unlock()
		out := make([]byte, 0, 9+len(body))
		out = append(out, 0x84, 0, byte(stream>>8), byte(stream), op,
			byte(len(body)>>24), byte(len(body)>>16), byte(len(body)>>8), byte(len(body)))
		out = append(out, body...)
		if _, err := n.conn.Write(out); err != nil {
			return
		}
	}
}

// dialLive starts a scripted node and performs the driver's real handshake with it.
func dialLive() (*liveNode, *gocql.VerifC05Live, error) {
	client, server := net.Pipe()
	n := &liveNode{conn: server}
	go n.serve()
	l, err := gocql.VerifC05Dial(client, 4)
	if err != nil {
		server.Close()
		return nil, nil, err
	}
	return n, l, nil
}

// rowsBody encodes a RESULT/rows body: the given columns, rows of valid cells
// (cells[r][c] overrides the cell: nil entry = null, missing = valid value of the type).
func rowsBody(flags int32, cols []col, nrows int, paging []byte, cells func(r, c int) (raw []byte, override bool)) []byte {
	var b fbuf
	b.PlainInt(2)
	b.Metadata(flags, cols, paging)
	b.Int(nrows, "rows.count")
	for r := 0; r < nrows; r++ {
		for ci, c := range cols {
			if cells != nil {
				if raw, ok := cells(r, ci); ok {
					b.Bytes(raw, "cell.len")
					continue
				}
			}
			b.Cell(c.typ, 4, false)
		}
	}
	return b.b
}
