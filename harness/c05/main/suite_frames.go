package main

// Sub-suites (b) "rows" and (d) "frames": whole frames through the driver's real read
// path (readHeader -> framer.readFrame -> framer.parseFrame -> Iter consumers /
// Session.handleEvent) via the in-package accessor gocql.VerifC05Frame.

import (
	"fmt"
	"runtime"
	"strings"

	"github.com/gocql/gocql"
	"verif/engine/report"
)

type fmut struct {
	raw   []byte
	class string
	desc  string
}

func setN(b []byte, off, width int, v int64) {
	for i := 0; i < width; i++ {
		b[off+i] = byte(v >> (8 * uint(width-1-i)))
	}
}

// bodyMutants: raw truncations, body truncations with the header length adjusted, and
// every recorded length/count field replaced from the substitution alphabet.
func bodyMutants(fc *frameCase, from int) []fmut {
	var out []fmut
	seen := map[string]bool{}
	add := func(m fmut) {
		if !seen[string(m.raw)] {
			seen[string(m.raw)] = true
			out = append(out, m)
		}
	}
	add(fmut{raw: fc.raw, class: "valid", desc: "well-formed"})
	lenSpan := fc.spans[0] // header.length
	for k := 0; k < len(fc.raw); k++ {
		if k >= from || k < fc.headLen {
			add(fmut{raw: fc.raw[:k], class: "cut-stream", desc: fmt.Sprintf("stream ends after %d of %d bytes", k, len(fc.raw))})
		}
		if k >= fc.headLen && k >= from {
			m := append([]byte(nil), fc.raw[:k]...)
			setN(m, lenSpan.Off, 4, int64(k-fc.headLen))
			add(fmut{raw: m, class: "cut-body", desc: fmt.Sprintf("body cut to %d of %d bytes, header length adjusted", k-fc.headLen, len(fc.raw)-fc.headLen)})
		}
	}
	for si, s := range fc.spans {
		if s.Off < from && s.Off >= fc.headLen && from > fc.headLen {
			continue
		}
		for _, a := range subAlphabet {
			m := substitute(fc.raw, s, a.f(s.Val))
			add(fmut{raw: m, class: "sub:" + s.Role, desc: fmt.Sprintf("field#%d %s@%d(w%d)=%d -> %s", si, s.Role, s.Off, s.Width, s.Val, a.name)})
		}
	}
	return out
}

// headerMutants: every header field replaced.
func headerMutants(fc *frameCase) []fmut {
	var out []fmut
	seen := map[string]bool{string(fc.raw): true}
	add := func(off int, vals []byte, what string) {
		for _, v := range vals {
			m := append([]byte(nil), fc.raw...)
			m[off] = v
			if !seen[string(m)] {
				seen[string(m)] = true
				out = append(out, fmut{raw: m, class: "header:" + what, desc: fmt.Sprintf("header %s byte@%d = %#02x", what, off, v)})
			}
		}
	}
	var versions []byte
	for v := 0; v <= 7; v++ {
		versions = append(versions, byte(v)|0x80, byte(v))
	}
	versions = append(versions, 0xff, 0x7f)
	add(0, versions, "version")
	flags := []byte{0, 0xff}
	for bit := 0; bit < 8; bit++ {
		flags = append(flags, fc.raw[1]^(1<<uint(bit)))
	}
	add(1, flags, "flags")
	opOff := 3
	if fc.connVersion > 2 {
		// 2-byte stream: -1, 0, 1, max, min, just above the 15-bit range
		for _, st := range []int{-1, 0, 1, 0x7fff, -0x8000, -2, 0x4000} {
			m := append([]byte(nil), fc.raw...)
			m[2], m[3] = byte(st>>8), byte(st)
			if !seen[string(m)] {
				seen[string(m)] = true
				out = append(out, fmut{raw: m, class: "header:stream", desc: fmt.Sprintf("header stream = %d", st)})
			}
		}
		opOff = 4
	} else {
		add(2, []byte{0xff, 0, 1, 0x7f, 0x80, 0xfe}, "stream")
	}
	var ops []byte
	for o := 0; o <= 0x10; o++ {
		ops = append(ops, byte(o))
	}
	ops = append(ops, 0x11, 0x7f, 0x80, 0xff)
	add(opOff, ops, "opcode")
	return out
}

func streamOf(raw []byte) (int, bool) {
	if len(raw) < 4 {
		return 0, false
	}
	if v := raw[0] & 0x7f; v > 2 {
		return int(int16(uint16(raw[2])<<8 | uint16(raw[3]))), true
	}
	return int(int8(raw[2])), true
}

var rowConsumers = []string{"scan", "scan-meta", "scanner", "mapscan", "slicemap"}

var (
	rowsCat  []*frameCase
	otherCat []*frameCase
)

func getRowsCat() []*frameCase {
	if rowsCat == nil {
		rowsCat = rowsCatalogue()
	}
	return rowsCat
}

// framesCat = every non-rows frame, the rows frames (for header mutations and one
// consumer), and compressed variants.
func getOtherCat(thorough bool) []*frameCase {
	if otherCat == nil {
		otherCat = otherCatalogue()
		otherCat = append(otherCat, refcqlCatalogue(thorough)...)
		for _, fc := range getRowsCat() {
			c := *fc
			c.name += "[hdr]"
			otherCat = append(otherCat, &c)
		}
		// compressed bodies (snappy, in package gocql) and a compressor on the connection
		for _, fc := range append(otherCatalogue()[:0:0], otherCat...) {
			if fc.connVersion != 4 || strings.Contains(fc.name, "refcql:") || !(strings.HasSuffix(fc.name, "error/unavailable") || strings.HasSuffix(fc.name, "rows/global-2col-2row[hdr]") || strings.HasSuffix(fc.name, "event/topology-change")) {
				continue
			}
			comp := gocql.SnappyCompressor{}
			body, _ := comp.Encode(fc.raw[fc.headLen:])
			raw := append(append([]byte(nil), fc.raw[:fc.headLen]...), body...)
			raw[1] |= flagCompress
			setN(raw, fc.headLen-4, 4, int64(len(body)))
			otherCat = append(otherCat, &frameCase{name: fc.name + "+snappy", connVersion: 4, raw: raw, headLen: fc.headLen,
				spans: fc.spans[:1], event: fc.event, rows: fc.rows, dests: fc.dests, compressor: comp})
			// uncompressed frame on a connection that negotiated compression
			c := *fc
			c.name += "+compressor-unused"
			c.compressor = comp
			otherCat = append(otherCat, &c)
		}
	}
	return otherCat
}

var rowsSuite = &suite{
	name:     "rows",
	deciding: true,
	memKiB:   1 << 20,
	blocks:   func(bool) int { return len(getRowsCat()) },
	run: func(c *child, b int) {
		fc := getRowsCat()[b]
		// mutations of the whole body: metadata and rows content
		runFrameCases(c, fc, bodyMutants(fc, 0), rowConsumers)
	},
	describe: func(r *report.Run, thorough bool) {
		cat := getRowsCat()
		n := 0
		for _, fc := range cat {
			n += len(bodyMutants(fc, 0))
		}
		r.Extra("rows.frames", len(cat))
		r.Extra("rows.mutants", n)
		var names []string
		for _, sh := range rowsShapes() {
			names = append(names, strings.TrimPrefix(sh.name, "rows/"))
		}
		ruleParts = append(ruleParts, fmt.Sprintf(
			"(b) rows: %d well-formed RESULT/rows frames (shapes {%s} x protocol {2,3,4,5}) x {well-formed, stream ending at every offset, body cut at every offset with the header length adjusted, every length/count field (column count, paging state, names, type options, tuple/udt counts, row count, every cell length, every length inside a cell value) replaced by {-2^31,-2,-1,0,1,n-1,n+1,65535,2^31-1}} (%d distinct byte strings) x consumers {Iter.Scan into the application's expected destinations, Iter.Scan into RowData().Values, Scanner.Next/Scan, MapScan, SliceMap}, each run under two paddings of the framer's spare buffer; non-trivial = header and body were accepted and parseFrame ran",
			len(cat), strings.Join(names, ","), n))
	},
}

var framesSuite = &suite{
	name:     "frames",
	deciding: true,
	memKiB:   2 << 20,
	blocks:   func(thorough bool) int { return len(getOtherCat(thorough)) },
	run: func(c *child, b int) {
		fc := getOtherCat(c.thorough)[b]
		var muts []fmut
		if !strings.Contains(fc.name, "[hdr]") || fc.compressor != nil {
			muts = bodyMutants(fc, 0)
		} else {
			muts = []fmut{{raw: fc.raw, class: "valid", desc: "well-formed"}}
		}
		if wantHeaderMutants(fc, c.thorough) {
			muts = append(muts, headerMutants(fc)...)
		}
		consumers := []string{"scan-meta"}
		if c.thorough && fc.rows && strings.Contains(fc.name, "refcql:") {
			consumers = []string{"scan-meta", "scanner", "mapscan", "slicemap"}
		}
		runFrameCases(c, fc, muts, consumers)
	},
	describe: func(r *report.Run, thorough bool) {
		cat := getOtherCat(thorough)
		n := 0
		kinds := map[string]bool{}
		nref := 0
		for _, fc := range cat {
			if strings.Contains(fc.name, "refcql:") {
				nref++
			}
			if !strings.Contains(fc.name, "[hdr]") || fc.compressor != nil {
				n += len(bodyMutants(fc, 0))
			}
			if wantHeaderMutants(fc, thorough) {
				n += len(headerMutants(fc))
			}
			kinds[fc.name[strings.Index(fc.name, "/")+1:]] = true
		}
		r.Extra("frames.frames", len(cat))
		r.Extra("frames.kinds", len(kinds))
		r.Extra("frames.mutants", n)
		ruleParts = append(ruleParts, fmt.Sprintf(
			"(d) frames: %d well-formed response frames (%d of them one per shape class and version of engine/refcql/frame's reference catalogue, protocol {2,4} quick / {1..5} thorough; the rest a hand-encoded catalogue; %d kinds in all: ERROR of every code incl. v5 reason maps and an unknown code, READY, AUTHENTICATE, SUPPORTED, AUTH_CHALLENGE/SUCCESS, RESULT void/set_keyspace/schema_change(all targets)/prepared(3 shapes)/unknown kind, EVENT topology/status(v4,v6)/schema/unknown, flags tracing+warning+payload, snappy-compressed variants; x protocol {2,3,4,5}) x {well-formed, stream ending at every offset, body cut at every offset with adjusted length, every length/count field incl. the header length replaced by {-2^31,-2,-1,0,1,n-1,n+1,65535,2^31-1}, header: version byte 0..7 in both directions + 7f/ff, each flag bit toggled + 00/ff, stream {-1,0,1,max,min,-2,0x4000}, every opcode 0..0x10 + {11,7f,80,ff} (header fields: on the hand-encoded frames; thorough also on the plainest frame of each reference class family)} (%d byte strings); stream -1 goes down the event path (parse + Session.handleEvent), everything else is parsed (rows: iterated with Scan into RowData; thorough: reference-catalogue rows also with Scanner, MapScan, SliceMap); non-trivial = parseFrame ran",
			len(cat), nref, len(kinds), n))
	},
}

// wantHeaderMutants: header fields are replaced on every hand-encoded frame and, in the
// thorough tier, on the plainest frame of every reference-catalogue class family (the
// header does not depend on the rest of the shape; each version-byte replacement makes
// readFrame allocate a garbage length of up to 256 MiB, which is slow).
func wantHeaderMutants(fc *frameCase, thorough bool) bool {
	i := strings.Index(fc.name, "refcql:")
	if i < 0 {
		return true
	}
	return thorough && quickClass(fc.name[i+len("refcql:"):])
}

func baseName(fc *frameCase) string { return fc.name[strings.Index(fc.name, "/")+1:] }

func runFrameCases(c *child, fc *frameCase, muts []fmut, consumers []string) {
	if !fc.rows {
		consumers = consumers[:1]
	}
	for _, cons := range consumers {
		for i := range muts {
			if !c.begin() {
				continue
			}
			m := &muts[i]
			consumer := cons
			if st, ok := streamOf(m.raw); ok && st == -1 {
				consumer = "event"
			}
			if c.wantSample() {
				c.sample(fmt.Sprintf("%s %s [%x] -> %s", fc.name, m.desc, m.raw, consumer))
			}
			if c.describe {
				continue
			}
			if fc.zeroCols && consumer == "slicemap" && strings.HasPrefix(m.class, "sub:rows.count") && strings.HasSuffix(m.desc, "2^31-1") {
				// SliceMap over 2^31-1 declared rows of zero columns runs its own unbounded
				// loop; the same loop is covered with 65535 declared rows.
				c.count("skipped.slicemap-0col-2^31-1", 1)
				continue
			}
			in := gocql.VerifC05FrameIn{ConnVersion: fc.connVersion, Raw: m.raw, Compressor: fc.compressor,
				Consumer: consumer, Dests: fc.dests, MaxIter: 1 << 12}
			if consumer != "scan" && consumer != "scanner" {
				in.Dests = nil
			}
			var a gocql.VerifC05FrameOut
			in.Pad = 0x00
			alloc := c.measure(func() { a = gocql.VerifC05Frame(in) })
			if c.profile {
				continue
			}
			in.Pad = 0xA5
			bo := gocql.VerifC05Frame(in)
			if alloc > 32<<20 {
				// the second run's garbage must not count against the next case's
				// address space either (see child.measure)
				runtime.GC()
			}

			outcome := "ok"
			switch {
			case a.Panic != "":
				outcome = "panic"
			case strings.Contains(a.Outcome, "-error: "):
				outcome = "err"
			}
			if a.Stage != "header" && a.Stage != "body" {
				cls := m.class
				c.nontrivial(fmt.Sprintf("%s|%s|%s|%s", fc.name, cls, consumer, outcome))
			}
			c.count("outcome."+outcome, 1)
			if a.Capped {
				c.count("iteration-cap-reached", 1)
			}
			replay := func() map[string]interface{} {
				return map[string]interface{}{"suite": c.suite.name, "frame": fc.name, "mutation": m.desc, "conn_version": fc.connVersion,
					"raw_hex": fmt.Sprintf("%x", m.raw), "consumer": consumer, "compressor": fc.compressor != nil}
			}
			what := fmt.Sprintf("%s, %s, consumer %s: raw=[%x]", fc.name, m.desc, consumer, m.raw)
			switch {
			case a.Panic != "" && bo.Panic != "":
				c.viol(fmt.Sprintf("panic:%s:%s", siteFromTrace(a.Stack), panicClass(a.Panic)), func() (string, map[string]interface{}) {
					return fmt.Sprintf("%s: panic at stage %s: %s\n%s", what, a.Stage, a.Panic, trimStack(a.Stack)), replay()
				})
			case a.Panic != "" || bo.Panic != "":
				o := a
				if o.Panic == "" {
					o = bo
				}
				c.viol(fmt.Sprintf("overread:%s:%s", siteFromTrace(o.Stack), panicClass(o.Panic)), func() (string, map[string]interface{}) {
					return fmt.Sprintf("%s: panics under one padding of the framer's spare buffer only (pad 00: %q / %q; pad a5: %q / %q)\n%s",
						what, a.Panic, a.Outcome, bo.Panic, bo.Outcome, trimStack(o.Stack)), replay()
				})
			case a.Outcome != bo.Outcome:
				c.viol(fmt.Sprintf("overread:%s:result-depends-on-bytes-outside-the-frame", baseName(fc)), func() (string, map[string]interface{}) {
					return fmt.Sprintf("%s: result depends on what was in the framer's buffer beyond the received body: pad 00 -> %s ; pad a5 -> %s", what, a.Outcome, bo.Outcome), replay()
				})
			}
			// The bound applies to what the driver does on its own: parsing, and SliceMap's
			// loop. Where the application runs the row loop (Scan, Scanner, MapScan) each
			// successfully scanned row gets another 64*len allowance, so that only a single
			// call allocating out of proportion is reported.
			bound := allocBound(len(m.raw))
			if consumer != "slicemap" {
				bound += uint64(a.Rows) * 64 * uint64(len(m.raw))
			}
			if fc.compressor == nil && alloc > bound {
				c.viol(fmt.Sprintf("alloc?:%s/%s|%s", baseName(fc), consumer, m.class), func() (string, map[string]interface{}) {
					return fmt.Sprintf("%s (%d bytes): %d bytes allocated (bound %d); outcome %s", what, len(m.raw), alloc, bound, head(a.Outcome, 300)), replay()
				})
			}
		}
	}
}
