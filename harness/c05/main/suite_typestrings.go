package main

// Sub-suite (c): schema type strings into the type-string parsers of metadata.go and
// helpers.go (the strings come from rows of system.schema_* / system_schema.* tables,
// i.e. from the network).

import (
	"fmt"
	"sort"
	"strings"

	"github.com/gocql/gocql"
	"verif/engine/report"
)

const marshalPfx = "org.apache.cassandra.db.marshal."

var nativeCQL = []string{"ascii", "bigint", "blob", "boolean", "counter", "date", "decimal", "double", "duration",
	"float", "inet", "int", "smallint", "text", "time", "timestamp", "timeuuid", "tinyint", "uuid", "varchar", "varint"}

var nativeMarshal = []string{"AsciiType", "LongType", "BytesType", "BooleanType", "CounterColumnType", "DecimalType",
	"DoubleType", "FloatType", "Int32Type", "ShortType", "ByteType", "TimeType", "DateType", "TimestampType",
	"UUIDType", "LexicalUUIDType", "UTF8Type", "IntegerType", "TimeUUIDType", "InetAddressType", "DurationType",
	"SimpleDateType", "EmptyType"}

// typeStringCatalogue returns valid type strings of both syntaxes.
func typeStringCatalogue() []string {
	var out []string
	// --- CQL syntax (Cassandra 3.x system_schema.columns.type, function/aggregate signatures)
	out = append(out, nativeCQL...)
	out = append(out, "myudt", "\"MyUdt\"", "'org.example.CustomType'", "empty")
	cqlElems := []string{"int", "text", "uuid", "myudt"}
	var c1 []string
	for _, e := range cqlElems {
		c1 = append(c1, "list<"+e+">", "set<"+e+">", "frozen<"+e+">", "tuple<"+e+">", "map<"+e+", text>", "map<int, "+e+">", "tuple<"+e+", int>", "tuple<int, "+e+", text>")
	}
	out = append(out, c1...)
	var c2 []string
	for _, c := range []string{"list<int>", "set<text>", "map<int, text>", "tuple<int, text>", "frozen<myudt>", "frozen<list<int>>"} {
		c2 = append(c2, "list<"+c+">", "set<frozen<"+c+">>", "frozen<"+c+">", "map<text, "+c+">", "map<frozen<"+c+">, int>", "tuple<"+c+", int>", "tuple<int, "+c+">", "list<frozen<"+c+">>")
	}
	out = append(out, c2...)
	// depth 3
	out = append(out,
		"map<text, frozen<list<frozen<tuple<int, text>>>>>",
		"list<frozen<map<int, frozen<set<uuid>>>>>",
		"frozen<tuple<frozen<list<int>>, frozen<map<text, frozen<set<int>>>>, myudt>>",
		"set<frozen<tuple<frozen<tuple<int, frozen<list<text>>>>, text>>>",
		"map<frozen<tuple<int, frozen<set<text>>>>, frozen<map<text, frozen<list<int>>>>>",
		"tuple<int, frozen<myudt>, frozen<list<frozen<myudt>>>, map<text, frozen<tuple<int, int>>>>",
	)
	// --- marshal class syntax (Cassandra 2.x validator / comparator / key_validator columns)
	m := func(s string) string { return marshalPfx + s }
	for _, n := range nativeMarshal {
		out = append(out, m(n))
	}
	out = append(out, "Int32Type", "com.example.MyCustomType", m("FrozenType(")+m("ListType(")+m("Int32Type")+"))")
	mElems := []string{m("Int32Type"), m("UTF8Type"), m("UUIDType")}
	var m1 []string
	for _, e := range mElems {
		m1 = append(m1,
			m("ListType(")+e+")", m("SetType(")+e+")", m("MapType(")+e+","+m("UTF8Type")+")", m("MapType(")+m("Int32Type")+","+e+")",
			m("ReversedType(")+e+")", m("FrozenType(")+e+")", m("TupleType(")+e+","+m("Int32Type")+")",
			m("CompositeType(")+e+")", m("CompositeType(")+e+","+m("UTF8Type")+")", m("CompositeType(")+m("Int32Type")+", "+e+", "+m("LongType")+")")
	}
	out = append(out, m1...)
	// depth 2 / 3
	li := m("ListType(") + m("Int32Type") + ")"
	mp := m("MapType(") + m("UTF8Type") + "," + m("LongType") + ")"
	out = append(out,
		m("ListType(")+li+")", m("SetType(")+m("FrozenType(")+li+"))", m("MapType(")+m("UTF8Type")+","+li+")",
		m("MapType(")+m("UTF8Type")+","+m("FrozenType(")+mp+"))",
		m("ReversedType(")+li+")", m("ReversedType(")+m("ReversedType(")+m("Int32Type")+"))",
		m("CompositeType(")+m("ReversedType(")+m("TimeUUIDType")+"),"+m("UTF8Type")+")",
		m("CompositeType(")+m("UTF8Type")+","+m("ReversedType(")+m("Int32Type")+"),"+m("ReversedType(")+m("LongType")+"))",
		m("CompositeType(")+li+","+m("ReversedType(")+mp+"))",
		m("ListType(")+m("MapType(")+m("UTF8Type")+","+m("SetType(")+m("Int32Type")+")))",
		m("TupleType(")+m("Int32Type")+","+m("TupleType(")+m("UTF8Type")+","+li+"))",
		// collections: hex-named ColumnToCollectionType parameters (the names are hex of the column name)
		m("CompositeType(")+m("UTF8Type")+","+m("ColumnToCollectionType(")+"6c:"+li+"))",
		m("CompositeType(")+m("Int32Type")+","+m("UTF8Type")+","+m("ColumnToCollectionType(")+"6d79636f6c:"+mp+",73:"+m("SetType(")+m("UTF8Type")+")))",
		m("CompositeType(")+m("ReversedType(")+m("Int32Type")+"),"+m("UTF8Type")+","+m("ColumnToCollectionType(")+"6162:"+m("ListType(")+m("ReversedType(")+m("Int32Type")+"))))",
		m("ColumnToCollectionType(")+"6c:"+li+")",
		// DynamicCompositeType aliases (a=>Type)
		m("DynamicCompositeType(")+"a=>"+m("UTF8Type")+",b=>"+m("Int32Type")+")",
		m("DynamicCompositeType(")+"i=>"+m("ReversedType(")+m("Int32Type")+"),u=>"+m("UUIDType")+")",
		// UserType(keyspace, hex name, hex field:type, ...)
		m("UserType(")+"ks,6d79756474,61:"+m("Int32Type")+",62:"+m("UTF8Type")+")",
		m("FrozenType(")+m("UserType(")+"ks,75,66:"+li+",67:"+m("FrozenType(")+m("UserType(")+"ks,76,68:"+m("Int32Type")+"))))",
		m("ListType(")+m("FrozenType(")+m("UserType(")+"ks,75,61:"+m("Int32Type")+")))",
		// with whitespace, as the parser's grammar allows
		" "+m("MapType")+" ( "+m("UTF8Type")+" , "+m("Int32Type")+" ) ",
		m("CompositeType(")+" "+m("UTF8Type")+" , "+m("ColumnToCollectionType(")+" 6c : "+li+" ) )",
	)
	// dedupe, stable
	seen := map[string]bool{}
	var uniq []string
	for _, s := range out {
		if !seen[s] {
			seen[s] = true
			uniq = append(uniq, s)
		}
	}
	return uniq
}

var typeStringFns = []string{
	"parseType", "getCassandraType", "getTypeInfo", "apacheToCassandraType", "splitCompositeTypes",
	"compile:2:col2x", "compile:4:col3x", "compile:2:keyvalidator",
	"compile:1:keyvalidator", "compile:1:comparator", "compile:1:defaultvalidator",
}

var mutationChars = []byte{'(', ')', ',', ':', '<', '>', ' ', '=', '\''}

// typeStringMutants returns s, every proper prefix, every single-character deletion,
// and every substitution / insertion of a mutation character at every position.
func typeStringMutants(s string) []string {
	seen := map[string]bool{}
	var out []string
	add := func(m string) {
		if !seen[m] {
			seen[m] = true
			out = append(out, m)
		}
	}
	add(s)
	for i := 0; i < len(s); i++ {
		add(s[:i])
	}
	for i := 0; i < len(s); i++ {
		add(s[:i] + s[i+1:])
	}
	for i := 0; i <= len(s); i++ {
		for _, ch := range mutationChars {
			if i < len(s) {
				add(s[:i] + string(ch) + s[i+1:])
			}
			add(s[:i] + string(ch) + s[i:])
		}
	}
	return out
}

var tsCat []string

func tsCatalogue() []string {
	if tsCat == nil {
		tsCat = typeStringCatalogue()
	}
	return tsCat
}

var typeStringSuite = &suite{
	name:     "typestrings",
	deciding: true,
	memKiB:   2 << 20,
	blocks:   func(bool) int { return len(tsCatalogue()) },
	run:      runTypeStringBlock,
	describe: func(r *report.Run, thorough bool) {
		cat := tsCatalogue()
		n := 0
		for _, s := range cat {
			n += len(typeStringMutants(s))
		}
		r.Extra("typestrings.catalogue", len(cat))
		r.Extra("typestrings.mutants", n)
		ruleParts = append(ruleParts, fmt.Sprintf(
			"(c) type strings: %d valid type strings (CQL syntax: every native type, list/set/map/frozen/tuple/UDT names nested to depth 3; marshal-class syntax: every native class, List/Set/Map/Frozen/Tuple/Reversed/Composite/ColumnToCollection(hex names)/DynamicComposite/UserType nested to depth 3, with and without blanks) x {the string, every truncation, every 1-char deletion, every 1-char substitution and insertion from ( ) , : < > blank = '} (%d distinct strings) x %d entry points (%s); non-trivial = the string is not rejected/returned as a custom type at once",
			len(cat), n, len(typeStringFns), strings.Join(typeStringFns, ",")))
	},
}

func runTypeStringBlock(c *child, b int) {
	base := tsCatalogue()[b]
	muts := typeStringMutants(base)
	for _, fn := range typeStringFns {
		for _, m := range muts {
			if !c.begin() {
				continue
			}
			if c.wantSample() {
				c.sample(fmt.Sprintf("%s(%q)", fn, m))
			}
			if c.describe {
				continue
			}
			var outcome, pv, stack string
			alloc := c.measure(func() { outcome, pv, stack = gocql.VerifC05TypeString(fn, m) })
			if c.profile {
				continue
			}
			cls := "value"
			if pv != "" {
				cls = "panic"
			}
			if pv != "" || !strings.Contains(outcome, "typ:0 custom:") || strings.Count(outcome, "typ:") > 1 {
				c.nontrivial(fmt.Sprintf("%s|%s|%d|%s", fn, base, len(m)-len(base), cls))
			}
			c.count("outcome."+cls, 1)
			if pv != "" {
				site := siteFromTrace(stack)
				c.viol(fmt.Sprintf("panic:%s:%s", site, panicClass(pv)), func() (string, map[string]interface{}) {
					return fmt.Sprintf("%s(%q) panicked: %s\n%s", fn, m, pv, trimStack(stack)),
						map[string]interface{}{"suite": "typestrings", "fn": fn, "input": m, "mutant_of": base}
				})
			}
			if alloc > allocBound(len(m)) {
				c.viol(fmt.Sprintf("alloc?:%s", fn), func() (string, map[string]interface{}) {
					return fmt.Sprintf("%s(%q) (%d bytes) allocated %d bytes (bound %d)", fn, m, len(m), alloc, allocBound(len(m))),
						map[string]interface{}{"suite": "typestrings", "fn": fn, "input": m, "mutant_of": base}
				})
			}
		}
	}
}

var _ = sort.Strings
