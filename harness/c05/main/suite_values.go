package main

// Sub-suite (a): value bytes into gocql.Unmarshal.

import (
	"bytes"
	"fmt"
	"regexp"
	"runtime"
	"sort"
	"strings"

	"github.com/gocql/gocql"
	"verif/engine/report"
)

var valueVersions = []byte{2, 4}

var valuesSuite = &suite{
	name:     "values",
	deciding: true,
	memKiB:   1 << 20, // 1 GiB of address space
	blocks: func(thorough bool) int {
		return len(typeCatalogue(thorough)) * len(valueVersions)
	},
	run: runValuesBlock,
	describe: func(r *report.Run, thorough bool) {
		cat := typeCatalogue(thorough)
		d := map[int]int{}
		for _, n := range cat {
			d[n.depth()]++
		}
		r.Extra("values.type_trees", map[string]int{"scalar": d[0], "depth1": d[1], "depth2": d[2]})
		ruleParts = append(ruleParts, fmt.Sprintf(
			"(a) values: for each of %d CQL type trees (21 scalars; list/set/map/tuple(1-2)/udt(1-2 fields) over {%s}; depth-2 trees with an inner composite in every position) x protocol {2,4} x every documented Go target of that type (+ **T, *interface{}): nil, each valid encoding (all present / last element null), every truncation of each, every length/count field of each replaced by {-2^31,-2,-1,0,1,n-1,n+1,65535,2^31-1} (masked to the field width), all byte strings of length<=3 over {00,01,7f,80,ff} (quick tier: depth-2 trees only with the all-present encoding and without the short strings); each run twice (input at the end of an exact allocation; input followed by 32 spare bytes of capacity) — a case is a distinct (type,version,target,input bytes); non-trivial = Unmarshal got past the 'cannot unmarshal X into T' type check",
			len(cat), strings.Join(elemAlphabet, ",")))
	},
}

var typeCatCache = map[bool][]*tnode{}

func catalogue(thorough bool) []*tnode {
	if c, ok := typeCatCache[thorough]; ok {
		return c
	}
	c := typeCatalogue(thorough)
	typeCatCache[thorough] = c
	return c
}

var subAlphabet = []struct {
	name string
	f    func(n int64) int64
}{
	{"-2^31", func(int64) int64 { return -1 << 31 }},
	{"-2", func(int64) int64 { return -2 }},
	{"-1", func(int64) int64 { return -1 }},
	{"0", func(int64) int64 { return 0 }},
	{"1", func(int64) int64 { return 1 }},
	{"n-1", func(n int64) int64 { return n - 1 }},
	{"n+1", func(n int64) int64 { return n + 1 }},
	{"65535", func(int64) int64 { return 65535 }},
	{"2^31-1", func(int64) int64 { return 1<<31 - 1 }},
}

var shortAlphabet = []byte{0x00, 0x01, 0x7f, 0x80, 0xff}

// shortStrings returns all byte strings of length <= 3 over shortAlphabet.
func shortStrings() [][]byte {
	out := [][]byte{{}}
	level := [][]byte{{}}
	for l := 1; l <= 3; l++ {
		var next [][]byte
		for _, p := range level {
			for _, b := range shortAlphabet {
				next = append(next, append(append([]byte{}, p...), b))
			}
		}
		out = append(out, next...)
		level = next
	}
	return out
}

type vinput struct {
	data  []byte
	isNil bool
	class string // valid, nil, trunc, sub:<role>:<value>, short
	desc  string
}

// substitute returns b with the field at s replaced by v (masked to the width).
func substitute(b []byte, s span, v int64) []byte {
	out := append([]byte(nil), b...)
	for i := 0; i < s.Width; i++ {
		out[s.Off+i] = byte(v >> (8 * uint(s.Width-1-i)))
	}
	return out
}

func valueInputs(n *tnode, proto byte, thorough bool) []vinput {
	var ins []vinput
	seen := map[string]bool{}
	add := func(in vinput) {
		k := string(in.data)
		if in.isNil {
			k = "\x00nil"
		} else {
			k = "d" + k
		}
		if seen[k] {
			return
		}
		seen[k] = true
		ins = append(ins, in)
	}
	add(vinput{isNil: true, class: "nil", desc: "null"})
	variants := 2
	// quick tier: depth-2 trees get the all-present encoding only and no short strings
	// (a string of <= 3 bytes cannot reach below the outermost node, which the depth-1
	// trees of the same outer kind already cover)
	reduced := !thorough && n.depth() >= 2
	if reduced {
		variants = 1
	}
	for v := 0; v < variants; v++ {
		var e enc
		n.encode(&e, proto, v)
		add(vinput{data: e.b, class: "valid", desc: fmt.Sprintf("valid#%d", v)})
		for k := 0; k < len(e.b); k++ {
			add(vinput{data: e.b[:k], class: "trunc", desc: fmt.Sprintf("valid#%d truncated to %d of %d", v, k, len(e.b))})
		}
		for si, s := range e.spans {
			for _, a := range subAlphabet {
				nv := a.f(s.Val)
				m := substitute(e.b, s, nv)
				if bytes.Equal(m, e.b) {
					continue
				}
				add(vinput{data: m, class: "sub:" + s.Role + ":" + a.name,
					desc: fmt.Sprintf("valid#%d field#%d %s@%d(w%d)=%d -> %s", v, si, s.Role, s.Off, s.Width, s.Val, a.name)})
			}
		}
	}
	if !reduced {
		for _, s := range shortStrings() {
			add(vinput{data: s, class: "short", desc: fmt.Sprintf("short %x", s)})
		}
	}
	return ins
}

var typeMismatchRe = regexp.MustCompile(`^(gocql: )?(can ?not|cannot) unmarshal .* into |^can not unmarshal into non-pointer|^unmarshal: can not`)

type runOut struct {
	err      string
	rendered string
	panicked bool
	panicMsg string
	pcs      []uintptr
}

// stack formats the call stack captured at the panic (function names only).
func (o *runOut) stack() string { return formatPCs(o.pcs) }

func formatPCs(pcs []uintptr) string {
	if len(pcs) == 0 {
		return ""
	}
	var sb strings.Builder
	frames := runtime.CallersFrames(pcs)
	for {
		fr, more := frames.Next()
		fmt.Fprintf(&sb, "%s(...)\n\t%s:%d\n", fr.Function, fr.File, fr.Line)
		if !more {
			break
		}
	}
	return sb.String()
}

var siteCache = map[[12]uintptr]string{}

// site returns the driver function in which the panic was raised (cached per stack).
func (o *runOut) site() string {
	var k [12]uintptr
	copy(k[:], o.pcs)
	if s, ok := siteCache[k]; ok {
		return s
	}
	s := siteFromTrace(o.stack())
	siteCache[k] = s
	return s
}

// capturePanic is called from a deferred function that recovered p.
func capturePanic(p interface{}) (msg string, pcs []uintptr) {
	if e, ok := p.(error); ok {
		msg = e.Error()
	} else {
		msg = fmt.Sprint(p)
	}
	buf := make([]uintptr, 48)
	n := runtime.Callers(3, buf) // skip Callers, capturePanic, the deferred func
	return msg, buf[:n]
}

func callUnmarshal(info gocql.TypeInfo, data []byte, tgt interface{}) (o runOut) {
	defer func() {
		if p := recover(); p != nil {
			o.panicked = true
			o.panicMsg, o.pcs = capturePanic(p)
		}
	}()
	err := gocql.Unmarshal(info, data, tgt)
	if err != nil {
		o.err = err.Error()
	}
	return
}

func (o *runOut) same(p *runOut) bool {
	return o.panicked == p.panicked && o.err == p.err && o.rendered == p.rendered
}

const spare = 32

// exact returns a copy of d whose capacity equals its length (the bytes sit at the
// end of their allocation as far as Go is concerned: any access past len panics).
func exact(in *vinput) []byte {
	if in.isNil {
		return nil
	}
	b := make([]byte, len(in.data))
	copy(b, in.data)
	return b[:len(b):len(b)]
}

// padded returns a copy of d followed by spare bytes of 0xA5 inside its capacity.
func padded(in *vinput) (data, whole []byte) {
	if in.isNil {
		return nil, nil
	}
	whole = make([]byte, len(in.data)+spare)
	copy(whole, in.data)
	for i := len(in.data); i < len(whole); i++ {
		whole[i] = 0xA5
	}
	return whole[:len(in.data)], whole
}

func allocBound(n int) uint64 { return 1<<20 + 64*uint64(n) }

func runValuesBlock(c *child, b int) {
	cat := catalogue(c.thorough)
	n := cat[b/len(valueVersions)]
	proto := valueVersions[b%len(valueVersions)]
	info := n.info(proto)
	ins := valueInputs(n, proto, c.thorough)
	tstr := n.String()
	for _, tg := range n.targets(true) {
		for i := range ins {
			if !c.begin() {
				continue
			}
			in := &ins[i]
			replay := func() map[string]interface{} {
				return map[string]interface{}{"suite": "values", "type": tstr, "proto": proto, "target": tg.name,
					"input_hex": fmt.Sprintf("%x", in.data), "input_nil": in.isNil, "input": in.desc}
			}
			if c.wantSample() {
				c.sample(fmt.Sprintf("Unmarshal(%s v%d, %s [%x], %s)", tstr, proto, in.desc, in.data, tg.name))
			}
			if c.describe {
				continue
			}
			if strings.HasSuffix(in.class, "2^31-1") && c.sincePart > 32 {
				// durability only: a huge count may kill this process (out of memory);
				// hand over what has been found so far
				c.flushPart()
			}
			// run A: exact capacity, measured
			var a runOut
			ta := tg.mk()
			da := exact(in)
			alloc := c.measure(func() { a = callUnmarshal(info, da, ta) })
			if !a.panicked {
				a.rendered = gocql.VerifC05Render(ta)
			}
			// run B: spare capacity filled with A5 (pointless after a runaway allocation:
			// that case is reported below whatever B does)
			overAlloc := alloc > allocBound(len(in.data))
			bo, padOK := a, true
			var whole []byte
			if !overAlloc {
				tb := tg.mk()
				var db []byte
				db, whole = padded(in)
				bo = callUnmarshal(info, db, tb)
				if !bo.panicked {
					bo.rendered = gocql.VerifC05Render(tb)
				}
				for i := len(in.data); i < len(whole); i++ {
					if whole[i] != 0xA5 {
						padOK = false
					}
				}
				if !in.isNil && !bytes.Equal(db, in.data) {
					padOK = false
				}
			}

			outcome := "ok"
			switch {
			case a.panicked:
				outcome = "panic"
			case a.err != "":
				outcome = "err"
			}
			if !(a.err != "" && typeMismatchRe.MatchString(a.err)) {
				cls := in.class
				if strings.HasPrefix(cls, "sub:") {
					cls = cls[:strings.LastIndex(cls, ":")]
				}
				c.nontrivial(fmt.Sprintf("%s|%d|%s|%s|%s", tstr, proto, tg.name, cls, outcome))
			}
			c.count("outcome."+outcome, 1)

			switch {
			case a.panicked && bo.panicked:
				c.viol(fmt.Sprintf("panic:%s:%s", a.site(), panicClass(a.panicMsg)), func() (string, map[string]interface{}) {
					return fmt.Sprintf("gocql.Unmarshal(%s proto %d, %s = [%x], %s) panicked: %s\n%s", tstr, proto, in.desc, in.data, tg.name, a.panicMsg, trimStack(a.stack())), replay()
				})
			case a.panicked && !bo.panicked:
				c.viol(fmt.Sprintf("overread:%s:%s", a.site(), panicClass(a.panicMsg)), func() (string, map[string]interface{}) {
					return fmt.Sprintf("gocql.Unmarshal(%s proto %d, %s = [%x], %s): with cap(data)==len(data) it panics (%s); with %d spare bytes of capacity it reads them instead: err=%q value=%s\n%s",
						tstr, proto, in.desc, in.data, tg.name, a.panicMsg, spare, bo.err, bo.rendered, trimStack(a.stack())), replay()
				})
			case !a.panicked && bo.panicked:
				c.viol(fmt.Sprintf("panic:%s:%s", bo.site(), panicClass(bo.panicMsg)), func() (string, map[string]interface{}) {
					return fmt.Sprintf("gocql.Unmarshal(%s proto %d, %s = [%x], %s) panicked only with spare capacity: %s\n%s", tstr, proto, in.desc, in.data, tg.name, bo.panicMsg, trimStack(bo.stack())), replay()
				})
			case !a.same(&bo):
				c.viol(fmt.Sprintf("overread:%s->%s:result-depends-on-bytes-after-the-value", n.name, tg.name), func() (string, map[string]interface{}) {
					return fmt.Sprintf("gocql.Unmarshal(%s proto %d, %s = [%x], %s): exact: err=%q value=%s; with spare capacity: err=%q value=%s",
						tstr, proto, in.desc, in.data, tg.name, a.err, a.rendered, bo.err, bo.rendered), replay()
				})
			case !padOK:
				c.viol(fmt.Sprintf("overwrite:%s->%s:writes-past-the-value", n.name, tg.name), func() (string, map[string]interface{}) {
					return fmt.Sprintf("gocql.Unmarshal(%s proto %d, %s = [%x], %s) modified its input buffer: %x", tstr, proto, in.desc, in.data, tg.name, whole), replay()
				})
			}
			if overAlloc {
				// the allocating site is resolved by the parent (one profiled re-run per
				// provisional key), see parent.allocSiteFor
				c.viol(fmt.Sprintf("alloc?:%s->%s|%s", n.name, tg.generic(), classNoValue(in.class)), func() (string, map[string]interface{}) {
					return fmt.Sprintf("gocql.Unmarshal(%s proto %d, %s = [%x] (%d bytes), %s) allocated %d bytes (bound %d); result err=%q",
						tstr, proto, in.desc, in.data, len(in.data), tg.name, alloc, allocBound(len(in.data)), a.err), replay()
				})
			}
		}
	}
}

// classNoValue drops the substituted value from a mutation class ("sub:role:value").
func classNoValue(cls string) string {
	if strings.HasPrefix(cls, "sub:") && strings.Count(cls, ":") >= 2 {
		return cls[:strings.LastIndex(cls, ":")]
	}
	return cls
}

func trimStack(s string) string {
	lines := strings.Split(s, "\n")
	var keep []string
	for i := 0; i < len(lines); i++ {
		l := lines[i]
		if strings.HasPrefix(l, "runtime/debug.Stack") || strings.HasPrefix(l, "goroutine ") {
			i += map[bool]int{true: 1, false: 0}[strings.HasPrefix(l, "runtime/debug.Stack")]
			continue
		}
		keep = append(keep, l)
		if len(keep) >= 16 {
			break
		}
	}
	return strings.Join(keep, "\n")
}

// allocSite re-runs f with every allocation profiled and returns the driver function
// (site) on whose behalf most bytes were allocated.
func allocSite(f func()) string {
	old := runtime.MemProfileRate
	runtime.MemProfileRate = 1
	defer func() { runtime.MemProfileRate = old }()
	snap := func() map[[32]uintptr]int64 {
		runtime.GC()
		runtime.GC()
		n, _ := runtime.MemProfile(nil, true)
		recs := make([]runtime.MemProfileRecord, n+64)
		n, ok := runtime.MemProfile(recs, true)
		if !ok {
			return nil
		}
		m := map[[32]uintptr]int64{}
		for _, r := range recs[:n] {
			m[r.Stack0] += r.AllocBytes
		}
		return m
	}
	before := snap()
	f()
	after := snap()
	type kv struct {
		k [32]uintptr
		v int64
	}
	var l []kv
	for k, v := range after {
		if d := v - before[k]; d > 0 {
			l = append(l, kv{k, d})
		}
	}
	if len(l) == 0 {
		return "unknown-site"
	}
	sort.Slice(l, func(i, j int) bool { return l[i].v > l[j].v })
	var sb strings.Builder
	pcs := l[0].k[:]
	k := 0
	for k < len(pcs) && pcs[k] != 0 {
		k++
	}
	frames := runtime.CallersFrames(pcs[:k])
	for {
		fr, more := frames.Next()
		sb.WriteString(fr.Function + "(...)\n")
		if !more {
			break
		}
	}
	return siteFromTrace(sb.String())
}
