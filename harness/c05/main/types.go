package main

// CQL type trees, a valid-encoding generator written from the native protocol
// specification (section 6 of native_protocol_v4.spec: value serialisation; v2 spec for
// the [short]-framed collections), and the Go targets documented for each CQL type in
// the doc comment of gocql.Unmarshal.

import (
	"fmt"
	"math/big"
	"net"
	"reflect"
	"strings"
	"time"

	"github.com/gocql/gocql"
	"gopkg.in/inf.v0"
)

type tnode struct {
	typ    gocql.Type
	name   string
	kids   []*tnode // list/set: elem; map: key, value; tuple: elements; udt: field types
	fnames []string // udt field names
}

func (n *tnode) String() string {
	switch n.typ {
	case gocql.TypeList, gocql.TypeSet, gocql.TypeMap, gocql.TypeTuple:
		ks := make([]string, len(n.kids))
		for i, k := range n.kids {
			ks[i] = k.String()
		}
		return n.name + "<" + strings.Join(ks, ",") + ">"
	case gocql.TypeUDT:
		ks := make([]string, len(n.kids))
		for i, k := range n.kids {
			ks[i] = n.fnames[i] + ":" + k.String()
		}
		return "udt{" + strings.Join(ks, ",") + "}"
	}
	return n.name
}

func (n *tnode) depth() int {
	d := 0
	for _, k := range n.kids {
		if kd := k.depth() + 1; kd > d {
			d = kd
		}
	}
	return d
}

func (n *tnode) info(proto byte) gocql.TypeInfo {
	nt := gocql.NewNativeType(proto, n.typ, "")
	switch n.typ {
	case gocql.TypeList, gocql.TypeSet:
		return gocql.CollectionType{NativeType: nt, Elem: n.kids[0].info(proto)}
	case gocql.TypeMap:
		return gocql.CollectionType{NativeType: nt, Key: n.kids[0].info(proto), Elem: n.kids[1].info(proto)}
	case gocql.TypeTuple:
		t := gocql.TupleTypeInfo{NativeType: nt}
		for _, k := range n.kids {
			t.Elems = append(t.Elems, k.info(proto))
		}
		return t
	case gocql.TypeUDT:
		u := gocql.UDTTypeInfo{NativeType: nt, KeySpace: "ks", Name: "u"}
		for i, k := range n.kids {
			u.Elements = append(u.Elements, gocql.UDTField{Name: n.fnames[i], Type: k.info(proto)})
		}
		return u
	}
	return nt
}

var scalarNames = []struct {
	name string
	typ  gocql.Type
}{
	{"ascii", gocql.TypeAscii}, {"bigint", gocql.TypeBigInt}, {"blob", gocql.TypeBlob},
	{"boolean", gocql.TypeBoolean}, {"counter", gocql.TypeCounter}, {"decimal", gocql.TypeDecimal},
	{"double", gocql.TypeDouble}, {"float", gocql.TypeFloat}, {"int", gocql.TypeInt},
	{"text", gocql.TypeText}, {"timestamp", gocql.TypeTimestamp}, {"uuid", gocql.TypeUUID},
	{"varchar", gocql.TypeVarchar}, {"varint", gocql.TypeVarint}, {"timeuuid", gocql.TypeTimeUUID},
	{"inet", gocql.TypeInet}, {"date", gocql.TypeDate}, {"time", gocql.TypeTime},
	{"smallint", gocql.TypeSmallInt}, {"tinyint", gocql.TypeTinyInt}, {"duration", gocql.TypeDuration},
}

func scalar(name string) *tnode {
	for _, s := range scalarNames {
		if s.name == name {
			return &tnode{typ: s.typ, name: name}
		}
	}
	panic("no scalar " + name)
}

func scalars(names ...string) []*tnode {
	var out []*tnode
	for _, n := range names {
		out = append(out, scalar(n))
	}
	return out
}

func allScalars() []*tnode {
	var out []*tnode
	for _, s := range scalarNames {
		out = append(out, &tnode{typ: s.typ, name: s.name})
	}
	return out
}

// The reduced element alphabet of the composite types.
var elemAlphabet = []string{"int", "bigint", "text", "varint", "boolean", "uuid", "timestamp", "date", "duration", "inet"}

func tList(e *tnode) *tnode   { return &tnode{typ: gocql.TypeList, name: "list", kids: []*tnode{e}} }
func tSet(e *tnode) *tnode    { return &tnode{typ: gocql.TypeSet, name: "set", kids: []*tnode{e}} }
func tMap(k, v *tnode) *tnode { return &tnode{typ: gocql.TypeMap, name: "map", kids: []*tnode{k, v}} }
func tTuple(es ...*tnode) *tnode {
	return &tnode{typ: gocql.TypeTuple, name: "tuple", kids: es}
}
func tUDT(es ...*tnode) *tnode {
	n := &tnode{typ: gocql.TypeUDT, name: "udt", kids: es}
	for i := range es {
		n.fnames = append(n.fnames, string(rune('a'+i)))
	}
	return n
}

// composites1 returns every depth-1 composite over the element alphabet es:
// list<e>, set<e>, map<k,v>, tuple<e>, tuple<e1,e2>, udt{a:e}, udt{a:e1,b:e2}.
func composites1(es []*tnode) []*tnode {
	var out []*tnode
	for _, e := range es {
		out = append(out, tList(e), tSet(e), tTuple(e), tUDT(e))
	}
	for _, a := range es {
		for _, b := range es {
			out = append(out, tMap(a, b), tTuple(a, b), tUDT(a, b))
		}
	}
	return out
}

// composites2 returns the depth-2 composites: every outer kind with an inner
// composite from inner in each of its positions, scalars from es in the others.
func composites2(es []*tnode, inner []*tnode) []*tnode {
	var out []*tnode
	for _, c := range inner {
		out = append(out, tList(c), tSet(c), tTuple(c), tUDT(c))
		for _, e := range es {
			out = append(out, tMap(e, c), tMap(c, e), tTuple(e, c), tTuple(c, e), tUDT(e, c), tUDT(c, e))
		}
	}
	return out
}

func typeCatalogue(thorough bool) []*tnode {
	out := allScalars()
	es := scalars(elemAlphabet...)
	c1 := composites1(es)
	out = append(out, c1...)
	if thorough {
		// inner composite over the full alphabet, other positions over a 3-letter one
		out = append(out, composites2(scalars("int", "text", "varint"), c1)...)
	} else {
		small := scalars("int", "text", "varint")
		out = append(out, composites2(scalars("int", "text"), composites1(small))...)
	}
	return out
}

// ---------------------------------------------------------------------------------
// valid encodings, with the byte span of every length / count field

type span struct {
	Off   int    `json:"off"`
	Width int    `json:"w"`
	Val   int64  `json:"val"`
	Role  string `json:"role"` // e.g. list.count, list.elemlen, map.keylen, tuple.elemlen, udt.fieldlen, str.len ...
}

type enc struct {
	b     []byte
	spans []span
}

func (e *enc) field(width int, v int64, role string) {
	e.spans = append(e.spans, span{Off: len(e.b), Width: width, Val: v, Role: role})
	e.putN(width, v)
}
func (e *enc) putN(width int, v int64) {
	for i := width - 1; i >= 0; i-- {
		e.b = append(e.b, byte(v>>(8*uint(i))))
	}
}

var scalarValid = map[gocql.Type][][]byte{
	gocql.TypeAscii:     {[]byte("ab")},
	gocql.TypeText:      {[]byte("h\xc3\xa9")},
	gocql.TypeVarchar:   {[]byte("cd")},
	gocql.TypeBlob:      {{0xde, 0xad, 0x00}},
	gocql.TypeBoolean:   {{1}},
	gocql.TypeTinyInt:   {{0x7f}},
	gocql.TypeSmallInt:  {{0x01, 0x02}},
	gocql.TypeInt:       {{0x00, 0x01, 0x02, 0x03}},
	gocql.TypeBigInt:    {{0x80, 1, 2, 3, 4, 5, 6, 7}},
	gocql.TypeCounter:   {{0, 0, 0, 0, 0, 0, 1, 0}},
	gocql.TypeTimestamp: {{0x00, 0x00, 0x01, 0x8b, 0xcf, 0xe5, 0x68, 0x00}},
	gocql.TypeTime:      {{0x00, 0x00, 0x2e, 0x7d, 0xa3, 0x7e, 0xe0, 0x00}},
	gocql.TypeFloat:     {{0x3f, 0xc0, 0x00, 0x00}},
	gocql.TypeDouble:    {{0x3f, 0xf8, 0, 0, 0, 0, 0, 0}},
	gocql.TypeDecimal:   {{0, 0, 0, 2, 0x30, 0x39}},
	gocql.TypeVarint:    {{0x01, 0x00}, {0x00, 0xff, 0xff, 0xff, 0xff, 0xff, 0xff, 0xff, 0xff}},
	gocql.TypeUUID:      {{0x5a, 0x3c, 0x1f, 0x10, 0x0b, 0x7a, 0x4c, 0x5d, 0x9e, 0x21, 0x33, 0x44, 0x55, 0x66, 0x77, 0x88}},
	gocql.TypeTimeUUID:  {{0x5a, 0x3c, 0x1f, 0x10, 0x0b, 0x7a, 0x11, 0xee, 0x9e, 0x21, 0x33, 0x44, 0x55, 0x66, 0x77, 0x88}},
	gocql.TypeInet:      {{10, 0, 0, 1}, {0x20, 0x01, 0x0d, 0xb8, 0, 0, 0, 0, 0, 0, 0, 0, 0, 0, 0, 1}},
	gocql.TypeDate:      {{0x80, 0x00, 0x4c, 0x9d}},
	gocql.TypeDuration:  {{0x02, 0x04, 0x82, 0x58}},
}

// encode appends a valid value of type n. variant selects among the valid scalar
// byte strings and, for composites, whether the last element is null (variant 1,
// length -1; not expressible in the v2 [short] framing so there it stays present).
func (n *tnode) encode(e *enc, proto byte, variant int) {
	collLen := func(v int64, role string) {
		if proto > 2 {
			e.field(4, v, role)
		} else {
			e.field(2, v, role)
		}
	}
	sub := func(k *tnode, role string, isNull bool, coll bool) {
		if isNull {
			if coll {
				collLen(-1, role)
			} else {
				e.field(4, -1, role)
			}
			return
		}
		var ke enc
		k.encode(&ke, proto, variant)
		if coll {
			collLen(int64(len(ke.b)), role)
		} else {
			e.field(4, int64(len(ke.b)), role)
		}
		base := len(e.b)
		for _, s := range ke.spans {
			s.Off += base
			e.spans = append(e.spans, s)
		}
		e.b = append(e.b, ke.b...)
	}
	nullLast := variant == 1
	switch n.typ {
	case gocql.TypeList, gocql.TypeSet:
		collLen(2, n.name+".count")
		sub(n.kids[0], n.name+".elemlen", false, true)
		sub(n.kids[0], n.name+".elemlen", nullLast && proto > 2, true)
	case gocql.TypeMap:
		collLen(2, "map.count")
		for i := 0; i < 2; i++ {
			sub(n.kids[0], "map.keylen", false, true)
			sub(n.kids[1], "map.vallen", nullLast && proto > 2 && i == 1, true)
		}
	case gocql.TypeTuple:
		for i, k := range n.kids {
			sub(k, "tuple.elemlen", nullLast && i == len(n.kids)-1, false)
		}
	case gocql.TypeUDT:
		for i, k := range n.kids {
			sub(k, "udt.fieldlen", nullLast && i == len(n.kids)-1, false)
		}
	default:
		vs := scalarValid[n.typ]
		e.b = append(e.b, vs[variant%len(vs)]...)
	}
}

// ---------------------------------------------------------------------------------
// Go targets

type (
	namedString string
	namedBytes  []byte
	namedBool   bool
	namedInt32  int32
	namedInt64  int64
	namedUint16 uint16
	namedUint64 uint64
	namedF32    float32
	namedF64    float64
)

type target struct {
	name string
	mk   func() interface{}
}

// generic is the target's shape without the concrete element types.
func (t target) generic() string {
	v := reflect.TypeOf(t.mk())
	var sb []string
	for i := 0; i < 3 && v != nil; i++ {
		sb = append(sb, v.Kind().String())
		switch v.Kind() {
		case reflect.Ptr, reflect.Slice, reflect.Array, reflect.Map:
			v = v.Elem()
		default:
			v = nil
		}
	}
	return strings.Join(sb, ".")
}

func ptrTo(t reflect.Type) target {
	return target{name: "*" + t.String(), mk: func() interface{} { return reflect.New(t).Interface() }}
}

var (
	tString   = reflect.TypeOf("")
	tBytes    = reflect.TypeOf([]byte(nil))
	tBool     = reflect.TypeOf(false)
	tIface    = reflect.TypeOf((*interface{})(nil)).Elem()
	tTime     = reflect.TypeOf(time.Time{})
	tDuration = reflect.TypeOf(time.Duration(0))
	tBigInt   = reflect.TypeOf(big.Int{})
	tDec      = reflect.TypeOf(inf.Dec{})
	tUUID     = reflect.TypeOf(gocql.UUID{})
	tIP       = reflect.TypeOf(net.IP(nil))
	tCQLDur   = reflect.TypeOf(gocql.Duration{})
	intTypes  = []reflect.Type{
		reflect.TypeOf(int(0)), reflect.TypeOf(int8(0)), reflect.TypeOf(int16(0)), reflect.TypeOf(int32(0)), reflect.TypeOf(int64(0)),
		reflect.TypeOf(uint(0)), reflect.TypeOf(uint8(0)), reflect.TypeOf(uint16(0)), reflect.TypeOf(uint32(0)), reflect.TypeOf(uint64(0)),
		tBigInt, tString,
		reflect.TypeOf(namedInt32(0)), reflect.TypeOf(namedUint16(0)), reflect.TypeOf(namedUint64(0)),
	}
)

// canon is the Go type gocql itself picks for a CQL type (helpers.go goType, the
// types MapScan/SliceMap/RowData hand to Unmarshal). ok=false when Go has no such
// type (a map keyed by a slice or map).
func (n *tnode) canon() (reflect.Type, bool) {
	switch n.typ {
	case gocql.TypeVarchar, gocql.TypeAscii, gocql.TypeInet, gocql.TypeText:
		return tString, true
	case gocql.TypeBigInt, gocql.TypeCounter:
		return reflect.TypeOf(int64(0)), true
	case gocql.TypeTime:
		return tDuration, true
	case gocql.TypeTimestamp, gocql.TypeDate:
		return tTime, true
	case gocql.TypeBlob:
		return tBytes, true
	case gocql.TypeBoolean:
		return tBool, true
	case gocql.TypeFloat:
		return reflect.TypeOf(float32(0)), true
	case gocql.TypeDouble:
		return reflect.TypeOf(float64(0)), true
	case gocql.TypeInt:
		return reflect.TypeOf(int(0)), true
	case gocql.TypeSmallInt:
		return reflect.TypeOf(int16(0)), true
	case gocql.TypeTinyInt:
		return reflect.TypeOf(int8(0)), true
	case gocql.TypeDecimal:
		return reflect.PtrTo(tDec), true
	case gocql.TypeUUID, gocql.TypeTimeUUID:
		return tUUID, true
	case gocql.TypeVarint:
		return reflect.PtrTo(tBigInt), true
	case gocql.TypeDuration:
		return tCQLDur, true
	case gocql.TypeList, gocql.TypeSet:
		e, ok := n.kids[0].canon()
		if !ok {
			return nil, false
		}
		return reflect.SliceOf(e), true
	case gocql.TypeMap:
		k, ok1 := n.kids[0].canon()
		v, ok2 := n.kids[1].canon()
		if !ok1 || !ok2 || !k.Comparable() {
			return nil, false
		}
		return reflect.MapOf(k, v), true
	case gocql.TypeTuple:
		for _, k := range n.kids {
			if _, ok := k.canon(); !ok {
				return nil, false
			}
		}
		return reflect.TypeOf([]interface{}(nil)), true
	case gocql.TypeUDT:
		for _, k := range n.kids {
			if _, ok := k.canon(); !ok {
				return nil, false
			}
		}
		return reflect.TypeOf(map[string]interface{}(nil)), true
	}
	return nil, false
}

// udtTarget implements gocql.UDTUnmarshaler the way the interface's doc comment
// suggests: by calling Unmarshal for each field into a value of the field's type.
type udtTarget struct {
	Fields map[string]interface{}
}

func (u *udtTarget) UnmarshalUDT(name string, info gocql.TypeInfo, data []byte) error {
	v, err := info.NewWithError()
	if err != nil {
		return err
	}
	if err := gocql.Unmarshal(info, data, v); err != nil {
		return err
	}
	if u.Fields == nil {
		u.Fields = map[string]interface{}{}
	}
	u.Fields[name] = v
	return nil
}

// targets returns the documented Go targets for CQL type n (doc comment of
// gocql.Unmarshal), plus pointer-to-pointer and *interface{} forms. Every target is
// one a correct application may pass for this CQL type: sizes of tuple destinations
// and struct field types agree with the type, so a panic cannot be the caller's fault.
func (n *tnode) targets(full bool) []target {
	var ts []target
	add := func(types ...reflect.Type) {
		for _, t := range types {
			ts = append(ts, ptrTo(t))
		}
	}
	canon, hasCanon := n.canon()
	switch n.typ {
	case gocql.TypeVarchar, gocql.TypeAscii, gocql.TypeText, gocql.TypeBlob:
		add(tString, tBytes, reflect.TypeOf(namedString("")), reflect.TypeOf(namedBytes(nil)))
		// "non-nil buffer is reused"
		ts = append(ts, target{"*[]byte(prefilled)", func() interface{} { b := make([]byte, 2, 8); return &b }})
	case gocql.TypeBoolean:
		add(tBool, reflect.TypeOf(namedBool(false)))
	case gocql.TypeTinyInt, gocql.TypeSmallInt, gocql.TypeInt, gocql.TypeBigInt, gocql.TypeCounter, gocql.TypeVarint:
		if full {
			add(intTypes...)
		} else {
			add(reflect.TypeOf(int(0)), reflect.TypeOf(int64(0)), tBigInt, tString)
		}
	case gocql.TypeFloat:
		add(reflect.TypeOf(float32(0)), reflect.TypeOf(namedF32(0)))
	case gocql.TypeDouble:
		add(reflect.TypeOf(float64(0)), reflect.TypeOf(namedF64(0)))
	case gocql.TypeDecimal:
		add(tDec)
	case gocql.TypeTime:
		add(reflect.TypeOf(int64(0)), tDuration, reflect.TypeOf(namedInt64(0)))
	case gocql.TypeTimestamp:
		add(reflect.TypeOf(int64(0)), tTime, reflect.TypeOf(namedInt64(0)))
	case gocql.TypeUUID:
		add(tString, tBytes, tUUID, reflect.TypeOf([16]byte{}))
	case gocql.TypeTimeUUID:
		add(tString, tBytes, tUUID, reflect.TypeOf([16]byte{}), tTime)
	case gocql.TypeInet:
		add(tIP, tString)
	case gocql.TypeDate:
		add(tTime, tString)
	case gocql.TypeDuration:
		add(tCQLDur)
	case gocql.TypeList, gocql.TypeSet:
		if e, ok := n.kids[0].canon(); ok {
			add(reflect.SliceOf(e), reflect.SliceOf(reflect.PtrTo(e)), reflect.ArrayOf(2, e))
		}
	case gocql.TypeMap:
		if hasCanon {
			add(canon, reflect.MapOf(canon.Key(), reflect.PtrTo(canon.Elem())))
		}
	case gocql.TypeTuple:
		if hasCanon {
			kt := make([]reflect.Type, len(n.kids))
			for i, k := range n.kids {
				kt[i], _ = k.canon()
			}
			// the Scan form: one pointer per element
			ts = append(ts, target{"[]interface{}{*T...}", func() interface{} {
				d := make([]interface{}, len(kt))
				for i := range d {
					d[i] = reflect.New(kt[i]).Interface()
				}
				return d
			}})
			// "tuple | *struct | struct fields are set in order of declaration". For an
			// element whose Go type is itself a pointer (varint -> *big.Int, decimal ->
			// *inf.Dec) unmarshalTuple's struct branch panics on every input, valid ones
			// included (it assigns a **T to the *T field): a functional defect that does
			// not depend on the bytes, hence not C05's; such tuples get no struct target.
			var fs, pfs []reflect.StructField
			structOK := true
			for i, t := range kt {
				if t.Kind() == reflect.Ptr {
					structOK = false
				}
				fs = append(fs, reflect.StructField{Name: fmt.Sprintf("F%d", i), Type: t})
				pfs = append(pfs, reflect.StructField{Name: fmt.Sprintf("F%d", i), Type: reflect.PtrTo(t)})
			}
			if structOK {
				st, pst := reflect.StructOf(fs), reflect.StructOf(pfs)
				ts = append(ts, target{"*struct{T...}", func() interface{} { return reflect.New(st).Interface() }})
				ts = append(ts, target{"*struct{*T...}", func() interface{} { return reflect.New(pst).Interface() }})
			}
			add(reflect.TypeOf([]interface{}(nil)), reflect.ArrayOf(len(kt), tIface))
		}
	case gocql.TypeUDT:
		if hasCanon {
			add(canon)
			var fs, pfs []reflect.StructField
			for i, k := range n.kids {
				t, _ := k.canon()
				tag := reflect.StructTag(`cql:"` + n.fnames[i] + `"`)
				fs = append(fs, reflect.StructField{Name: fmt.Sprintf("F%d", i), Type: t, Tag: tag})
				pfs = append(pfs, reflect.StructField{Name: fmt.Sprintf("F%d", i), Type: reflect.PtrTo(t), Tag: tag})
			}
			st, pst := reflect.StructOf(fs), reflect.StructOf(pfs)
			ts = append(ts, target{"*struct{cql T...}", func() interface{} { return reflect.New(st).Interface() }})
			ts = append(ts, target{"*struct{cql *T...}", func() interface{} { return reflect.New(pst).Interface() }})
			ts = append(ts, target{"UDTUnmarshaler", func() interface{} { return &udtTarget{} }})
		}
	}
	if hasCanon {
		// pointer to pointer: set to nil for null, allocated otherwise
		pp := reflect.PtrTo(canon)
		ts = append(ts, target{"*" + pp.String(), func() interface{} { return reflect.New(pp).Interface() }})
	}
	ts = append(ts, target{"*interface{}", func() interface{} { return new(interface{}) }})
	return ts
}
