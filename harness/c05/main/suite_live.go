package main

// Live sub-suites (e)-(h): well-formed RESULT frames of small, exhaustively enumerated
// shapes answered by a scripted node to a real connection, consumed through public
// entry points that the frame-level sub-suites do not reach:
//
//	(e) cas    Query.ScanCAS / MapScanCAS, Session.ExecuteBatchCAS / MapExecuteBatchCAS
//	(f) peers  ringDescriber.getClusterPeerInfo / getLocalHostInfo (+ hostInfoFromMap on
//	           hand-made rows) and ring.addHostIfMissing
//	(g) bind   PREPARED request metadata vs. the values bound by Conn.executeQuery /
//	           executeBatch
//	(h) pages  Scanner over two pages whose column counts differ
//
// Oracle: the call returns (value or error); no panic on the caller's goroutine
// (recovered here) and none on a driver goroutine (that kills the child process and is
// attributed through the journal).

import (
	"fmt"
	"net"
	"os"
	"reflect"
	"runtime/debug"
	"strings"

	"github.com/gocql/gocql"
	"verif/engine/report"
)

type liveCall struct {
	panicMsg string
	stack    string
	outcome  string
}

func guard(f func() string) (c liveCall) {
	defer func() {
		if p := recover(); p != nil {
			c.panicMsg = fmt.Sprint(p)
			c.stack = string(debug.Stack())
		}
	}()
	c.outcome = f()
	return
}

func (c *child) liveVerdict(lc liveCall, what string, replay map[string]interface{}) {
	cls := "ok"
	switch {
	case lc.panicMsg != "":
		cls = "panic"
	case strings.Contains(lc.outcome, "err=") && !strings.Contains(lc.outcome, "err=<nil>"):
		cls = "err"
	}
	c.count("outcome."+cls, 1)
	if os.Getenv("C05_DEBUG") != "" {
		c.count("dbg."+head(numRe.ReplaceAllString(lc.outcome, "N"), 70), 1)
	}
	if lc.panicMsg != "" {
		c.viol(fmt.Sprintf("panic:%s:%s", siteFromTrace(lc.stack), panicClass(lc.panicMsg)), func() (string, map[string]interface{}) {
			return fmt.Sprintf("%s panicked: %s\n%s", what, lc.panicMsg, trimStack(lc.stack)), replay
		})
	}
}

// withLive runs body with a fresh scripted node + live connection.
func withLive(c *child, body func(n *liveNode, l *gocql.VerifC05Live)) {
	if c.describe {
		body(nil, nil)
		return
	}
	n, l, err := dialLive()
	if err != nil {
		fmt.Fprintf(os.Stderr, "child: live dial failed: %v\n", err)
		os.Exit(3)
	}
	defer l.Close()
	body(n, l)
}

// ---------------------------------------------------------------------------------
// (e) cas

type casShape struct {
	desc   string
	flags  int32
	cols   []col
	nrows  int
	null0  bool
	nExtra int
}

func casShapes() []casShape {
	boolT, intT, textT := scalar("boolean"), scalar("int"), scalar("text")
	firstNames := []string{"[applied]", "applied", "x"}
	firstTypes := []*tnode{boolT, intT, textT, tTuple(boolT), tList(boolT)}
	extras := [][]col{nil, {{"v", intT}}, {{"w", textT}, {"v", intT}}, {{"[applied]", boolT}}}
	var out []casShape
	for _, nrows := range []int{0, 1, 2} {
		for _, flags := range []int32{metaGlobalSpec, 0, metaNoMetadata} {
			out = append(out, casShape{desc: fmt.Sprintf("no columns, %d rows, flags %d", nrows, flags), flags: flags, nrows: nrows})
			for _, ex := range extras[1:] {
				// first column is not the [applied] one at all
				out = append(out, casShape{desc: fmt.Sprintf("cols %s, %d rows, flags %d", colNames(ex), nrows, flags), flags: flags, cols: ex, nrows: nrows, nExtra: len(ex) - 1})
			}
			for _, fn := range firstNames {
				for _, ft := range firstTypes {
					for _, ex := range extras[:3] {
						for _, null0 := range []bool{false, true} {
							cols := append([]col{{fn, ft}}, ex...)
							out = append(out, casShape{desc: fmt.Sprintf("cols %s, %d rows, flags %d, first cell null=%v", colNames(cols), nrows, flags, null0),
								flags: flags, cols: cols, nrows: nrows, null0: null0, nExtra: len(ex)})
						}
					}
				}
			}
		}
	}
	return out
}

func colNames(cs []col) string {
	var s []string
	for _, c := range cs {
		s = append(s, c.name+" "+c.typ.String())
	}
	return "[" + strings.Join(s, ", ") + "]"
}

var casMethods = []string{"Query.ScanCAS()", "Query.ScanCAS(extra dests)", "Query.MapScanCAS", "Session.ExecuteBatchCAS()", "Session.ExecuteBatchCAS(extra dests)", "Session.MapExecuteBatchCAS"}

func (sh casShape) body() []byte {
	return rowsBody(sh.flags, sh.cols, sh.nrows, nil, func(r, ci int) ([]byte, bool) {
		if ci == 0 && r == 0 && sh.null0 {
			return nil, true
		}
		return nil, false
	})
}

func preparedNoCols() []byte {
	var b fbuf
	b.PlainInt(4)
	b.ShortBytes([]byte{1, 2, 3, 4, 5, 6, 7, 8, 9, 10, 11, 12, 13, 14, 15, 16}, "x")
	b.PlainInt(metaGlobalSpec)
	b.Int(0, "x")
	b.Int(0, "x") // pk count (v4)
	b.Str("ks", "x")
	b.Str("tbl", "x")
	b.Metadata(metaNoMetadata, nil, nil)
	return b.b
}

const casBlocks = 8

var casSuite = &suite{
	name: "cas", deciding: true, memKiB: 2 << 20,
	blocks: func(bool) int { return casBlocks },
	describe: func(r *report.Run, thorough bool) {
		n := len(casShapes())
		r.Extra("cas.shapes", n)
		ruleParts = append(ruleParts, fmt.Sprintf(
			"(e) cas: %d well-formed RESULT/rows replies (rows {0,1,2} x metadata flags {global, per-column, no_metadata} x first column named {[applied], applied, x} of type {boolean, int, text, tuple<boolean>, list<boolean>} with a normal/null first cell x extra columns {none, int, text+int}, plus no columns at all and replies without an [applied] first column) x %d entry points (%s) on a real connection to a scripted node; non-trivial = every case (the reply reaches the entry point)",
			n, len(casMethods), strings.Join(casMethods, ", ")))
	},
	run: func(c *child, b int) {
		shapes := casShapes()
		withLive(c, func(n *liveNode, l *gocql.VerifC05Live) {
			for si, sh := range shapes {
				if si%casBlocks != b {
					continue
				}
				for _, m := range casMethods {
					if !c.begin() {
						continue
					}
					what := fmt.Sprintf("%s on reply {%s}", m, sh.desc)
					if c.wantSample() {
						c.sample(what)
					}
					if c.describe {
						continue
					}
					n.script(preparedNoCols(), sh.body())
					extra := func() []interface{} {
						var d []interface{}
						for _, cl := range sh.cols[len(sh.cols)-sh.nExtra:] {
							t, _ := cl.typ.canon()
							d = append(d, reflect.New(t).Interface())
						}
						return d
					}
					stmt := "UPDATE tbl SET v = 1 WHERE k = 1 IF v = 0"
					lc := guard(func() string {
						switch m {
						case "Query.ScanCAS()":
							ok, err := l.S.Query(stmt).ScanCAS()
							return fmt.Sprintf("applied=%v err=%v", ok, err)
						case "Query.ScanCAS(extra dests)":
							ok, err := l.S.Query(stmt).ScanCAS(extra()...)
							return fmt.Sprintf("applied=%v err=%v", ok, err)
						case "Query.MapScanCAS":
							ok, err := l.S.Query(stmt).MapScanCAS(map[string]interface{}{})
							return fmt.Sprintf("applied=%v err=%v", ok, err)
						case "Session.ExecuteBatchCAS()":
							bt := l.S.NewBatch(gocql.LoggedBatch)
							bt.Query(stmt)
							ok, it, err := l.S.ExecuteBatchCAS(bt)
							if it != nil {
								it.Close()
							}
							return fmt.Sprintf("applied=%v err=%v", ok, err)
						case "Session.ExecuteBatchCAS(extra dests)":
							bt := l.S.NewBatch(gocql.LoggedBatch)
							bt.Query(stmt)
							ok, it, err := l.S.ExecuteBatchCAS(bt, extra()...)
							if it != nil {
								it.Close()
							}
							return fmt.Sprintf("applied=%v err=%v", ok, err)
						default:
							bt := l.S.NewBatch(gocql.LoggedBatch)
							bt.Query(stmt)
							ok, it, err := l.S.MapExecuteBatchCAS(bt, map[string]interface{}{})
							if it != nil {
								it.Close()
							}
							return fmt.Sprintf("applied=%v err=%v", ok, err)
						}
					})
					c.nontrivial(fmt.Sprintf("%s|%s|%v", m, sh.desc, lc.panicMsg != ""))
					c.liveVerdict(lc, what, map[string]interface{}{"suite": "cas", "method": m, "reply": sh.desc, "body_hex": fmt.Sprintf("%x", sh.body())})
				}
			}
		})
	},
}

// ---------------------------------------------------------------------------------
// (f) peers

var addrCols = []string{"peer", "rpc_address", "broadcast_address", "preferred_ip"}

// frame-level alphabet of an address column
var addrFrameAlphabet = []string{"absent", "null", "0.0.0.0", "::", "10.0.0.9", "3-byte inet", "text 'garbage'", "int-typed"}

func addrFrameCol(name string, a int) (cl col, cell []byte, present bool) {
	inet := scalar("inet")
	switch addrFrameAlphabet[a] {
	case "absent":
		return col{}, nil, false
	case "null":
		return col{name, inet}, nil, true
	case "0.0.0.0":
		return col{name, inet}, []byte{0, 0, 0, 0}, true
	case "::":
		return col{name, inet}, make([]byte, 16), true
	case "10.0.0.9":
		return col{name, inet}, []byte{10, 0, 0, 9}, true
	case "3-byte inet":
		return col{name, inet}, []byte{10, 0, 9}, true
	case "text 'garbage'":
		return col{name, scalar("text")}, []byte("garbage"), true
	default:
		return col{name, scalar("int")}, []byte{0, 0, 0, 5}, true
	}
}

// map-level alphabet of an address key (what SliceMap could hand over, and wrong Go types)
var addrMapAlphabet = []string{"absent", "nil", `""`, `"0.0.0.0"`, `"::"`, `"10.0.0.9"`, `"garbage"`, "net.IP", "int"}

func addrMapValue(a int) (v interface{}, present bool) {
	switch addrMapAlphabet[a] {
	case "absent":
		return nil, false
	case "nil":
		return nil, true
	case `""`:
		return "", true
	case `"0.0.0.0"`:
		return "0.0.0.0", true
	case `"::"`:
		return "::", true
	case `"10.0.0.9"`:
		return "10.0.0.9", true
	case `"garbage"`:
		return "garbage", true
	case "net.IP":
		return net.IP{10, 0, 0, 9}, true
	default:
		return 5, true
	}
}

func pow(b, e int) int {
	n := 1
	for i := 0; i < e; i++ {
		n *= b
	}
	return n
}

const peersBlocks = 16

var peersSuite = &suite{
	name: "peers", deciding: true, memKiB: 2 << 20,
	blocks: func(bool) int { return peersBlocks },
	describe: func(r *report.Run, thorough bool) {
		nf, nm := pow(len(addrFrameAlphabet), 4), pow(len(addrMapAlphabet), 4)
		r.Extra("peers.frame_rows", nf)
		r.Extra("peers.map_rows", nm)
		ruleParts = append(ruleParts, fmt.Sprintf(
			"(f) peers: a system.peers / system.local row with valid data_center, rack, host_id, tokens, release_version and each of %s drawn from {%s} (%d rows) answered as a well-formed rows frame to the real ringDescriber.getClusterPeerInfo and getLocalHostInfo (Iter.SliceMap -> hostInfoFromMap -> isValidPeer) followed by ring.addHostIfMissing for every host returned; and the same row as a map with each address key from {%s} (%d rows) through Session.hostInfoFromMap / isValidPeer / ring.addHostIfMissing; non-trivial = every case",
			strings.Join(addrCols, ", "), strings.Join(addrFrameAlphabet, ", "), nf, strings.Join(addrMapAlphabet, ", "), nm))
	},
	run: func(c *child, b int) {
		text, uuid := scalar("text"), scalar("uuid")
		baseCols := []col{{"data_center", text}, {"rack", text}, {"host_id", uuid}, {"release_version", text}, {"tokens", tSet(text)}}
		baseCells := [][]byte{[]byte("dc1"), []byte("r1"), scalarValid[gocql.TypeUUID][0], []byte("3.11.4"), nil}
		{
			var e enc
			tSet(text).encode(&e, 4, 0)
			baseCells[4] = e.b
		}
		withLive(c, func(n *liveNode, l *gocql.VerifC05Live) {
			nf := pow(len(addrFrameAlphabet), 4)
			for i := 0; i < nf; i++ {
				if i%peersBlocks != b {
					continue
				}
				for _, which := range []string{"getClusterPeerInfo", "getLocalHostInfo"} {
					if !c.begin() {
						continue
					}
					var cols []col
					var cells [][]byte
					var desc []string
					k := i
					for _, name := range addrCols {
						a := k % len(addrFrameAlphabet)
						k /= len(addrFrameAlphabet)
						desc = append(desc, name+"="+addrFrameAlphabet[a])
						if cl, cell, ok := addrFrameCol(name, a); ok {
							cols = append(cols, cl)
							cells = append(cells, cell)
						}
					}
					cols = append(cols, baseCols...)
					cells = append(cells, baseCells...)
					what := fmt.Sprintf("ringDescriber.%s on a row with %s", which, strings.Join(desc, ", "))
					if c.wantSample() {
						c.sample(what)
					}
					if c.describe {
						continue
					}
					body := rowsBody(metaGlobalSpec, cols, 1, nil, func(r, ci int) ([]byte, bool) { return cells[ci], true })
					n.script(nil, body)
					var res gocql.VerifC05RingResult
					if which == "getClusterPeerInfo" {
						res = l.RefreshPeers()
					} else {
						res = l.RefreshLocal()
					}
					lc := liveCall{panicMsg: res.Panic, stack: res.Stack, outcome: res.Outcome}
					if strings.HasPrefix(res.Outcome, "error:") {
						lc.outcome = "err=" + res.Outcome
					}
					c.nontrivial(fmt.Sprintf("%s|%s|%s", which, strings.Join(desc, ","), head(res.Outcome, 12)))
					c.liveVerdict(lc, what, map[string]interface{}{"suite": "peers", "entry": which, "row": desc, "body_hex": fmt.Sprintf("%x", body)})
				}
			}
		})
		nm := pow(len(addrMapAlphabet), 4)
		for i := 0; i < nm; i++ {
			if i%peersBlocks != b {
				continue
			}
			if !c.begin() {
				continue
			}
			row := map[string]interface{}{"data_center": "dc1", "rack": "r1", "host_id": gocql.VerifC05UUID(), "release_version": "3.11.4", "tokens": []string{"1", "2"}}
			var desc []string
			k := i
			for _, name := range addrCols {
				a := k % len(addrMapAlphabet)
				k /= len(addrMapAlphabet)
				desc = append(desc, name+"="+addrMapAlphabet[a])
				if v, ok := addrMapValue(a); ok {
					row[name] = v
				}
			}
			what := fmt.Sprintf("Session.hostInfoFromMap on a row with %s", strings.Join(desc, ", "))
			if c.wantSample() {
				c.sample(what)
			}
			if c.describe {
				continue
			}
			res := gocql.VerifC05HostFromMap(row)
			lc := liveCall{panicMsg: res.Panic, stack: res.Stack, outcome: res.Outcome}
			if strings.HasPrefix(res.Outcome, "error:") {
				lc.outcome = "err=" + res.Outcome
			}
			c.nontrivial(fmt.Sprintf("map|%s|%s", strings.Join(desc, ","), head(res.Outcome, 12)))
			c.liveVerdict(lc, what, map[string]interface{}{"suite": "peers", "entry": "hostInfoFromMap", "row": desc})
		}
	},
}

// ---------------------------------------------------------------------------------
// (g) bind

type bindShape struct {
	desc     string
	prepared []byte
	types    []*tnode // types of the specs present
}

func bindShapes() []bindShape {
	intT, textT := scalar("int"), scalar("text")
	alpha := []*tnode{intT, textT, tTuple(intT, textT)}
	var out []bindShape
	var rec func(prefix []*tnode, k int, f func([]*tnode))
	rec = func(prefix []*tnode, k int, f func([]*tnode)) {
		if k == 0 {
			f(append([]*tnode(nil), prefix...))
			return
		}
		for _, t := range alpha {
			rec(append(prefix, t), k-1, f)
		}
	}
	for colCount := 0; colCount <= 3; colCount++ {
		for _, flags := range []int32{metaGlobalSpec, 0, metaNoMetadata | metaGlobalSpec, metaNoMetadata} {
			for present := 0; present <= colCount; present++ {
				if flags&metaNoMetadata != 0 && present > 0 {
					continue // with the flag no specs follow
				}
				rec(nil, present, func(types []*tnode) {
					var b fbuf
					b.PlainInt(4)
					b.ShortBytes([]byte{1, 2, 3, 4, 5, 6, 7, 8, 9, 10, 11, 12, 13, 14, 15, 16}, "x")
					b.PlainInt(flags)
					b.Int(colCount, "x")
					b.Int(0, "x") // pk count
					if flags&metaNoMetadata == 0 {
						if flags&metaGlobalSpec != 0 {
							b.Str("ks", "x")
							b.Str("tbl", "x")
						}
						for i, t := range types {
							if flags&metaGlobalSpec == 0 {
								b.Str("ks", "x")
								b.Str("tbl", "x")
							}
							b.Str(fmt.Sprintf("c%d", i), "x")
							b.Option(t)
						}
					}
					b.Metadata(metaNoMetadata, nil, nil) // result metadata: none
					var names []string
					for _, t := range types {
						names = append(names, t.String())
					}
					out = append(out, bindShape{
						desc:     fmt.Sprintf("PREPARED bind metadata: flags %#x, column count %d, specs present %d %v", flags, colCount, present, names),
						prepared: b.b, types: types})
				})
			}
		}
	}
	return out
}

const bindBlocks = 8

var bindSuite = &suite{
	name: "bind", deciding: true, memKiB: 2 << 20,
	blocks: func(bool) int { return bindBlocks },
	describe: func(r *report.Run, thorough bool) {
		n := len(bindShapes())
		r.Extra("bind.prepared_shapes", n)
		ruleParts = append(ruleParts, fmt.Sprintf(
			"(g) bind: %d PREPARED replies (bind column count 0..3 x flags {global, per-column, no_metadata(+global)} x column specs actually present 0..count x spec types over {int, text, tuple<int,text>}) x {0,1,2,3} bound values x {Query.Exec, Session.ExecuteBatch}: real PREPARE + bind + EXECUTE/BATCH against the scripted node; non-trivial = the PREPARED reply was parsed",
			n))
	},
	run: func(c *child, b int) {
		shapes := bindShapes()
		withLive(c, func(n *liveNode, l *gocql.VerifC05Live) {
			seq := 0
			for si, sh := range shapes {
				if si%bindBlocks != b {
					continue
				}
				for nvals := 0; nvals <= 3; nvals++ {
					for _, via := range []string{"Query.Exec", "Session.ExecuteBatch"} {
						if !c.begin() {
							continue
						}
						what := fmt.Sprintf("%s with %d values after {%s}", via, nvals, sh.desc)
						if c.wantSample() {
							c.sample(what)
						}
						if c.describe {
							continue
						}
						seq++
						n.script(sh.prepared)
						values := make([]interface{}, nvals)
						for i := range values {
							values[i] = 7
							if i < len(sh.types) && sh.types[i].typ == gocql.TypeText {
								values[i] = "x"
							}
							if i < len(sh.types) && sh.types[i].typ == gocql.TypeTuple {
								values[i] = []interface{}{7, "x"} // a value the tuple column accepts
							}
						}
						// a statement text of its own: prepared statements are cached by text
						stmt := fmt.Sprintf("INSERT INTO tbl (a, b, c) VALUES (?, ?, ?) /* %d.%d */", b, seq)
						lc := guard(func() string {
							if via == "Query.Exec" {
								return fmt.Sprintf("err=%v", l.S.Query(stmt, values...).Exec())
							}
							bt := l.S.NewBatch(gocql.UnloggedBatch)
							// Bind (rather than Query) so that the entry is prepared even
							// when no values are given
							bt.Bind(stmt, func(q *gocql.QueryInfo) ([]interface{}, error) { return values, nil })
							return fmt.Sprintf("err=%v", l.S.ExecuteBatch(bt))
						})
						if !strings.Contains(lc.outcome, "not enough bytes") {
							c.nontrivial(fmt.Sprintf("%s|%d|%s|%v", via, nvals, sh.desc, lc.panicMsg != ""))
						}
						c.liveVerdict(lc, what, map[string]interface{}{"suite": "bind", "via": via, "values": nvals, "prepared": sh.desc, "prepared_body_hex": fmt.Sprintf("%x", sh.prepared)})
					}
				}
			}
		})
	},
}

// ---------------------------------------------------------------------------------
// (h) pages

func pageColumnLists() [][]col {
	intT, textT := scalar("int"), scalar("text")
	alpha := []*tnode{intT, textT, tTuple(intT, intT)}
	out := [][]col{nil}
	level := [][]col{nil}
	for n := 1; n <= 3; n++ {
		var next [][]col
		for _, p := range level {
			for _, t := range alpha {
				next = append(next, append(append([]col(nil), p...), col{fmt.Sprintf("c%d", len(p)), t}))
			}
		}
		out = append(out, next...)
		level = next
	}
	return out
}

const pagesBlocks = 16

var pagesSuite = &suite{
	name: "pages", deciding: true, memKiB: 2 << 20,
	blocks: func(bool) int { return pagesBlocks },
	describe: func(r *report.Run, thorough bool) {
		n := len(pageColumnLists())
		r.Extra("pages.column_lists", n)
		ruleParts = append(ruleParts, fmt.Sprintf(
			"(h) pages: first page with has_more_pages and a column list from the %d lists of 0..3 columns over {int, text, tuple<int,int>} holding {0,1} rows, second (last) page with any of the %d lists holding 1 row, both well-formed, fetched by the real automatic paging (Iter.next -> Session.executeQuery) and consumed with Scanner.Next/Scan into {as many destinations as page 1 declares, as page 2 declares} and with Iter.Scan likewise; non-trivial = the second page was fetched",
			n, n))
	},
	run: func(c *child, b int) {
		lists := pageColumnLists()
		withLive(c, func(n *liveNode, l *gocql.VerifC05Live) {
			idx := 0
			for _, p1 := range lists {
				for _, p2 := range lists {
					idx++
					if idx%pagesBlocks != b {
						continue
					}
					for _, rows1 := range []int{0, 1} {
						for _, destsFrom := range []int{1, 2} {
							for _, via := range []string{"Scanner", "Iter.Scan"} {
								if !c.begin() {
									continue
								}
								what := fmt.Sprintf("%s over page 1 %s (%d rows, more pages) then page 2 %s (1 row), destinations as page %d declares",
									via, colNames(p1), rows1, colNames(p2), destsFrom)
								if c.wantSample() {
									c.sample(what)
								}
								if c.describe {
									continue
								}
								n.script(nil,
									rowsBody(metaGlobalSpec|metaMorePages, p1, rows1, []byte{0xca, 0xfe}, nil),
									rowsBody(metaGlobalSpec, p2, 1, nil, nil))
								// destinations of the Go types gocql itself picks for the columns of
								// the page the application goes by
								mk := destsFor(p1)
								if destsFrom == 2 {
									mk = destsFor(p2)
								}
								var fetched bool
								lc := guard(func() string {
									q := l.S.Query("LIST ROLES").PageSize(1) // not a statement kind that is prepared
									it := q.Iter()
									rows := 0
									var err error
									if via == "Scanner" {
										sc := it.Scanner()
										for sc.Next() {
											if err = sc.Scan(mk()...); err != nil {
												break
											}
											rows++
										}
										if e := sc.Err(); err == nil {
											err = e
										}
									} else {
										for it.Scan(mk()...) {
											rows++
										}
										err = it.Close()
									}
									n.mu.Lock()
									fetched = n.nExec >= 2
									n.mu.Unlock()
									return fmt.Sprintf("rows=%d err=%v", rows, err)
								})
								if fetched {
									c.nontrivial(fmt.Sprintf("%s|%s|%d|%s|%d|%v", via, colNames(p1), rows1, colNames(p2), destsFrom, lc.panicMsg != ""))
								}
								c.liveVerdict(lc, what, map[string]interface{}{"suite": "pages", "via": via, "page1": colNames(p1), "rows1": rows1, "page2": colNames(p2), "dests_from_page": destsFrom})
							}
						}
					}
				}
			}
		})
	},
}
