package main

// The reference response catalogue of engine/refcql/frame (written by another agent
// from the protocol specifications): one representative per shape class and version,
// with the spans of its length/count fields, as additional well-formed frames for the
// frame-level sub-suite.

import (
	"encoding/json"
	"fmt"
	"os"
	"path/filepath"
	"sort"
	"strings"

	"verif/engine/refcql/frame"
)

type cachedFrame struct {
	Name    string
	Version byte
	Raw     []byte
	HeadLen int
	Event   bool
	Rows    bool
	Spans   []span
}

// refcqlCatalogue is built once by the parent and handed to the children through a
// file (building it means enumerating the whole reference catalogue: ~0.3-1 s, too
// much for a child that is restarted after every attributed death).
func refcqlCatalogue(thorough bool) []*frameCase {
	file := ""
	if dir := os.Getenv("C05_CACHE_DIR"); dir != "" {
		file = filepath.Join(dir, "refcql-"+tierName(thorough)+".json")
		if b, err := os.ReadFile(file); err == nil {
			var cf []cachedFrame
			if json.Unmarshal(b, &cf) == nil && len(cf) > 0 {
				out := make([]*frameCase, len(cf))
				for i, f := range cf {
					out[i] = &frameCase{name: f.Name, connVersion: f.Version, raw: f.Raw, headLen: f.HeadLen, event: f.Event, rows: f.Rows, spans: f.Spans}
				}
				return out
			}
		}
	}
	out := buildRefcqlCatalogue(thorough)
	if file != "" {
		cf := make([]cachedFrame, len(out))
		for i, f := range out {
			cf[i] = cachedFrame{f.name, f.connVersion, f.raw, f.headLen, f.event, f.rows, f.spans}
		}
		if b, err := json.Marshal(cf); err == nil {
			tmp := fmt.Sprintf("%s.%d", file, os.Getpid())
			if os.WriteFile(tmp, b, 0o600) == nil {
				os.Rename(tmp, file)
			}
		}
	}
	return out
}

func buildRefcqlCatalogue(thorough bool) []*frameCase {
	versions := []int{2, 4}
	if thorough {
		versions = []int{1, 2, 3, 4, 5}
	}
	var out []*frameCase
	for _, v := range versions {
		seen := map[string]bool{}
		frame.Catalogue(v, frame.CatalogueOptions{}, func(e *frame.Entry) {
			if seen[e.Class] || (!thorough && !quickClass(e.Class)) {
				return
			}
			enc, err := frame.Encode(e.Resp)
			if err != nil {
				return
			}
			seen[e.Class] = true
			raw := enc.Bytes()
			fc := &frameCase{name: fmt.Sprintf("v%d/refcql:%s", v, e.Class), connVersion: byte(v), raw: raw,
				headLen: len(raw) - len(enc.Body), event: e.Resp.Stream == -1, rows: strings.HasPrefix(e.Class, "rows/")}
			for _, s := range enc.FrameSpans() {
				var val int64
				for i := 0; i < s.Len; i++ {
					val = val<<8 | int64(raw[s.Off+i])
				}
				switch s.Len { // sign-extend [short]s stay unsigned, [int]s are signed
				case 4:
					val = int64(int32(val))
				}
				fc.spans = append(fc.spans, span{Off: s.Off, Width: s.Len, Val: val, Role: s.Kind})
			}
			out = append(out, fc)
		})
	}
	sort.SliceStable(out, func(i, j int) bool { return out[i].name < out[j].name })
	return out
}

// quickClass selects the shape classes of the quick tier: every non-rows, non-prepared
// class; rows and prepared classes only in their plainest flag combination (one per
// column type tree / column count), since the flag and row-count variants of the same
// tree differ only in parts the hand-made catalogue already varies.
func quickClass(class string) bool {
	switch {
	case strings.HasPrefix(class, "rows/types/"):
		return strings.HasSuffix(class, "/flags0/rows1")
	case strings.HasPrefix(class, "rows/typed/"):
		return strings.Contains(class, "/flags0/")
	case strings.HasPrefix(class, "rows/envelopes/"):
		return strings.HasSuffix(class, "/flags0") || strings.HasSuffix(class, "/flags7")
	case strings.HasPrefix(class, "prepared/"):
		return strings.Contains(class, "bglobal=true") && strings.Contains(class, "rglobal=true")
	}
	return true
}
