package main

// A small reference encoder for *response* frames, written from the native protocol
// specifications (v2..v4 and the v5 layout gocql implements), recording the byte span
// of every length / count field, and the hand-made catalogue of well-formed frames
// the frame-level sub-suites mutate. (engine/refcql/frame did not exist when this was
// written; the catalogue is therefore local to this harness.)

import (
	"fmt"
	"reflect"

	"github.com/gocql/gocql"
)

const (
	opError         = 0x00
	opReady         = 0x02
	opAuthenticate  = 0x03
	opSupported     = 0x06
	opResult        = 0x08
	opEvent         = 0x0C
	opAuthChallenge = 0x0E
	opAuthSuccess   = 0x10

	flagCompress      = 0x01
	flagTracing       = 0x02
	flagCustomPayload = 0x04
	flagWarning       = 0x08
	flagBeta          = 0x10
)

type fbuf struct{ enc }

func (f *fbuf) Raw(b ...byte) { f.b = append(f.b, b...) }
func (f *fbuf) PlainInt(v int32) {
	f.putN(4, int64(v))
}
func (f *fbuf) PlainShort(v uint16) { f.putN(2, int64(v)) }
func (f *fbuf) Short(v int, role string) {
	f.field(2, int64(v), role)
}
func (f *fbuf) Int(v int, role string) { f.field(4, int64(v), role) }
func (f *fbuf) Str(s string, role string) {
	f.field(2, int64(len(s)), role)
	f.b = append(f.b, s...)
}
func (f *fbuf) Bytes(p []byte, role string) {
	if p == nil {
		f.field(4, -1, role)
		return
	}
	f.field(4, int64(len(p)), role)
	f.b = append(f.b, p...)
}
func (f *fbuf) ShortBytes(p []byte, role string) {
	f.field(2, int64(len(p)), role)
	f.b = append(f.b, p...)
}
func (f *fbuf) StrList(l []string, role string) {
	f.field(2, int64(len(l)), role+".count")
	for _, s := range l {
		f.Str(s, role+".strlen")
	}
}
func (f *fbuf) Inet(ip []byte, port int32) {
	f.field(1, int64(len(ip)), "inet.size")
	f.b = append(f.b, ip...)
	f.PlainInt(port)
}

// Option writes a type option ([option], spec section 4.2.5.2).
func (f *fbuf) Option(n *tnode) {
	switch n.typ {
	case gocql.TypeList, gocql.TypeSet:
		f.PlainShort(uint16(n.typ))
		f.Option(n.kids[0])
	case gocql.TypeMap:
		f.PlainShort(uint16(n.typ))
		f.Option(n.kids[0])
		f.Option(n.kids[1])
	case gocql.TypeTuple:
		f.PlainShort(uint16(n.typ))
		f.Short(len(n.kids), "option.tuple.count")
		for _, k := range n.kids {
			f.Option(k)
		}
	case gocql.TypeUDT:
		f.PlainShort(uint16(n.typ))
		f.Str("ks", "option.udt.ks.len")
		f.Str("myudt", "option.udt.name.len")
		f.Short(len(n.kids), "option.udt.count")
		for i, k := range n.kids {
			f.Str(n.fnames[i], "option.udt.field.len")
			f.Option(k)
		}
	case gocql.TypeCustom:
		f.PlainShort(0)
		f.Str(n.name, "option.custom.len")
	default:
		f.PlainShort(uint16(n.typ))
	}
}

func custom(class string) *tnode { return &tnode{typ: gocql.TypeCustom, name: class} }

const (
	metaGlobalSpec = 0x0001
	metaMorePages  = 0x0002
	metaNoMetadata = 0x0004
)

type col struct {
	name string
	typ  *tnode
}

// Metadata writes <metadata> of a Rows result (or the result metadata of Prepared).
func (f *fbuf) Metadata(flags int32, cols []col, paging []byte) {
	f.PlainInt(flags)
	f.Int(len(cols), "meta.colcount")
	if flags&metaMorePages != 0 {
		f.Bytes(paging, "meta.paging.len")
	}
	if flags&metaNoMetadata != 0 {
		return
	}
	if flags&metaGlobalSpec != 0 {
		f.Str("ks", "meta.ks.len")
		f.Str("tbl", "meta.table.len")
	}
	for _, c := range cols {
		if flags&metaGlobalSpec == 0 {
			f.Str("ks", "col.ks.len")
			f.Str("tbl", "col.table.len")
		}
		f.Str(c.name, "col.name.len")
		f.Option(c.typ)
	}
}

// Cell writes one [bytes] cell holding a valid value of type t (or null).
func (f *fbuf) Cell(t *tnode, proto byte, null bool) {
	if null || t.typ == gocql.TypeCustom {
		if null {
			f.field(4, -1, "cell.len")
		} else {
			f.Bytes([]byte{1, 2, 3}, "cell.len")
		}
		return
	}
	var e enc
	t.encode(&e, proto, 0)
	f.field(4, int64(len(e.b)), "cell.len")
	base := len(f.b)
	for _, s := range e.spans {
		s.Off += base
		s.Role = "cell." + s.Role
		f.spans = append(f.spans, s)
	}
	f.b = append(f.b, e.b...)
}

type frameCase struct {
	name        string
	connVersion byte
	raw         []byte
	spans       []span
	headLen     int
	event       bool
	rows        bool
	rowsStart   int // offset in raw of the row count field (rows content follows)
	dests       func() []interface{}
	zeroCols    bool
	compressor  gocql.Compressor
}

// mkFrame assembles header + body. For version <= 2 the stream is one byte.
func mkFrame(name string, version byte, flags byte, stream int, op byte, body *fbuf) *frameCase {
	var h fbuf
	h.Raw(version|0x80, flags)
	if version > 2 {
		h.Raw(byte(stream>>8), byte(stream))
	} else {
		h.Raw(byte(stream))
	}
	h.Raw(op)
	h.Int(len(body.b), "header.length")
	fc := &frameCase{name: fmt.Sprintf("v%d/%s", version, name), connVersion: version, headLen: len(h.b)}
	fc.raw = append(append([]byte{}, h.b...), body.b...)
	fc.spans = append(fc.spans, h.spans...)
	for _, s := range body.spans {
		s.Off += len(h.b)
		fc.spans = append(fc.spans, s)
	}
	fc.event = stream == -1
	return fc
}

func baseFlags(version byte) byte {
	if version == 5 {
		return flagBeta
	}
	return 0
}

// destsFor returns fresh Scan destinations matching cols, as an application that
// knows its query would pass them (tuple columns flattened, as Iter.Scan requires).
func destsFor(cols []col) func() []interface{} {
	var mk []func() interface{}
	for _, c := range cols {
		ts := []*tnode{c.typ}
		if c.typ.typ == gocql.TypeTuple {
			ts = c.typ.kids
		}
		for _, t := range ts {
			t := t
			if ct, ok := t.canon(); ok {
				mk = append(mk, func() interface{} { return reflect.New(ct).Interface() })
			} else {
				mk = append(mk, func() interface{} { return new(interface{}) })
			}
		}
	}
	return func() []interface{} {
		d := make([]interface{}, len(mk))
		for i := range mk {
			d[i] = mk[i]()
		}
		return d
	}
}

type rowsShape struct {
	name   string
	flags  int32
	cols   []col
	nrows  int
	nullAt int // index of a null cell in the first row, -1 none
	hflags byte
}

func rowsShapes() []rowsShape {
	i, tx, bi, u, bo := scalar("int"), scalar("text"), scalar("bigint"), scalar("uuid"), scalar("boolean")
	return []rowsShape{
		{name: "rows/global-2col-2row", flags: metaGlobalSpec, cols: []col{{"id", i}, {"name", tx}}, nrows: 2, nullAt: -1},
		{name: "rows/percol-3col-1row-null", flags: 0, cols: []col{{"a", bi}, {"b", u}, {"c", bo}}, nrows: 1, nullAt: 1},
		{name: "rows/paged-1col-2row", flags: metaGlobalSpec | metaMorePages, cols: []col{{"t", tx}}, nrows: 2, nullAt: -1},
		{name: "rows/nometadata-2col-1row", flags: metaNoMetadata, cols: []col{{"id", i}, {"name", tx}}, nrows: 1, nullAt: -1},
		{name: "rows/collections", flags: metaGlobalSpec, cols: []col{{"l", tList(i)}, {"m", tMap(tx, i)}, {"s", tSet(u)}}, nrows: 1, nullAt: -1},
		{name: "rows/tuple-then-int", flags: metaGlobalSpec, cols: []col{{"t", tTuple(i, tx)}, {"x", i}}, nrows: 1, nullAt: -1},
		{name: "rows/int-then-tuple", flags: metaGlobalSpec, cols: []col{{"x", i}, {"t", tTuple(i)}}, nrows: 2, nullAt: -1},
		{name: "rows/int-then-empty-tuple", flags: metaGlobalSpec, cols: []col{{"x", i}, {"t", tTuple()}}, nrows: 1, nullAt: -1},
		{name: "rows/udt-and-custom", flags: metaGlobalSpec, cols: []col{{"u", tUDT(i, tx)}, {"c", custom("org.example.Custom")}}, nrows: 1, nullAt: -1},
		{name: "rows/nested", flags: metaGlobalSpec, cols: []col{{"n", tList(tTuple(i, tx))}, {"m", tMap(i, tList(tx))}}, nrows: 1, nullAt: -1},
		{name: "rows/map-with-list-key", flags: metaGlobalSpec, cols: []col{{"k", tMap(tList(i), i)}}, nrows: 1, nullAt: -1},
		{name: "rows/empty-1col-0row", flags: metaGlobalSpec, cols: []col{{"id", i}}, nrows: 0, nullAt: -1},
		{name: "rows/0col-0row", flags: metaGlobalSpec, cols: nil, nrows: 0, nullAt: -1},
		{name: "rows/all-scalars", flags: metaGlobalSpec, cols: allScalarCols(), nrows: 1, nullAt: -1},
		{name: "rows/flags-trace-warn-payload", flags: metaGlobalSpec, cols: []col{{"id", i}}, nrows: 1, nullAt: -1, hflags: flagTracing | flagWarning | flagCustomPayload},
	}
}

func allScalarCols() []col {
	var cs []col
	for _, s := range allScalars() {
		cs = append(cs, col{s.name, s})
	}
	return cs
}

func (sh rowsShape) build(version byte) *frameCase {
	if sh.hflags != 0 && version < 4 {
		return nil
	}
	var b fbuf
	prelude(&b, sh.hflags)
	b.PlainInt(2) // kind: Rows
	b.Metadata(sh.flags, sh.cols, []byte{0xca, 0xfe})
	rowsStart := len(b.b)
	b.Int(sh.nrows, "rows.count")
	for r := 0; r < sh.nrows; r++ {
		for ci, c := range sh.cols {
			b.Cell(c.typ, version, r == 0 && ci == sh.nullAt)
		}
	}
	fc := mkFrame(sh.name, version, baseFlags(version)|sh.hflags, 1, opResult, &b)
	fc.rows = true
	fc.rowsStart = rowsStart + fc.headLen
	fc.dests = destsFor(sh.cols)
	fc.zeroCols = len(sh.cols) == 0
	return fc
}

// prelude writes the optional parts announced by header flags: tracing id, warnings,
// custom payload (spec section 2.2).
func prelude(b *fbuf, hflags byte) {
	if hflags&flagTracing != 0 {
		b.Raw(0x5a, 0x3c, 0x1f, 0x10, 0x0b, 0x7a, 0x11, 0xee, 0x9e, 0x21, 0x33, 0x44, 0x55, 0x66, 0x77, 0x88)
	}
	if hflags&flagWarning != 0 {
		b.StrList([]string{"warn one", "w2"}, "warnings")
	}
	if hflags&flagCustomPayload != 0 {
		b.Short(2, "payload.count")
		b.Str("k1", "payload.key.len")
		b.Bytes([]byte{1, 2, 3}, "payload.val.len")
		b.Str("k2", "payload.key.len")
		b.Bytes(nil, "payload.val.len")
	}
}

func rowsCatalogue() []*frameCase {
	var out []*frameCase
	for _, v := range []byte{2, 3, 4, 5} {
		for _, sh := range rowsShapes() {
			if fc := sh.build(v); fc != nil {
				out = append(out, fc)
			}
		}
	}
	return out
}

// otherCatalogue: every response kind except RESULT/rows.
func otherCatalogue() []*frameCase {
	var out []*frameCase
	i, tx := scalar("int"), scalar("text")
	for _, v := range []byte{2, 3, 4, 5} {
		v := v
		add := func(name string, hflags byte, stream int, op byte, build func(b *fbuf)) {
			if hflags != 0 && v < 4 {
				return
			}
			var b fbuf
			prelude(&b, hflags)
			build(&b)
			out = append(out, mkFrame(name, v, baseFlags(v)|hflags, stream, op, &b))
		}
		errFrame := func(name string, code int32, rest func(b *fbuf)) {
			add("error/"+name, 0, 1, opError, func(b *fbuf) {
				b.PlainInt(code)
				b.Str("something failed", "error.msg.len")
				if rest != nil {
					rest(b)
				}
			})
		}
		errFrame("server", 0x0000, nil)
		errFrame("protocol", 0x000A, nil)
		errFrame("bad-credentials", 0x0100, nil)
		errFrame("unavailable", 0x1000, func(b *fbuf) { b.PlainShort(4); b.PlainInt(3); b.PlainInt(1) })
		errFrame("overloaded", 0x1001, nil)
		errFrame("bootstrapping", 0x1002, nil)
		errFrame("truncate", 0x1003, nil)
		errFrame("write-timeout", 0x1100, func(b *fbuf) { b.PlainShort(4); b.PlainInt(1); b.PlainInt(2); b.Str("SIMPLE", "error.writetype.len") })
		errFrame("read-timeout", 0x1200, func(b *fbuf) { b.PlainShort(4); b.PlainInt(1); b.PlainInt(2); b.Raw(1) })
		errFrame("read-failure", 0x1300, func(b *fbuf) {
			b.PlainShort(4)
			b.PlainInt(1)
			b.PlainInt(2)
			if v > 4 {
				b.Int(2, "error.reasonmap.count")
				b.field(1, 4, "inet.size")
				b.Raw(10, 0, 0, 1)
				b.PlainShort(0)
				b.field(1, 16, "inet.size")
				b.Raw(0x20, 0x01, 0x0d, 0xb8, 0, 0, 0, 0, 0, 0, 0, 0, 0, 0, 0, 2)
				b.PlainShort(1)
			} else {
				b.PlainInt(1)
			}
			b.Raw(0)
		})
		errFrame("function-failure", 0x1400, func(b *fbuf) {
			b.Str("ks", "error.ks.len")
			b.Str("fn", "error.fn.len")
			b.StrList([]string{"int", "text"}, "error.argtypes")
		})
		errFrame("write-failure", 0x1500, func(b *fbuf) {
			b.PlainShort(4)
			b.PlainInt(1)
			b.PlainInt(2)
			if v > 4 {
				b.Int(1, "error.reasonmap.count")
				b.field(1, 4, "inet.size")
				b.Raw(10, 0, 0, 2)
				b.PlainShort(3)
			} else {
				b.PlainInt(1)
			}
			b.Str("BATCH", "error.writetype.len")
		})
		errFrame("cdc-write-failure", 0x1600, nil)
		errFrame("cas-write-unknown", 0x1700, func(b *fbuf) { b.PlainShort(8); b.PlainInt(1); b.PlainInt(2) })
		errFrame("syntax", 0x2000, nil)
		errFrame("unauthorized", 0x2100, nil)
		errFrame("invalid", 0x2200, nil)
		errFrame("config", 0x2300, nil)
		errFrame("already-exists", 0x2400, func(b *fbuf) { b.Str("ks", "error.ks.len"); b.Str("tbl", "error.table.len") })
		errFrame("unprepared", 0x2500, func(b *fbuf) { b.ShortBytes([]byte{1, 2, 3, 4, 5, 6, 7, 8}, "error.stmtid.len") })
		errFrame("unknown-code", 0x7777, nil)

		add("ready", 0, 1, opReady, func(b *fbuf) {})
		add("authenticate", 0, 1, opAuthenticate, func(b *fbuf) { b.Str("org.apache.cassandra.auth.PasswordAuthenticator", "auth.class.len") })
		add("supported", 0, 1, opSupported, func(b *fbuf) {
			b.Short(2, "supported.count")
			b.Str("COMPRESSION", "supported.key.len")
			b.StrList([]string{"snappy", "lz4"}, "supported.values")
			b.Str("CQL_VERSION", "supported.key.len")
			b.StrList([]string{"3.4.5"}, "supported.values")
		})
		add("auth-challenge", 0, 1, opAuthChallenge, func(b *fbuf) { b.Bytes([]byte("chal"), "auth.token.len") })
		add("auth-success", 0, 1, opAuthSuccess, func(b *fbuf) { b.Bytes([]byte("ok"), "auth.token.len") })
		add("auth-success-null", 0, 1, opAuthSuccess, func(b *fbuf) { b.Bytes(nil, "auth.token.len") })

		add("result/void", 0, 1, opResult, func(b *fbuf) { b.PlainInt(1) })
		add("result/void-flags", flagTracing|flagWarning|flagCustomPayload, 1, opResult, func(b *fbuf) { b.PlainInt(1) })
		add("result/set-keyspace", 0, 1, opResult, func(b *fbuf) { b.PlainInt(3); b.Str("ks", "result.ks.len") })
		add("result/unknown-kind", 0, 1, opResult, func(b *fbuf) { b.PlainInt(9) })
		schemaChange := func(b *fbuf, target string) {
			b.Str("CREATED", "schema.change.len")
			if v <= 2 {
				b.Str("ks", "schema.ks.len")
				if target == "KEYSPACE" {
					b.Str("", "schema.table.len")
				} else {
					b.Str("tbl", "schema.table.len")
				}
				return
			}
			b.Str(target, "schema.target.len")
			b.Str("ks", "schema.ks.len")
			switch target {
			case "TABLE", "TYPE":
				b.Str("obj", "schema.object.len")
			case "FUNCTION", "AGGREGATE":
				b.Str("fn", "schema.object.len")
				b.StrList([]string{"int", "text"}, "schema.args")
			}
		}
		targets := []string{"KEYSPACE", "TABLE"}
		if v > 2 {
			targets = append(targets, "TYPE", "FUNCTION", "AGGREGATE", "BOGUS")
		}
		for _, tg := range targets {
			tg := tg
			add("result/schema-change-"+tg, 0, 1, opResult, func(b *fbuf) { b.PlainInt(5); schemaChange(b, tg) })
			add("event/schema-change-"+tg, 0, -1, opEvent, func(b *fbuf) { b.Str("SCHEMA_CHANGE", "event.type.len"); schemaChange(b, tg) })
		}
		prepared := func(name string, reqFlags int32, reqCols []col, pk []int, respFlags int32, respCols []col) {
			add("result/prepared-"+name, 0, 1, opResult, func(b *fbuf) {
				b.PlainInt(4)
				b.ShortBytes([]byte{0xaa, 0xbb, 0xcc, 0xdd, 1, 2, 3, 4, 5, 6, 7, 8, 9, 10, 11, 12}, "prepared.id.len")
				// request metadata: like result metadata, with pk indices on v4+
				b.PlainInt(reqFlags)
				b.Int(len(reqCols), "prepmeta.colcount")
				if v >= 4 {
					b.Int(len(pk), "prepmeta.pkcount")
					for _, k := range pk {
						b.PlainShort(uint16(k))
					}
				}
				if reqFlags&metaGlobalSpec != 0 {
					b.Str("ks", "meta.ks.len")
					b.Str("tbl", "meta.table.len")
				}
				for _, c := range reqCols {
					if reqFlags&metaGlobalSpec == 0 {
						b.Str("ks", "col.ks.len")
						b.Str("tbl", "col.table.len")
					}
					b.Str(c.name, "col.name.len")
					b.Option(c.typ)
				}
				b.Metadata(respFlags, respCols, []byte{1})
			})
		}
		prepared("global", metaGlobalSpec, []col{{"id", i}, {"name", tx}}, []int{0}, metaGlobalSpec, []col{{"id", i}, {"v", tList(tx)}})
		prepared("percol-nometa", 0, []col{{"a", i}, {"t", tTuple(i, tx)}}, []int{0, 1}, metaNoMetadata, []col{{"x", i}})
		prepared("nocols", metaGlobalSpec, nil, nil, metaGlobalSpec, nil)

		add("event/topology-change", 0, -1, opEvent, func(b *fbuf) {
			b.Str("TOPOLOGY_CHANGE", "event.type.len")
			b.Str("NEW_NODE", "event.change.len")
			b.Inet([]byte{10, 0, 0, 7}, 9042)
		})
		add("event/status-change-v6", 0, -1, opEvent, func(b *fbuf) {
			b.Str("STATUS_CHANGE", "event.type.len")
			b.Str("UP", "event.change.len")
			b.Inet([]byte{0x20, 0x01, 0x0d, 0xb8, 0, 0, 0, 0, 0, 0, 0, 0, 0, 0, 0, 9}, 9042)
		})
		add("event/status-change-down", 0, -1, opEvent, func(b *fbuf) {
			b.Str("STATUS_CHANGE", "event.type.len")
			b.Str("DOWN", "event.change.len")
			b.Inet([]byte{10, 0, 0, 8}, 9042)
		})
		add("event/unknown-type", 0, -1, opEvent, func(b *fbuf) { b.Str("WHATEVER", "event.type.len") })
		// a body long enough not to fit the framer's initial 128-byte buffer
		add("error/long-message", 0, 1, opError, func(b *fbuf) {
			b.PlainInt(0x2200)
			msg := make([]byte, 300)
			for k := range msg {
				msg[k] = 'a' + byte(k%26)
			}
			b.Str(string(msg), "error.msg.len")
		})
	}
	return out
}
