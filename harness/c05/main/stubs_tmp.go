package main

import "verif/engine/report"

func noBlocks(bool) int { return 0 }
func noDesc(*report.Run, bool) {}

var rowsSuite = &suite{name: "rows", deciding: true, memKiB: 4 << 20, blocks: noBlocks, run: func(*child, int) {}, describe: noDesc}
var typeStringSuite = &suite{name: "typestrings", deciding: true, memKiB: 4 << 20, blocks: noBlocks, run: func(*child, int) {}, describe: noDesc}
var framesSuite = &suite{name: "frames", deciding: true, memKiB: 4 << 20, blocks: noBlocks, run: func(*child, int) {}, describe: noDesc}
var randomSuite = &suite{name: "random", deciding: false, memKiB: 4 << 20, blocks: noBlocks, run: func(*child, int) {}, describe: noDesc}
