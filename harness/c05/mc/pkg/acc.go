//go:build verif

package gocql

import "context"

// In-package accessor for the conversation sub-suite of C05 (no logic of its own):
// runs a batch on the live connection the way Session.executeBatch -> Conn.executeBatch does.
func (l *VerifLive) VerifC05Batch(ctx context.Context, b *Batch) error {
	it := l.C.executeBatch(ctx, b.WithContext(ctx))
	return it.Close()
}
