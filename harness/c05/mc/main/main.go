// C05, controlled-scheduler part ("conversation"): well-formed frames of a kind not expected at
// that point of the conversation. One real Conn of the instrumented gocql over an in-memory pipe
// against a scripted node. At one chosen step - the reply to the handshake's OPTIONS, to STARTUP,
// to AUTH_RESPONSE, to a QUERY, a USE, a PREPARE, an EXECUTE, a BATCH, or to the heartbeat's
// OPTIONS - the node answers with one response from a catalogue of well-formed responses of
// EVERY kind (and the expected response on stream 0 / -1 / an unknown positive stream); everything
// else is answered normally. All (step, reply kind) pairs are explored as free choices.
// Oracle: every call returns a value or an error (a caller blocked forever is reported by the
// scheduler as a deadlock), no panic on ANY thread (the scheduler wraps every driver goroutine and
// reports panic:<function>), the handshake returns within the connect timeout.
package main

import (
	"fmt"
	"net"
	"os"
	"strings"
	"time"

	"github.com/gocql/gocql"

	"verif/engine/mcreport"
	"verif/engine/refcql/frame"
	"verif/engine/vnode"
	vs "verif/engine/vsched"
	"verif/engine/vsched/vatomic"
	context "verif/engine/vsched/vcontext"
	"verif/engine/vsched/vnet"
)

var debug = os.Getenv("MC_DEBUG") != ""

const (
	connectTimeout = 100 * time.Millisecond
	reqTimeout     = 100 * time.Millisecond
	authClass      = "org.apache.cassandra.auth.PasswordAuthenticator"
	stmtPrepared   = "SELECT v FROM ks.t WHERE k = ?"
)

var preparedID = []byte("c05-prepared-id0")

// ---- the catalogue of replies

type kind struct {
	name string
	// msg builds the message (nil: the step's expected reply); stream: 0 keep, else override code
	msg    func(version int) interface{}
	stream string // "", "zero", "minus-one", "unknown"
}

func rowsMeta() frame.RowsMetadata {
	return frame.RowsMetadata{GlobalTableSpec: true, GlobalKeyspace: "ks", GlobalTable: "t", ColumnCount: 1,
		Columns: []frame.ColumnSpec{{Keyspace: "ks", Table: "t", Name: "v", Type: frame.Leaf(frame.TVarchar)}}}
}

func preparedMsg(version int) interface{} {
	p := &frame.ResultPrepared{ID: preparedID,
		Bind: frame.PreparedMetadata{GlobalTableSpec: true, GlobalKeyspace: "ks", GlobalTable: "t",
			Columns: []frame.ColumnSpec{{Keyspace: "ks", Table: "t", Name: "k", Type: frame.Leaf(frame.TVarchar)}}},
		Result: rowsMeta()}
	if version >= 4 {
		p.Bind.PKIndexes = []uint16{0}
	}
	return p
}

func schemaChange(version int) frame.SchemaChange {
	return frame.SchemaChange{Change: "CREATED", Target: "TABLE", Keyspace: "ks", Name: "t2"}
}

var kinds = []kind{
	{name: "expected"},
	{name: "READY", msg: func(int) interface{} { return frame.Ready{} }},
	{name: "AUTHENTICATE", msg: func(int) interface{} { return &frame.Authenticate{Class: authClass} }},
	{name: "AUTH_CHALLENGE", msg: func(int) interface{} { return &frame.AuthChallenge{Token: []byte("verif-challenge")} }},
	{name: "AUTH_SUCCESS", msg: func(int) interface{} { return &frame.AuthSuccess{Token: nil} }},
	{name: "SUPPORTED", msg: func(int) interface{} {
		return &frame.Supported{Options: []frame.KL{{Key: "CQL_VERSION", Values: []string{"3.4.5"}}, {Key: "COMPRESSION", Values: []string{"snappy", "lz4"}}}}
	}},
	{name: "ERROR-invalid", msg: func(int) interface{} { return &frame.Error{Code: 0x2200, Message: "verif: invalid"} }},
	{name: "ERROR-unprepared", msg: func(int) interface{} { return &frame.Error{Code: 0x2500, Message: "verif: unprepared", StatementID: preparedID} }},
	{name: "ERROR-unavailable", msg: func(int) interface{} {
		return &frame.Error{Code: 0x1000, Message: "verif: unavailable", Consistency: 4, Required: 2, Alive: 1}
	}},
	{name: "RESULT-void", msg: func(int) interface{} { return frame.ResultVoid{} }},
	{name: "RESULT-rows", msg: func(int) interface{} { return vnode.TextRows("v", "unexpected-row") }},
	{name: "RESULT-set_keyspace", msg: func(int) interface{} { return &frame.ResultSetKeyspace{Keyspace: "ks"} }},
	{name: "RESULT-prepared", msg: preparedMsg},
	{name: "RESULT-schema_change", msg: func(v int) interface{} { return &frame.ResultSchemaChange{SchemaChange: schemaChange(v)} }},
	{name: "EVENT-status_change-on-request-stream", msg: func(int) interface{} {
		return &frame.EventStatusChange{Change: "DOWN", Addr: []byte{10, 0, 0, 7}, Port: 9042}
	}},
	{name: "EVENT-topology_change-on-request-stream", msg: func(int) interface{} {
		return &frame.EventTopologyChange{Change: "NEW_NODE", Addr: []byte{10, 0, 0, 8}, Port: 9042}
	}},
	{name: "EVENT-schema_change-on-request-stream", msg: func(v int) interface{} { return &frame.EventSchemaChange{SchemaChange: schemaChange(v)} }},
	{name: "expected-on-stream-0", stream: "zero"},
	{name: "expected-on-stream--1", stream: "minus-one"},
	{name: "expected-on-unknown-positive-stream", stream: "unknown"},
}

// ---- scenarios: one per step

type c05cfg struct {
	step  string // options startup auth_response query use prepare execute batch heartbeat
	proto int
}

func (c *c05cfg) name() string { return fmt.Sprintf("v%d-reply-to-%s", c.proto, c.step) }

type world struct {
	cfg      *c05cfg
	kind     kind
	nodeAuth bool
	injected int // how many replies were replaced (0 or 1)
	hsDone   bool
	injDesc  string
}

func (w *world) isTarget(rec *vnode.ReqRec) bool {
	switch m := rec.Req.Msg.(type) {
	case *frame.Options:
		return (w.cfg.step == "options" && !w.hsDone) || (w.cfg.step == "heartbeat" && w.hsDone)
	case *frame.Startup:
		return w.cfg.step == "startup"
	case *frame.AuthResponse:
		return w.cfg.step == "auth_response"
	case *frame.Query:
		if strings.HasPrefix(m.Statement, "USE ") {
			return w.cfg.step == "use"
		}
		return w.cfg.step == "query" && strings.HasPrefix(m.Statement, "QUERYX 'target'")
	case *frame.Prepare:
		return w.cfg.step == "prepare"
	case *frame.Execute:
		return w.cfg.step == "execute"
	case *frame.Batch:
		return w.cfg.step == "batch"
	}
	return false
}

func (w *world) expected(sc *vnode.ServerConn, rec *vnode.ReqRec) interface{} {
	v := rec.Req.Header.Version
	switch m := rec.Req.Msg.(type) {
	case *frame.Options:
		return &frame.Supported{Options: []frame.KL{{Key: "CQL_VERSION", Values: []string{"3.4.5"}}, {Key: "COMPRESSION", Values: []string{"snappy", "lz4"}}}}
	case *frame.Startup:
		if w.nodeAuth {
			return &frame.Authenticate{Class: authClass}
		}
		return frame.Ready{}
	case *frame.AuthResponse:
		return &frame.AuthSuccess{Token: nil}
	case *frame.Register:
		return frame.Ready{}
	case *frame.Query:
		switch {
		case strings.HasPrefix(m.Statement, "USE "):
			return &frame.ResultSetKeyspace{Keyspace: "ks"}
		case strings.Contains(m.Statement, "system."):
			// schema-agreement queries after a SCHEMA_CHANGE result: no peers, one local version
			r := vnode.TextRows("schema_version")
			return r
		}
		return vnode.TextRows("v", "row-of:"+m.Statement)
	case *frame.Prepare:
		return preparedMsg(v)
	case *frame.Execute:
		return vnode.TextRows("v", "row-of:execute")
	case *frame.Batch:
		return frame.ResultVoid{}
	}
	return frame.ResultVoid{}
}

func (w *world) handler(n *vnode.Node, sc *vnode.ServerConn, rec *vnode.ReqRec) vnode.Reply {
	exp := w.expected(sc, rec)
	if w.injected > 0 || !w.isTarget(rec) {
		return vnode.Reply{Msg: exp}
	}
	w.injected++
	w.injDesc = fmt.Sprintf("%s answered with %s", frame.OpName(rec.Op), w.kind.name)
	rep := vnode.Reply{Msg: exp}
	if w.kind.msg != nil {
		rep.Msg = w.kind.msg(rec.Req.Header.Version)
	}
	switch w.kind.stream {
	case "zero":
		s := 0
		rep.Stream = &s
	case "minus-one":
		s := -1
		rep.Stream = &s
	case "unknown":
		_, hi := frame.StreamRange(rec.Req.Header.Version)
		s := rec.Stream + 40
		if s > hi {
			s = rec.Stream - 40
		}
		rep.Stream = &s
	}
	return rep
}

type opRes struct {
	name  string
	rows  int
	err   error
	start time.Duration
	end   time.Duration
}

func (c *c05cfg) body() {
	gocql.VerifResetGlobals()
	vatomic.Yield = false // the stream-id allocator's atomics are C08's subject
	w := &world{cfg: c}
	w.kind = kinds[vs.Choose(len(kinds), vs.Free)]
	clientAuth := false
	switch c.step {
	case "auth_response":
		w.nodeAuth, clientAuth = true, true
	case "options", "startup":
		// both with and without a configured authenticator / a node that demands authentication
		switch vs.Choose(3, vs.Free) {
		case 1:
			clientAuth = true
		case 2:
			w.nodeAuth, clientAuth = true, true
		}
	}
	vs.Observe("step=%s kind=%s clientAuth=%v nodeAuth=%v", c.step, w.kind.name, clientAuth, w.nodeAuth)

	node := vnode.New("n1", net.IPv4(10, 0, 0, 1), 9042, w.handler)
	client, server := vnet.Pipe("c0", &net.TCPAddr{IP: net.IPv4(10, 0, 0, 9), Port: 40000}, node.Addr)
	node.AcceptSync(server)

	cluster := gocql.NewCluster("10.0.0.1")
	cluster.ProtoVersion = c.proto
	cluster.Timeout = reqTimeout
	cluster.ConnectTimeout = connectTimeout
	cluster.WriteCoalesceWaitTime = 0
	cluster.MaxWaitSchemaAgreement = 250 * time.Millisecond
	if clientAuth {
		cluster.Authenticator = gocql.PasswordAuthenticator{Username: "cassandra", Password: "cassandra"}
	}
	handshakeStep := c.step == "options" || c.step == "startup" || c.step == "auth_response"
	if !handshakeStep {
		vs.Quiet(true) // the handshake is a non-branching prefix when the step under test comes after it
	}
	t0 := vs.Clock()
	live, derr := gocql.VerifDial(client, *cluster, true)
	hsTime := vs.Clock() - t0
	w.hsDone = true
	if !handshakeStep {
		vs.Quiet(false)
		if derr != nil {
			vs.Failf("harness:handshake-failed", "handshake failed in the quiet prefix: %v", derr)
			return
		}
	}

	var results []opRes
	if derr == nil {
		done := make(chan []opRes, 1)
		vs.GoNamed("caller", func() {
			var out []opRes
			query := func(name, stmt string, args ...interface{}) {
				r := opRes{name: name, start: vs.Clock()}
				it := live.Query(context.Background(), stmt, args...).Iter()
				var s string
				for it.Scan(&s) {
					r.rows++
				}
				r.err = it.Close()
				r.end = vs.Clock()
				out = append(out, r)
			}
			switch c.step {
			case "query":
				query("query", "QUERYX 'target'")
			case "use":
				r := opRes{name: "use", start: vs.Clock()}
				r.err = live.C.UseKeyspace("ks")
				r.end = vs.Clock()
				out = append(out, r)
			case "prepare", "execute":
				query("prepared", stmtPrepared, "key-1")
			case "batch":
				r := opRes{name: "batch", start: vs.Clock()}
				b := live.S.NewBatch(gocql.LoggedBatch)
				b.Query("INSERT INTO ks.t (k, v) VALUES ('a', 'b')")
				b.Query("INSERT INTO ks.t (k, v) VALUES ('c', 'd')")
				r.err = live.VerifC05Batch(context.Background(), b)
				r.end = vs.Clock()
				out = append(out, r)
			}
			// one more plain request: the connection afterwards either works or reports an error
			query("after", "QUERYX 'after'")
			vs.Send(done, out)
		})
		results = vs.Recv[[]opRes](done)
	}
	vs.WaitQuiescent() // the heartbeat step: the first heartbeat ticks at 1s, inside the horizon

	// ---------------------------------------------------------------- oracle
	_, dDev, _ := vs.Deviations()
	desc := fmt.Sprintf("%s: %s (client authenticator %v, node demands authentication %v)", c.name(), w.injDesc, clientAuth, w.nodeAuth)
	if dDev == 0 && hsTime > connectTimeout+time.Millisecond {
		vs.Failf("c05:conversation:handshake-exceeds-connect-timeout", "the handshake returned after %v (connect timeout %v): %v [%s]", hsTime, connectTimeout, derr, desc)
	}
	if len(node.FrameErrors) > 0 {
		vs.Failf("c05:conversation:node-cannot-decode-request", "%v [%s]", node.FrameErrors, desc)
	}
	if w.kind.name == "expected" {
		// the undisturbed conversation works: the search is not vacuous
		if derr != nil && dDev == 0 {
			vs.Failf("harness:baseline", "undisturbed handshake failed: %v [%s]", derr, desc)
		}
		for _, r := range results {
			if r.err != nil && dDev == 0 {
				vs.Failf("harness:baseline", "undisturbed op %s failed: %v [%s]", r.name, r.err, desc)
			}
		}
	}
	if w.injected == 0 && c.step != "heartbeat" && derr == nil && dDev == 0 {
		vs.Failf("harness:step-not-reached", "the step never occurred [%s]", desc)
	}
	var sig []string
	for _, r := range results {
		cls := strings.SplitN(gocql.VerifErrClass(r.err), ":", 2)[0]
		sig = append(sig, fmt.Sprintf("%s=%s/%d", r.name, cls, r.rows))
	}
	closed := ""
	if live != nil && live.ConnClosed() {
		closed = " conn-closed"
	}
	vs.Observe("dial=%v injected=%d %s%s", derr == nil, w.injected, strings.Join(sig, " "), closed)
	if debug {
		var errs []string
		for _, r := range results {
			errs = append(errs, fmt.Sprintf("%s:%v", r.name, r.err))
		}
		fmt.Fprintf(os.Stderr, "DEBUG %s clientAuth=%v nodeAuth=%v kind=%s => dial=%v (%v) %q%s\n", c.name(), clientAuth, w.nodeAuth, w.kind.name, derr, hsTime, errs, closed)
	}
}

func main() {
	b := func(t int) vs.Bounds { return vs.Bounds{P: t, D: t, F: t, T: t} }
	var defs []mcreport.Def
	steps := []string{"options", "startup", "auth_response", "query", "use", "prepare", "execute", "batch", "heartbeat"}
	for _, proto := range []int{4, 2} {
		for _, st := range steps {
			c := &c05cfg{step: st, proto: proto}
			hz := 900 * time.Millisecond
			if st == "heartbeat" {
				hz = 1300 * time.Millisecond
			}
			defs = append(defs, mcreport.Def{Name: c.name(), Quick: b(1), Thorough: b(2), Build: func() *vs.Scenario {
				return &vs.Scenario{Name: c.name(), Cfg: vs.Config{MaxSteps: 30000, Horizon: hz, DelayBounded: true}, Body: c.body}
			}})
		}
	}
	mcreport.Main("C05", "fault_enumeration",
		"controlled-scheduler part (conversation): every (step, reply kind) pair, as free choices all explored: step in {reply to the handshake's OPTIONS, to STARTUP (client with / without authenticator, node demanding authentication or not), to AUTH_RESPONSE, to a QUERY, a USE, a PREPARE, an EXECUTE, a BATCH, to the heartbeat's OPTIONS (horizon 1.3s)} x reply in a catalogue of 20 well-formed responses {the expected one, READY, AUTHENTICATE, AUTH_CHALLENGE, AUTH_SUCCESS, SUPPORTED, ERROR invalid / unprepared / unavailable, RESULT void / rows / set_keyspace / prepared / schema_change, EVENT status / topology / schema change on the request's stream, the expected reply on stream 0 / -1 / an unknown positive stream} x protocol {4, 2}, on one real Conn of the instrumented gocql made by the real handshake; all other requests are answered normally; schedules/timers delay-bounded (at most T departures from the default schedule). Oracle: every call returns a value or an error or the connection is closed with an error (a blocked caller = deadlock), no panic on any thread, handshake returns within the connect timeout",
		[]string{"one connection, connect/request timeout 100ms, MaxWaitSchemaAgreement 250ms; the session around the connection is built as NewSession does up to Session.init (no pool, no control connection)",
			"replies are well-formed frames encoded by the independent reference encoder (malformed bytes are the native part's subject)"},
		defs, 60*time.Second, 10*time.Minute, nil)
}
