package main

import (
	"bytes"
	"fmt"
)

type input struct {
	class  string
	id     string
	gen    func() []byte
	period int // > 0: gen()[i] == gen()[i-period] for all i >= period
}

// lcg is a deterministic incompressible byte stream (Knuth's MMIX LCG, high byte of the state).
func lcg(seed uint64, n int) []byte {
	out := make([]byte, n)
	s := seed*2862933555777941757 + 3037000493
	for i := range out {
		s = s*6364136223846793005 + 1442695040888963407
		out[i] = byte(s >> 56)
	}
	return out
}

func run(b byte, n int) []byte { return bytes.Repeat([]byte{b}, n) }

func periodic(p []byte, n int) []byte {
	out := make([]byte, n)
	for i := range out {
		out[i] = p[i%len(p)]
	}
	return out
}

// runLengths is the stated set of run lengths (see SetRule).
func runLengths(all bool) []int {
	var out []int
	pow := map[int]bool{}
	for k := uint(12); k <= 16; k++ {
		pow[1<<k-1], pow[1<<k], pow[1<<k+1] = true, true, true
	}
	for n := 1; n <= 70000; n++ {
		m := n % 255
		if all || n <= 4096 || m >= 250 || m <= 40 || pow[n] || n == 70000 {
			out = append(out, n)
		}
	}
	return out
}

var boundaryLengths = []int{2047, 2048, 2049, 4095, 4096, 4097, 8191, 8192, 8193, 16383, 16384, 16385, 32767, 32768, 32769, 65535, 65536, 65537, 70000}

func shortStrings(maxLen int) []input {
	sym := []byte{0x00, 'a', 0x80, 0xff}
	var out []input
	var rec func(cur []byte)
	rec = func(cur []byte) {
		c := append([]byte(nil), cur...)
		cls := "short"
		if len(c) == 0 {
			cls = "empty"
		}
		out = append(out, input{cls, fmt.Sprintf("short:%x", c), func() []byte { return c }, 0})
		if len(cur) == maxLen {
			return
		}
		for _, s := range sym {
			rec(append(cur, s))
		}
	}
	rec(nil)
	return out
}

func allInputs(thorough bool) []input {
	var out []input
	if thorough {
		out = append(out, shortStrings(6)...)
	} else {
		out = append(out, shortStrings(4)...)
	}
	// runs of one byte
	for _, b := range []byte{'a', 0x00, 0xff} {
		b := b
		for _, n := range runLengths(thorough && b == 'a') {
			n := n
			out = append(out, input{"run", fmt.Sprintf("run:%02x:%d", b, n), func() []byte { return run(b, n) }, 1})
		}
	}
	// period-2 / period-3 patterns
	var plens []int
	for n := 1; n <= 1100; n++ {
		plens = append(plens, n)
	}
	plens = append(plens, boundaryLengths...)
	for _, p := range [][]byte{[]byte("ab"), {0x00, 0xff}, []byte("abc"), {0x00, 0x7f, 0xff}} {
		p := p
		for _, n := range plens {
			n := n
			out = append(out, input{fmt.Sprintf("period%d", len(p)), fmt.Sprintf("period:%x:%d", p, n), func() []byte { return periodic(p, n) }, len(p)})
		}
	}
	// incompressible streams
	sizes := []int{1, 15, 16, 17, 255, 256, 65535, 65536, 65537, 1 << 20, 1<<20 + 1}
	if thorough {
		sizes = append(sizes, 32<<20)
	}
	for _, seed := range []uint64{1, 2} {
		seed := seed
		for _, n := range sizes {
			n := n
			out = append(out, input{"lcg", fmt.Sprintf("lcg:%d:%d", seed, n), func() []byte { return lcg(seed, n) }, 0})
		}
	}
	if thorough {
		out = append(out, input{"run", "run:61:32MiB", func() []byte { return run('a', 32<<20) }, 1})
	}
	// a literal of every length 0..600 (and around 64 KiB) before and after a compressible run:
	// every literal-length encoding (snappy tag sizes 60/61, 256/257, 65536/65537; LZ4 15, 270, 525) next to a match
	var lits []int
	for m := 0; m <= 600; m++ {
		lits = append(lits, m)
	}
	lits = append(lits, 65530, 65534, 65535, 65536, 65537, 65540, 65551, 65552, 65800, 65806)
	for _, m := range lits {
		m := m
		out = append(out, input{"lit+run", fmt.Sprintf("lit+run:%d", m), func() []byte { return append(lcg(7, m), run('z', 100)...) }, 0})
		out = append(out, input{"run+lit", fmt.Sprintf("run+lit:%d", m), func() []byte { return append(run('z', 100), lcg(9, m)...) }, 0})
		out = append(out, input{"run+lit+run", fmt.Sprintf("run+lit+run:%d", m), func() []byte {
			return append(append(run('y', 40), lcg(11, m)...), run('y', 40)...)
		}, 0})
	}
	// incompressible block repeated at distance d: matches at offsets across the 1-byte/2-byte/4-byte offset forms
	for _, d := range []int{1, 2, 3, 4, 5, 7, 8, 9, 15, 16, 17, 255, 256, 257, 2047, 2048, 2049, 4095, 4096, 32767, 32768, 65534, 65535, 65536, 65537, 70000} {
		d := d
		for _, extra := range []int{4, 12, 64, 300} {
			extra := extra
			out = append(out, input{"far-offset", fmt.Sprintf("far-offset:%d:%d", d, extra), func() []byte { return periodic(lcg(13, d), d+extra) }, d})
		}
	}
	return out
}
