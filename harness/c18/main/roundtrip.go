package main

import (
	"bytes"
	"fmt"
	"runtime/debug"
	"sync"

	"verif/engine/refcass2"
	"verif/engine/report"
)

// forEachInput runs f over all inputs on 16 goroutines (report.Run is goroutine-safe).
// Large inputs are serialised by a weighted gate so that memory stays bounded.
func forEachInput(ins []input, f func(in input, x []byte)) {
	ch := make(chan input, 64)
	var wg sync.WaitGroup
	big := make(chan struct{}, 3)
	for w := 0; w < 16; w++ {
		wg.Add(1)
		go func() {
			defer wg.Done()
			for in := range ch {
				x := in.gen()
				if len(x) >= 1<<20 {
					big <- struct{}{}
					f(in, x)
					<-big
				} else {
					f(in, x)
				}
			}
		}()
	}
	for _, in := range ins {
		ch <- in
	}
	close(ch)
	wg.Wait()
}

func firstDiff(a, b []byte) string {
	n := len(a)
	if len(b) < n {
		n = len(b)
	}
	for i := 0; i < n; i++ {
		if a[i] != b[i] {
			return fmt.Sprintf("first difference at byte %d (%#02x vs %#02x), lengths %d vs %d", i, a[i], b[i], len(a), len(b))
		}
	}
	return fmt.Sprintf("lengths %d vs %d, common prefix equal", len(a), len(b))
}

// suiteRoundTrip: Decode(Encode(x)) == x and every peer decoder reads Encode(x) as x.
func suiteRoundTrip(r *report.Run) {
	ins := allInputs(r.Thorough())
	var mu sync.Mutex
	perClass := map[string]int{}
	var inBytes, encBytes [2]int64
	forEachInput(ins, func(in input, x []byte) {
		orig := append([]byte(nil), x...)
		for ci, c := range codecs {
			c := c
			func() {
				site := c.name + ":Encode"
				defer func() {
					if p := recover(); p != nil {
						r.Violation("panic:"+site+":"+in.class, fmt.Sprintf("input %s: %v\n%s", in.id, p, debug.Stack()), in.id)
					}
				}()
				enc, err := c.comp.Encode(x)
				r.Case("rt|"+c.name+"|"+in.id, err == nil)
				// what Encode/Decode returned earlier belongs to the caller: a later call must not change it
				prevMu.Lock()
				prev := prevOut[c.name]
				prevMu.Unlock()
				if prev != nil {
					if !bytes.Equal(prev.enc, prev.encSnap) {
						r.Violation("roundtrip:"+c.name+":earlier-Encode-result-changed-by-a-later-call", fmt.Sprintf("Encode result of input %s changed after encoding %s", prev.id, in.id), in.id)
					}
					if !bytes.Equal(prev.dec, prev.decSnap) {
						r.Violation("roundtrip:"+c.name+":earlier-Decode-result-changed-by-a-later-call", fmt.Sprintf("Decode result of input %s changed after encoding %s", prev.id, in.id), in.id)
					}
				}
				if err != nil {
					r.Violation("roundtrip:"+c.name+":Encode-error:"+in.class, fmt.Sprintf("input %s: %v", in.id, err), in.id)
					return
				}
				if !bytes.Equal(x, orig) {
					r.Violation("roundtrip:"+c.name+":Encode-modifies-its-input:"+in.class, fmt.Sprintf("input %s: %s", in.id, firstDiff(x, orig)), in.id)
					copy(x, orig)
				}
				site = c.name + ":Decode"
				dec, err := c.comp.Decode(append([]byte(nil), enc...))
				if err == nil && len(x) <= 1<<16 {
					prevMu.Lock()
					prevOut[c.name] = &prevRes{id: in.id, enc: enc, encSnap: append([]byte(nil), enc...), dec: dec, decSnap: append([]byte(nil), dec...)}
					prevMu.Unlock()
				}
				if err != nil {
					r.Violation("roundtrip:"+c.name+":Decode(Encode(x))-error:"+in.class, fmt.Sprintf("input %s, encoding %s: %v", in.id, hexs(enc), err), in.id)
				} else if !bytes.Equal(dec, orig) {
					r.Violation("roundtrip:"+c.name+":Decode(Encode(x))!=x:"+in.class, fmt.Sprintf("input %s, encoding %s: %s", in.id, hexs(enc), firstDiff(dec, orig)), in.id)
				}
				for _, p := range c.peers {
					site = c.name + ":peer:" + p.name
					got, err := p.decode(enc)
					if err != nil {
						r.Violation("peer:"+c.name+":"+p.name+":cannot-decode-Encode(x):"+in.class, fmt.Sprintf("input %s, encoding %s: %v", in.id, hexs(enc), err), in.id)
					} else if !bytes.Equal(got, orig) {
						r.Violation("peer:"+c.name+":"+p.name+":decodes-Encode(x)-differently:"+in.class, fmt.Sprintf("input %s, encoding %s: %s", in.id, hexs(enc), firstDiff(got, orig)), in.id)
					}
				}
				mu.Lock()
				perClass[c.name+"/"+in.class]++
				inBytes[ci] += int64(len(x))
				encBytes[ci] += int64(len(enc))
				mu.Unlock()
				if in.id == "run:61:300" || in.id == "lcg:1:17" {
					sample(r, "roundtrip/"+c.name, map[string]interface{}{"input": in.id, "encoded": hexs(enc), "peers_agree": true})
				}
			}()
		}
	})
	r.Extra("roundtrip_inputs", len(ins))
	r.Extra("roundtrip_cases_per_codec_and_class", perClass)
	r.Extra("roundtrip_input_bytes", map[string]int64{"snappy": inBytes[0], "lz4": inBytes[1]})
	r.Extra("roundtrip_encoded_bytes", map[string]int64{"snappy": encBytes[0], "lz4": encBytes[1]})
}

type peerEncoding struct {
	how string
	enc []byte
}

// peerEncodings returns the encodings of x by the independent minimal encoders.
func peerEncodings(c *codec, x []byte, period int) []peerEncoding {
	var out []peerEncoding
	switch c.name {
	case "snappy":
		out = append(out, peerEncoding{"literals", refcass2.SnappyEncodeLiterals(x)})
		if period > 0 {
			if e, ok := refcass2.SnappyEncodePeriodic(x, period); ok {
				out = append(out, peerEncoding{"periodic", e})
			}
		}
	case "lz4":
		out = append(out, peerEncoding{"literals", refcass2.CassandraLZ4EncodeLiterals(x)})
		if period > 0 {
			if e, ok := refcass2.CassandraLZ4EncodePeriodic(x, period); ok {
				out = append(out, peerEncoding{"periodic", e})
			}
		}
	}
	return out
}

// suitePeerEncoded: streams produced by an independent encoder decode to x with gocql's Decode
// (the response direction of "what the peer decodes is what was encoded"). Each stream is first
// confirmed valid by both independent decoders; an encoder bug is an infrastructure error.
func suitePeerEncoded(r *report.Run) {
	ins := allInputs(r.Thorough())
	var mu sync.Mutex
	perHow := map[string]int{}
	forEachInput(ins, func(in input, x []byte) {
		for _, c := range codecs {
			for _, pe := range peerEncodings(c, x, in.period) {
				c, pe := c, pe
				func() {
					defer func() {
						if p := recover(); p != nil {
							r.Violation("panic:"+c.name+":Decode:peer-encoded-"+pe.how+":"+in.class, fmt.Sprintf("input %s encoding %s: %v\n%s", in.id, hexs(pe.enc), p, debug.Stack()), in.id)
						}
					}()
					for _, p := range c.peers {
						if got, err := p.decode(pe.enc); err != nil || !bytes.Equal(got, x) {
							r.Infra("peer encoder %s/%s produced a stream that peer decoder %s does not read back (input %s): %v", c.name, pe.how, p.name, in.id, err)
							return
						}
					}
					dec, err := c.comp.Decode(append([]byte(nil), pe.enc...))
					r.Case("pe|"+c.name+"|"+pe.how+"|"+in.id, err == nil)
					if err != nil {
						r.Violation("peer-encoded:"+c.name+":Decode-rejects-valid-"+pe.how+"-stream:"+in.class, fmt.Sprintf("input %s, stream %s: %v", in.id, hexs(pe.enc), err), in.id)
					} else if !bytes.Equal(dec, x) {
						r.Violation("peer-encoded:"+c.name+":Decode-differs-on-valid-"+pe.how+"-stream:"+in.class, fmt.Sprintf("input %s, stream %s: %s", in.id, hexs(pe.enc), firstDiff(dec, x)), in.id)
					}
					mu.Lock()
					perHow[c.name+"/"+pe.how]++
					mu.Unlock()
					if in.id == "run:61:300" && pe.how == "periodic" && c.name == "lz4" {
						sample(r, "peer-encoded/"+c.name, map[string]interface{}{"input": in.id, "peer_stream": hexs(pe.enc), "how": pe.how})
					}
				}()
			}
		}
	})
	r.Extra("peer_encoded_streams", perHow)
}

type prevRes struct {
	id                         string
	enc, encSnap, dec, decSnap []byte
}

// prevOut holds, per codec, the results of the input most recently processed by any worker goroutine.
var (
	prevOut = map[string]*prevRes{}
	prevMu  sync.Mutex
)
