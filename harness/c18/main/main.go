// Worker of check C18 (compression). Sequential, bounded-exhaustive part ("mode B").
//
// Each sub-suite is a func(*report.Run); the controlled-scheduler sub-suite for the
// negotiation clauses (STARTUP carries COMPRESSION only if advertised and configured, ...)
// is appended to `suites` by the lead. See NOTES.md.
//
// The worker re-executes itself (flag -c18child) under `ulimit -v` for the corrupt-body
// enumeration, because a corrupt length prefix makes the decoders allocate up to 4 GiB.
package main

import (
	"flag"
	"fmt"
	"os"
	"os/exec"
	"runtime/debug"
	"sync"
	"time"

	"verif/engine/report"
)

type suite struct {
	name string
	fn   func(r *report.Run)
}

var suites = []suite{
	{"roundtrip", suiteRoundTrip},
	{"peer-encoded", suitePeerEncoded},
	{"request-frames", suiteRequestFrames},
	{"read-path", suiteReadPath},
	{"corrupt", suiteCorrupt},
}

var (
	flagChild = flag.String("c18child", "", "internal: child mode (shard:<i>/<n> | one:<path>)")
	flagOut   = flag.String("c18out", "", "internal: child result file")
	flagCase  = flag.String("c18case", "", "internal: file holding the corrupt body of a one:<path> child (codec|class|id|hex)")
)

func main() {
	flag.Parse()
	if *flagChild != "" {
		os.Exit(childMain(*flagChild, *flagOut))
	}
	if os.Getenv(envInner) == "" {
		os.Exit(supervise())
	}
	r := report.New("C18", "exploration")
	r.SetRule("nested loops over stated finite sets, all enumerated completely, for snappy (gocql.SnappyCompressor) and lz4 (gocql/lz4.LZ4Compressor): " +
		"(1) inputs = all byte strings of length <=4 over {00,'a',80,ff} (thorough: <=6), empty, runs of one byte (lengths 1..4096 and every n<=70000 with n mod 255 in [250,254] or [0,40], 2^k-1/2^k/2^k+1; thorough: every length 1..70000), period-2/3 patterns, LCG streams of sizes {1,15,16,17,255,256,65535,65536,65537,1MiB,1MiB+1} (thorough +32MiB), LCG literal of every length 0..600 before/after a run, periodic LCG blocks at offsets across the 11-bit/16-bit offset limits -> Encode, Decode, and two independent peer decoders per format; " +
		"(2) the same inputs encoded by independent minimal peer encoders (literal-only, run/period matcher) -> gocql Decode; " +
		"(3) request kinds {startup,options,prepare,auth_response,query,execute,batch,register} x protocol versions 1..5 x shapes {minimal, all optional fields, 70000-byte} x tracing x custom payload x {snappy,lz4} built by gocql's own builders with and without compressor; " +
		"(4) response bodies x versions 1..5 x {snappy,lz4,none,other} through readHeader+framer.readFrame(+parseFrame); " +
		"(5) every truncation and every single-byte substitution (all 255 values outside the length prefix; {00,01,04,7f,80,ff,b^1,b^80} inside it) of the encodings of 12 small inputs (gocql's and the peer encoders'), through Decode and through readFrame, in memory-capped child processes. " +
		"A case is distinct by (suite, codec, input id); non-trivial = reached the byte-equality oracle.")
	r.Assume(
		"the peer is modelled by two decoders per format: github.com/golang/snappy + a decoder written from the Snappy format description; github.com/pierrec/lz4/v4 UncompressBlock (called directly, exact-size destination, 4-byte big-endian length checked Cassandra-style) + a decoder written from the LZ4 block format description (verif/engine/refcass2)",
		"bodies above 32 MiB (up to the 256 MiB frame limit) are not enumerated",
		"negotiation against SUPPORTED (a compressor is used only if advertised) is decided by the handshake sub-suite, not here",
		"a corrupt body is one that BOTH independent decoders of the format reject; where they disagree gocql may return an error or the accepting decoder's bytes; not every corruption is detectable (no checksum in protocol v1-v4), and none is demanded to be",
		"memory use on corrupt compressed input is not judged (C05 exempts compressed data); children run under ulimit -v 6 GiB so that one 4 GiB declared length can be served",
	)
	for _, s := range suites {
		runSuite(r, s)
	}
	rc := r.Finish(true)
	if f := os.Getenv(envDone); f != "" {
		os.WriteFile(f, []byte("done\n"), 0o644)
	}
	os.Exit(rc)
}

// The worker proper runs as a child of a thin supervisor under `ulimit -v` (16 GiB): a change to
// gocql that makes a decoder allocate wildly on VALID streams must end in a VIOLATION of this
// check, not in the machine's OOM killer. If the capped process dies (Go "fatal error: out of
// memory", signal) before it wrote its evidence, the supervisor reports that as the violation.
const (
	envInner       = "VERIF_C18_INNER"
	envDone        = "VERIF_C18_DONE"
	workerVMemKB   = 16 << 20
	stderrKeepHead = 6000
)

type headBuffer struct {
	mu  sync.Mutex
	buf []byte
}

func (h *headBuffer) Write(p []byte) (int, error) {
	h.mu.Lock()
	if room := stderrKeepHead - len(h.buf); room > 0 {
		if len(p) < room {
			room = len(p)
		}
		h.buf = append(h.buf, p[:room]...)
	}
	h.mu.Unlock()
	return os.Stderr.Write(p)
}

func supervise() int {
	exe, err := os.Executable()
	if err != nil {
		fmt.Fprintln(os.Stderr, "INFRA-ERROR property=C18 cannot find own executable:", err)
		return 2
	}
	done, err := os.CreateTemp("/var/tmp", "verif-c18-done-")
	if err != nil {
		fmt.Fprintln(os.Stderr, "INFRA-ERROR property=C18", err)
		return 2
	}
	done.Close()
	os.Remove(done.Name())
	defer os.Remove(done.Name())
	args := append([]string{"-c", fmt.Sprintf("ulimit -v %d; exec \"$0\" \"$@\"", workerVMemKB), exe}, os.Args[1:]...)
	cmd := exec.Command("sh", args...)
	cmd.Env = append(os.Environ(), envInner+"=1", envDone+"="+done.Name())
	cmd.Stdout = os.Stdout
	hb := &headBuffer{}
	cmd.Stderr = hb
	runErr := cmd.Run()
	if _, err := os.Stat(done.Name()); err == nil {
		if ee, ok := runErr.(*exec.ExitError); ok {
			return ee.ExitCode()
		}
		if runErr != nil {
			return 2
		}
		return 0
	}
	// the capped worker died before finishing
	r := report.New("C18", "exploration")
	r.SetRule("(the enumeration did not complete: the memory-capped worker process died; see the violation)")
	r.Violation("crash:worker-process-died-under-memory-cap",
		fmt.Sprintf("the worker (ulimit -v %d KiB) ended with %v before completing; beginning of its stderr:\n%s", workerVMemKB, runErr, hb.buf), "bin/check C18 "+r.Tier)
	return r.Finish(false)
}

func runSuite(r *report.Run, s suite) {
	defer func() {
		if p := recover(); p != nil {
			r.Violation("panic:suite:"+s.name, fmt.Sprintf("panic escaped suite %s: %v\n%s", s.name, p, debug.Stack()), s.name)
		}
	}()
	t := time.Now()
	s.fn(r)
	r.Extra("suite_seconds_"+s.name+"_(informational)", float64(time.Since(t).Milliseconds())/1000)
}

// sample records at most one sample per key (sub-suite/codec) so that the evidence shows every suite.
var (
	sampleMu sync.Mutex
	sampleN  = map[string]int{}
)

func sample(r *report.Run, suite string, v map[string]interface{}) {
	sampleMu.Lock()
	defer sampleMu.Unlock()
	if sampleN[suite] >= 1 {
		return
	}
	sampleN[suite]++
	v["suite"] = suite
	r.Sample(v)
}

func hexs(b []byte) string {
	if len(b) > 48 {
		return fmt.Sprintf("%x…(%d bytes)", b[:48], len(b))
	}
	return fmt.Sprintf("%x", b)
}
