package main

import (
	"bytes"
	"encoding/hex"
	"encoding/json"
	"fmt"
	"os"
	"os/exec"
	"path/filepath"
	"runtime/debug"
	"strings"
	"sync"

	"github.com/gocql/gocql"
	"verif/engine/report"
)

// ---- the enumerated space of corrupt bodies -------------------------------------------------

type seed struct {
	name   string
	data   []byte
	period int
}

func corruptSeeds(thorough bool) []seed {
	two := append(append(append(periodic([]byte("abcdefgh"), 80), []byte("0123456789zyxwvutsrq")...), periodic([]byte("abcdefgh"), 80)...), []byte("QWERTYUIOPAS")...)
	s := []seed{
		{"empty", nil, 0},
		{"a", []byte("a"), 0},
		{"abcd", []byte("abcd"), 0},
		{"00ff80a", []byte{0x00, 0xff, 0x80, 'a'}, 0},
		{"run-a-20", run('a', 20), 1},
		{"run-a-300", run('a', 300), 1},
		{"abc-40", periodic([]byte("abc"), 40), 3},
		{"lcg-20", lcg(5, 20), 0},
		{"lcg-70+run-30", append(lcg(6, 70), run('z', 30)...), 0},
		{"two-sequences-192", two, 0},
		{"lcg16-twice", periodic(lcg(8, 16), 48), 16},
		{"run-0-64+lcg-5", append(run(0, 64), lcg(10, 5)...), 0},
	}
	if thorough {
		s = append(s, seed{"run-ff-70000", run(0xff, 70000), 1}, seed{"lcg-300", lcg(12, 300), 0})
	}
	return s
}

type mutant struct {
	idx   int
	codec *codec
	id    string // codec/seed/encoder/mutation
	class string // truncation | substitution-in-length-prefix | substitution-in-body
	data  []byte
	huge  bool // declares more than hugeLimit (1 MiB) bytes: run alone in a fresh child process
}

const hugeLimit = 1 << 20

// enumerateMutants lists the whole corrupt-body space in a fixed order; f returns false to stop.
// Parent and children enumerate the same list and select by index.
func enumerateMutants(thorough bool, f func(m *mutant) bool) {
	idx := 0
	emit := func(c *codec, id, class string, data []byte) bool {
		m := &mutant{idx: idx, codec: c, id: id, class: class, data: data}
		if d, ok := c.declared(data); ok && d > hugeLimit {
			m.huge = true
		}
		idx++
		return f(m)
	}
	for _, c := range codecs {
		for _, sd := range corruptSeeds(thorough) {
			own, err := c.comp.Encode(append([]byte(nil), sd.data...))
			if err != nil {
				continue
			}
			encs := []peerEncoding{{"gocql-encoder", own}}
			for _, pe := range peerEncodings(c, sd.data, sd.period) {
				dup := false
				for _, e := range encs {
					dup = dup || bytes.Equal(e.enc, pe.enc)
				}
				if !dup {
					encs = append(encs, pe)
				}
			}
			for _, e := range encs {
				base := c.name + "/" + sd.name + "/" + e.how
				E := e.enc
				for k := 0; k < len(E); k++ {
					if !emit(c, fmt.Sprintf("%s/trunc:%d", base, k), "truncation", append([]byte(nil), E[:k]...)) {
						return
					}
				}
				np := c.lenPrefix(E)
				for i := 0; i < len(E); i++ {
					b := E[i]
					var subs []byte
					cls := "substitution-in-body"
					if i < np {
						cls = "substitution-in-length-prefix"
						seen := map[byte]bool{b: true}
						for _, v := range []byte{0x00, 0x01, 0x04, 0x7f, 0x80, 0xff, b ^ 0x01, b ^ 0x80} {
							if !seen[v] {
								seen[v] = true
								subs = append(subs, v)
							}
						}
					} else {
						// small encodings: every other byte value; long ones (thorough seeds): a 9-value alphabet
						if len(E) <= 400 {
							for v := 0; v < 256; v++ {
								if byte(v) != b {
									subs = append(subs, byte(v))
								}
							}
						} else if i < 64 || i >= len(E)-64 {
							seen := map[byte]bool{b: true}
							for _, v := range []byte{0x00, 0x01, 0x0f, 0x10, 0x7f, 0x80, 0xf0, 0xff, b ^ 0x01} {
								if !seen[v] {
									seen[v] = true
									subs = append(subs, v)
								}
							}
						}
					}
					for _, v := range subs {
						M := append([]byte(nil), E...)
						M[i] = v
						if !emit(c, fmt.Sprintf("%s/sub:%d:%02x", base, i, v), cls, M) {
							return
						}
					}
				}
			}
		}
	}
}

// ---- the oracle ---------------------------------------------------------------------------

type verdict struct {
	kind string   // "invalid" (every independent decoder rejects), "valid" (all accept, same bytes), "mixed"
	ys   [][]byte // outputs of the accepting decoders
}

func judge(c *codec, M []byte) verdict {
	var v verdict
	acc := 0
	for _, p := range c.peers {
		y, err := p.decode(M)
		if err == nil {
			acc++
			v.ys = append(v.ys, y)
		}
	}
	switch {
	case acc == 0:
		v.kind = "invalid"
	case acc == len(c.peers) && allEqual(v.ys):
		v.kind = "valid"
	default:
		v.kind = "mixed"
	}
	return v
}

func allEqual(ys [][]byte) bool {
	for _, y := range ys[1:] {
		if !bytes.Equal(y, ys[0]) {
			return false
		}
	}
	return true
}

type childViolation struct {
	Key, Detail string
	Replay      string
}

type childResult struct {
	Evals      int64
	Keys       [][8]byte
	Violations []childViolation
	Stats      map[string]int64
	Done       bool
}

// runMutant drives one corrupt body through path "Decode" and/or "readFrame" and judges it.
func runMutant(m *mutant, paths []string, res *childResult) {
	c := m.codec
	type outcome struct {
		out      []byte
		err      error
		panicked bool
	}
	got := map[string]outcome{}
	for _, path := range paths {
		var o outcome
		func() {
			defer func() {
				if p := recover(); p != nil {
					o.panicked = true
					res.Violations = append(res.Violations, childViolation{
						Key:    "panic:" + c.name + ":" + path + ":" + m.class,
						Detail: fmt.Sprintf("corrupt body %s = %s: panic %v\n%s", m.id, hexs(m.data), p, debug.Stack()), Replay: m.id})
				}
			}()
			switch path {
			case "Decode":
				o.out, o.err = c.comp.Decode(append([]byte(nil), m.data...))
			case "readFrame":
				wire := cat(respHeader(4, flagCompress, 1, opResult, len(m.data)), m.data)
				o.out, _, o.err = gocql.VerifReadFrame(c.comp, 4, wire, false)
			}
		}()
		got[path] = o
		res.Evals++
		res.Keys = append(res.Keys, report.KeyHash("corrupt|"+path+"|"+m.id))
	}
	v := judge(c, m.data)
	res.Stats[c.name+"/"+m.class+"/"+v.kind]++
	for _, path := range paths {
		o := got[path]
		if o.panicked {
			continue
		}
		if o.err != nil {
			res.Stats[c.name+"/"+path+"/error"]++
			continue
		}
		res.Stats[c.name+"/"+path+"/accepted"]++
		switch v.kind {
		case "invalid":
			key := c.name + ":accepts-corrupt-body:" + m.class
			why := ""
			if d, ok := c.declared(m.data); ok && c.name == "lz4" {
				if d == 0 {
					key = "lz4:declared-length-0-accepts-any-block"
					why = "declared length 0, block is not the empty block"
				} else if uint64(len(o.out)) != d {
					key = "lz4:accepts-body-whose-decoded-length-differs-from-the-declared-length"
					why = fmt.Sprintf("declared length %d, decoded %d bytes", d, len(o.out))
				}
			}
			res.Violations = append(res.Violations, childViolation{Key: key,
				Detail: fmt.Sprintf("%s of corrupt body %s = %s returned %d bytes and no error (%s); both independent decoders reject it (%s)", path, m.id, hexs(m.data), len(o.out), why, rejectReasons(c, m.data)), Replay: m.id})
		case "valid":
			if !bytes.Equal(o.out, v.ys[0]) {
				res.Violations = append(res.Violations, childViolation{Key: c.name + ":wrong-bytes-for-a-valid-stream",
					Detail: fmt.Sprintf("%s of %s = %s: %s", path, m.id, hexs(m.data), firstDiff(o.out, v.ys[0])), Replay: m.id})
			}
		case "mixed":
			ok := false
			for _, y := range v.ys {
				ok = ok || bytes.Equal(o.out, y)
			}
			if !ok {
				res.Violations = append(res.Violations, childViolation{Key: c.name + ":bytes-differ-from-every-accepting-decoder",
					Detail: fmt.Sprintf("%s of %s = %s", path, m.id, hexs(m.data)), Replay: m.id})
			}
		}
	}
	if len(paths) == 2 && !got["Decode"].panicked && !got["readFrame"].panicked {
		// Each path is judged on its own above; a difference between the two paths on the same bytes is
		// only counted (it shows the block decoder looking at memory beyond the body: C05's subject).
		a, b := got["Decode"], got["readFrame"]
		if (a.err == nil) != (b.err == nil) || (a.err == nil && !bytes.Equal(a.out, b.out)) {
			res.Stats[c.name+"/paths-disagree-on-the-same-bytes/"+v.kind]++
		}
	}
}

func rejectReasons(c *codec, M []byte) string {
	var s []string
	for _, p := range c.peers {
		_, err := p.decode(M)
		s = append(s, fmt.Sprintf("%s: %v", p.name, err))
	}
	return strings.Join(s, "; ")
}

// ---- child side ---------------------------------------------------------------------------

// childMain: mode "shard:<i>/<n>" runs every non-huge mutant with idx%n==i through both paths;
// mode "one:<idx>:<path>" runs a single (huge) mutant through one path. The index of the case
// being run is written to <out>.journal before the call, so that a crash is attributed.
func childMain(mode, out string) int {
	// soft heap limit well under the ulimit: garbage from large (but not "huge") declared lengths is collected by
	// allocation assists even when the machine is so loaded that the background collector falls behind - a child once
	// died under ulimit -v with 5 GiB of garbage "in use" and the case then running was blamed for it
	debug.SetMemoryLimit(2 << 30)
	thorough := false
	for i, a := range os.Args {
		if a == "-tier" && i+1 < len(os.Args) && os.Args[i+1] == "thorough" {
			thorough = true
		}
	}
	res := &childResult{Stats: map[string]int64{}}
	journal, err := os.Create(out + ".journal")
	if err != nil {
		fmt.Fprintln(os.Stderr, "child: cannot create journal:", err)
		return 2
	}
	note := func(m *mutant, path string) {
		journal.Truncate(0)
		journal.WriteAt([]byte(fmt.Sprintf("%d %s %s %s %s\n", m.idx, m.codec.name, path, m.class, m.id)), 0)
	}
	parts := strings.Split(mode, ":")
	switch parts[0] {
	case "shard":
		var i, n int
		fmt.Sscanf(parts[1], "%d/%d", &i, &n)
		enumerateMutants(thorough, func(m *mutant) bool {
			if m.huge || m.idx%n != i {
				return true
			}
			note(m, "Decode+readFrame")
			runMutant(m, []string{"Decode", "readFrame"}, res)
			return true
		})
	case "one":
		// one:<path>, the mutant itself in the file named by -c18case: codec|class|id|hex
		raw, err := os.ReadFile(*flagCase)
		if err != nil {
			return 2
		}
		f := strings.SplitN(string(raw), "|", 4)
		if len(f) != 4 || codecByName(f[0]) == nil {
			return 2
		}
		data, err := hex.DecodeString(f[3])
		if err != nil {
			return 2
		}
		m := &mutant{codec: codecByName(f[0]), class: f[1], id: f[2], data: data, huge: true}
		note(m, parts[1])
		runMutant(m, []string{parts[1]}, res)
	default:
		return 2
	}
	res.Done = true
	b, _ := json.Marshal(res)
	if err := os.WriteFile(out, b, 0o644); err != nil {
		return 2
	}
	return 0
}

// ---- parent side --------------------------------------------------------------------------

const childVMemKB = 6 << 20 // ulimit -v: 6 GiB, enough for one 4 GiB declared length

func spawnChild(tier, mode, out string, extra ...string) (stderrTail string, err error) {
	exe, e := os.Executable()
	if e != nil {
		return "", e
	}
	cmd := exec.Command("sh", append([]string{"-c", fmt.Sprintf("ulimit -v %d; exec \"$0\" \"$@\"", childVMemKB)}, append([]string{exe, "-tier", tier, "-c18child", mode, "-c18out", out}, extra...)...)...)
	var eb bytes.Buffer
	cmd.Stderr = &eb
	cmd.Stdout = &eb
	err = cmd.Run()
	s := eb.String()
	if len(s) > 1500 {
		s = s[:1500]
	}
	return s, err
}

func suiteCorrupt(r *report.Run) {
	dir, err := os.MkdirTemp("/var/tmp", "verif-c18-children-")
	if err != nil {
		r.Infra("cannot create child dir: %v", err)
		return
	}
	defer os.RemoveAll(dir)
	total, hugeIdx := 0, []*mutant{}
	perClass := map[string]int{}
	enumerateMutants(r.Thorough(), func(m *mutant) bool {
		total++
		perClass[m.codec.name+"/"+m.class]++
		if m.huge {
			hugeIdx = append(hugeIdx, m)
		}
		if m.id == "lz4/two-sequences-192/gocql-encoder/trunc:44" || m.id == "snappy/run-a-300/gocql-encoder/sub:2:00" {
			sample(r, "corrupt/"+m.codec.name, map[string]interface{}{"corrupt_body": m.id, "bytes": hexs(m.data), "verdict_of_independent_decoders": judge(m.codec, m.data).kind})
		}
		return true
	})
	const shards = 12
	var wg sync.WaitGroup
	var mu sync.Mutex
	stats := map[string]int64{}
	merge := func(mode, out, tail string, runErr error) {
		b, rerr := os.ReadFile(out)
		var res childResult
		if rerr == nil {
			rerr = json.Unmarshal(b, &res)
		}
		if rerr != nil || !res.Done {
			// the child died: attribute to the journaled case
			j, _ := os.ReadFile(out + ".journal")
			f := strings.Fields(string(j))
			if len(f) >= 5 {
				r.Violation("crash:"+f[1]+":"+f[2]+":"+f[3], fmt.Sprintf("child %s died (%v) while running corrupt body %s under ulimit -v %d KiB\n%s", mode, runErr, f[4], childVMemKB, tail), f[4])
			} else {
				r.Infra("child %s failed before its first case: %v\n%s", mode, runErr, tail)
			}
			return
		}
		r.AddCounts(res.Evals, res.Keys)
		for _, v := range res.Violations {
			r.Violation(v.Key, v.Detail, v.Replay)
		}
		mu.Lock()
		for k, v := range res.Stats {
			stats[k] += v
		}
		mu.Unlock()
	}
	sem := make(chan struct{}, 8)
	for i := 0; i < shards; i++ {
		i := i
		wg.Add(1)
		go func() {
			defer wg.Done()
			sem <- struct{}{}
			defer func() { <-sem }()
			mode := fmt.Sprintf("shard:%d/%d", i, shards)
			out := filepath.Join(dir, fmt.Sprintf("shard-%d.json", i))
			tail, err := spawnChild(r.Tier, mode, out)
			merge(mode, out, tail, err)
		}()
	}
	wg.Wait()
	// huge declared lengths: one fresh process per (case, path), 8 at a time
	sem = make(chan struct{}, 8)
	for _, m := range hugeIdx {
		for _, path := range []string{"Decode", "readFrame"} {
			m, path := m, path
			wg.Add(1)
			go func() {
				defer wg.Done()
				sem <- struct{}{}
				defer func() { <-sem }()
				mode := "one:" + path
				out := filepath.Join(dir, fmt.Sprintf("one-%d-%s.json", m.idx, path))
				caseFile := out + ".case"
				os.WriteFile(caseFile, []byte(fmt.Sprintf("%s|%s|%s|%x", m.codec.name, m.class, m.id, m.data)), 0o644)
				tail, err := spawnChild(r.Tier, mode, out, "-c18case", caseFile)
				merge(mode, out, tail, err)
			}()
		}
	}
	wg.Wait()
	r.Extra("corrupt_bodies", total)
	r.Extra("corrupt_bodies_per_codec_and_class", perClass)
	r.Extra("corrupt_bodies_declaring_more_than_1MiB_(own_process_each)", len(hugeIdx))
	r.Extra("corrupt_verdicts_and_outcomes", stats)
}
