package main

import (
	"encoding/binary"
	"errors"
	"fmt"

	"github.com/gocql/gocql"
	gocqllz4 "github.com/gocql/gocql/lz4"
	"github.com/golang/snappy"
	"github.com/pierrec/lz4/v4"
	"verif/engine/refcass2"
)

type peer struct {
	name   string
	decode func(body []byte) ([]byte, error)
}

type codec struct {
	name  string
	comp  gocql.Compressor
	peers []peer
	// lenPrefix returns how many leading bytes of an encoding are the length prefix
	lenPrefix func(enc []byte) int
	// declared returns the uncompressed length an encoding declares (ok=false if unreadable)
	declared func(enc []byte) (uint64, bool)
}

// pierrecCassandra decodes Cassandra's LZ4 body with the pierrec library called directly
// (not through gocql's wrapper): length = first 4 bytes big-endian, block = the rest, and,
// as Cassandra's LZ4Compressor.decompress does, the result must have exactly that length.
func pierrecCassandra(body []byte) ([]byte, error) {
	if len(body) < 4 {
		return nil, errors.New("body shorter than the length prefix")
	}
	n := binary.BigEndian.Uint32(body)
	if n > 1<<31-1 {
		return nil, errors.New("declared length negative as a Java int")
	}
	if n == 0 {
		// pierrec's UncompressBlock cannot decode into an empty destination at all; the only valid
		// block for an empty input is the single token 00 (LZ4 block format; lz4-java returns 1 byte read)
		if len(body) == 5 && body[4] == 0 {
			return []byte{}, nil
		}
		return nil, errors.New("declared length 0 but the block is not the single token 00")
	}
	// one block byte yields at most 255 output bytes (a match-length extension byte): a larger
	// declared length cannot be reached; reject without allocating it
	if uint64(n) > 255*uint64(len(body)-4)+64 {
		return nil, fmt.Errorf("declared length %d cannot be reached by a %d-byte block", n, len(body)-4)
	}
	dst := make([]byte, n)
	m, err := lz4.UncompressBlock(body[4:], dst)
	if err != nil {
		return nil, err
	}
	if uint32(m) != n {
		return nil, fmt.Errorf("decoded %d bytes, declared %d", m, n)
	}
	return dst[:m], nil
}

var codecs = []*codec{
	{
		name: "snappy", comp: gocql.SnappyCompressor{},
		peers: []peer{
			{"golang/snappy", func(b []byte) ([]byte, error) {
				// a copy element of 3 bytes yields at most 64 bytes: a declared length beyond 64x the
				// stream cannot be reached; reject without letting the library allocate it
				if d, n := binary.Uvarint(b); n > 0 && d > 64*uint64(len(b))+64 {
					return nil, fmt.Errorf("declared length %d cannot be reached by a %d-byte stream", d, len(b))
				}
				return snappy.Decode(nil, b)
			}},
			{"spec-snappy", refcass2.SnappyDecode},
		},
		lenPrefix: func(enc []byte) int {
			for i, b := range enc {
				if b&0x80 == 0 {
					return i + 1
				}
			}
			return len(enc)
		},
		declared: func(enc []byte) (uint64, bool) {
			v, n := binary.Uvarint(enc)
			return v, n > 0
		},
	},
	{
		name: "lz4", comp: gocqllz4.LZ4Compressor{},
		peers: []peer{
			{"cassandra-lz4(pierrec-direct)", pierrecCassandra},
			{"cassandra-lz4(spec)", refcass2.CassandraLZ4Decode},
		},
		lenPrefix: func(enc []byte) int {
			if len(enc) < 4 {
				return len(enc)
			}
			return 4
		},
		declared: func(enc []byte) (uint64, bool) {
			if len(enc) < 4 {
				return 0, false
			}
			return uint64(binary.BigEndian.Uint32(enc)), true
		},
	},
}

func codecByName(n string) *codec {
	for _, c := range codecs {
		if c.name == n {
			return c
		}
	}
	return nil
}

// otherCompressor is a compressor the peer never heard of (for "wrong compressor" read-path cases).
type xorCompressor struct{}

func (xorCompressor) Name() string { return "xor" }
func (xorCompressor) Encode(d []byte) ([]byte, error) {
	o := make([]byte, len(d))
	for i := range d {
		o[i] = d[i] ^ 0x55
	}
	return o, nil
}
func (xorCompressor) Decode(d []byte) ([]byte, error) { return xorCompressor{}.Encode(d) }
