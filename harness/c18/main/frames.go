package main

import (
	"bytes"
	"encoding/binary"
	"fmt"
	"runtime/debug"

	"github.com/gocql/gocql"
	"verif/engine/report"
)

// header is the native-protocol frame header, parsed independently of gocql
// (v1/v2: version flags stream(1) opcode length(4); v3+: version flags stream(2) opcode length(4)).
type header struct {
	version byte
	flags   byte
	stream  int
	op      byte
	length  uint32
	size    int
}

func parseHeader(b []byte) (h header, err error) {
	if len(b) < 8 {
		return h, fmt.Errorf("frame shorter than a header: %d bytes", len(b))
	}
	h.version, h.flags = b[0], b[1]
	if b[0]&0x7f <= 2 {
		h.stream, h.op, h.length, h.size = int(int8(b[2])), b[3], binary.BigEndian.Uint32(b[4:8]), 8
		return h, nil
	}
	if len(b) < 9 {
		return h, fmt.Errorf("frame shorter than a v3+ header: %d bytes", len(b))
	}
	h.stream, h.op, h.length, h.size = int(int16(binary.BigEndian.Uint16(b[2:4]))), b[4], binary.BigEndian.Uint32(b[5:9]), 9
	return h, nil
}

const (
	flagCompress = 0x01
	opStartup    = 0x01
	opOptions    = 0x05
	opResult     = 0x08
)

var opOfKind = map[string]byte{"startup": 0x01, "options": 0x05, "query": 0x07, "prepare": 0x09, "execute": 0x0A, "register": 0x0B, "batch": 0x0D, "auth_response": 0x0F}

// readStringMap parses a [string map] body (STARTUP), order-insensitively comparable.
func readStringMap(b []byte) (map[string]string, error) {
	if len(b) < 2 {
		return nil, fmt.Errorf("short map")
	}
	n := int(binary.BigEndian.Uint16(b))
	b = b[2:]
	m := map[string]string{}
	rd := func() (string, error) {
		if len(b) < 2 {
			return "", fmt.Errorf("short string")
		}
		l := int(binary.BigEndian.Uint16(b))
		if len(b) < 2+l {
			return "", fmt.Errorf("short string body")
		}
		s := string(b[2 : 2+l])
		b = b[2+l:]
		return s, nil
	}
	for i := 0; i < n; i++ {
		k, err := rd()
		if err != nil {
			return nil, err
		}
		v, err := rd()
		if err != nil {
			return nil, err
		}
		m[k] = v
	}
	if len(b) != 0 {
		return nil, fmt.Errorf("%d trailing bytes", len(b))
	}
	return m, nil
}

// suiteRequestFrames: every request kind built by gocql's builders with the framer a connection
// with a negotiated compressor would use (newFramer(compressor, version)): the compression flag
// is set exactly when the body is compressed, the body decompresses (with the peer decoders) to
// the body of the same request built without compressor, the length field is the body length,
// and STARTUP / OPTIONS carry neither flag nor compression.
func suiteRequestFrames(r *report.Run) {
	n, flagged, unflagged := 0, 0, 0
	perKind := map[string]int{}
	for _, kind := range gocql.VerifRequestKinds {
		for version := byte(1); version <= 5; version++ {
			if version == 1 && (kind == "batch" || kind == "auth_response") {
				continue // not requests of protocol v1
			}
			for shape := 0; shape <= 2; shape++ {
				for _, trace := range []bool{false, true} {
					for _, payload := range []bool{false, true} {
						if payload && (version < 4 || !(kind == "prepare" || kind == "query" || kind == "execute" || kind == "batch")) {
							continue
						}
						for _, c := range codecs {
							for _, stream := range []int{0, 1, 127} {
								spec := gocql.VerifReqSpec{Kind: kind, Version: version, Trace: trace, Payload: payload, Shape: shape, Stream: stream, StartupCompression: c.name}
								if stream != 1 && shape != 0 {
									continue
								}
								n++
								perKind[kind]++
								checkRequest(r, c, spec, &flagged, &unflagged)
							}
						}
					}
				}
			}
		}
	}
	r.Extra("request_frames_built", n)
	r.Extra("request_frames_flagged_and_compressed", flagged)
	r.Extra("request_frames_unflagged_and_plain", unflagged)
	r.Extra("request_frames_per_kind", perKind)
}

func checkRequest(r *report.Run, c *codec, spec gocql.VerifReqSpec, flagged, unflagged *int) {
	id := fmt.Sprintf("%s/v%d/shape%d/trace=%v/payload=%v/stream=%d/%s", spec.Kind, spec.Version, spec.Shape, spec.Trace, spec.Payload, spec.Stream, c.name)
	cls := spec.Kind
	defer func() {
		if p := recover(); p != nil {
			r.Violation("panic:request:"+cls+":"+c.name, fmt.Sprintf("%s: %v\n%s", id, p, debug.Stack()), spec)
		}
	}()
	plain, err := gocql.VerifBuildRequest(nil, spec)
	if err != nil {
		r.Infra("building %s without compressor failed: %v", id, err)
		return
	}
	comp, err := gocql.VerifBuildRequest(c.comp, spec)
	r.Case("req|"+id, err == nil)
	if err != nil {
		r.Violation("request:"+cls+":"+c.name+":build-error-with-compressor", fmt.Sprintf("%s: %v", id, err), spec)
		return
	}
	hp, err1 := parseHeader(plain)
	hc, err2 := parseHeader(comp)
	if err1 != nil || err2 != nil {
		r.Violation("request:"+cls+":"+c.name+":no-header", fmt.Sprintf("%s: %v %v", id, err1, err2), spec)
		return
	}
	bp, bc := plain[hp.size:], comp[hc.size:]
	// the plain build is the reference for the uncompressed body; it must itself be self-consistent
	if hp.flags&flagCompress != 0 {
		r.Violation("request:"+cls+":compress-flag-without-compressor", fmt.Sprintf("%s: flags %#02x", id, hp.flags), spec)
	}
	if int(hp.length) != len(bp) {
		r.Violation("request:"+cls+":length-field-mismatch-plain", fmt.Sprintf("%s: length %d, body %d", id, hp.length, len(bp)), spec)
	}
	if int(hc.length) != len(bc) {
		r.Violation("request:"+cls+":"+c.name+":length-field-is-not-the-compressed-body-length", fmt.Sprintf("%s: length field %d, %d body bytes follow the header", id, hc.length, len(bc)), spec)
	}
	if hc.version != hp.version || hc.stream != hp.stream || hc.op != hp.op || hc.size != hp.size || hc.op != opOfKind[spec.Kind] || hc.stream != spec.Stream {
		r.Violation("request:"+cls+":"+c.name+":header-differs-beyond-flags-and-length", fmt.Sprintf("%s: plain % x, compressed % x", id, plain[:hp.size], comp[:hc.size]), spec)
	}
	if hc.flags&^flagCompress != hp.flags&^flagCompress {
		r.Violation("request:"+cls+":"+c.name+":other-flags-differ", fmt.Sprintf("%s: plain flags %#02x, compressed flags %#02x", id, hp.flags, hc.flags), spec)
	}
	never := spec.Kind == "startup" || spec.Kind == "options"
	if hc.flags&flagCompress != 0 {
		*flagged++
		if never {
			r.Violation("request:"+cls+":"+c.name+":carries-compression-flag", fmt.Sprintf("%s: header % x", id, comp[:hc.size]), spec)
		}
		// flag set => the body is the compressed form of the uncompressed build, for every peer decoder
		for _, p := range c.peers {
			got, err := p.decode(bc)
			if err != nil {
				r.Violation("request:"+cls+":"+c.name+":flagged-body-not-decodable-by-"+p.name, fmt.Sprintf("%s: body %s: %v", id, hexs(bc), err), spec)
			} else if !bytes.Equal(got, bp) {
				r.Violation("request:"+cls+":"+c.name+":flagged-body-decodes-to-different-bytes", fmt.Sprintf("%s (%s): %s", id, p.name, firstDiff(got, bp)), spec)
			}
		}
	} else {
		*unflagged++
		// flag clear => the body is plain
		same := bytes.Equal(bc, bp)
		if !same && spec.Kind == "startup" { // a string map: order of entries is free
			m1, e1 := readStringMap(bc)
			m2, e2 := readStringMap(bp)
			same = e1 == nil && e2 == nil && len(bc) == len(bp) && fmt.Sprint(m1) == fmt.Sprint(m2)
		}
		if !same {
			r.Violation("request:"+cls+":"+c.name+":unflagged-body-is-not-the-plain-body", fmt.Sprintf("%s: %s", id, firstDiff(bc, bp)), spec)
		}
		if !never {
			// a connection with a negotiated compressor may legitimately send small frames uncompressed
			// (flag clear); the statement only ties flag and compression together. Counted, not judged.
		}
	}
	if never && spec.Shape == 1 && spec.Kind == "startup" {
		if m, err := readStringMap(bc); err != nil || m["COMPRESSION"] != c.name {
			r.Infra("startup options not readable back: %v %v", m, err)
		}
	}
	if (spec.Kind == "query" && spec.Version == 4 && spec.Shape == 1 && !spec.Trace && spec.Payload && c.name == "lz4") || (spec.Kind == "startup" && spec.Version == 4 && spec.Shape == 1 && !spec.Trace && c.name == "snappy") {
		sample(r, "request-frames/"+spec.Kind+"/"+c.name, map[string]interface{}{"request": id, "header_plain": fmt.Sprintf("% x", plain[:hp.size]), "header_with_compressor": fmt.Sprintf("% x", comp[:hc.size]), "plain_body_len": len(bp), "wire_body_len": len(bc)})
	}
}

// ---- response direction -------------------------------------------------------------------

func respHeader(version, flags byte, stream int, op byte, n int) []byte {
	var h []byte
	if version <= 2 {
		h = []byte{version | 0x80, flags, byte(stream), op, 0, 0, 0, 0}
	} else {
		h = []byte{version | 0x80, flags, byte(stream >> 8), byte(stream), op, 0, 0, 0, 0}
	}
	binary.BigEndian.PutUint32(h[len(h)-4:], uint32(n))
	return h
}

type respBody struct {
	name  string
	op    byte
	body  []byte
	parse bool
	minV  byte
}

func str(s string) []byte  { return append([]byte{byte(len(s) >> 8), byte(len(s))}, s...) }
func i32(v int32) []byte   { return []byte{byte(v >> 24), byte(v >> 16), byte(v >> 8), byte(v)} }
func cat(p ...[]byte) []byte { return bytes.Join(p, nil) }

func responseBodies() []respBody {
	out := []respBody{
		{"READY", 0x02, nil, true, 1},
		{"SUPPORTED", 0x06, cat([]byte{0, 2}, str("COMPRESSION"), []byte{0, 2}, str("snappy"), str("lz4"), str("CQL_VERSION"), []byte{0, 1}, str("3.4.5")), true, 1},
		{"RESULT-void", 0x08, i32(1), true, 1},
		{"RESULT-set_keyspace", 0x08, cat(i32(3), str("ks_verif")), true, 1},
		{"AUTHENTICATE", 0x03, str("org.apache.cassandra.auth.PasswordAuthenticator"), true, 1},
		{"AUTH_SUCCESS", 0x10, cat(i32(5), []byte("token")), true, 2},
		{"ERROR-syntax", 0x00, cat(i32(0x2000), str("line 1:0 no viable alternative at input 'SELEKT' "+string(bytes.Repeat([]byte("x"), 300)))), true, 1},
		// RESULT rows: flags = global table spec, 1 column (varchar), 3 rows
		{"RESULT-rows", 0x08, cat(i32(2), i32(1), i32(1), str("ks"), str("tbl"), str("v"), []byte{0, 0x0D}, i32(3),
			i32(5), []byte("hello"), i32(-1), i32(300), bytes.Repeat([]byte("r"), 300)), true, 1},
	}
	// opaque bodies (readFrame does not interpret them): the short strings, a run, noise, 70 000 bytes
	for _, in := range shortStrings(4) {
		out = append(out, respBody{"opaque-" + in.id, opResult, in.gen(), false, 1})
	}
	out = append(out,
		respBody{"opaque-run-1000", opResult, run('q', 1000), false, 1},
		respBody{"opaque-lcg-1000", opResult, lcg(3, 1000), false, 1},
		respBody{"opaque-run-70000", opResult, run(0, 70000), false, 1},
		respBody{"opaque-lcg-70000", opResult, lcg(4, 70000), false, 1},
	)
	return out
}

func guardRead(r *report.Run, key string, replay interface{}, f func()) {
	defer func() {
		if p := recover(); p != nil {
			r.Violation("panic:"+key, fmt.Sprintf("%v\n%s", p, debug.Stack()), replay)
		}
	}()
	f()
}

// suiteReadPath: a response whose body was compressed by the peer (independent encoders AND
// gocql's encoder) and flagged is, after readHeader + framer.readFrame, the uncompressed body, and
// parses to the same frame as the plain transmission; the same frame on a framer WITHOUT
// compressor is an error (not a panic); on a framer with a different compressor it is an error or
// garbage, never a panic.
func suiteReadPath(r *report.Run) {
	bodies := responseBodies()
	n, noComp, wrongComp, wrongSkipped := 0, 0, 0, 0
	for _, rb := range bodies {
		for version := byte(1); version <= 5; version++ {
			if version < rb.minV {
				continue
			}
			plainWire := cat(respHeader(version, 0, 1, rb.op, len(rb.body)), rb.body)
			var plainParsed string
			var plainErr error
			guardRead(r, "readFrame:plain:"+rb.name, rb.name, func() {
				var body []byte
				body, plainParsed, plainErr = gocql.VerifReadFrame(nil, version, plainWire, rb.parse)
				if plainErr == nil && !bytes.Equal(body, rb.body) {
					r.Violation("read:plain:body-altered", fmt.Sprintf("%s v%d: %s", rb.name, version, firstDiff(body, rb.body)), rb.name)
				}
			})
			if plainErr != nil {
				r.Infra("plain %s v%d does not read: %v", rb.name, version, plainErr)
				continue
			}
			for _, c := range codecs {
				own, err := c.comp.Encode(rb.body)
				if err != nil {
					continue // reported by the round-trip suite
				}
				encs := append(peerEncodings(c, rb.body, 0), peerEncoding{"gocql-encoder", own})
				for _, pe := range encs {
					wire := cat(respHeader(version, flagCompress, 1, rb.op, len(pe.enc)), pe.enc)
					id := fmt.Sprintf("%s/v%d/%s/%s", rb.name, version, c.name, pe.how)
					cls := "opaque"
					if rb.parse {
						cls = rb.name
					}
					n++
					guardRead(r, "readFrame:"+c.name+":"+cls, id, func() {
						body, parsed, err := gocql.VerifReadFrame(c.comp, version, wire, rb.parse)
						r.Case("read|"+id, err == nil)
						if err != nil {
							r.Violation("read:"+c.name+":compressed-response-rejected:"+cls, fmt.Sprintf("%s: %v", id, err), id)
							return
						}
						if !bytes.Equal(body, rb.body) {
							r.Violation("read:"+c.name+":body-after-readFrame-differs:"+cls, fmt.Sprintf("%s: %s", id, firstDiff(body, rb.body)), id)
						}
						if parsed != plainParsed {
							r.Violation("read:"+c.name+":parsed-frame-differs-from-plain-transmission:"+cls, fmt.Sprintf("%s: %q vs %q", id, parsed, plainParsed), id)
						}
						if rb.name == "SUPPORTED" && version == 4 && pe.how == "literals" {
							sample(r, "read-path/"+c.name, map[string]interface{}{"response": id, "wire": hexs(wire), "parsed": parsed})
						}
					})
					// the same flagged frame on a connection WITHOUT compressor: an error, not a crash
					noComp++
					guardRead(r, "readFrame:no-compressor:"+cls, id, func() {
						_, _, err := gocql.VerifReadFrame(nil, version, wire, rb.parse)
						r.Case("read-nocomp|"+id, true)
						if err == nil {
							r.Violation("read:compressed-response-without-compressor-accepted:"+cls, fmt.Sprintf("%s: no error", id), id)
						}
					})
					// ... and on a connection with another compressor: no panic (error or garbage)
					for _, other := range []gocql.Compressor{otherOf(c).comp, xorCompressor{}} {
						other := other
						// read as the other format the stream may declare an enormous length; those cases are
						// left to the corrupt suite's one-process-per-case machinery
						if oc := codecByName(other.Name()); oc != nil {
							if d, ok := oc.declared(pe.enc); ok && d > 1<<20 {
								wrongSkipped++
								continue
							}
						}
						wrongComp++
						guardRead(r, "readFrame:wrong-compressor:"+other.Name()+"<-"+c.name+":"+cls, id, func() {
							gocql.VerifReadFrame(other, version, wire, rb.parse)
							r.Case("read-wrongcomp|"+other.Name()+"|"+id, true)
						})
					}
				}
			}
		}
	}
	r.Extra("read_path_compressed_responses", n)
	r.Extra("read_path_without_compressor", noComp)
	r.Extra("read_path_wrong_compressor", wrongComp)
	r.Extra("read_path_wrong_compressor_skipped_(misread_length_above_1MiB)", wrongSkipped)
}

func otherOf(c *codec) *codec {
	for _, o := range codecs {
		if o != c {
			return o
		}
	}
	return c
}
