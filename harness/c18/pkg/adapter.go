//go:build verif

package gocql

import (
	"bytes"
	"fmt"
	"strings"
)

// In-package adapters for check C18: they only construct gocql's own request builders /
// framers the way conn.go does (newFramer(compressor, version); optional trace();
// builder.buildFrame(framer, stream)) and expose the resulting bytes. No logic of their own.

// VerifReqSpec selects one request frame to build.
type VerifReqSpec struct {
	Kind    string // startup options prepare auth_response query execute batch register
	Version byte   // 1..5
	Trace   bool   // framer.trace() before building, as Conn.exec does with a tracer
	Payload bool   // custom payload (only honoured by prepare/query/execute/batch, v4+)
	Shape   int    // 0 minimal, 1 every optional field present, 2 large (70 000-byte statement / token)
	Stream  int
	// StartupCompression is the COMPRESSION option put into STARTUP for Shape >= 1 (what
	// Conn.startup does after negotiation); independent of the framer's compressor.
	StartupCompression string
}

var VerifRequestKinds = []string{"startup", "options", "prepare", "auth_response", "query", "execute", "batch", "register"}

func verifStatement(shape int) string {
	switch shape {
	case 0:
		return "SELECT now() FROM system.local"
	case 1:
		return "INSERT INTO ks.tbl (pk, ck, v1, v2) VALUES (?, ?, ?, ?) IF NOT EXISTS USING TTL 86400"
	}
	var sb strings.Builder
	sb.WriteString("SELECT * FROM ks.tbl WHERE pk IN (")
	for i := 0; sb.Len() < 70000; i++ {
		fmt.Fprintf(&sb, "%d,", i*2654435761%1000003)
	}
	sb.WriteString("0)")
	return sb.String()
}

func verifValues(shape int, version byte) []queryValues {
	if shape == 0 {
		return nil
	}
	vals := []queryValues{
		{value: []byte{0, 0, 0, 42}},
		{value: []byte("clustering-key-clustering-key-clustering-key")},
		{value: nil},
		{value: bytes.Repeat([]byte{0xAB}, 300)},
	}
	if version >= protoVersion4 {
		vals[2] = queryValues{isUnset: true}
	}
	return vals
}

func verifParams(shape int, version byte) queryParams {
	p := queryParams{consistency: Quorum}
	if shape == 0 {
		return p
	}
	p.values = verifValues(shape, version)
	p.skipMeta = true
	p.pageSize = 5000
	p.pagingState = []byte{0xde, 0xad, 0xbe, 0xef, 0, 1, 2, 3}
	p.serialConsistency = LocalSerial
	p.defaultTimestamp = true
	p.defaultTimestampValue = 1411161493123456 // fixed: 0 would make the builder read the wall clock
	if version > protoVersion4 {
		p.keyspace = "ks_verif"
	}
	return p
}

// VerifBuildRequest returns the complete frame (header + body) gocql would write.
func VerifBuildRequest(comp Compressor, s VerifReqSpec) ([]byte, error) {
	var payload map[string][]byte
	if s.Payload {
		payload = map[string][]byte{"verif-key": []byte("verif-payload-value")} // one entry: map order irrelevant
	}
	var b frameBuilder
	switch s.Kind {
	case "startup":
		opts := map[string]string{"CQL_VERSION": "3.0.0"}
		if s.Shape >= 1 && s.StartupCompression != "" {
			opts["COMPRESSION"] = s.StartupCompression
		}
		if s.Shape == 2 {
			opts["DRIVER_NAME"] = strings.Repeat("gocql-verif ", 5000) // 60 000 bytes: a [string] holds at most 65 535
		}
		b = &writeStartupFrame{opts: opts}
	case "options":
		b = &writeOptionsFrame{}
	case "prepare":
		w := &writePrepareFrame{statement: verifStatement(s.Shape), customPayload: payload}
		if s.Shape == 1 && s.Version > protoVersion4 {
			w.keyspace = "ks_verif"
		}
		b = w
	case "auth_response":
		data := []byte("\x00cassandra\x00cassandra")
		if s.Shape == 1 {
			data = []byte{}
		} else if s.Shape == 2 {
			data = bytes.Repeat([]byte("\x00token-token-token"), 4000)
		}
		b = &writeAuthResponseFrame{data: data}
	case "query":
		b = &writeQueryFrame{statement: verifStatement(s.Shape), params: verifParams(s.Shape, s.Version), customPayload: payload}
	case "execute":
		b = &writeExecuteFrame{preparedID: []byte("0123456789abcdef"), params: verifParams(s.Shape, s.Version), customPayload: payload}
	case "batch":
		w := &writeBatchFrame{typ: LoggedBatch, consistency: LocalQuorum, customPayload: payload}
		w.statements = []batchStatment{{statement: verifStatement(s.Shape), values: verifValues(s.Shape, s.Version)}}
		if s.Shape >= 1 {
			w.statements = append(w.statements,
				batchStatment{preparedID: []byte("0123456789abcdef"), values: verifValues(1, s.Version)},
				batchStatment{statement: verifStatement(0)})
			w.serialConsistency = Serial
			w.defaultTimestamp = true
			w.defaultTimestampValue = 1411161493123456
		}
		b = w
	case "register":
		ev := []string{"TOPOLOGY_CHANGE"}
		if s.Shape >= 1 {
			ev = []string{"TOPOLOGY_CHANGE", "STATUS_CHANGE", "SCHEMA_CHANGE"}
		}
		b = &writeRegisterFrame{events: ev}
	default:
		return nil, fmt.Errorf("verif: unknown request kind %q", s.Kind)
	}
	f := newFramer(comp, s.Version)
	if s.Trace {
		f.trace()
	}
	if err := b.buildFrame(f, s.Stream); err != nil {
		return nil, err
	}
	return append([]byte(nil), f.buf...), nil
}

// VerifReadFrame feeds wire bytes (one response frame) through readHeader + framer.readFrame
// exactly as Conn.recv does, with a framer made by newFramer(comp, version). It returns the body
// the framer holds afterwards (what parseFrame would consume) and, if parse is set, a rendering
// of the parsed frame.
func VerifReadFrame(comp Compressor, version byte, wire []byte, parse bool) (body []byte, parsed string, err error) {
	r := bytes.NewReader(wire)
	var hb [9]byte
	head, err := readHeader(r, hb[:])
	if err != nil {
		return nil, "", fmt.Errorf("readHeader: %w", err)
	}
	f := newFramer(comp, version)
	if err := f.readFrame(r, &head); err != nil {
		return nil, "", err
	}
	body = append([]byte(nil), f.buf...)
	if parse {
		fr, err := f.parseFrame()
		if err != nil {
			return body, "", fmt.Errorf("parseFrame: %w", err)
		}
		parsed = verifRender(fr)
	}
	return body, parsed, nil
}

// verifRender prints a parsed frame without its header (whose flags/length legitimately differ
// between the compressed and the plain transmission).
func verifRender(fr frame) string {
	switch v := fr.(type) {
	case *readyFrame:
		return "READY"
	case *supportedFrame:
		return fmt.Sprintf("SUPPORTED %v", v.supported)
	case *resultVoidFrame:
		return "RESULT void"
	case *resultRowsFrame:
		return fmt.Sprintf("RESULT rows meta=%+v numRows=%d", v.meta, v.numRows)
	case *resultKeyspaceFrame:
		return fmt.Sprintf("RESULT set_keyspace %q", v.keyspace)
	case *authenticateFrame:
		return fmt.Sprintf("AUTHENTICATE %q", v.class)
	case *authSuccessFrame:
		return fmt.Sprintf("AUTH_SUCCESS %x", v.data)
	case *authChallengeFrame:
		return fmt.Sprintf("AUTH_CHALLENGE %x", v.data)
	case errorFrame:
		return fmt.Sprintf("ERROR %#x %q", v.code, v.message)
	case *errorFrame:
		return fmt.Sprintf("ERROR %#x %q", v.code, v.message)
	}
	return fmt.Sprintf("%T", fr)
}
