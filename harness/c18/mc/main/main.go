// C18, controlled-scheduler part: compression negotiation on a real connection.
// One real Conn of the instrumented gocql made by the real handshake (gocql.VerifDial) over an
// in-memory pipe against a compression-aware scripted node (node.go). Free choices (all explored):
// what the node advertises in SUPPORTED, the compressor the client is configured with, and how
// the node encodes its replies after STARTUP (plain / compressed with snappy or lz4 / compressed
// and cut short / garbage with the compression flag), and whether the node demands authentication
// (STARTUP answered by READY / by AUTHENTICATE then AUTH_SUCCESS / by AUTHENTICATE, AUTH_CHALLENGE,
// AUTH_SUCCESS), so that every way out of the STARTUP exchange is crossed with every (advertised,
// configured) pair, and whether / where / how encoded the node pushes an EVENT frame (stream -1). Then one simple QUERY and one prepared statement (PREPARE + EXECUTE). The oracle
// reads the node's request log.
package main

import (
	"fmt"
	"net"
	"os"
	"strings"
	"time"

	"github.com/gocql/gocql"
	gocqllz4 "github.com/gocql/gocql/lz4"

	"verif/engine/mcreport"
	"verif/engine/refcql/frame"
	vs "verif/engine/vsched"
	"verif/engine/vsched/vatomic"
	context "verif/engine/vsched/vcontext"
	"verif/engine/vsched/vnet"
)

type advSet struct {
	name string
	list []string // nil: no COMPRESSION key in SUPPORTED
}

var advSets = []advSet{
	{"absent", nil},
	{"[snappy]", []string{"snappy"}},
	{"[lz4]", []string{"lz4"}},
	{"[lz4,snappy]", []string{"lz4", "snappy"}},
	{"[deflate]", []string{"deflate"}},
}

var clientComp = []struct {
	name string
	c    gocql.Compressor
}{
	{"", nil},
	{"snappy", gocql.SnappyCompressor{}},
	{"lz4", gocqllz4.LZ4Compressor{}},
}

// reply modes after STARTUP
var modes = []struct {
	name    string
	algo    string
	corrupt int
}{
	{"plain", "", 0},
	{"compressed-snappy", "snappy", 0},
	{"compressed-lz4", "lz4", 0},
	{"cut-snappy", "snappy", 1},
	{"cut-lz4", "lz4", 1},
	{"garbage-with-flag", "snappy", 2},
}

// how the node ends the STARTUP exchange
var authModes = []struct {
	name       string
	demand     bool // STARTUP is answered by AUTHENTICATE instead of READY
	challenges int  // AUTH_CHALLENGE frames before AUTH_SUCCESS
}{
	{"ready", false, 0},
	{"authenticate-success", true, 0},
	{"authenticate-challenge-success", true, 1},
}

// server-pushed EVENT frames (stream -1) on the established connection: where the node pushes one
// STATUS_CHANGE and how it encodes it. "as-negotiated" = compressed with the negotiated algorithm and
// flagged (only an alternative when the (advertised, configured) pair negotiates one); compressing a
// response is the server's choice, so the plain form is pushed on such connections too.
var eventModes = []struct {
	name       string
	pos        int // 0 none, 1 right after the frame that ends the STARTUP exchange, 2 right after the reply to the QUERY
	compressed bool
}{
	{"none", 0, false},
	{"plain-after-handshake", 1, false},
	{"plain-between-requests", 2, false},
	{"as-negotiated-after-handshake", 1, true},
	{"as-negotiated-between-requests", 2, true},
}

var eventMsg = frame.EventStatusChange{Change: "UP", Addr: []byte{10, 0, 0, 7}, Port: 9042}

const eventSeen = "STATUS_CHANGE UP 10.0.0.7 9042"

const authClass = "org.apache.cassandra.auth.PasswordAuthenticator"

// stepAuth is the client's authenticator: it answers the AUTHENTICATE and every AUTH_CHALLENGE with a
// token that names the step (padded so that the body compresses) and always continues the exchange.
// It keeps no state outside its own value.
type stepAuth struct{ step int }

func authToken(step int) []byte {
	return []byte(fmt.Sprintf("\x00c18-user\x00c18-password-step-%d-", step) + strings.Repeat("padding ", 10))
}

func (a stepAuth) Challenge(req []byte) ([]byte, gocql.Authenticator, error) {
	return authToken(a.step), stepAuth{a.step + 1}, nil
}

func (a stepAuth) Success(data []byte) error { return nil }

const (
	stmtSimple   = "QUERYX 'c18-simple' /* padding padding padding padding padding padding padding padding padding padding */"
	stmtPrepared = "SELECT v FROM ks.t WHERE k = ? /* padding padding padding padding padding padding padding padding */"
	keyValue     = "key-c18-key-c18-key-c18-key-c18-key-c18-key-c18"
)

var preparedID = []byte("c18-prepared-id0")

func rowsFor(label string) *frame.ResultRows {
	return &frame.ResultRows{Meta: frame.RowsMetadata{GlobalTableSpec: true, GlobalKeyspace: "ks", GlobalTable: "t", ColumnCount: 1,
		Columns: []frame.ColumnSpec{{Keyspace: "ks", Table: "t", Name: "v", Type: frame.Leaf(frame.TVarchar)}}},
		Rows: [][][]byte{{frame.TextCell(label)}, {frame.TextCell(strings.Repeat("compressible ", 12))}}}
}

func contains(l []string, s string) bool {
	for _, x := range l {
		if x == s {
			return true
		}
	}
	return false
}

var debug = os.Getenv("MC_DEBUG") != ""

type opResult struct {
	name string
	rows []string
	err  error
}

func body() {
	gocql.VerifResetGlobals()
	vatomic.Yield = false // the stream-id allocator's atomics are C08's subject
	adv := advSets[vs.Choose(len(advSets), vs.Free)]
	cc := clientComp[vs.Choose(len(clientComp), vs.Free)]
	mode := modes[vs.Choose(len(modes), vs.Free)]
	am := authModes[vs.Choose(len(authModes), vs.Free)]
	// the event dimension is crossed with the reply modes that leave the connection healthy (plain, compressed-*);
	// the as-negotiated alternatives exist only where a compressor will be negotiated
	nEv := 1
	if mode.corrupt == 0 {
		nEv = 3
		if cc.c != nil && contains(adv.list, cc.name) {
			nEv = 5
		}
	}
	em := eventModes[vs.Choose(nEv, vs.Free)]
	eventsPushed := 0

	var wlog []vnet.WriteRec
	client, server := vnet.Pipe("c0", &net.TCPAddr{IP: net.IPv4(10, 0, 0, 9), Port: 40000}, &net.TCPAddr{IP: net.IPv4(10, 0, 0, 1), Port: 9042})
	client.Log = &wlog
	node := newNode(server, adv.list)
	corruptBodyAccepted := false // the reference decoder of the negotiated algorithm accepts the body meant to be corrupt
	pushEvent := func(n *cnode, raw []byte, v int) []byte {
		algo := ""
		if em.compressed {
			algo = n.negotiated
		}
		eventsPushed++
		return append(raw, encodeReply(frame.Header{Version: v, Stream: -1}, eventMsg, algo, 0)...)
	}
	node.reply = func(n *cnode, r *reqLog) []byte {
		var msg interface{}
		post := true
		switch m := r.req.Msg.(type) {
		case *frame.Options:
			opts := []frame.KL{{Key: "CQL_VERSION", Values: []string{"3.4.5"}}}
			if n.advertised != nil {
				opts = append(opts, frame.KL{Key: "COMPRESSION", Values: n.advertised})
			}
			msg, post = &frame.Supported{Options: opts}, false
		case *frame.Startup:
			// the answers that belong to the STARTUP exchange (READY / AUTHENTICATE / AUTH_CHALLENGE / AUTH_SUCCESS) are
			// sent plain: the reply modes are about responses on the established connection
			msg, post = frame.Ready{}, false
			if am.demand {
				msg = &frame.Authenticate{Class: authClass}
			}
		case *frame.AuthResponse:
			post = false
			n.authResponses = append(n.authResponses, append([]byte(nil), m.Token...))
			switch {
			case !am.demand:
				msg = &frame.Error{Code: 0x000A, Message: "unexpected AUTH_RESPONSE"}
			case len(n.authResponses) <= am.challenges:
				msg = &frame.AuthChallenge{Token: []byte("c18-challenge")}
			default:
				n.authDone = true
				msg = &frame.AuthSuccess{Token: nil}
			}
		case *frame.Query:
			msg = rowsFor("simple")
			_ = m
		case *frame.Prepare:
			msg = &frame.ResultPrepared{ID: preparedID,
				Bind: frame.PreparedMetadata{GlobalTableSpec: true, GlobalKeyspace: "ks", GlobalTable: "t", PKIndexes: []uint16{0},
					Columns: []frame.ColumnSpec{{Keyspace: "ks", Table: "t", Name: "k", Type: frame.Leaf(frame.TVarchar)}}},
				Result: rowsFor("").Meta}
		case *frame.Execute:
			msg = rowsFor("prepared")
		default:
			msg = frame.ResultVoid{}
		}
		if !post {
			raw := encodeReply(r.h, msg, "", 0)
			switch msg.(type) {
			case frame.Ready, *frame.AuthSuccess:
				if em.pos == 1 {
					raw = pushEvent(n, raw, r.h.Version)
				}
			}
			return raw
		}
		algo := mode.algo
		if algo != "" && n.negotiated != "" {
			// on a connection with a negotiated compressor the node compresses with THAT one (a body of the other
			// format makes lz4 allocate the 2-3 GiB that snappy's length varint reads as: out of scope here)
			algo = n.negotiated
		}
		raw := encodeReply(r.h, msg, algo, mode.corrupt)
		if algo != "" && n.negotiated != "" && mode.corrupt != 0 {
			// is this body really invalid for the negotiated algorithm, by the peer's own decoder?
			_, b, _ := frame.SplitFrame(raw)
			if dec, err := peerDecode(n.negotiated, b); err == nil {
				_ = dec
				corruptBodyAccepted = true
			}
		}
		if _, isQuery := r.req.Msg.(*frame.Query); isQuery && em.pos == 2 {
			raw = pushEvent(n, raw, r.h.Version)
		}
		return raw
	}

	cluster := gocql.NewCluster("10.0.0.1")
	cluster.ProtoVersion = 4
	cluster.Timeout = 100 * time.Millisecond
	cluster.ConnectTimeout = 100 * time.Millisecond
	cluster.WriteCoalesceWaitTime = 0
	cluster.Compressor = cc.c
	cluster.Authenticator = stepAuth{0}
	live, sess, derr := gocql.VerifDialEvents(client, *cluster, true)

	var results []opResult
	if derr == nil {
		done := make(chan []opResult, 1)
		vs.GoNamed("caller", func() {
			var out []opResult
			run := func(name string, q *gocql.Query) {
				it := q.Iter()
				r := opResult{name: name}
				var s string
				for it.Scan(&s) {
					r.rows = append(r.rows, s)
				}
				r.err = it.Close()
				out = append(out, r)
			}
			run("simple", live.Query(context.Background(), stmtSimple))
			run("prepared", live.Query(context.Background(), stmtPrepared, keyValue))
			vs.Send(done, out)
		})
		results = vs.Recv[[]opResult](done)
	}
	vs.WaitQuiescent()

	// ---------------------------------------------------------------- oracle
	pDev, dDev, _ := vs.Deviations()
	desc := fmt.Sprintf("SUPPORTED COMPRESSION %s, client compressor %q, replies %s, STARTUP exchange %s, pushed EVENT %s", adv.name, cc.name, mode.name, am.name, em.name)
	expect := ""
	if cc.c != nil && contains(adv.list, cc.name) {
		expect = cc.name
	}
	if derr != nil {
		if dDev == 0 {
			vs.Failf("c18:handshake:failed", "handshake failed without any timer fired early: %v [%s]", derr, desc)
		}
	}
	if node.dead != "" {
		vs.Failf("c18:wire:node-cannot-decode-request", "%s [%s]", node.dead, desc)
	}
	// (1) what went over the wire
	var startup *frame.Startup
	for i, r := range node.log {
		op := frame.OpName(r.h.Op)
		if r.h.Op == frame.OpOptions || r.h.Op == frame.OpStartup {
			if r.compressed {
				vs.Failf("c18:wire:"+op+"-has-compression-flag", "request %d (%s) carries the compression flag [%s]", i, op, desc)
			}
		}
		if r.req != nil {
			if st, ok := r.req.Msg.(*frame.Startup); ok {
				startup = st
			}
		}
	}
	if startup != nil {
		got, has := "", false
		for _, kv := range startup.Options {
			if kv.Key == "COMPRESSION" {
				got, has = kv.Value, true
			}
		}
		switch {
		case has && !contains(adv.list, got):
			vs.Failf("c18:negotiation:STARTUP-requests-a-compressor-the-node-did-not-advertise", "STARTUP has COMPRESSION=%q [%s]", got, desc)
		case has && got != cc.name:
			vs.Failf("c18:negotiation:STARTUP-requests-a-compressor-the-client-does-not-have", "STARTUP has COMPRESSION=%q [%s]", got, desc)
		case !has && expect != "":
			vs.Failf("c18:negotiation:advertised-and-configured-compressor-not-requested", "STARTUP has no COMPRESSION although %q is configured and advertised [%s]", expect, desc)
		}
	} else if derr == nil {
		vs.Failf("c18:handshake:no-STARTUP", "handshake succeeded but the node saw no STARTUP [%s]", desc)
	}
	if derr == nil && am.demand && !node.authDone {
		vs.Failf("c18:handshake:connection-returned-before-AUTH_SUCCESS", "handshake succeeded although the node demanded authentication and never sent AUTH_SUCCESS [%s]", desc)
	}
	for i, tok := range node.authResponses {
		if string(tok) != string(authToken(i)) {
			vs.Failf("c18:wire:decoded-request-differs", "AUTH_RESPONSE %d decoded by the peer as token %q, the authenticator returned %q [%s]", i, tok, authToken(i), desc)
		}
	}
	sawStmt := map[string]bool{}
	for i, r := range node.log {
		if !r.afterStart {
			continue
		}
		op := frame.OpName(r.h.Op)
		if node.negotiated == "" {
			if r.compressed {
				vs.Failf("c18:wire:compressed-request-without-negotiation", "request %d (%s) carries the compression flag although STARTUP negotiated nothing [%s]", i, op, desc)
			}
		} else {
			// AUTH_RESPONSE still belongs to the STARTUP exchange: plain is accepted there (flagged must decode, below)
			if !r.compressed && len(r.rawBody) > 0 && r.h.Op != frame.OpAuthResponse {
				vs.Failf("c18:wire:uncompressed-request-after-negotiation", "request %d (%s, %d body bytes) lacks the compression flag although %q was negotiated [%s]", i, op, len(r.rawBody), node.negotiated, desc)
			}
			if r.compressed && (r.inflateErr != nil || r.decodeErr != nil) {
				vs.Failf("c18:wire:compressed-request-does-not-decode", "request %d (%s): the peer's %s decoder: %v; request decoder: %v [%s]", i, op, node.negotiated, r.inflateErr, r.decodeErr, desc)
			}
		}
		if r.req != nil {
			switch m := r.req.Msg.(type) {
			case *frame.Query:
				sawStmt[m.Statement] = true
			case *frame.Prepare:
				sawStmt[m.Statement] = true
			case *frame.Execute:
				if string(m.ID) != string(preparedID) || len(m.Params.Values) != 1 || string(m.Params.Values[0].Bytes) != keyValue {
					vs.Failf("c18:wire:decoded-request-differs", "EXECUTE decoded by the peer as id %q values %v [%s]", m.ID, m.Params.Values, desc)
				}
			}
		}
	}
	// (2) what the caller got. A timer fired early (D) or a schedule where the reader loses against the
	// request timeout can turn a deliverable reply into a timeout: only deviation-free timing is demanding.
	legit := mode.algo == "" || (mode.corrupt == 0 && node.negotiated != "")
	var sig []string
	for _, r := range results {
		cls := gocql.VerifErrClass(r.err)
		sig = append(sig, r.name+"="+strings.SplitN(cls, ":", 2)[0])
		want := "simple"
		stmt := stmtSimple
		if r.name == "prepared" {
			want, stmt = "prepared", stmtPrepared
		}
		if !sawStmt[stmt] && cls != "conn-closed" && dDev == 0 && pDev == 0 {
			vs.Failf("c18:wire:decoded-request-differs", "the statement of op %s was not decoded by the peer from any request [%s]", r.name, desc)
		}
		switch {
		case legit:
			if dDev == 0 && (r.err != nil || len(r.rows) != 2 || r.rows[0] != want) {
				key := "c18:response:plain-response-not-delivered"
				if mode.algo != "" {
					key = "c18:response:negotiated-compressed-response-not-delivered"
				}
				vs.Failf(key, "op %s: rows %q err %v [%s]", r.name, r.rows, r.err, desc)
			}
		case r.err == nil:
			switch {
			case node.negotiated == "":
				vs.Failf("c18:response:compressed-response-accepted-without-negotiated-compressor", "op %s returned rows %q and no error for a reply carrying the compression flag [%s]", r.name, r.rows, desc)
			case corruptBodyAccepted:
				// the peer's own decoder reads this body: nothing can be demanded
			default:
				vs.Failf("c18:response:corrupt-compressed-body-accepted", "op %s returned rows %q and no error for a reply whose body the %s decoder rejects [%s]", r.name, r.rows, node.negotiated, desc)
			}
		}
	}
	// (3) the pushed EVENT: a well-formed event, plain or compressed as negotiated, is decoded to what the node encoded
	// and handed to the session (and - by (2) - the connection stays usable: the following requests get their rows).
	// Demanded only when no timer fired early and the handshake succeeded; the node pushes it right behind a frame the
	// client accepts (mode.corrupt == 0), so nothing before it in the byte stream closes the connection.
	var seen []string
	if sess != nil {
		seen = gocql.VerifEventsSeen(sess)
	}
	if len(seen) > eventsPushed {
		vs.Failf("c18:event:more-events-delivered-than-pushed", "session got %q, node pushed %d [%s]", seen, eventsPushed, desc)
	}
	for _, e := range seen {
		if e != eventSeen {
			vs.Failf("c18:event:decoded-event-differs", "session got %q, node pushed %q [%s]", e, eventSeen, desc)
		}
	}
	if derr == nil && dDev == 0 && eventsPushed == 1 && len(seen) != 1 {
		key := "c18:event:plain-event-not-delivered"
		if em.compressed {
			key = "c18:event:negotiated-compressed-event-not-delivered"
		}
		errs := []string(nil)
		if live != nil {
			errs = live.Errors
		}
		vs.Failf(key, "node pushed 1 EVENT (%s), the session got %q; connection errors %q [%s]", em.name, seen, errs, desc)
	}
	vs.Observe("ev=%s seen=%d ", em.name, len(seen))
	vs.Observe("adv=%s client=%s mode=%s auth=%s negotiated=%q dial=%v authResponses=%d %s", adv.name, cc.name, mode.name, am.name, node.negotiated, derr == nil, len(node.authResponses), strings.Join(sig, " "))
	if debug {
		var errs []string
		for _, r := range results {
			errs = append(errs, fmt.Sprint(r.err))
		}
		fmt.Fprintf(os.Stderr, "DEBUG adv=%s client=%s mode=%s auth=%s negotiated=%q dial=%v %s errs=%q reqs=%d\n", adv.name, cc.name, mode.name, am.name, node.negotiated, derr, strings.Join(sig, " "), errs, len(node.log))
	}
}

func main() {
	b := func(t int) vs.Bounds { return vs.Bounds{P: t, D: t, F: t, T: t} }
	defs := []mcreport.Def{{Name: "negotiation-handshake-query-prepared", Quick: b(1), Thorough: b(2), Build: func() *vs.Scenario {
		return &vs.Scenario{Name: "negotiation-handshake-query-prepared", Cfg: vs.Config{MaxSteps: 30000, Horizon: 700 * time.Millisecond, DelayBounded: true}, Body: body}
	}}}
	mcreport.Main("C18", "exploration",
		"controlled-scheduler part (negotiation on a real connection): free choices, all explored: SUPPORTED COMPRESSION {absent,[snappy],[lz4],[lz4,snappy],[deflate]} x client compressor {none,snappy,lz4} x node reply encoding after STARTUP {plain, compressed, compressed and cut to half, 12 garbage bytes with the flag; compressed = with the negotiated compressor, else snappy / lz4 as two alternatives} x how the node ends the STARTUP exchange {READY; AUTHENTICATE, AUTH_SUCCESS; AUTHENTICATE, AUTH_CHALLENGE, AUTH_SUCCESS - the client has an authenticator that answers every step} (270) x server-pushed EVENT {none; one STATUS_CHANGE on stream -1 pushed right behind the frame that ends the STARTUP exchange / right behind the reply to the QUERY, encoded plain / compressed with the negotiated compressor and flagged - the compressed forms only where a compressor is negotiated, the event alternatives only with the reply encodings the client accepts (plain, compressed)} = 612 configurations, each through the real handshake (VerifDialEvents: VerifDial on a session with passive event debouncers), one QUERY and one PREPARE+EXECUTE on the instrumented Conn; schedules/timers delay-bounded (every execution departing at most T times from the default schedule). Oracle from the node's request log (requests inflated by the peer's own snappy / Cassandra-lz4 decoders and decoded by the reference request decoder): STARTUP carries COMPRESSION=<name> iff configured and advertised; OPTIONS/STARTUP never flagged; after negotiation every request with a body (AUTH_RESPONSE excepted: plain or flagged) is flagged and decodes to what the caller / authenticator gave, without negotiation none - AUTH_RESPONSE included - is flagged; a connection is returned only after AUTH_SUCCESS when authentication was demanded; plain and correctly compressed replies are delivered as rows; a flagged reply on a connection without negotiated compressor, and a body the negotiated decoder rejects, give the caller an error; a pushed well-formed EVENT, plain or compressed as negotiated, reaches Session.handleEvent decoded to what the node encoded and leaves the connection usable (the following requests get their rows); no panic on any thread",
		[]string{"protocol v4, one connection, request/connect timeout 100ms, no write coalescing, horizon 700ms (before the first heartbeat)",
			"stream-allocator atomics are not scheduling points (C08); outcomes of replies are demanded only in executions without an early timer"},
		defs, 45*time.Second, 8*time.Minute, nil)
}
