package main

// A small compression-aware scripted node for the negotiation sub-suite (the engine's
// scripted node treats compressed requests as undecodable). It sits on the server end of a
// vnet pipe as a synchronous sink: every chunk the client writes is parsed into frames inside
// the client's Write; replies are written by their own daemon threads.

import (
	"encoding/binary"
	"errors"
	"fmt"
	"unsafe"

	"github.com/golang/snappy"
	"github.com/pierrec/lz4/v4"

	"verif/engine/refcql/frame"
	vs "verif/engine/vsched"
	"verif/engine/vsched/vnet"
)

// ---- the peer's codecs, written against the libraries directly (not through gocql's wrappers)

func peerDecode(algo string, body []byte) ([]byte, error) {
	switch algo {
	case "snappy":
		if d, n := binary.Uvarint(body); n <= 0 || d > 64*uint64(len(body))+64 {
			return nil, fmt.Errorf("snappy: unreadable or unreachable declared length")
		}
		return snappy.Decode(nil, body)
	case "lz4":
		// Cassandra: 4-byte big-endian uncompressed length, then one raw LZ4 block; sizes must match
		if len(body) < 4 {
			return nil, errors.New("lz4: body shorter than the length prefix")
		}
		n := binary.BigEndian.Uint32(body)
		if n > 1<<31-1 {
			return nil, errors.New("lz4: declared length negative as a Java int")
		}
		if n == 0 {
			if len(body) == 5 && body[4] == 0 {
				return []byte{}, nil
			}
			return nil, errors.New("lz4: declared length 0 but the block is not the single token 00")
		}
		if uint64(n) > 255*uint64(len(body)-4)+64 {
			return nil, fmt.Errorf("lz4: declared length %d cannot be reached by a %d-byte block", n, len(body)-4)
		}
		dst := make([]byte, n)
		m, err := lz4.UncompressBlock(body[4:], dst)
		if err != nil {
			return nil, err
		}
		if uint32(m) != n {
			return nil, fmt.Errorf("lz4: decoded %d bytes, declared %d", m, n)
		}
		return dst, nil
	}
	return nil, fmt.Errorf("peer has no decompressor %q", algo)
}

func peerEncode(algo string, body []byte) []byte {
	switch algo {
	case "snappy":
		return snappy.Encode(nil, body)
	case "lz4":
		buf := make([]byte, 4+lz4.CompressBlockBound(len(body)))
		var c lz4.Compressor
		n, err := c.CompressBlock(body, buf[4:])
		if err != nil {
			panic(err)
		}
		if n == 0 && len(body) > 0 {
			// incompressible input: a single literal-only sequence
			panic("harness: incompressible reply body")
		}
		if len(body) == 0 {
			buf[4] = 0
			n = 1
		}
		binary.BigEndian.PutUint32(buf, uint32(len(body)))
		return buf[:4+n]
	}
	panic("peerEncode: " + algo)
}

// ---- the node

type reqLog struct {
	h          frame.Header
	rawBody    []byte // as on the wire
	body       []byte // after decompression (== rawBody without the flag)
	compressed bool
	inflateErr error
	req        *frame.Request
	decodeErr  error
	afterStart bool // received after the STARTUP frame
}

type cnode struct {
	server     *vnet.Conn
	advertised []string // nil: SUPPORTED has no COMPRESSION key at all
	buf        []byte
	log        []*reqLog
	negotiated string // the COMPRESSION value of STARTUP ("" none)
	started    bool
	dead       string
	nreply     int
	// the tokens of the AUTH_RESPONSE frames received (after inflation) and whether AUTH_SUCCESS was sent
	authResponses [][]byte
	authDone      bool
	obj           byte
	// reply decides what to write back for a decoded request: a full frame
	reply func(n *cnode, r *reqLog) []byte
}

func newNode(server *vnet.Conn, advertised []string) *cnode {
	n := &cnode{server: server, advertised: advertised}
	server.Sink = n.sink
	return n
}

func (n *cnode) sink(data []byte) {
	vs.Touch(unsafe.Pointer(&n.obj), true)
	if n.dead != "" {
		return
	}
	n.buf = append(n.buf, data...)
	for len(n.buf) > 0 {
		hs := frame.HeaderSize(int(n.buf[0] & 0x7f))
		if len(n.buf) < hs {
			return
		}
		h, _, err := frame.ParseHeader(n.buf[:hs])
		if err != nil || h.Response || h.Length < 0 || h.Length > 1<<24 {
			n.dead = fmt.Sprintf("bad request header % x: %v", n.buf[:hs], err)
			return
		}
		if len(n.buf) < hs+int(h.Length) {
			return
		}
		r := &reqLog{h: h, rawBody: append([]byte(nil), n.buf[hs:hs+int(h.Length)]...), afterStart: n.started}
		n.buf = n.buf[hs+int(h.Length):]
		r.body = r.rawBody
		if h.Flags&frame.FlagCompression != 0 {
			r.compressed = true
			algo := n.negotiated
			if algo == "" {
				r.inflateErr = errors.New("compressed request but no compression was negotiated")
			} else {
				r.body, r.inflateErr = peerDecode(algo, r.rawBody)
			}
		}
		if r.inflateErr == nil {
			r.req, r.decodeErr = frame.DecodeRequestBody(h, r.body)
		}
		n.log = append(n.log, r)
		if r.inflateErr != nil || r.decodeErr != nil {
			n.dead = fmt.Sprintf("undecodable request op=%s: %v %v", frame.OpName(h.Op), r.inflateErr, r.decodeErr)
			return
		}
		if st, ok := r.req.Msg.(*frame.Startup); ok {
			n.started = true
			for _, kv := range st.Options {
				if kv.Key == "COMPRESSION" {
					n.negotiated = kv.Value
				}
			}
		}
		if raw := n.reply(n, r); raw != nil {
			n.nreply++
			vs.GoDaemon(fmt.Sprintf("node/reply%d", n.nreply), func() { n.server.Write(raw) })
		}
	}
}

// encode builds a response frame; algo != "": the body is compressed with it and the flag set;
// corrupt: 0 none, 1 compressed body cut to half, 2 compressed body replaced by 12 garbage bytes
func encodeReply(h frame.Header, msg interface{}, algo string, corrupt int) []byte {
	enc, err := frame.Encode(&frame.Response{Version: h.Version, Stream: h.Stream, Msg: msg})
	if err != nil {
		panic(err)
	}
	if algo == "" {
		return enc.Bytes()
	}
	body := peerEncode(algo, enc.Body)
	switch corrupt {
	case 1:
		body = body[:len(body)/2]
	case 2:
		// invalid for both formats without announcing a huge length: lz4 reads "32 bytes follow" and a token
		// whose literal run overruns the block; snappy reads "0 bytes follow" and then finds elements
		body = []byte{0x00, 0x00, 0x00, 0x20, 0xff, 0xff, 0xff, 0xff, 0xff, 0xff, 0xff, 0xff}
	}
	hh := enc.Header
	hh.Flags |= frame.FlagCompression
	return frame.Assemble(hh, body)
}
