//go:build verif

package gocql

// In-package glue of the C18 controlled-scheduler companion: a live connection whose session
// can receive server-pushed EVENT frames (stream -1), and a read-out of what reached
// Session.handleEvent.

import (
	"context"
	"fmt"
	"net"
	"time"
)

// verifPassiveDebouncer is an eventDebouncer without its flusher thread: debounce() only appends
// under the mutex and re-arms the (1 s, beyond the scenario's horizon) timer; nothing is flushed.
func verifPassiveDebouncer(name string, logger StdLogger) *eventDebouncer {
	e := &eventDebouncer{
		name:     name,
		quit:     make(chan struct{}),
		timer:    time.NewTimer(eventDebounceTime),
		callback: func([]frame) {},
		logger:   logger,
	}
	e.timer.Stop()
	return e
}

// VerifDialEvents is VerifDial on a session that has (passive) event debouncers, so that an EVENT
// frame read by Conn.recv goes through the real Session.handleEvent and is kept for VerifEventsSeen.
// The session is returned also when the handshake fails.
func VerifDialEvents(clientEnd net.Conn, cfg ClusterConfig, disableCoalesce bool) (*VerifLive, *Session, error) {
	cfg.HostDialer = VerifDialFunc{Fn: func(context.Context, *HostInfo) (net.Conn, error) { return clientEnd, nil }, DisableCoalesce: disableCoalesce}
	s, err := VerifBareSession(cfg)
	if err != nil {
		return nil, nil, err
	}
	s.nodeEvents = verifPassiveDebouncer("verif-node-events", s.logger)
	s.schemaEvents = verifPassiveDebouncer("verif-schema-events", s.logger)
	l := &VerifLive{S: s}
	host := &HostInfo{hostId: "verif-host-1", connectAddress: net.IPv4(10, 0, 0, 1), port: 9042}
	c, err := s.connect(s.ctx, host, connErrorHandlerFn(func(conn *Conn, err error, closed bool) {
		l.Errors = append(l.Errors, errString(closed, err))
	}))
	if err != nil {
		s.cancel()
		return nil, s, err
	}
	l.C = c
	return l, s, nil
}

// VerifEventsSeen renders the event frames that Session.handleEvent parsed and handed to the
// debouncers, in arrival order per debouncer (node events first).
func VerifEventsSeen(s *Session) []string {
	var out []string
	for _, e := range []*eventDebouncer{s.nodeEvents, s.schemaEvents} {
		if e == nil {
			continue
		}
		e.mu.Lock()
		for _, f := range e.events {
			switch ev := f.(type) {
			case *statusChangeEventFrame:
				out = append(out, fmt.Sprintf("STATUS_CHANGE %s %s %d", ev.change, ev.host, ev.port))
			case *topologyChangeEventFrame:
				out = append(out, fmt.Sprintf("TOPOLOGY_CHANGE %s %s %d", ev.change, ev.host, ev.port))
			default:
				out = append(out, fmt.Sprintf("%T %v", f, f))
			}
		}
		e.mu.Unlock()
	}
	return out
}
