package main

import (
	"bytes"
	"fmt"
	"reflect"

	"github.com/gocql/gocql"

	"verif/engine/report"
)

// framingLimits: the protocol <= 2 collection framing has 16-bit counts and element
// lengths. A collection that does not fit must be refused by Marshal (it cannot be
// expressed), never written modulo 65536; what fits must round-trip. Protocol >= 3
// handles the same values. Exhaustive over the listed boundary sizes.
func framingLimits(r *report.Run) {
	blob := func(n int) []byte { return bytes.Repeat([]byte{0xAB}, n) }
	for _, proto := range []byte{1, 2, 3, 4} {
		listInt := gocql.CollectionType{NativeType: gocql.NewNativeType(proto, gocql.TypeList, ""), Elem: gocql.NewNativeType(proto, gocql.TypeInt, "")}
		listBlob := gocql.CollectionType{NativeType: gocql.NewNativeType(proto, gocql.TypeList, ""), Elem: gocql.NewNativeType(proto, gocql.TypeBlob, "")}
		setText := gocql.CollectionType{NativeType: gocql.NewNativeType(proto, gocql.TypeSet, ""), Elem: gocql.NewNativeType(proto, gocql.TypeVarchar, "")}
		mapTB := gocql.CollectionType{NativeType: gocql.NewNativeType(proto, gocql.TypeMap, ""), Key: gocql.NewNativeType(proto, gocql.TypeVarchar, ""), Elem: gocql.NewNativeType(proto, gocql.TypeBlob, "")}
		type tc struct {
			name string
			info gocql.TypeInfo
			val  interface{}
			fits bool // expressible with 16-bit counts / lengths
		}
		var cases []tc
		for _, n := range []int{65534, 65535, 65536, 65537, 70000, 131072} {
			ints := make([]int32, n)
			for i := range ints {
				ints[i] = int32(i)
			}
			cases = append(cases, tc{fmt.Sprintf("list<int> with %d elements", n), listInt, ints, n <= 65535})
			cases = append(cases, tc{fmt.Sprintf("list<blob> with elements of %d bytes", n), listBlob, [][]byte{blob(4), blob(n), blob(4)}, n <= 65535})
			cases = append(cases, tc{fmt.Sprintf("set<text> with an element of %d bytes", n), setText, []string{"a", string(blob(n))}, n <= 65535})
			cases = append(cases, tc{fmt.Sprintf("map<text,blob> with a value of %d bytes", n), mapTB, map[string][]byte{"k": blob(n), "l": blob(3)}, n <= 65535})
			cases = append(cases, tc{fmt.Sprintf("map<text,blob> with a key of %d bytes", n), mapTB, map[string][]byte{string(blob(n)): blob(2)}, n <= 65535})
		}
		for _, c := range cases {
			key := fmt.Sprintf("v%d %s", proto, c.name)
			func() {
				defer func() {
					if p := recover(); p != nil {
						r.Violation("framing-limit:panic", fmt.Sprintf("%s: %v", key, p), key)
					}
				}()
				data, err := gocql.Marshal(c.info, c.val)
				r.Case("limits:"+key, err == nil)
				if err != nil {
					if proto >= 3 || c.fits {
						r.Violation("framing-limit:refused-although-expressible", fmt.Sprintf("%s: Marshal failed: %v", key, err), key)
					}
					return
				}
				out := reflect.New(reflect.TypeOf(c.val))
				if err := gocql.Unmarshal(c.info, data, out.Interface()); err != nil {
					r.Violation("framing-limit:encoding-not-decodable", fmt.Sprintf("%s: Marshal succeeded (%d bytes) but Unmarshal failed: %v", key, len(data), err), key)
					return
				}
				if !reflect.DeepEqual(out.Elem().Interface(), c.val) {
					what := "silently-different-value"
					if proto < 3 && !c.fits {
						what = "oversized-collection-written-modulo-65536"
					}
					r.Violation("framing-limit:"+what, fmt.Sprintf("%s: Marshal succeeded (%d bytes) but the bytes decode to a different value", key, len(data)), key)
				}
			}()
		}
	}
}
