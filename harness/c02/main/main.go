// C02 — Marshal then Unmarshal gives back the value (no silent loss of precision).
//
// For every CQL type tree x protocol version x Go source value of the shared
// generator (harness/c12/main/shared_*.go, linked into this directory):
// gocql.Marshal either fails, or the bytes it returns are unmarshalled into
//
//	(1) the source's own Go type: the result must denote the same abstract
//	    value and, for values that are canonical in their Go type, be deeply
//	    equal (NaN by bits, big.Int/inf.Dec by Cmp, time.Time by instant,
//	    nil and empty slices distinct);
//	(2) every documented Unmarshal target type: if the target can represent
//	    the value, Unmarshal must succeed and the target denote the same
//	    abstract value; if it cannot, Unmarshal must return an error.
//
// The reference codec is NOT consulted for the bytes (that is C12): the
// abstraction is taken from the Go values on both sides.
package main

import (
	"fmt"
	"os"
	"reflect"
	"sort"

	"verif/engine/refcql/value"
	"verif/engine/report"
)

func main() {
	r := report.New("C02", "exploration")
	retR = r
	thorough := r.Thorough()
	r.SetRule("every CQL type tree (21 scalars; list/set/map/tuple/UDT over all scalars at depth 1 and over the reduced alphabet " +
		"{int,bigint,text,varint,boolean,uuid,timestamp} at depth 2) x protocol version (1-5; tuple/UDT 3-5; depth 2: 2,3 quick / all thorough) " +
		"x every Go source type of the Marshal doc table (plus named types, *T, **T, typed/untyped nil, all container shapes) x a boundary-value " +
		"alphabet per Go type x every target type: the source's own type and every type of the Unmarshal doc table for the CQL type " +
		"(containers: element targets varied one at a time; for every UDT, at the top and nested in list/set/map/UDT, additionally every struct " +
		"that omits a non-empty proper subset of the UDT's fields - each position and combination - as target and as source). A case is (type, version, source Go type, value, target type); " +
		"non-trivial = Marshal returned bytes and the target is able to represent the value.")
	r.Assume("interpretations of NOTES.md: unsigned Go integers on fixed-width columns denote the w-bit pattern (signed targets read it as two's complement, "+
		"unsigned as zero-extended); varint/decimal compare mathematically; date compares on the UTC day, timestamp on the millisecond; nulls read into "+
		"non-pointer targets give the zero value (documented); a tuple component is 'supported' only in gocql's default Go type for it, a pointer to that, or interface{}",
		"not generated: sub-millisecond timestamps, signalling NaNs, invalid UTF-8, mixed-sign durations, null map keys; null elements under protocol <=2 are skipped (inexpressible)",
		"an error from Unmarshal into the source's own type is tolerated when that type is not in the Unmarshal doc table for the CQL type (e.g. int64 for date)")

	cases := enumTypes(thorough)
	cnt := newCounters()
	order := make([]int, len(cases))
	for i := range order {
		order[i] = i
	}
	sort.SliceStable(order, func(a, b int) bool { return weight(cases[order[a]]) > weight(cases[order[b]]) })
	// the scalars first, so that the first (recorded) instance of a finding is the smallest one
	var scalars, rest []int
	for _, i := range order {
		if cases[i].Depth == 0 {
			scalars = append(scalars, i)
		} else {
			rest = append(rest, i)
		}
	}
	framingLimits(r)
	parallel(len(scalars), func(i int) { guarded(r, cases[scalars[i]], func() { runCase(r, cases[scalars[i]], thorough, cnt) }) })
	parallel(len(rest), func(i int) { guarded(r, cases[rest[i]], func() { runCase(r, cases[rest[i]], thorough, cnt) }) })
	r.Extra("type_trees", len(cases))
	r.Extra("counters", cnt.snapshot())
	dumpKeys()
	os.Exit(r.Finish(true))
}

func weight(tc TypeCase) int {
	w := len(tc.Protos)
	if tc.T.ID == value.Map {
		w *= 6
	}
	if tc.Depth == 1 {
		w *= 3
	}
	return w
}

// documentedTarget reports whether *gt is a target the Unmarshal doc table lists for t
// (recursively through collections, tuples and UDTs; named types count as their underlying type's row).
func documentedTarget(t *value.Type, gt reflect.Type) bool {
	for gt.Kind() == reflect.Ptr {
		gt = gt.Elem()
	}
	if len(t.Elems) == 0 {
		for _, d := range scalarTargets(t) {
			if d == gt {
				return true
			}
		}
		return false
	}
	switch t.ID {
	case value.List, value.Set:
		return (gt.Kind() == reflect.Slice || gt.Kind() == reflect.Array) && documentedTarget(t.Elems[0], gt.Elem())
	case value.Map:
		return gt.Kind() == reflect.Map && documentedTarget(t.Elems[0], gt.Key()) && documentedTarget(t.Elems[1], gt.Elem())
	case value.Tuple:
		switch {
		case gt == tIfSlice:
			return true
		case gt.Kind() == reflect.Slice || gt.Kind() == reflect.Array:
			for _, e := range t.Elems {
				if !documentedTarget(e, gt.Elem()) {
					return false
				}
			}
			return true
		case gt.Kind() == reflect.Struct && gt.NumField() == len(t.Elems):
			for i, e := range t.Elems {
				if ft := gt.Field(i).Type; ft.Kind() != reflect.Interface && !documentedTarget(e, ft) {
					return false
				}
			}
			return true
		}
	case value.UDT:
		switch {
		case gt == tStrMap || gt == tUdtU:
			return true
		case gt.Kind() == reflect.Struct && gt != tUdtM:
			for i, e := range t.Elems {
				if fi := udtFieldIndex(gt, t.Names[i]); fi >= 0 {
					if ft := gt.Field(fi).Type; ft.Kind() != reflect.Interface && !documentedTarget(e, ft) {
						return false
					}
				}
			}
			return true
		}
	}
	return false
}

// rtResult is the outcome of one Marshal -> Unmarshal(target) round trip.
type rtResult struct {
	class  string // "" = as demanded
	ab     ability
	uerr   error
	upan   interface{}
	exp    value.Value
	got    value.Value
	holder reflect.Value
}

// roundTrip unmarshals data (= Marshal of src, which denotes a) into a fresh *gt and judges the result.
// cmpT is t, or t with lists turned into sets when the source bound a Go map to a list.
func roundTrip(t, cmpT *value.Type, proto int, src GoVal, a value.Value, data []byte, gt reflect.Type, same bool) rtResult {
	res := rtResult{holder: reflect.New(gt)}
	res.uerr, res.upan = safeUnmarshal(toTypeInfo(t, proto), data, res.holder.Interface())
	res.exp, res.ab = project(t, a, gt)
	if res.ab == able && hasDupKeys(cmpT, res.exp) {
		res.ab = dontcare
	}
	if res.upan != nil {
		res.class = "panic"
		return res
	}
	switch res.ab {
	case able:
		if res.uerr != nil {
			if documentedTarget(t, gt) {
				res.class = "unmarshal-error"
			}
			return res
		}
		var ok bool
		res.got, ok = absOf(t, res.holder.Elem())
		if !ok || !value.Equal(normAbs(cmpT, res.got), normAbs(cmpT, res.exp)) {
			res.class = "not-equal"
			return res
		}
		if same && src.Exact && cmpT == t && !deepEq(src.RV, res.holder.Elem()) {
			res.class = "not-deep-equal"
		}
	case unable:
		if res.uerr == nil {
			res.got, _ = absOf(t, res.holder.Elem())
			res.class = "silent-loss"
		}
	default:
		if same && src.Exact && res.uerr == nil && a.K == value.KEmpty && !deepEq(src.RV, res.holder.Elem()) {
			res.class = "not-deep-equal"
		}
	}
	return res
}

// blame narrows a failing round trip (source value -> target type) down to the
// smallest component of the source that already fails when it makes the trip
// on its own into the Go type it has inside the target.
func blame(t *value.Type, proto int, src GoVal, gt reflect.Type, res rtResult) (*value.Type, GoVal, reflect.Type, rtResult) {
	for gt.Kind() == reflect.Ptr {
		gt = gt.Elem()
	}
	drv, isNil := deref(src.RV)
	if isNil || len(t.Elems) == 0 {
		return t, src, gt, res
	}
	if (drv.Kind() == reflect.Slice || drv.Kind() == reflect.Map) && drv.IsNil() {
		return t, src, gt, res
	}
	kids, _, ok := kidsOf(t, drv)
	if !ok {
		return t, src, gt, res
	}
	for i, k := range kids {
		kgt := kidTargetType(t, gt, i)
		if kgt == nil {
			continue
		}
		ka, kok := absOf(k.T, k.RV)
		if !kok {
			continue
		}
		data, err, pan := safeMarshal(toTypeInfo(k.T, proto), ifaceOf(k.RV))
		if err != nil || pan != nil {
			continue
		}
		kcmp := k.T
		if hasUnorderedList(k.T, k.RV) {
			kcmp = setified(k.T)
		}
		ksrc := GoVal{k.RV, false}
		if kres := roundTrip(k.T, kcmp, proto, ksrc, ka, data, kgt, false); kres.class != "" {
			return blame(k.T, proto, ksrc, kgt, kres)
		}
	}
	return t, src, gt, res
}

// rtKey is the finding key of a failed round trip, built from the blamed component.
func rtKey(t *value.Type, src GoVal, gt reflect.Type, res rtResult) string {
	if res.class == "panic" {
		return "panic:unmarshal:" + panicSite(res.upan)
	}
	a, _ := absOf(t, src.RV)
	class := res.class
	if class == "not-equal" && res.uerr == nil {
		_, _, lw, lg := absLeafDiff(t, res.exp, res.holder.Elem())
		if c := wrongValueClass(lw, lg); c != "wrong-value" {
			class = c
		}
	}
	emptyStr := (a.K == value.KText || a.K == value.KBytes) && len(a.B) == 0
	if a.IsNull() || a.K == value.KEmpty || emptyStr {
		// how a target type treats null / empty: keyed by the target
		vc := nullClass(a)
		if emptyStr {
			vc = ":empty"
		}
		return fmt.Sprintf("roundtrip:%s->%s%s:%s", t.ID, typeLeafName(t, gt), vc, class)
	}
	if structOmitsField(t, gt) && class != "not-deep-equal" {
		// blamed on a UDT that goes into a struct lacking some of its fields while every kept field makes the trip on
		// its own: the fields the struct does not have were not skipped properly (one key wherever it is nested)
		return fmt.Sprintf("roundtrip:udt->struct:omitted-field:%s", class)
	}
	vc := valueClass(t, src.RV)
	if vc ==":with-null-elem" && class != "not-deep-equal" && class != "silent-loss" {
		// a container that loses a null component shows it in several ways (the null reads back as a zero value,
		// as an invalid value, or the bytes cannot be read back at all): one finding
		class = "null-elem-lost"
	}
	return fmt.Sprintf("roundtrip:%s<-%s%s:%s", t.ID, leafGoName(t, src.RV), vc, class)
}

func runCase(r *report.Run, tc TypeCase, thorough bool, cnt *counters) {
	local := map[string]int64{}
	defer func() { cnt.merge(local) }()
	g := newGen(thorough)
	groups := g.groups(tc.T, top)
	omitMemo := map[reflect.Type]bool{}
	t := tc.T
	ts := t.String()
	sampled := false
	for _, proto := range tc.Protos {
		ti := toTypeInfo(t, proto)
		for gi, gr := range groups {
			for vi, sv := range gr.Vals {
				a, inDomain := absOf(t, sv.RV)
				data, err, pan := safeMarshal(ti, ifaceOf(sv.RV))
				local[fmt.Sprintf("marshal_cases_v%d", proto)]++
				local[fmt.Sprintf("marshal_cases_depth%d", tc.Depth)]++
				base := func() map[string]interface{} {
					return map[string]interface{}{"cql_type": ts, "proto": proto, "go_type": goName(gr.GT), "go_value": pretty(sv.RV), "bytes": hexOrNull(data)}
				}
				if pan != nil {
					r.Case(fmt.Sprintf("M|%s|v%d|%d|%d", ts, proto, gi, vi), false)
					violation(r, fmt.Sprintf("panic:marshal:%s", panicSite(pan)),
						fmt.Sprintf("gocql.Marshal(%s v%d, %s) panicked: %v", ts, proto, pretty(sv.RV), pan), base())
					continue
				}
				if err != nil {
					r.Case(fmt.Sprintf("M|%s|v%d|%d|%d", ts, proto, gi, vi), false)
					local["marshal_refused"]++
					continue
				}
				local["marshal_accepted"]++
				cmpT := t
				if inDomain {
					if _, _, encErr := value.EncodeErr(t, a, proto); encErr != nil {
						local["inexpressible_skipped"]++ // null element with protocol <= 2 ...: no meaning defined for the bytes
						continue
					}
					if hasUnorderedList(t, sv.RV) {
						cmpT = setified(t)
					}
					if hasDupKeys(cmpT, a) {
						local["duplicate_key_artefacts_skipped"]++
						continue
					}
				}
				// targets: the source's own type first, then the documented ones
				var targets []reflect.Type
				if gr.GT != nil {
					targets = append(targets, gr.GT)
				}
				if inDomain {
					all := targetsFor(t, a, tc.Depth == 0)
					others := all
					if tc.Depth > 0 {
						if d := defaultGoType(t); d != nil {
							others = append([]reflect.Type{d}, others...)
						}
						others = firstTypes(others, 5)
						// on top of the five: every target in which a UDT goes into a struct that lacks some of its
						// fields (each non-empty proper subset of the fields omitted; also nested in list/set/map/UDT)
						have := map[reflect.Type]bool{}
						for _, gt := range others {
							have[gt] = true
						}
						for _, gt := range all {
							if !have[gt] && omitsUDTField(t, gt) {
								others = append(others, gt)
							}
						}
					}
					for _, gt := range others {
						if gt != gr.GT && gt != tUdtU && !(t.ID == value.Varint && !sameBase(gt, gr.GT) && baseType(gt) != tBig) {
							targets = append(targets, gt)
						}
					}
				}
				reproduced := false
				for ti2, gt := range targets {
					same := ti2 == 0 && gr.GT != nil
					local[fmt.Sprintf("roundtrip_cases_v%d", proto)]++
					if omitCached(omitMemo, t, gt) {
						local[fmt.Sprintf("roundtrips_into_struct_omitting_udt_fields_depth%d", tc.Depth)]++
						if same {
							local["roundtrips_into_struct_omitting_udt_fields_own_type"]++
						}
					}
					if !inDomain {
						// accepted although outside the column's domain: tolerable iff it at least comes back unchanged
						holder := reflect.New(gt)
						uerr, upan := safeUnmarshal(ti, data, holder.Interface())
						r.Case(fmt.Sprintf("R|%s|v%d|%d|%d|%d", ts, proto, gi, vi, ti2), false)
						if same && uerr == nil && upan == nil && deepEq(sv.RV, holder.Elem()) {
							reproduced = true
						}
						continue
					}
					res := roundTrip(t, cmpT, proto, sv, a, data, gt, same)
					r.Case(fmt.Sprintf("R|%s|v%d|%d|%d|%d", ts, proto, gi, vi, ti2), res.ab == able)
					if res.class == "" {
						switch {
						case res.ab == able && res.uerr != nil:
							local["undocumented_same_type_target_refused"]++
						case res.ab == able:
							local["roundtrip_ok"]++
						case res.ab == unable:
							local["unable_target_refused"]++
						default:
							local["nothing_demanded"]++
						}
						continue
					}
					bt, bsrc, bgt, bres := blame(t, proto, sv, gt, res)
					key := rtKey(bt, bsrc, bgt, bres)
					rep := base()
					rep["target"] = "*" + goName(gt)
					rep["got"] = pretty(res.holder.Elem())
					detail := fmt.Sprintf("%s v%d: Marshal(%s) = %s; Unmarshal into *%s", ts, proto, pretty(sv.RV), hexOrNull(data), goName(gt))
					switch res.class {
					case "panic":
						detail += fmt.Sprintf(" panicked: %v", res.upan)
					case "unmarshal-error":
						detail += fmt.Sprintf(" failed although the target can represent %s: %v", a, res.uerr)
					case "not-equal":
						detail += fmt.Sprintf(" = %s which denotes %s; the source denotes %s (in this target: %s)", pretty(res.holder.Elem()), res.got, a, res.exp)
					case "not-deep-equal":
						detail += fmt.Sprintf(" = %s, not deeply equal to the source", pretty(res.holder.Elem()))
					case "silent-loss":
						detail += fmt.Sprintf(" succeeded with %s (denoting %s) although the target cannot represent %s: an error is required", pretty(res.holder.Elem()), res.got, a)
					}
					if bt != t {
						detail += fmt.Sprintf("; smallest failing component: %s value %s into %s (%s)", bt, pretty(bsrc.RV), goName(bgt), bres.class)
					}
					violation(r, key, detail, rep)
				}
				if !inDomain && !reproduced {
					lt, lrv := refusedLeaf(t, sv.RV)
					violation(r, fmt.Sprintf("roundtrip:%s<-%s:out-of-domain:accepted-and-lost", lt.ID, leafGoName(lt, lrv)),
						fmt.Sprintf("%s v%d: Marshal(%s) = %s although the value is outside the column's domain (component %s), and it does not read back unchanged",
							ts, proto, pretty(sv.RV), hexOrNull(data), pretty(lrv)), base())
				}
				if !sampled && sampleWanted(ts) && vi == len(gr.Vals)/2 && len(data) > 0 && r.NeedSample() {
					sampled = true
					r.Sample(fmt.Sprintf("%s v%d: %s -> %s -> %d target types", ts, proto, pretty(sv.RV), hexOrNull(data), len(targets)))
				}
			}
		}
	}
}

func baseType(gt reflect.Type) reflect.Type {
	for gt != nil && gt.Kind() == reflect.Ptr {
		gt = gt.Elem()
	}
	return gt
}

func sameBase(a, b reflect.Type) bool { return baseType(a) == baseType(b) }

// deepLeafDiff finds the innermost component where two Go values of the same type differ under deepEq.
func deepLeafDiff(t *value.Type, a, b reflect.Value) (*value.Type, reflect.Value, reflect.Value, bool) {
	da, nila := deref(a)
	db, nilb := deref(b)
	if nila || nilb || len(t.Elems) == 0 {
		return t, a, b, true
	}
	if (da.Kind() == reflect.Slice || da.Kind() == reflect.Map) && (da.IsNil() || db.IsNil()) {
		return t, a, b, true
	}
	ka, ua, oka := kidsOf(t, da)
	kb, _, okb := kidsOf(t, db)
	if !oka || !okb || len(ka) != len(kb) || ua {
		return t, a, b, true
	}
	for i := range ka {
		if !deepEq(ka[i].RV, kb[i].RV) {
			return deepLeafDiff(ka[i].T, ka[i].RV, kb[i].RV)
		}
	}
	return t, a, b, true
}
