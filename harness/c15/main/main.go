// C15: paged iteration yields every row exactly once, in order, and then stops.
// A real Session (instrumented gocql, no control connection, one host, one
// connection) iterates one query against a scripted node that serves a PAGE
// SCRIPT. Script and configuration are free choice points (all explored), a
// failing page fetch costs F, the asynchronous prefetch goroutine racing the
// consumer is explored by the scheduler (P/D deviations).
package main

import (
	"bytes"
	"fmt"
	"os"
	"sort"
	"strings"
	"time"

	"github.com/gocql/gocql"

	"verif/engine/mcreport"
	"verif/engine/refcql/frame"
	"verif/engine/vnode"
	vs "verif/engine/vsched"
	"verif/engine/vsched/vatomic"
	context "verif/engine/vsched/vcontext"
)

// ---------------------------------------------------------------- enumerated space

const (
	consScan = iota
	consScanner
	consMapScan
	consSliceMap
)

var consName = []string{"Scan", "Scanner", "MapScan", "SliceMap"}

const (
	prepNo     = iota // statement "QUERYX ..." is sent as QUERY
	prepSkip          // "SELECT ..." is PREPAREd; EXECUTE carries skip_metadata; rows come with no_metadata
	prepNoSkip        // as above with cfg.DisableSkipMetadata: rows carry their metadata
)

var prepName = []string{"unprepared", "prepared+skipmeta", "prepared+DisableSkipMetadata"}

// one configuration = one alternative of the first free choice point
type conf struct {
	prefetch float64
	pageSize int
	prep     int
	consumer int
}

func (c conf) String() string {
	return fmt.Sprintf("prefetch=%v pagesize=%d %s %s", c.prefetch, c.pageSize, prepName[c.prep], consName[c.consumer])
}

// one case = one alternative of the second free choice point
type pcase struct {
	script   []int // rows per page
	start    int   // manual paging: index of the page whose state the caller supplies (0: no state)
	spec     bool  // idempotent query with SimpleSpeculativeExecution{NumAttempts: 1, TimeoutDelay: 50ms}
	cancelAt int   // > 0: Query.WithContext(ctx); the caller cancels ctx itself after having seen this many rows
	opt      int   // index into optionSets: the options the caller puts on the query (0: the options of the original scenarios)
	mut      int   // caller operation on the ORIGINAL *Query after Iter() returned (mutNone: the caller leaves it alone)
	mutAt    int   // ... performed by the consumer thread after it has seen this many rows (0: right after Iter(), before the first row)
	retry    int   // retry policy on the paged query (retryNone: none): a scripted policy whose decision for every failed fetch is a free choice
}

// ---- retry policy dimension: every failed page fetch is put before a scripted RetryPolicy whose answer is a FREE
// choice point (Retry / RetryNextHost / Rethrow / Ignore, every alternative explored)
const (
	retryNone    = iota
	retryQuery   // Query.RetryPolicy(scripted)
	retryCluster // ClusterConfig.RetryPolicy = scripted, inherited by the query (and by its next-page copies)
)

var retryName = []string{"none", "on-query", "from-cluster"}

var retryDecisions = []gocql.RetryType{gocql.Retry, gocql.RetryNextHost, gocql.Rethrow, gocql.Ignore}
var retryDecisionName = []string{"Retry", "RetryNextHost", "Rethrow", "Ignore"}

// retryBudget: the policy's Attempt answers true for this many failed fetches of one iteration, then false
// (the executor then hands the failed attempt back, like Rethrow). Failures cost F, so F bounds the consultations too.
const retryBudget = 3

type consultRec struct {
	seq      int // position in the common sequence of requests and consultations
	err      string
	decision int // index into retryDecisions
}

type scriptRP struct{ w *world }

func (p *scriptRP) Attempt(q gocql.RetryableQuery) bool { return len(p.w.consults) < retryBudget }

func (p *scriptRP) GetRetryType(err error) gocql.RetryType {
	d := vs.Choose(len(retryDecisions), vs.Free)
	p.w.seq++
	p.w.consults = append(p.w.consults, consultRec{p.w.seq, fmt.Sprint(err), d})
	return retryDecisions[d]
}

func withRetry(cs []pcase, kinds ...int) []pcase {
	var out []pcase
	for _, k := range kinds {
		for _, c := range cs {
			c.retry = k
			out = append(out, c)
		}
	}
	return out
}

func (p pcase) String() string {
	s := fmt.Sprintf("pages=%v start=%d", p.script, p.start)
	if p.spec {
		s += " speculative"
	}
	if p.cancelAt > 0 {
		s += fmt.Sprintf(" caller-cancels-after-row-%d", p.cancelAt)
	}
	if p.opt != 0 {
		s += " options{" + optionSets[p.opt].String() + "}"
	}
	if p.mut != mutNone {
		s += fmt.Sprintf(" caller-does-%s-after-row-%d", mutName[p.mut], p.mutAt)
	}
	if p.retry != retryNone {
		s += " scripted-retry-policy-" + retryName[p.retry]
	}
	return s
}

// ---- query options dimension: what the caller puts on the query; EVERY page request must carry exactly these

const (
	serialNone    = iota // no serial consistency anywhere: the field is absent from every request
	serialQuery          // Query.SerialConsistency(gocql.Serial)
	serialQueryLS        // Query.SerialConsistency(gocql.LocalSerial)
	serialCluster        // ClusterConfig.SerialConsistency = gocql.LocalSerial, inherited by the query
)

const (
	tsDefault = iota // cfg.DefaultTimestamp (on): every request carries a client timestamp (value from the clock: presence compared)
	tsOff            // Query.DefaultTimestamp(false): no request carries one
	tsFixed          // Query.WithTimestamp(fixedTS): every request carries exactly this value
)

const fixedTS int64 = 1234567890123456

type optset struct {
	cons   gocql.Consistency
	serial int
	ts     int
}

func (o optset) String() string {
	return fmt.Sprintf("cons=%v serial=%s ts=%s", o.cons, []string{"none", "Serial", "LocalSerial", "cluster:LocalSerial"}[o.serial], []string{"default", "off", "fixed"}[o.ts])
}

func (o optset) wantSerial() (uint16, bool) {
	switch o.serial {
	case serialQuery:
		return uint16(gocql.Serial), true
	case serialQueryLS, serialCluster:
		return uint16(gocql.LocalSerial), true
	}
	return 0, false
}

// optionSets[0] is what the original scenarios use (LOCAL_QUORUM, no serial consistency, default timestamp).
var optionSets = func() []optset {
	var out []optset
	for _, c := range []gocql.Consistency{gocql.LocalQuorum, gocql.One} {
		for _, ser := range []int{serialNone, serialQuery, serialQueryLS, serialCluster} {
			for _, ts := range []int{tsDefault, tsOff, tsFixed} {
				out = append(out, optset{c, ser, ts})
			}
		}
	}
	return out
}()

func findOpt(o optset) int {
	for i, x := range optionSets {
		if x == o {
			return i
		}
	}
	panic("harness: no such option set")
}

func allOpts() []int {
	out := make([]int, len(optionSets))
	for i := range out {
		out[i] = i
	}
	return out
}

// ---- caller operations on the original *Query between Iter() and the consumption of later pages

const (
	mutNone = iota
	mutBind
	mutConsistency
	mutPageSize
	mutSerial
	mutTimestamp
	mutRebindAll // Bind + Consistency + PageSize + SerialConsistency + WithTimestamp: the object is prepared for the next lookup
	mutRelease
)

var mutName = []string{"nothing", "Bind(other)", "Consistency(other)", "PageSize(other)", "SerialConsistency(other)", "WithTimestamp(other)", "rebind+all-options", "Release()"}

var allMuts = []int{mutBind, mutConsistency, mutPageSize, mutSerial, mutTimestamp, mutRebindAll, mutRelease}

func applyMut(q *gocql.Query, m int, cf conf) {
	if m == mutBind || m == mutRebindAll {
		if cf.prep == prepNo {
			q.Bind() // the unprepared statement has no markers
		} else {
			q.Bind(boundValue + 1)
		}
	}
	if m == mutConsistency || m == mutRebindAll {
		q.Consistency(gocql.All)
	}
	if m == mutPageSize || m == mutRebindAll {
		q.PageSize(cf.pageSize + 7)
	}
	if m == mutSerial || m == mutRebindAll {
		q.SerialConsistency(gocql.Serial) // (the mutation cases use option sets with serial none / LocalSerial)
	}
	if m == mutTimestamp || m == mutRebindAll {
		q.WithTimestamp(fixedTS + 1)
	}
	if m == mutRelease {
		q.Release() // allowed once the query has been executed (Iter() has returned)
	}
}

// withOpts: every script x every option set
func withOpts(cs []pcase, opts []int) []pcase {
	var out []pcase
	for _, c := range cs {
		for _, o := range opts {
			c.opt = o
			out = append(out, c)
		}
	}
	return out
}

// withMuts: every script x option set x caller operation x position (after 0..all rows seen; consumers that take the
// whole result in one call - SliceMap - can only interpose right after Iter(): those cases are generated separately)
func withMuts(ss [][]int, opts []int, muts []int, onlyAt0 bool) []pcase {
	var out []pcase
	for _, s := range ss {
		total := 0
		for _, n := range s {
			total += n
		}
		if onlyAt0 {
			total = 0
		}
		for _, o := range opts {
			for _, m := range muts {
				for at := 0; at <= total; at++ {
					out = append(out, pcase{script: s, opt: o, mut: m, mutAt: at})
				}
			}
		}
	}
	return out
}

func product(prefetch []float64, pageSize []int, prep []int, consumer []int) []conf {
	var out []conf
	for _, co := range consumer {
		for _, pr := range prep {
			for _, pf := range prefetch {
				for _, ps := range pageSize {
					out = append(out, conf{pf, ps, pr, co})
				}
			}
		}
	}
	return out
}

// scripts returns every rows-per-page vector with minPages..maxPages pages over alphabet, smallest first.
func scripts(minPages, maxPages int, alphabet []int) [][]int {
	var out [][]int
	var rec func(cur []int, n int)
	rec = func(cur []int, n int) {
		if len(cur) == n {
			out = append(out, append([]int(nil), cur...))
			return
		}
		for _, a := range alphabet {
			rec(append(cur, a), n)
		}
	}
	for n := minPages; n <= maxPages; n++ {
		rec(nil, n)
	}
	return out
}

func autoCases(ss [][]int) []pcase {
	var out []pcase
	for _, s := range ss {
		out = append(out, pcase{script: s})
	}
	return out
}

func manualCases(ss [][]int) []pcase {
	var out []pcase
	for _, s := range ss {
		for st := range s {
			out = append(out, pcase{script: s, start: st})
		}
	}
	return out
}

// ---------------------------------------------------------------- the scripted table

type row struct {
	k int32
	v string
	b []byte
}

func (r row) String() string { return fmt.Sprintf("(%d,%s,%x)", r.k, r.v, r.b) }
func (r row) eq(o row) bool  { return r.k == o.k && r.v == o.v && bytes.Equal(r.b, o.b) }

// rowAt: distinct contents of differing lengths, long enough that a reused or
// aliased frame buffer would corrupt rows handed out earlier.
func rowAt(page, i int) row {
	v := fmt.Sprintf("p%dr%d-", page+1, i+1) + strings.Repeat(string(rune('a'+page)), 9+(page*5+i*3)%13)
	b := bytes.Repeat([]byte{byte(0x10*(page+1) + i + 1)}, 17+(page*7+i*11)%19)
	return row{k: int32(100*(page+1) + i + 1), v: v, b: b}
}

// stateOf is the paging state that leads to page p (p >= 1); states differ in length.
func stateOf(p int) []byte {
	return []byte(fmt.Sprintf("ps%d/%s", p, strings.Repeat("s", 5+3*p)))
}

var columns = []frame.ColumnSpec{
	{Keyspace: "ks", Table: "t", Name: "k", Type: frame.Leaf(frame.TInt)},
	{Keyspace: "ks", Table: "t", Name: "v", Type: frame.Leaf(frame.TVarchar)},
	{Keyspace: "ks", Table: "t", Name: "b", Type: frame.Leaf(frame.TBlob)},
}

func rowsMeta() frame.RowsMetadata {
	return frame.RowsMetadata{GlobalTableSpec: true, GlobalKeyspace: "ks", GlobalTable: "t", ColumnCount: 3, Columns: columns}
}

const (
	stmtUnprepared = "QUERYX k, v, b FROM ks.t"
	stmtPrepared   = "SELECT k, v, b FROM ks.t WHERE p = ?"
	boundValue     = 7
)

var preparedID = []byte("prepared-id-0001")

// ---------------------------------------------------------------- node

type dataReq struct {
	kind     string // QUERY / EXECUTE
	stmt     string // statement or prepared id
	options  string // everything in <query_parameters> except the paging state
	hasState bool
	state    []byte
	skipMeta bool
	hasTS    bool
	ts       int64
	page     int    // page served (-1: the state is none the node ever handed out)
	fate     string // ok / error / never / drop
	at       time.Duration
	by       string // "c": requested by the consumer thread, "a": by the asynchronous prefetch goroutine, "s": executor goroutine
	node     string
	seq      int // position in the common sequence of requests and retry-policy consultations
}

func (d dataReq) String() string {
	st := "none"
	if d.hasState {
		st = fmt.Sprintf("%q", d.state)
	}
	return fmt.Sprintf("%s@%s %s state=%s by=%s -> page %d %s", d.kind, d.node, d.stmt, st, d.by, d.page+1, d.fate)
}

type world struct {
	sc       *c15scn
	script   []int
	reqs     []dataReq
	prepares int
	faulted  bool
	maxReqs  int
	seq      int
	consults []consultRec // what the scripted retry policy was asked and what it answered
}

func renderOptions(p *frame.QueryParams) string {
	var b strings.Builder
	// flags without the paging-state bit
	fmt.Fprintf(&b, "cons=%#x flags=%#x named=%v skipmeta=%v", p.Consistency, p.Flags&^frame.QFPagingState, p.Named, p.SkipMetadata)
	if p.PageSize != nil {
		fmt.Fprintf(&b, " pagesize=%d", *p.PageSize)
	} else {
		b.WriteString(" pagesize=none")
	}
	if p.SerialConsistency != nil {
		fmt.Fprintf(&b, " serial=%#x", *p.SerialConsistency)
	}
	// the default timestamp is generated per request from the (virtual) clock: only its presence is an option
	fmt.Fprintf(&b, " ts=%v", p.Timestamp != nil)
	b.WriteString(" values=[")
	for i, v := range p.Values {
		if i > 0 {
			b.WriteString(",")
		}
		fmt.Fprintf(&b, "%s:%s:%x", v.Name, v.Kind, v.Bytes)
	}
	b.WriteString("]")
	return b.String()
}

func (w *world) handler() vnode.Handler {
	return vnode.Basic(func(n *vnode.Node, sc *vnode.ServerConn, rec *vnode.ReqRec) vnode.Reply {
		var d dataReq
		var params *frame.QueryParams
		switch m := rec.Req.Msg.(type) {
		case *frame.Prepare:
			w.prepares++
			return vnode.Reply{Msg: &frame.ResultPrepared{ID: preparedID,
				Bind: frame.PreparedMetadata{GlobalTableSpec: true, GlobalKeyspace: "ks", GlobalTable: "t",
					Columns: []frame.ColumnSpec{{Keyspace: "ks", Table: "t", Name: "p", Type: frame.Leaf(frame.TInt)}}},
				Result: rowsMeta()}}
		case *frame.Query:
			d.kind, d.stmt, params = "QUERY", m.Statement, &m.Params
		case *frame.Execute:
			d.kind, d.stmt, params = "EXECUTE", fmt.Sprintf("id:%s", m.ID), &m.Params
			if !bytes.Equal(m.ID, preparedID) {
				return vnode.Reply{Msg: &frame.Error{Code: 0x2500, Message: "unprepared", StatementID: m.ID}}
			}
		default:
			return vnode.Reply{Msg: frame.ResultVoid{}}
		}
		d.options = renderOptions(params)
		d.hasState = params.HasPagingState
		d.state = append([]byte(nil), params.PagingState...)
		d.skipMeta = params.SkipMetadata
		if params.Timestamp != nil {
			d.hasTS, d.ts = true, *params.Timestamp
		}
		d.at = vs.Clock()
		w.seq++
		d.seq = w.seq
		// the node is synchronous: the handler runs inside the Write of the requesting thread
		d.by = "c"
		if _, tn := vs.CurrentThread(); strings.Contains(tn, "fetchAsync") {
			d.by = "a"
		} else if strings.Contains(tn, "queryExecutor") {
			d.by = "s" // speculative execution: every attempt runs on an executor goroutine
		}
		d.node = n.Name
		d.page = -1
		if !d.hasState {
			d.page = 0
		} else {
			for p := 1; p < len(w.script); p++ {
				if bytes.Equal(d.state, stateOf(p)) {
					d.page = p
				}
			}
		}
		if d.page < 0 {
			d.fate = "unknown-state"
			w.reqs = append(w.reqs, d)
			return vnode.Reply{Msg: &frame.Error{Code: 0x2200, Message: "invalid paging state"}}
		}
		if len(w.reqs) >= w.maxReqs {
			// a driver that keeps asking (e.g. ignores has_more_pages) must not run into the step limit: refuse.
			// The request log already violates the oracle at this point.
			d.fate = "refused"
			w.reqs = append(w.reqs, d)
			return vnode.Reply{Msg: &frame.Error{Code: 0x2200, Message: "harness: too many page requests"}}
		}
		d.fate = w.sc.faults[vs.Choose(len(w.sc.faults), vs.CostF)]
		w.reqs = append(w.reqs, d)
		switch d.fate {
		case "error":
			w.faulted = true
			return vnode.Reply{Msg: &frame.Error{Code: 0x1001, Message: "overloaded (scripted failure of this page)"}}
		case "never":
			w.faulted = true
			return vnode.Reply{Never: true}
		case "drop":
			w.faulted = true
			return vnode.Reply{Drop: true}
		}
		res := &frame.ResultRows{Meta: rowsMeta()}
		if d.page < len(w.script)-1 {
			res.Meta.HasMorePages = true
			res.Meta.PagingState = stateOf(d.page + 1)
		}
		if d.skipMeta {
			// what a node does when asked to skip the metadata: no_metadata flag, column count, no column specs
			res.Meta.NoMetadata = true
			res.Meta.Columns = nil
			res.Meta.GlobalTableSpec, res.Meta.GlobalKeyspace, res.Meta.GlobalTable = false, "", ""
		}
		for i := 0; i < w.script[d.page]; i++ {
			r := rowAt(d.page, i)
			res.Rows = append(res.Rows, [][]byte{frame.IntCell(r.k), frame.TextCell(r.v), append([]byte(nil), r.b...)})
		}
		return vnode.Reply{Msg: res}
	})
}

// ---------------------------------------------------------------- scenario

type combo struct {
	cf conf
	pc pcase
}

type c15scn struct {
	name   string
	confs  []conf // product confs x cases: two free choice points ...
	cases  []pcase
	combos []combo  // ... or an explicit list: one free choice point
	faults []string // alternatives of the per-page-request choice (index 0 = "ok"; others cost F)
	manual bool
	hosts  int // 0/1: one node; 2: two nodes serving the same script (speculative attempts go to the next host)
	quick  vs.Bounds
	thor   vs.Bounds
}

type result struct {
	rows      []row
	err       error  // the iteration's error as the consumer API reports it: Close() after Scan/MapScan, Scanner.Err(), the error SliceMap RETURNED
	closeErr  error  // SliceMap consumer only: what Close() said afterwards (not the result of the iteration: SliceMap's callers look at its return values)
	firstErr  string // where the first error was seen
	stateAt0  []byte // Iter.PageState() right after Iter()
	stateEnd  []byte // Iter.PageState() after the rows were consumed (nil for the Scanner consumer)
	haveEnd   bool
	scanFails int
}

func mapRow(m map[string]interface{}) (row, bool) {
	k, ok1 := m["k"].(int)
	v, ok2 := m["v"].(string)
	b, ok3 := m["b"].([]byte)
	return row{k: int32(k), v: v, b: b}, ok1 && ok2 && ok3 && len(m) == 3
}

func consume(it *gocql.Iter, consumer int, onRow func(n int)) (r result) {
	r.stateAt0 = append([]byte(nil), it.PageState()...)
	switch consumer {
	case consScan:
		for {
			var k int32
			var v string
			var b []byte // fresh destination per row: all rows are compared after the iteration
			if !it.Scan(&k, &v, &b) {
				break
			}
			r.rows = append(r.rows, row{k, v, b})
			onRow(len(r.rows))
		}
	case consScanner:
		sc := it.Scanner()
		for sc.Next() {
			var k int32
			var v string
			var b []byte
			if err := sc.Scan(&k, &v, &b); err != nil {
				r.scanFails++
				r.firstErr = "Scanner.Scan: " + err.Error()
				continue
			}
			r.rows = append(r.rows, row{k, v, b})
			onRow(len(r.rows))
		}
		r.err = sc.Err()
		return r
	case consMapScan:
		for {
			m := map[string]interface{}{}
			if !it.MapScan(m) {
				break
			}
			rw, ok := mapRow(m)
			if !ok {
				r.scanFails++
				r.firstErr = fmt.Sprintf("MapScan produced %v", m)
			}
			r.rows = append(r.rows, rw)
			onRow(len(r.rows))
		}
	case consSliceMap:
		ms, err := it.SliceMap()
		for _, m := range ms {
			rw, ok := mapRow(m)
			if !ok {
				r.scanFails++
				r.firstErr = fmt.Sprintf("SliceMap produced %v", m)
			}
			r.rows = append(r.rows, rw)
		}
		// The result of the iteration is what SliceMap RETURNED. (Until round 4 the harness let a later Close()
		// overwrite it: a SliceMap that returned the rows of the pages before a failed fetch together with a nil
		// error was taken for an error outcome, because Close() still knew the error.)
		r.stateEnd = append([]byte(nil), it.PageState()...)
		r.haveEnd = true
		r.err = err
		if err != nil {
			r.firstErr = "SliceMap"
		}
		r.closeErr = it.Close()
		return r
	}
	r.stateEnd = append([]byte(nil), it.PageState()...)
	r.haveEnd = true
	if cerr := it.Close(); cerr != nil {
		r.firstErr = "Close"
		r.err = cerr
	}
	return r
}

func (s *c15scn) body() {
	gocql.VerifResetGlobals()
	vatomic.Yield = false
	// free choices: every alternative is explored, at no cost
	var cf conf
	var pc pcase
	if len(s.combos) > 0 {
		c := s.combos[vs.Choose(len(s.combos), vs.Free)]
		cf, pc = c.cf, c.pc
	} else {
		cf = s.confs[vs.Choose(len(s.confs), vs.Free)]
		pc = s.cases[vs.Choose(len(s.cases), vs.Free)]
	}

	w := &world{sc: s, script: pc.script, maxReqs: len(pc.script) + 3}
	if pc.spec {
		w.maxReqs = 2*len(pc.script) + 3
	}
	if pc.retry != retryNone {
		w.maxReqs += retryBudget
	}
	rp := &scriptRP{w}
	cl := newCluster(true)
	ips := []string{"10.0.0.1"}
	if s.hosts == 2 {
		ips = append(ips, "10.0.0.2")
	}
	for _, ip := range ips {
		cl.add(ip, w.handler()) // all nodes serve the same script and share one request log (arrival order)
	}
	cfg := gocql.NewCluster(ips...)
	cfg.ProtoVersion = 4
	cfg.Timeout = 100 * time.Millisecond
	cfg.ConnectTimeout = 100 * time.Millisecond
	cfg.NumConns = 1
	cfg.ReconnectInterval = 0
	cfg.WriteCoalesceWaitTime = 0
	cfg.HostDialer = cl.dialer()
	cfg.Consistency = gocql.Quorum
	cfg.DisableSkipMetadata = cf.prep == prepNoSkip
	opts := optionSets[pc.opt]
	if opts.serial == serialCluster {
		cfg.SerialConsistency = gocql.LocalSerial
	}
	if pc.retry == retryCluster {
		cfg.RetryPolicy = rp
	}
	vs.Quiet(true)
	sess, err := gocql.VerifNewSession(*cfg, true)
	vs.Quiet(false)
	if err != nil {
		vs.Failf("harness:session", "NewSession failed in the quiet prefix: %v", err)
		return
	}

	var q *gocql.Query
	if cf.prep == prepNo {
		q = sess.Query(stmtUnprepared)
	} else {
		q = sess.Query(stmtPrepared, boundValue)
	}
	// options that differ from the session defaults, so that a next-page request that lost them is visible
	q = q.Consistency(opts.cons).PageSize(cf.pageSize).Prefetch(cf.prefetch)
	switch opts.serial {
	case serialQuery:
		q = q.SerialConsistency(gocql.Serial)
	case serialQueryLS:
		q = q.SerialConsistency(gocql.LocalSerial)
	}
	switch opts.ts {
	case tsOff:
		q = q.DefaultTimestamp(false)
	case tsFixed:
		q = q.WithTimestamp(fixedTS)
	}
	var supplied []byte
	if s.manual {
		if pc.start > 0 {
			supplied = stateOf(pc.start)
		}
		q = q.PageState(supplied)
	}

	switch pc.retry {
	case retryQuery:
		q = q.RetryPolicy(rp).Idempotent(true)
	case retryCluster:
		q = q.Idempotent(true) // ("Non-idempotent query won't be retried": a paged SELECT is idempotent)
	}

	const specAttempts = 1
	if pc.spec {
		q = q.Idempotent(true).SetSpeculativeExecutionPolicy(&gocql.SimpleSpeculativeExecution{NumAttempts: specAttempts, TimeoutDelay: 50 * time.Millisecond})
	}
	callerCancelled := false
	onRow := func(int) {}
	if pc.cancelAt > 0 {
		ctx, cancel := context.WithCancel(context.Background())
		defer cancel()
		q = q.WithContext(ctx)
		onRow = func(n int) {
			if n == pc.cancelAt {
				callerCancelled = true
				cancel()
			}
		}
	}

	// the caller's own operation on the ORIGINAL *Query once Iter() has returned: the iteration already started must
	// not notice (it is performed by the consumer thread itself: a Query is not meant for concurrent use)
	mutated := false
	if pc.mut != mutNone && pc.mutAt > 0 {
		inner := onRow
		onRow = func(n int) {
			inner(n)
			if n == pc.mutAt {
				mutated = true
				applyMut(q, pc.mut, cf)
			}
		}
	}

	done := make(chan result, 1)
	vs.GoNamed("consumer", func() {
		it := q.Iter()
		if pc.mut != mutNone && pc.mutAt == 0 {
			mutated = true
			applyMut(q, pc.mut, cf)
		}
		vs.Send(done, consume(it, cf.consumer, onRow))
	})
	r := vs.Recv[result](done)
	nReqAtReturn := len(w.reqs)
	vs.WaitQuiescent()
	_, dDev, _ := vs.Deviations()

	// ------------------------------------------------------------ oracle
	desc := func() string {
		var rq []string
		for _, d := range w.reqs {
			rq = append(rq, d.String())
		}
		var got []string
		for _, x := range r.rows {
			got = append(got, x.v)
		}
		pol := ""
		if pc.retry != retryNone {
			var cs []string
			for _, c := range w.consults {
				cs = append(cs, fmt.Sprintf("%q -> %s", c.err, retryDecisionName[c.decision]))
			}
			pol = fmt.Sprintf("; retry policy consulted: [%s]", strings.Join(cs, "; "))
		}
		if cf.consumer == consSliceMap {
			pol += fmt.Sprintf("; Close() after SliceMap = %v", r.closeErr)
		}
		return fmt.Sprintf("%s; %s; result=%s (%v) rows=%v; requests=[%s]%s", cf, pc, gocql.VerifErrClass(r.err), r.err, got, strings.Join(rq, "; "), pol)
	}

	// rows the consumer must see
	var want []row
	first, last := 0, len(pc.script)-1
	if s.manual {
		first, last = pc.start, pc.start
	}
	for p := first; p <= last; p++ {
		for i := 0; i < pc.script[p]; i++ {
			want = append(want, rowAt(p, i))
		}
	}
	index := func(x row) int {
		for i := range want {
			if want[i].eq(x) {
				return i
			}
		}
		return -1
	}
	if r.scanFails > 0 {
		vs.Failf("c15:row-not-scannable", "%s: %s", r.firstErr, desc())
	}
	// every row exactly once, in server order: the rows seen are a prefix of the script's concatenation ...
	for i, x := range r.rows {
		if i < len(want) && want[i].eq(x) {
			continue
		}
		j := index(x)
		switch {
		case j < 0:
			vs.Failf("c15:row-corrupted", "row %d seen by the consumer is %s, which the node never sent (want %s): %s", i, x, wantAt(want, i), desc())
		case j < i:
			vs.Failf("c15:row-duplicated-or-reordered", "row %d seen by the consumer is the node's row %d again/late: %s", i, j, desc())
		default:
			vs.Failf("c15:row-skipped", "row %d seen by the consumer is the node's row %d; rows %d..%d were lost: %s", i, j, i, j-1, desc())
		}
		break
	}
	// a page fetch FAILED when every request for that page failed (with speculative execution a second attempt on
	// the other host may legitimately succeed where the first one failed)
	pageFailed := false
	for p := range pc.script {
		asked, served := false, false
		for _, d := range w.reqs {
			if d.page == p {
				asked = true
				served = served || d.fate == "ok"
			}
		}
		pageFailed = pageFailed || (asked && !served)
	}
	// ... and the whole of it when the iteration ended normally
	if r.err == nil && len(r.rows) < len(want) {
		if pageFailed {
			vs.Failf("c15:failed-fetch-reported-as-normal-end", "the fetch of a page failed but the iteration ended without an error after %d of %d rows: %s", len(r.rows), len(want), desc())
		} else {
			vs.Failf("c15:early-normal-end", "iteration ended without an error after %d of %d rows: %s", len(r.rows), len(want), desc())
		}
	}
	if pageFailed && r.err == nil && len(r.rows) >= len(want) {
		// the failed page was requested, so its rows (or the pages after it) cannot have been delivered; a page that
		// was requested and failed must surface even if it would have been empty
		vs.Failf("c15:failed-fetch-reported-as-normal-end", "the fetch of a page failed but Close()/Err() returned nil: %s", desc())
	}
	// the scripted retry policy: it is consulted only for an attempt that failed as the CLIENT saw it. Once it has
	// answered Rethrow or Ignore for a page fetch the executor stops, that fetch has failed, and nothing is fetched
	// afterwards (so it is the last consultation): the iteration must end with an error. (RetryType Ignore is
	// commented "ignore error and return result"; a failed page fetch has no result - rows are missing - so ending
	// normally would be exactly the early normal end the property forbids. See NOTES.md.)
	retryDecisionsMade := 0
	for _, c := range w.consults {
		if d := retryDecisions[c.decision]; d == gocql.Retry || d == gocql.RetryNextHost {
			retryDecisionsMade++
		}
	}
	if n := len(w.consults); n > 0 && r.err == nil {
		if d := retryDecisions[w.consults[n-1].decision]; d == gocql.Rethrow || d == gocql.Ignore {
			vs.Failf("c15:failed-fetch-reported-as-normal-end", "a page fetch failed (%s), the retry policy answered %s, and the iteration ended without an error after %d of %d rows: %s",
				w.consults[n-1].err, retryDecisionName[w.consults[n-1].decision], len(r.rows), len(want), desc())
		}
	}
	// ... and when the policy had a failed fetch repeated and the repetition was served - every page of the result was
	// served in the end - there is no failed fetch left to report
	if pc.retry != retryNone && (r.err != nil || r.closeErr != nil) && dDev == 0 && !callerCancelled {
		allServed := true
		for p := first; p <= last; p++ {
			ok := false
			for _, d := range w.reqs {
				ok = ok || (d.page == p && d.fate == "ok")
			}
			allServed = allServed && ok
		}
		if allServed {
			vs.Failf("c15:error-although-every-page-was-served", "the retry policy had the failed fetch repeated, every page was served in the end, no timer fired early, but the iteration reported %v / %v: %s", r.err, r.closeErr, desc())
		}
	}
	// an error needs a cause: a failed fetch, a timer that fired while the reply was in flight (D deviation), or the
	// CALLER cancelling the context it gave to the query. (The executor's own cancellation of the per-attempt context
	// of a speculative execution is not a cause: it must not leak into the fetch of later pages.)
	if (r.err != nil || r.closeErr != nil) && !w.faulted && dDev == 0 && !callerCancelled {
		vs.Failf("c15:error-without-failed-fetch", "every page was served, no timer fired early, the caller did not cancel, but the iteration reported %v / %v (first seen by %s): %s", r.err, r.closeErr, r.firstErr, desc())
	}

	// every request must be decodable by a node that reads <query_parameters> in the order of the specification
	// (the node stops serving a connection after an undecodable frame: the client then sees a timeout)
	for _, ip := range ips {
		for _, fe := range cl.nodes[ip].FrameErrors {
			vs.Failf("c15:request-undecodable", "node %s could not decode a request (%s): %s", ip, fe, desc())
		}
	}
	if pc.mut != mutNone && !mutated && r.err == nil && len(r.rows) >= pc.mutAt && cf.consumer != consSliceMap {
		vs.Failf("harness:caller-operation-not-performed", "%s", desc())
	}

	// the request log
	cur := first - 1 // highest page asked for so far
	for i, d := range w.reqs {
		if d.page < 0 {
			vs.Failf("c15:unknown-paging-state-sent", "request %d carries paging state %q, which no page carried: %s", i, d.state, desc())
			continue
		}
		if d.options != w.reqs[0].options || d.stmt != w.reqs[0].stmt || d.kind != w.reqs[0].kind {
			vs.Failf("c15:next-page-request-differs", "request %d is {%s %s %s}, the first was {%s %s %s}: %s", i, d.kind, d.stmt, d.options, w.reqs[0].kind, w.reqs[0].stmt, w.reqs[0].options, desc())
		} else if opts.ts == tsFixed && d.hasTS && w.reqs[0].hasTS && d.ts != w.reqs[0].ts {
			// a timestamp fixed by the caller (Query.WithTimestamp) is an option value, not a clock reading
			vs.Failf("c15:next-page-request-differs", "request %d carries timestamp %d, the first carried %d (Query.WithTimestamp(%d)): %s", i, d.ts, w.reqs[0].ts, fixedTS, desc())
		}
		if d.page == cur+1 && d.page <= last {
			cur = d.page
			continue
		}
		count, prevSeq := 0, 0
		for _, e := range w.reqs[:i] {
			if e.page == d.page {
				count++
				prevSeq = e.seq
			}
		}
		retried := false // the retry policy answered Retry / RetryNextHost between the previous request for this page and this one
		for _, c := range w.consults {
			if dd := retryDecisions[c.decision]; (dd == gocql.Retry || dd == gocql.RetryNextHost) && c.seq > prevSeq && c.seq < d.seq {
				retried = true
			}
		}
		switch {
		case s.manual:
			vs.Failf("c15:manual-paging-more-than-one-request", "caller-supplied page state: request %d (page %d) was sent: %s", i, d.page+1, desc())
		case count > 0 && pc.spec && count < 1+specAttempts && (dDev > 0 || w.faulted):
			// speculative execution: once the 50ms delay has elapsed (possible only after a D deviation or while an
			// unanswered request keeps the client waiting) ONE more attempt of the same page goes to the next host
		case count > 0 && !s.manual && retried && d.page == cur:
			// the fetch of the current page failed (as the client saw it) and the policy decided to repeat it
		case count > 0:
			vs.Failf("c15:page-requested-twice", "request %d asks for page %d again: %s", i, d.page+1, desc())
		default:
			vs.Failf("c15:wrong-paging-state", "request %d carries the state of page %d, expected page %d: %s", i, d.page+1, cur+2, desc())
		}
	}
	maxReqs := last - first + 1
	if pc.spec {
		maxReqs *= 1 + specAttempts
	}
	maxReqs += retryDecisionsMade
	if cur > last || len(w.reqs) > maxReqs {
		vs.Failf("c15:request-after-last-page", "%d page requests for %d pages: %s", len(w.reqs), last-first+1, desc())
	}
	if len(w.reqs) > 0 {
		// the first request: caller's statement and options
		d := w.reqs[0]
		wantKind, wantStmt := "QUERY", stmtUnprepared
		if cf.prep != prepNo {
			wantKind, wantStmt = "EXECUTE", fmt.Sprintf("id:%s", preparedID)
		}
		if d.kind != wantKind || d.stmt != wantStmt {
			vs.Failf("c15:first-request-wrong-statement", "first request is %s %s: %s", d.kind, d.stmt, desc())
		}
		if !strings.Contains(d.options, fmt.Sprintf("cons=%#x ", uint16(opts.cons))) || !strings.Contains(d.options, fmt.Sprintf(" pagesize=%d ", cf.pageSize)) {
			vs.Failf("c15:first-request-wrong-options", "first request has {%s}: %s", d.options, desc())
		}
		// serial consistency and timestamp as the caller (or the cluster configuration) set them
		if ser, ok := opts.wantSerial(); ok != strings.Contains(d.options, " serial=") || (ok && !strings.Contains(d.options, fmt.Sprintf(" serial=%#x ", ser))) {
			vs.Failf("c15:first-request-wrong-options", "caller's options are {%s}, first request has {%s}: %s", opts, d.options, desc())
		}
		if d.hasTS != (opts.ts != tsOff) || (opts.ts == tsFixed && d.ts != fixedTS) {
			vs.Failf("c15:first-request-wrong-options", "caller's options are {%s}, first request has timestamp present=%v value=%d: %s", opts, d.hasTS, d.ts, desc())
		}
		if d.skipMeta != (cf.prep == prepSkip) {
			vs.Failf("c15:first-request-wrong-options", "skip_metadata=%v with %s: %s", d.skipMeta, prepName[cf.prep], desc())
		}
		if cf.prep != prepNo && !strings.Contains(d.options, "values=[:normal:00000007]") {
			vs.Failf("c15:first-request-wrong-options", "bound value not sent as bound: {%s}: %s", d.options, desc())
		}
	}
	// (fewer requests than pages with a normal end and all rows seen would only be possible with trailing empty
	// pages; no row is lost then, so the property does not forbid it: not checked)
	if len(w.reqs) != nReqAtReturn && !(pc.spec && (dDev > 0 || w.faulted)) {
		// (a speculative attempt already on its way when the first result arrived may still reach its node)
		vs.Failf("c15:request-after-iteration-ended", "%d request(s) reached the node after the consumer had finished: %s", len(w.reqs)-nReqAtReturn, desc())
	}
	if s.manual {
		var next []byte
		if pc.start < len(pc.script)-1 {
			next = stateOf(pc.start + 1)
		}
		if len(w.reqs) == 1 && (w.reqs[0].hasState != (supplied != nil) || !bytes.Equal(w.reqs[0].state, supplied)) {
			vs.Failf("c15:manual-paging-state-not-sent", "caller supplied %q, request carried %q: %s", supplied, w.reqs[0].state, desc())
		}
		if r.err == nil {
			if !bytes.Equal(r.stateAt0, next) {
				vs.Failf("c15:manual-paging-next-state", "Iter.PageState() after Iter() = %q, the page carried %q: %s", r.stateAt0, next, desc())
			}
			if r.haveEnd && !bytes.Equal(r.stateEnd, next) {
				vs.Failf("c15:manual-paging-next-state", "Iter.PageState() after the last row = %q, the page carried %q: %s", r.stateEnd, next, desc())
			}
		}
	}
	by := ""
	for _, d := range w.reqs {
		by += d.by
	}
	pol := ""
	for _, c := range w.consults {
		pol += " policy:" + retryDecisionName[c.decision]
	}
	vs.Observe("%s | %s | %s rows=%d requests-by(consumer/async-prefetch)=%s%s", cf, pc, gocql.VerifErrClass(r.err), len(r.rows), by, pol)
	vs.Quiet(true)
	sess.Close()
	vs.Quiet(false)
}

func wantAt(want []row, i int) string {
	if i < len(want) {
		return want[i].String()
	}
	return "<end of result>"
}

func (s *c15scn) build() *vs.Scenario {
	return &vs.Scenario{Name: s.name, Cfg: vs.Config{MaxSteps: 60000, Horizon: 900 * time.Millisecond, DelayBounded: true}, Body: s.body}
}

func (s *c15scn) size() int {
	if len(s.combos) > 0 {
		return len(s.combos)
	}
	return len(s.confs) * len(s.cases)
}

// tier: bin/check exports VERIF_TIER and passes -tier; shard children inherit the environment.
func tier() (thorough, replay bool) {
	t := os.Getenv("VERIF_TIER")
	for i, a := range os.Args {
		if (a == "-tier" || a == "--tier") && i+1 < len(os.Args) {
			t = os.Args[i+1]
		}
		if strings.HasPrefix(a, "-tier=") || strings.HasPrefix(a, "--tier=") {
			t = a[strings.Index(a, "=")+1:]
		}
		if a == "-replay" || a == "--replay" || strings.HasPrefix(a, "-replay=") || strings.HasPrefix(a, "--replay=") {
			replay = true
		}
	}
	os.Setenv("VERIF_TIER", t)
	return t == "thorough", replay
}

func cross(confs []conf, cases []pcase) []combo {
	var out []combo
	for _, cf := range confs {
		for _, pc := range cases {
			out = append(out, combo{cf, pc})
		}
	}
	return out
}

// byWeight orders heavier alternatives (more pages, prepared) first: with round-robin sharding over the
// alternatives of one choice point the heavy ones end up in different processes.
func byWeight(cs []combo) []combo {
	w := func(c combo) int {
		n := 2 * len(c.pc.script)
		if c.cf.prep != prepNo {
			n++
		}
		return n
	}
	out := append([]combo(nil), cs...)
	sort.SliceStable(out, func(i, j int) bool { return w(out[i]) > w(out[j]) })
	return out
}

func sc(script ...int) pcase { return pcase{script: script} }

// scenarios of one tier. A scenario whose free-choice space is larger in the thorough tier has a different
// name there (suffix "+"), so that a replay file (which records the scenario name and the choice indexes)
// always selects the space it was recorded in; in replay mode both sets are registered.
func scenarios(thorough bool) []*c15scn {
	allPrefetch := []float64{0, 0.25, 0.5, 1}
	pageSizes := []int{3, 100}
	allPrep := []int{prepNo, prepSkip, prepNoSkip}
	allCons := []int{consScan, consScanner, consMapScan, consSliceMap}
	rowsAlpha := []int{0, 1, 2, 3}
	faults := []string{"ok", "error", "never", "drop"}
	b := func(t int) vs.Bounds { return vs.Bounds{P: t, D: t, F: t, T: t} }
	onlyFaults := vs.Bounds{P: 0, D: 0, F: 1, T: 1}

	// manual paging: only the requested page is served, so the case is (number of pages, page asked for, its rows)
	var manualAll []pcase
	for n := 1; n <= 3; n++ {
		for st := 0; st < n; st++ {
			for _, rows := range rowsAlpha {
				script := make([]int, n)
				for i := range script {
					script[i] = 1
				}
				script[st] = rows
				manualAll = append(manualAll, pcase{script: script, start: st})
			}
		}
	}

	var out []*c15scn
	add := func(s *c15scn) {
		s.faults = faults
		out = append(out, s)
	}
	// 1. the whole configuration x script product, default schedule + one failing page (every page, every failure kind)
	if !thorough {
		add(&c15scn{name: "wide-product", confs: product(allPrefetch, pageSizes, allPrep, allCons), cases: autoCases(scripts(1, 3, rowsAlpha)), quick: onlyFaults, thor: onlyFaults})
	} else {
		add(&c15scn{name: "wide-product+", confs: product(allPrefetch, pageSizes, allPrep, allCons), cases: autoCases(scripts(1, 4, rowsAlpha)), quick: onlyFaults, thor: onlyFaults})
		// one deviation of any kind (schedule, timer, failure): all configurations x scripts of <= 2 pages; 3 pages unprepared
		// (the thorough budget of mcreport.Main is shared EQUALLY by the scenarios, so the thorough tier uses few, similar-sized scenarios)
		add(&c15scn{name: "wide-1dev+", combos: append(cross(product(allPrefetch, pageSizes, allPrep, allCons), autoCases(scripts(1, 2, rowsAlpha))),
			cross(product(allPrefetch, []int{3}, []int{prepNo}, allCons), autoCases(scripts(3, 3, rowsAlpha)))...), quick: b(1), thor: b(1)})
	}
	add(&c15scn{name: "wide-manual", confs: product([]float64{0, 1}, []int{3}, allPrep, allCons), cases: manualAll, manual: true, quick: onlyFaults, thor: b(1)})

	// 1b. query options carried on every page: consistency x serial consistency (none / set on the query / inherited from
	// the cluster configuration) x timestamp (default / off / fixed by the caller) = 24 option sets; every request of the
	// iteration must be decodable by the reference decoder and carry exactly the first request's options, and the first
	// one the caller's. Default schedule in the quick tier, plus one failing page in the thorough tier.
	defaultOnly := vs.Bounds{}
	optScripts := append(scripts(2, 2, []int{0, 1, 2}), []int{1, 0, 1}, []int{1, 1, 1})
	add(&c15scn{name: "wide-options", confs: product([]float64{0, 1}, pageSizes, allPrep, allCons), cases: withOpts(autoCases(optScripts), allOpts()), quick: defaultOnly, thor: onlyFaults})
	add(&c15scn{name: "wide-options-manual", manual: true, confs: product([]float64{0, 1}, []int{3}, allPrep, allCons),
		cases: withOpts([]pcase{{script: []int{2, 1}, start: 0}, {script: []int{2, 1}, start: 1}, {script: []int{1, 0, 1}, start: 1}, {script: []int{1, 0, 1}, start: 2}}, allOpts()), quick: defaultOnly, thor: b(1)})
	// 1c. the caller goes on using the ORIGINAL *Query once Iter() has returned (Bind other values, other consistency /
	// page size / serial consistency / timestamp, all of these, Release()), right after Iter() or after any number of
	// rows: the iteration already started must request its following pages exactly as it requested the first.
	optPlain := 0
	optRich := findOpt(optset{gocql.One, serialQueryLS, tsFixed})
	{
		mutScripts := append(scripts(2, 2, []int{0, 1, 2}), []int{1, 0, 1}, []int{1, 1, 1}, []int{2, 0, 1})
		cs := cross(product([]float64{0, 0.5, 1}, []int{3}, []int{prepNo, prepSkip}, []int{consScan, consScanner, consMapScan}), withMuts(mutScripts, []int{optPlain, optRich}, allMuts, false))
		cs = append(cs, cross(product([]float64{0, 0.5, 1}, []int{3}, []int{prepNo, prepSkip}, []int{consSliceMap}), withMuts(mutScripts, []int{optPlain, optRich}, allMuts, true))...)
		add(&c15scn{name: "wide-caller-reuses-query", combos: cs, quick: defaultOnly, thor: onlyFaults})
		// ... with the prefetch goroutine racing the caller's operation (schedule / timer / failure deviations)
		var dm []combo
		for _, m := range []int{mutBind, mutRebindAll, mutRelease} {
			for at := 0; at <= 2; at++ {
				dm = append(dm, combo{conf{0.5, 3, prepSkip, consScan}, pcase{script: []int{2, 1}, opt: optRich, mut: m, mutAt: at}})
			}
		}
		for _, m := range []int{mutRebindAll, mutRelease} {
			for at := 0; at <= 1; at++ {
				dm = append(dm, combo{conf{0, 3, prepNo, consScanner}, pcase{script: []int{1, 0, 1}, opt: optPlain, mut: m, mutAt: at}})
			}
		}
		add(&c15scn{name: "caller-reuses-query-deep", combos: dm, quick: b(1), thor: b(2)})
	}

	// 2. deep: schedule / timer / failure deviations up to T
	scan := func(pf float64) conf { return conf{pf, 3, prepNo, consScan} }
	// One scenario for all automatic-paging groups: the engine shards the search by the alternatives of the FIRST
	// choice point, so one choice point with many alternatives of similar weight keeps 16 processes busy.
	var deep []combo
	// (a) the asynchronous prefetch goroutine races the consumer: first pages with 2 and 3 rows, thresholds that put
	// the trigger at row 1 and row 2 (pos = int((1-prefetch)*rows), min 1), an empty page in the middle
	deep = append(deep, cross([]conf{scan(0.25), scan(1)}, []pcase{sc(2, 1), sc(3, 2), sc(2, 0, 1)})...)
	deep = append(deep, cross([]conf{{0.5, 100, prepNo, consScan}}, []pcase{sc(3, 1), sc(2, 2)})...)
	// (b) the other consumers (Scanner has its own page switch and never prefetches; MapScan/SliceMap wrap Scan)
	deep = append(deep, cross([]conf{{0.5, 3, prepNo, consScanner}, {0.5, 100, prepNo, consMapScan}, {0.5, 3, prepNo, consSliceMap}}, []pcase{sc(2, 1), sc(0, 2, 0)})...)
	deep = append(deep, combo{conf{1, 3, prepNo, consSliceMap}, sc(2, 0, 1)}, combo{conf{0.25, 3, prepNo, consMapScan}, sc(3, 1)})
	// (c) prepared statements: PREPARE + EXECUTE, result metadata from the prepared statement (skip_metadata) or from the rows
	deep = append(deep, cross([]conf{{0.5, 100, prepSkip, consScan}, {0.5, 3, prepNoSkip, consScan}, {1, 3, prepSkip, consScanner}}, []pcase{sc(2, 1), sc(1, 0)})...)
	deep = append(deep, combo{conf{0.25, 3, prepSkip, consMapScan}, sc(0, 2, 1)})
	// (d) empty pages: first, middle, last, all; single page
	deep = append(deep, cross([]conf{scan(1), scan(0)}, []pcase{sc(0), sc(3), sc(0, 0), sc(1, 0), sc(0, 1, 0)})...)
	if !thorough {
		add(&c15scn{name: "deep-auto-paging", combos: byWeight(deep), quick: b(2), thor: b(2)})
	} else {
		// the same 33 pairs + every 2-page script x every threshold for Scan and SliceMap + 4-page scripts, all at T=2
		t2 := append([]combo(nil), deep...)
		t2 = append(t2, cross(product(allPrefetch, []int{3}, []int{prepNo}, []int{consScan, consSliceMap}), autoCases(scripts(2, 2, rowsAlpha)))...)
		t2 = append(t2, cross([]conf{scan(0.5), {0.25, 3, prepSkip, consMapScan}, {1, 100, prepNo, consSliceMap}, {0, 3, prepNoSkip, consScanner}},
			[]pcase{sc(2, 0, 3, 0), sc(1, 1, 1, 1), sc(3, 3, 0, 2), sc(0, 0, 0, 1)})...)
		add(&c15scn{name: "deep-t2+", combos: byWeight(t2), quick: b(2), thor: b(2)})
	}
	if thorough {
		// T=3 on the smaller members of each group (a 3-page script costs ~250k executions at T=3, a 2-page one ~80k)
		var d3 []combo
		d3 = append(d3, combo{scan(1), sc(2, 0, 1)})
		d3 = append(d3, combo{scan(0.25), sc(2, 1)}, combo{scan(1), sc(3, 2)}, combo{conf{0.5, 100, prepNo, consScan}, sc(2, 2)})
		d3 = append(d3, cross([]conf{{0.5, 3, prepNo, consScanner}, {0.5, 100, prepNo, consMapScan}, {0.5, 3, prepNo, consSliceMap}}, []pcase{sc(2, 1)})...)
		d3 = append(d3, combo{conf{0.5, 100, prepSkip, consScan}, sc(2, 1)}, combo{conf{0.5, 3, prepNoSkip, consScan}, sc(1, 0)}, combo{conf{1, 3, prepSkip, consScanner}, sc(1, 0)})
		d3 = append(d3, cross([]conf{scan(1)}, []pcase{sc(0), sc(3), sc(0, 0), sc(1, 0)})...)
		d3 = append(d3, combo{scan(0), sc(0, 0)})
		d3 = byWeight(d3)
		var d3a, d3b []combo
		for i, c := range d3 {
			if i%2 == 0 {
				d3a = append(d3a, c)
			} else {
				d3b = append(d3b, c)
			}
		}
		add(&c15scn{name: "deep-t3a+", combos: d3a, quick: b(3), thor: b(3)})
		add(&c15scn{name: "deep-t3b+", combos: d3b, quick: b(3), thor: b(3)})
	}
	// caller-supplied page state
	add(&c15scn{name: "manual-paging", manual: true, combos: cross([]conf{{0.5, 3, prepNo, consScan}, {0.5, 3, prepSkip, consScanner}, {1, 100, prepNoSkip, consSliceMap}, {0, 3, prepNo, consMapScan}},
		[]pcase{{script: []int{2, 1}, start: 0}, {script: []int{1, 2}, start: 1}, {script: []int{1, 0, 1}, start: 1}}), quick: b(2), thor: b(3)})
	// 3. speculative execution (idempotent query, SimpleSpeculativeExecution{1, 50ms}, two nodes serving the same
	// script) and a caller-owned context. Every page fetch of such a query runs on executor goroutines under a
	// per-execution context that the executor cancels as soon as a result is in: that cancellation must not reach
	// the fetch of the following pages; a cancellation by the CALLER legitimately ends the iteration with an error.
	specCases := func(ss [][]int) []pcase {
		var out []pcase
		for _, sc := range ss {
			out = append(out, pcase{script: sc, spec: true})
		}
		return out
	}
	if !thorough {
		add(&c15scn{name: "wide-speculative", hosts: 2, confs: product(allPrefetch, pageSizes, allPrep, allCons), cases: specCases(scripts(2, 2, rowsAlpha)), quick: onlyFaults, thor: onlyFaults})
	} else {
		add(&c15scn{name: "wide-speculative+", hosts: 2, confs: product(allPrefetch, pageSizes, allPrep, allCons), cases: specCases(scripts(1, 3, rowsAlpha)), quick: onlyFaults, thor: onlyFaults})
	}
	{
		cA, cB, cC := conf{0.5, 3, prepNo, consScan}, conf{0, 3, prepNo, consScanner}, conf{1, 100, prepSkip, consScan}
		var sp []combo
		sp = append(sp, cross([]conf{cA, cB}, []pcase{{script: []int{2, 1}, spec: true}, {script: []int{1, 0, 2}, spec: true}})...)
		sp = append(sp, combo{cC, pcase{script: []int{2, 1}, spec: true}})
		sp = append(sp, combo{cA, pcase{script: []int{2, 1}, cancelAt: 2}}, combo{cA, pcase{script: []int{2, 1}, cancelAt: 2, spec: true}},
			combo{cB, pcase{script: []int{1, 1, 1}, cancelAt: 1}}, combo{conf{1, 3, prepNo, consMapScan}, pcase{script: []int{3, 1}, cancelAt: 2}})
		add(&c15scn{name: "speculative-and-caller-context", hosts: 2, combos: byWeight(sp), quick: b(1), thor: b(2)})
		// one pair deeper (a single alternative: the engine then shards over the schedule deviations, evenly)
		if !thorough { // (contained in the previous scenario at T=2 in the thorough tier)
			add(&c15scn{name: "speculative-deep", hosts: 2, combos: []combo{{cA, pcase{script: []int{2, 1}, spec: true}}}, quick: b(2), thor: b(2)})
		}
	}
	// 4. a RETRY POLICY on the paged query (round 4): every page fetch goes through queryExecutor.do, which puts a failed
	// attempt before the query's retry policy. The policy is scripted: its answer to every failed fetch is a FREE choice
	// among Retry / RetryNextHost / Rethrow / Ignore (set with Query.RetryPolicy, or inherited from ClusterConfig.RetryPolicy).
	// Two nodes serve the same script (RetryNextHost then really goes to another host; after "drop" Retry finds no
	// connection on the same host and moves on as well); one scenario has a single host (RetryNextHost then runs out of
	// hosts and the executor builds a fresh error Iter). Failing page fetch: every page x 3 failure kinds (cost F).
	{
		retryConfs := product([]float64{0, 1}, []int{3}, []int{prepNo, prepSkip}, allCons)
		if !thorough {
			// quick: 16 configurations (prefetch 0/1, unprepared / prepared+skipmeta, 4 consumers) x {the 4 one-page scripts,
			// the 9 two-page scripts over {0,1,2}} (policy on the query) and x the 4 two-page scripts over {0,2} (policy from
			// the cluster); the 8 unprepared ones x the 8 three-page scripts over {0,2}: a failure at the first, a middle
			// and the last page, empty or not, for every consumer
			cs := cross(retryConfs, withRetry(autoCases(append(scripts(1, 1, rowsAlpha), scripts(2, 2, []int{0, 1, 2})...)), retryQuery))
			cs = append(cs, cross(retryConfs, withRetry(autoCases(scripts(2, 2, []int{0, 2})), retryCluster))...)
			cs = append(cs, cross(product([]float64{0, 1}, []int{3}, []int{prepNo}, allCons), withRetry(autoCases(scripts(3, 3, []int{0, 2})), retryQuery))...)
			add(&c15scn{name: "wide-retry", hosts: 2, combos: byWeight(cs), quick: onlyFaults, thor: onlyFaults})
		} else {
			add(&c15scn{name: "wide-retry+", hosts: 2, confs: product(allPrefetch, pageSizes, allPrep, allCons),
				cases: append(withRetry(autoCases(scripts(1, 3, rowsAlpha)), retryQuery), withRetry(autoCases(scripts(2, 2, rowsAlpha)), retryCluster)...), quick: onlyFaults, thor: onlyFaults})
		}
		add(&c15scn{name: "wide-retry-one-host", hosts: 1, confs: product([]float64{0, 1}, []int{3}, []int{prepNo}, allCons),
			cases: withRetry(autoCases(scripts(1, 2, rowsAlpha)), retryQuery), quick: onlyFaults, thor: b(1)})
		// two failures / schedule and timer deviations: the prefetch goroutine consults the policy while the consumer
		// reads on; a repeated fetch fails again; a timeout fires although the node answered
		rd := cross([]conf{{0.5, 3, prepNo, consScan}, {1, 3, prepNo, consSliceMap}}, withRetry([]pcase{sc(2, 1)}, retryQuery))
		if !thorough {
			// two failures, or one failure and one schedule / timer deviation
			add(&c15scn{name: "retry-deep", hosts: 2, combos: rd, quick: vs.Bounds{P: 1, D: 1, F: 2, T: 2}, thor: b(2)})
		} else {
			rd = append(rd, combo{conf{0, 3, prepNo, consScanner}, pcase{script: []int{1, 0}, retry: retryQuery}},
				combo{conf{1, 100, prepSkip, consMapScan}, pcase{script: []int{1, 1}, retry: retryCluster}},
				combo{conf{0.25, 3, prepNoSkip, consScan}, pcase{script: []int{2, 0, 1}, retry: retryQuery}})
			add(&c15scn{name: "retry-deep+", hosts: 2, combos: byWeight(rd), quick: b(2), thor: b(2)})
		}
	}
	if thorough {
		// ALL interleavings (no preemption bound, no timer/failure deviation) of consumer vs prefetch for the smallest script that prefetches
		add(&c15scn{name: "all-interleavings+", combos: []combo{{scan(0.5), sc(2, 1)}}, quick: vs.Bounds{P: -1}, thor: vs.Bounds{P: -1}})
	}
	return out
}

func main() {
	thorough, replay := tier()
	scns := scenarios(thorough)
	if replay {
		have := map[string]bool{}
		for _, s := range scns {
			have[s.name] = true
		}
		for _, s := range scenarios(!thorough) {
			if !have[s.name] {
				scns = append(scns, s)
			}
		}
	}
	var defs []mcreport.Def
	var sizes []string
	for _, s := range scns {
		s := s
		defs = append(defs, mcreport.Def{Name: s.name, Build: s.build, Quick: s.quick, Thorough: s.thor})
		sizes = append(sizes, fmt.Sprintf("%s=%d", s.name, s.size()))
	}
	mcreport.Main("C15", "model_checking",
		"delay-bounded exhaustive exploration of one paged iteration on a real Session (1 host, 1 connection) against a scripted node serving a page script. "+
			"FREE choice points (every alternative explored, no cost): the page script (rows per page over {0,1,2,3}, 1-3 pages, thorough 1-4; paging states carried in the rows metadata) and the configuration "+
			"(prefetch 0/0.25/0.5/1, page size 3/100, unprepared QUERY / prepared EXECUTE with skip_metadata / prepared with cfg.DisableSkipMetadata, consumer Scan/Scanner/MapScan/SliceMap; manual paging: which page's state the caller supplies). "+
			"Costed: a failing page fetch (ERROR frame / no reply -> timeout / connection dropped) at any page request costs F, scheduling deviations (the prefetch goroutine racing the consumer) cost P, early timers cost D, total <= T. "+
			"Scenarios 'wide-*' cover the whole product with the default schedule plus one failing page (thorough: plus one deviation of any kind); the other scenarios take representative configurations to T=2 (quick) / T=3 (thorough); "+
			"thorough 'all-interleavings+' explores every interleaving (P unbounded) of script [2,1] with prefetch. "+
			"Further FREE dimensions of the case: the OPTIONS the caller puts on the query (consistency LOCAL_QUORUM/ONE x serial consistency none / Query.SerialConsistency(SERIAL) / (LOCAL_SERIAL) / inherited from ClusterConfig.SerialConsistency x timestamp default / DefaultTimestamp(false) / WithTimestamp(fixed) = 24 option sets, x page size 3/100 of the configuration), "+
			"automatic and manual paging ('wide-options', 'wide-options-manual'): every request must be decodable by the reference decoder and carry the first request's statement, values and options (incl. serial consistency, presence and - when fixed - value of the timestamp), the first one the caller's; "+
			"and an OPERATION OF THE CALLER on the original *Query once Iter() has returned (Bind(other values) / Consistency / PageSize / SerialConsistency / WithTimestamp / all of these / Release()) x the position (right after Iter(), or after each number of rows seen; SliceMap: right after Iter()) "+
			"('wide-caller-reuses-query' default schedule, thorough + one failing page; 'caller-reuses-query-deep' T=1, thorough T=2: the prefetch goroutine races the operation): the following pages are requested exactly like the first. "+
			"Round 4: a scripted RETRY POLICY on the paged query (Query.RetryPolicy, or inherited from ClusterConfig.RetryPolicy; query idempotent; two nodes serving the same script, 'wide-retry-one-host' a single one) whose answer to EVERY failed fetch is a FREE choice among Retry / RetryNextHost / Rethrow / Ignore, "+
			"x a failing fetch at every page position (first / middle / last, empty or not) x 3 failure kinds x every consumer x prefetch 0/1 x unprepared / prepared+skipmeta ('wide-retry': 1-3 pages, quick with reduced row alphabets, thorough 'wide-retry+' the whole 96-configuration x 84-script product; default schedule + one failure; 'retry-deep': two failures, or one failure + one schedule / timer deviation, thorough T=2): "+
			"a page is requested again only after the policy answered Retry / RetryNextHost for it; after Rethrow or Ignore the iteration ends with an error, never normally; when every page was served in the end it ends normally with every row. "+
			"The result of the SliceMap consumer is the error SliceMap RETURNS (not what a later Close() says), for every failing page position in every scenario. "+
			"Free-choice alternatives per scenario: "+strings.Join(sizes, ", "),
		[]string{"1 host (speculative / retry scenarios: 2), 1 connection per host, no control connection, protocol v4, request timeout 100ms, no retry policy except in the 'retry' scenarios (scripted policy, budget 3 consultations per iteration), default timestamp on",
			"the node answers a request according to the paging state it RECEIVES and logs statement/id, values, consistency, flags, page size, paging state (decoded by the independent reference codec)",
			"stream-allocator atomics are not scheduling points (C08); map iteration order fixed; -race pass separate",
			"page size does not constrain the script (a node may return fewer rows than the page size; scripts have <= 3 rows per page and page size >= 3)",
			"the caller's operation on the original *Query is performed by the consuming thread itself (a Query is not used concurrently by the caller); Release() only after Iter() has returned"},
		defs, 60*time.Second, 68*time.Minute, nil) // thorough: the budget is a cap shared equally: 17 scenarios x 240 s; the largest need 90-230 s on a loaded machine, the whole tier 8-13 min
}
