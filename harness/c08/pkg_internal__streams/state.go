//go:build verif

package streams

// VerifStateHash hashes the allocator's complete shared state (no scheduling points).
func (s *IDGenerator) VerifStateHash() uint64 {
	h := uint64(0xcbf29ce484222325)
	mixw := func(x uint64) {
		h ^= x
		h *= 0x100000001b3
		h ^= h >> 31
	}
	mixw(uint64(s.offset))
	mixw(uint64(uint32(s.inuseStreams)))
	for i, w := range s.streams {
		if w != ^uint64(0) {
			mixw(uint64(i)<<1 | 1)
			mixw(w)
		}
	}
	return h
}

// VerifClone copies the allocator's state into a fresh instance.
func (s *IDGenerator) VerifClone() *IDGenerator {
	c := *s
	c.streams = append([]uint64(nil), s.streams...)
	return &c
}
