// C08: stream-id allocator. All interleavings of the allocator's atomic steps
// for small thread programs on the real (instrumented) internal/streams code,
// checked against a set model with porcupine plus the property's own rules.
package main

import (
	"fmt"
	"sort"
	"strings"
	"time"
	"unsafe"

	"github.com/anishathalye/porcupine"
	"github.com/gocql/gocql/internal/streams"

	"verif/engine/enum"
	"verif/engine/mcreport"
	"verif/engine/report"
	vs "verif/engine/vsched"
)

type opRec struct {
	client    int
	get       bool
	arg       int // clear: id
	id        int
	ok        bool
	call, ret int64
}

type scenarioDef struct {
	name  string
	proto int
	free  []int      // ids left free after the quiet prefill
	progs [][]string // per thread: "G" get, "C" clear own most recent, "H<n>" clear pre-held id n (handed to this thread)
	p     [2]int     // preemption bound quick/thorough (-1 = all interleavings)
	snap  *streams.IDGenerator
	held  map[int]bool
}

var histObj byte

func scenarios() []scenarioDef {
	return []scenarioDef{
		{"v2-2x[G,C,G]-free{1,2}", 2, []int{1, 2}, [][]string{{"G", "C", "G"}, {"G", "C", "G"}}, [2]int{4, 7}, nil, nil},
		{"v2-3x[G]-free{62,63}", 2, []int{62, 63}, [][]string{{"G"}, {"G"}, {"G"}}, [2]int{4, 7}, nil, nil},
		{"v2-3x[G]-free{63,64}-two-words", 2, []int{63, 64}, [][]string{{"G"}, {"G"}, {"G"}}, [2]int{4, 7}, nil, nil},
		{"v2-release-vs-acquire-last-id", 2, nil, [][]string{{"H5", "G"}, {"G"}, {"G"}}, [2]int{4, 7}, nil, nil},
		{"v2-concurrent-double-release-of-5", 2, nil, [][]string{{"H5", "G"}, {"H5"}}, [2]int{-1, -1}, nil, nil},
		{"v2-3x-release-of-5-and-get", 2, nil, [][]string{{"H5"}, {"H5"}, {"G", "C"}}, [2]int{4, 6}, nil, nil},
		{"v2-2x[G,G,C,C]-free{126,127}", 2, []int{126, 127}, [][]string{{"G", "G", "C", "C"}, {"G", "C", "G"}}, [2]int{3, 5}, nil, nil},
		{"v2-3x[G,C]-free{10}", 2, []int{10}, [][]string{{"G", "C"}, {"G", "C"}, {"G", "C"}}, [2]int{3, 5}, nil, nil},
		{"v3-2x[G,C,G]-free{1,32767}", 3, []int{1, 32767}, [][]string{{"G", "C", "G"}, {"G", "C"}}, [2]int{2, 3}, nil, nil},
		{"v3-3x[G]-free{64,65}", 3, []int{64, 65}, [][]string{{"G"}, {"G"}, {"G"}}, [2]int{1, 2}, nil, nil},
	}
}

var curGen *streams.IDGenerator

func (d *scenarioDef) build() *vs.Scenario {
	// The starting state is built once per process through the public API
	// (take every id, then free the chosen ones) and cloned for each execution.
	if d.snap == nil { // outside any execution: the shims pass straight through
		g0 := streams.New(d.proto)
		d.held = map[int]bool{}
		for {
			id, ok := g0.GetStream()
			if !ok {
				break
			}
			d.held[id] = true
		}
		for _, f := range d.free {
			g0.Clear(f)
			delete(d.held, f)
		}
		if len(d.held) != g0.NumStreams-1-len(d.free) {
			panic("prefill failed")
		}
		d.snap = g0
	}
	// Observational state hashing: the allocator's words plus, per thread, every
	// value it has read through an atomic operation or a history timestamp. The
	// thread programs have no other inputs, so this determines the full state.
	sc := &vs.Scenario{Name: d.name, Cfg: vs.Config{MaxSteps: 400000, StateHash: func() uint64 {
		if curGen == nil {
			return 0
		}
		return curGen.VerifStateHash()
	}}, Body: func() { d.body() }}
	return sc
}

func (d *scenarioDef) body() {
	g := d.snap.VerifClone()
	curGen = g
	held := d.held
	var hist []opRec
	var clock int64
	mark := func() int64 {
		vs.Touch(unsafe.Pointer(&histObj), true)
		clock++
		vs.Obs(uint64(clock))
		return clock
	}
	done := make(chan int, len(d.progs))
	for ti, prog := range d.progs {
		ti, prog := ti, prog
		vs.GoNamed(fmt.Sprintf("client%d", ti), func() {
			var own []int
			for _, op := range prog {
				switch {
				case op == "G":
					c := mark()
					id, ok := g.GetStream()
					r := mark()
					hist = append(hist, opRec{client: ti, get: true, id: id, ok: ok, call: c, ret: r})
					if ok {
						own = append(own, id)
					}
				case op == "C":
					if len(own) == 0 {
						continue
					}
					id := own[len(own)-1]
					own = own[:len(own)-1]
					c := mark()
					ok := g.Clear(id)
					r := mark()
					hist = append(hist, opRec{client: ti, arg: id, ok: ok, call: c, ret: r})
				case strings.HasPrefix(op, "H"):
					var id int
					fmt.Sscan(op[1:], &id)
					c := mark()
					ok := g.Clear(id)
					r := mark()
					hist = append(hist, opRec{client: ti, arg: id, ok: ok, call: c, ret: r})
				}
			}
			vs.Send(done, ti)
		})
	}
	for range d.progs {
		vs.Recv[int](done)
	}
	checkHistory(d, g, held, hist)
}

type setState map[int]bool

type inp struct {
	get bool
	id  int
}
type outp struct {
	id int
	ok bool
}

func checkHistory(d *scenarioDef, g *streams.IDGenerator, preheld map[int]bool, hist []opRec) {
	n := g.NumStreams
	// (1) linearizable w.r.t. the set model (failed gets unconstrained)
	// model state: overrides relative to the pre-held set (kept small: the pre-held
	// set has up to 32765 members and porcupine copies states)
	isHeld := func(s setState, id int) bool {
		if v, ok := s[id]; ok {
			return v
		}
		return preheld[id]
	}
	with := func(s setState, id int, v bool) setState {
		ns := setState{}
		for k, x := range s {
			ns[k] = x
		}
		if preheld[id] == v {
			delete(ns, id)
		} else {
			ns[id] = v
		}
		return ns
	}
	model := porcupine.Model{
		Init: func() interface{} { return setState{} },
		Step: func(state, input, output interface{}) (bool, interface{}) {
			s, in, out := state.(setState), input.(inp), output.(outp)
			if in.get {
				if !out.ok {
					return true, s
				}
				if isHeld(s, out.id) {
					return false, s
				}
				return true, with(s, out.id, true)
			}
			if out.ok != isHeld(s, in.id) {
				return false, s
			}
			if !out.ok {
				return true, s
			}
			return true, with(s, in.id, false)
		},
		Equal: func(a, b interface{}) bool {
			x, y := a.(setState), b.(setState)
			if len(x) != len(y) {
				return false
			}
			for k, v := range x {
				if w, ok := y[k]; !ok || w != v {
					return false
				}
			}
			return true
		},
	}
	var ops []porcupine.Operation
	var sig []string
	for _, h := range hist {
		ops = append(ops, porcupine.Operation{ClientId: h.client, Input: inp{h.get, h.arg}, Call: h.call, Output: outp{h.id, h.ok}, Return: h.ret})
		if h.get {
			sig = append(sig, fmt.Sprintf("c%d:G=%d,%v", h.client, h.id, h.ok))
		} else {
			sig = append(sig, fmt.Sprintf("c%d:C(%d)=%v", h.client, h.arg, h.ok))
		}
	}
	if !porcupine.CheckOperations(model, ops) {
		vs.Failf("c08:not-linearizable:"+d.name, "history not linearizable w.r.t. the set model: %v", describe(hist))
	}
	// (2) range
	for _, h := range hist {
		if h.get && h.ok && (h.id < 1 || h.id > n-1) {
			vs.Failf("c08:id-out-of-range", "GetStream returned %d (valid 1..%d): %v", h.id, n-1, describe(hist))
		}
	}
	// (3) a failed get is a violation iff some id was definitely free for the whole call
	for _, f := range hist {
		if !f.get || f.ok {
			continue
		}
		for id := 1; id <= n-1; id++ {
			if preheld[id] && !clearedBefore(hist, id, f.call) {
				continue // still pre-held (or possibly held) at some time in the call
			}
			if possiblyHeldDuring(hist, id, f.call, f.ret, preheld[id]) {
				continue
			}
			vs.Failf("c08:spurious-exhaustion", "GetStream by client %d failed in [%d,%d] although id %d was free throughout: %v", f.client, f.call, f.ret, id, describe(hist))
			break
		}
	}
	// (4) available count at quiescence
	// (every successful clear releases exactly one holding, the history being linearizable)
	nheld := len(preheld)
	for _, h := range hist {
		if h.get && h.ok {
			nheld++
		} else if !h.get && h.ok {
			nheld--
		}
	}
	if got, want := g.Available(), n-1-nheld; got != want {
		vs.Failf("c08:available-count", "Available()=%d, want %d (held %d of %d): %v", got, want, nheld, n-1, describe(hist))
	}
	sort.Strings(sig)
	vs.Observe("%s avail=%d", strings.Join(sig, " "), g.Available())
}

// clearedBefore: a successful clear of id returned before time t.
func clearedBefore(hist []opRec, id int, t int64) bool {
	for _, h := range hist {
		if !h.get && h.arg == id && h.ok && h.ret < t {
			return true
		}
	}
	return false
}

// possiblyHeldDuring: some holding interval [get.call, clear.ret or inf) of id intersects [from,to].
func possiblyHeldDuring(hist []opRec, id int, from, to int64, preheld bool) bool {
	if preheld {
		// held from time 0 until the return of its first successful clear
		end := int64(1 << 62)
		for _, h := range hist {
			if !h.get && h.arg == id && h.ok && h.ret < end {
				end = h.ret
			}
		}
		if end >= from {
			return true
		}
	}
	for _, h := range hist {
		if h.get && h.ok && h.id == id {
			end := int64(1 << 62)
			for _, c := range hist {
				if !c.get && c.arg == id && c.ok && c.call > h.ret && c.ret < end {
					end = c.ret
				}
			}
			if h.call <= to && end >= from {
				return true
			}
		}
	}
	return false
}

func describe(hist []opRec) string {
	var b []string
	for _, h := range hist {
		if h.get {
			b = append(b, fmt.Sprintf("c%d:Get[%d,%d]=(%d,%v)", h.client, h.call, h.ret, h.id, h.ok))
		} else {
			b = append(b, fmt.Sprintf("c%d:Clear(%d)[%d,%d]=%v", h.client, h.arg, h.call, h.ret, h.ok))
		}
	}
	return strings.Join(b, " ")
}

// sequential: every operation sequence up to depth k against the set model, both capacities.
func sequential(r *report.Run) {
	for _, proto := range []int{2, 3} {
		// full drain
		func() {
			defer func() {
				if p := recover(); p != nil {
					r.Violation("c08:seq:panic", fmt.Sprint(p), nil)
				}
			}()
			g := streams.New(proto)
			n := g.NumStreams
			seen := map[int]bool{}
			for i := 0; i < n-1; i++ {
				id, ok := g.GetStream()
				if !ok {
					r.Violation("c08:seq:early-exhaustion", fmt.Sprintf("proto %d: GetStream failed after %d of %d ids", proto, i, n-1), nil)
					return
				}
				if id < 1 || id > n-1 || seen[id] {
					r.Violation("c08:seq:bad-id", fmt.Sprintf("proto %d: id %d (dup=%v)", proto, id, seen[id]), nil)
					return
				}
				seen[id] = true
				if g.Available() != n-1-len(seen) {
					r.Violation("c08:seq:available", fmt.Sprintf("proto %d: Available=%d after %d gets", proto, g.Available(), len(seen)), nil)
					return
				}
			}
			if _, ok := g.GetStream(); ok {
				r.Violation("c08:seq:over-allocation", fmt.Sprintf("proto %d: GetStream succeeded with all ids out", proto), nil)
			}
			for id := 1; id <= n-1; id++ {
				if !g.Clear(id) {
					r.Violation("c08:seq:clear-false", fmt.Sprintf("proto %d: Clear(%d) of a held id returned false", proto, id), nil)
					return
				}
				if g.Clear(id) {
					r.Violation("c08:seq:double-clear-true", fmt.Sprintf("proto %d: second Clear(%d) returned true", proto, id), nil)
					return
				}
			}
			if g.Available() != n-1 {
				r.Violation("c08:seq:available", fmt.Sprintf("proto %d: Available=%d after clearing all", proto, g.Available()), nil)
			}
			r.Case(fmt.Sprintf("seq-drain-v%d", proto), true)
		}()
		// all sequences of depth <= D over {get, clear(any of 4 tracked ids)} from a state with 3 free ids
		depth := 5
		if r.Thorough() {
			depth = 7
		}
		n := 128
		if proto > 2 {
			n = 32768
		}
		track := []int{1, 2, 63, n - 1}
		base := streams.New(proto)
		baseHeld := map[int]bool{}
		for {
			id, ok := base.GetStream()
			if !ok {
				break
			}
			baseHeld[id] = true
		}
		for _, f := range track[:3] {
			base.Clear(f)
			delete(baseHeld, f)
		}
		enum.All(func(c *enum.Ctx) bool {
			g := base.VerifClone()
			held := map[int]bool{}
			for _, t := range track {
				if baseHeld[t] {
					held[t] = true
				}
			}
			nheld := len(baseHeld)
			var trace []string
			bad := func(kind, msg string) {
				r.Violation("c08:seq:"+kind, fmt.Sprintf("proto %d after %v: %s", proto, trace, msg), trace)
			}
			func() {
				defer func() {
					if p := recover(); p != nil {
						bad("panic", fmt.Sprint(p))
					}
				}()
				l := 1 + c.Choose(depth)
				for i := 0; i < l; i++ {
					k := c.Choose(1 + len(track))
					if k == 0 {
						id, ok := g.GetStream()
						trace = append(trace, fmt.Sprintf("G=%d,%v", id, ok))
						free := n - 1 - nheld
						if ok != (free > 0) {
							bad("get-result", fmt.Sprintf("GetStream ok=%v with %d free", ok, free))
							return
						}
						if ok {
							if held[id] || baseHeld[id] && !contains(track, id) || id < 1 || id > n-1 {
								bad("bad-id", fmt.Sprintf("GetStream returned %d (held=%v)", id, held[id]))
								return
							}
							held[id] = true
							nheld++
						}
					} else {
						id := track[k-1]
						ok := g.Clear(id)
						trace = append(trace, fmt.Sprintf("C(%d)=%v", id, ok))
						if ok != held[id] {
							bad("clear-result", fmt.Sprintf("Clear(%d)=%v but held=%v", id, ok, held[id]))
							return
						}
						if ok {
							nheld--
						}
						delete(held, id)
					}
					if g.Available() != n-1-nheld {
						bad("available", fmt.Sprintf("Available=%d want %d", g.Available(), n-1-nheld))
						return
					}
				}
			}()
			r.Case(fmt.Sprintf("v%d:%s", proto, strings.Join(trace, " ")), true)
			return true
		})
	}
}

func main() {
	defsC := scenarios()
	var defs []mcreport.Def
	for i := range defsC {
		d := &defsC[i]
		defs = append(defs, mcreport.Def{Name: d.name, Build: d.build, Quick: vs.Bounds{P: d.p[0]}, Thorough: vs.Bounds{P: d.p[1]}})
	}
	mcreport.Main("C08", "model_checking",
		"concurrent part: every interleaving, up to the stated preemption bound, of the atomic steps of the real internal/streams code for each listed thread program, with observational state caching; distinct = distinct observable histories per scenario. sequential part: every operation sequence up to the depth bound over {get, clear(4 tracked ids)} from a 3-free-ids state, both capacities",
		[]string{"atomics are sequentially consistent (Go memory model); plain accesses are not scheduling points (checked by the separate -race pass)",
			"'double release is harmless' is read as: two releases of one holding - sequential or concurrent - report true exactly once and change the count once; only a second release racing a RE-ACQUISITION of that id by another caller is outside the statement (no generation-less allocator can tell them apart)",
			"thread programs and free-id sets as listed under coverage.scenarios"},
		defs, 40*time.Second, 20*time.Minute, sequential)
}

func contains(l []int, x int) bool {
	for _, v := range l {
		if v == x {
			return true
		}
	}
	return false
}
