// Shared one-connection harness for C01 (request/response matching), C06
// (every request ends exactly once, closing never hangs, no stream leak) and
// C07 (frames are written whole). One real Conn of the instrumented gocql, made
// by the real handshake over vnet, against a scripted node; the explorer
// enumerates schedules, timer firings, node fates and write faults.
package main

import (
	"bytes"
	"fmt"
	"net"
	"sort"
	"strings"
	"time"

	"github.com/gocql/gocql"

	"verif/engine/mcreport"
	"verif/engine/refcql/frame"
	"verif/engine/vnode"
	vs "verif/engine/vsched"
	"verif/engine/vsched/vatomic"
	context "verif/engine/vsched/vcontext" // harnesses must use the scheduler-owned context: a natively closed Done channel is invisible to the scheduler
	"verif/engine/vsched/vnet"
)

const (
	reqTimeout   = 100 * time.Millisecond
	lateDelay    = 150 * time.Millisecond
	stallFor     = 560 * time.Millisecond // longer than the 5 read attempts of one timeout each
	lateStart    = 540 * time.Millisecond // op "L": a query submitted after the stalled read was given up, before the rest arrives
	coalesceWait = 200 * time.Microsecond
)

type cfgT struct {
	name           string
	props          string // which checks run this scenario
	proto          int
	callers        [][]string // per caller its operations: "q" query, "Q" query with a 300-byte value, "b" request whose frame fails to build
	freeIDs        int        // >0: leave only this many stream ids free (v2 only)
	canceller      int        // >=0: a thread cancels this caller's context at an arbitrary point
	closer         bool       // a thread calls Conn.Close() at an arbitrary point
	writeFault     string     // "", "some" (cut at 0, 1, n/2, n-1), "all" (every offset)
	blockWrite     bool       // a write may block until the write deadline
	blockPartial   bool       // ... after half of its bytes went out
	noTimeout      bool       // no request timeout (ClusterConfig.Timeout = 0): only events end a request
	cancelOnSubmit bool       // canceller >= 0: the cancelling thread is started when that caller submits its op #cancelAtOp (after the op's own delay), not at the start
	cancelAtOp     int
	coalesce       bool
	fates          []string // fates the node may choose per request (first = default): reply late never error drop cuthdr cutbody
	heartbeat      bool     // horizon past the first heartbeat tick
	hbFates        []string // how the node answers the connection's heartbeat OPTIONS (first = default): supported error never
	stayOpen       bool     // no fate or fault of this scenario ends the connection: a request the node answered at once must not fail with 'connection closed'
	closeErr       bool     // the transport's Close returns an error
	timeoutLimit   int64    // gocql.TimeoutLimit (deprecated knob: close the connection after that many timeouts)
	handshake      bool     // the scenario is the connection handshake itself, with a fault at an enumerated step
	t              [2]int   // total deviation bound quick / thorough
}

type labelKey struct{}

type streamEv struct {
	label       string
	kind        string
	frameOnWire bool
	replied     bool
	at          time.Duration
}

type result struct {
	label      string
	op         string
	rows       []string
	err        error
	start, end time.Duration
}

type world struct {
	cfg      *cfgT
	prop     string
	node     *vnode.Node
	client   *vnet.Conn
	wlog     []vnet.WriteRec
	hsWrites int // number of client writes made by the handshake
	events   []streamEv
	fateOf   map[string]string
	stallRow map[string]string // fate stall: the (long) row the request's own complete response carries
	reserved int
	wrecs    *[]gocql.VerifWriteRec
}

type observer struct{ w *world }
type obsCtx struct {
	w     *world
	label string
}

func (o observer) StreamContext(ctx context.Context) gocql.StreamObserverContext {
	l, _ := ctx.Value(labelKey{}).(string)
	if l == "" {
		return nil
	}
	return &obsCtx{o.w, l}
}

func (w *world) onWire(label string) bool {
	for _, r := range w.wlog {
		if bytes.Contains(r.Data, []byte("'"+label+"'")) {
			return true
		}
	}
	return false
}

func (w *world) nodeRec(label string) *vnode.ReqRec {
	for _, r := range w.node.Log {
		if r.Req == nil {
			continue
		}
		if q, ok := r.Req.Msg.(*frame.Query); ok && labelOf(q.Statement) == label {
			return r
		}
	}
	return nil
}

func (o *obsCtx) rec(kind string) {
	w := o.w
	ev := streamEv{label: o.label, kind: kind, at: vs.Clock(), frameOnWire: w.onWire(o.label)}
	if r := w.nodeRec(o.label); r != nil && r.Replied {
		ev.replied = true
	}
	w.events = append(w.events, ev)
}
func (o *obsCtx) StreamStarted(gocql.ObservedStream)   { o.rec("started") }
func (o *obsCtx) StreamFinished(gocql.ObservedStream)  { o.rec("finished") }
func (o *obsCtx) StreamAbandoned(gocql.ObservedStream) { o.rec("abandoned") }

func labelOf(stmt string) string {
	i := strings.Index(stmt, "'")
	if i < 0 {
		return ""
	}
	j := strings.Index(stmt[i+1:], "'")
	if j < 0 {
		return ""
	}
	return stmt[i+1 : i+1+j]
}

func (w *world) handler(n *vnode.Node, sc *vnode.ServerConn, rec *vnode.ReqRec) vnode.Reply {
	q, ok := rec.Req.Msg.(*frame.Query)
	if !ok {
		// heartbeat OPTIONS etc. are answered by vnode.Basic before we get here
		return vnode.Reply{Msg: frame.ResultVoid{}}
	}
	label := labelOf(q.Statement)
	_, hi := frame.StreamRange(rec.Req.Header.Version)
	if w.prop == "C01" {
		if rec.Stream < 1 || rec.Stream > hi {
			vs.Failf("c01:stream-id-out-of-range", "request %q sent with stream id %d (valid 1..%d)", label, rec.Stream, hi)
		}
		// wire-level monitor: an id must not be reused while an earlier request with that id is still owed its response
		for _, old := range n.Log[:rec.Seq] {
			if old.Conn == rec.Conn && old.Stream == rec.Stream && !old.Replied && old.Req != nil {
				if oq, ok := old.Req.Msg.(*frame.Query); ok {
					vs.Failf("c01:stream-id-reused-before-response", "stream id %d reused by %q at %v while request %q (received %v, fate %s) has not been answered on this open connection",
						rec.Stream, label, vs.Clock(), labelOf(oq.Statement), old.Time, old.Fate)
				}
			}
		}
	}
	fate := w.cfg.fates[vs.Choose(len(w.cfg.fates), vs.CostF)]
	w.fateOf[label] = fate
	rows := vnode.TextRows("t", label)
	switch fate {
	case "late":
		return vnode.Reply{Msg: rows, Delay: lateDelay}
	case "never":
		return vnode.Reply{Never: true}
	case "error":
		return vnode.Reply{Msg: &frame.Error{Code: 0x2200, Message: "invalid:" + label}}
	case "drop":
		return vnode.Reply{Drop: true}
	case "cuthdr":
		return vnode.Reply{Msg: rows, CutAt: 5}
	case "cutbody":
		return vnode.Reply{Msg: rows, CutAt: frame.HeaderSize(rec.Req.Header.Version) + 7}
	case "wrongver":
		// a well-formed response whose header carries another protocol version (same header layout): the caller
		// gets a protocol error, the connection stays usable and the id comes back
		enc, err := frame.Encode(&frame.Response{Version: rec.Req.Header.Version - 1, Stream: rec.Stream, Msg: rows})
		if err != nil {
			panic(err)
		}
		return vnode.Reply{Raw: enc.Bytes()}
	case "stallhdr":
		// the first byte of the response header, a pause longer than the request timeout, then the rest
		return vnode.Reply{Msg: rows, StallAt: 1, StallFor: lateDelay}
	case "stall":
		// The body arrives in two parts separated by a stall longer than the client keeps retrying the read.
		// The second part is, byte for byte, well-formed response frames for the stream ids in use: a client
		// that goes on reading frames after giving up on the body hands them to whoever holds those ids.
		var tail []byte
		ids := map[int]bool{}
		for _, old := range n.Log {
			if old.Conn == rec.Conn && old.Stream > 0 {
				ids[old.Stream] = true
			}
		}
		for s := 1; s <= hi && s <= 127; s++ {
			if s <= 8 || s >= 120 || ids[s] {
				enc, err := frame.Encode(&frame.Response{Version: rec.Req.Header.Version, Stream: s, Msg: vnode.TextRows("t", "stolen")})
				if err != nil {
					panic(err)
				}
				tail = append(tail, enc.Bytes()...)
			}
		}
		w.stallRow[label] = label + "|" + string(tail)
		enc, err := frame.Encode(&frame.Response{Version: rec.Req.Header.Version, Stream: rec.Stream, Msg: vnode.TextRows("t", w.stallRow[label])})
		if err != nil {
			panic(err)
		}
		raw := enc.Bytes()
		return vnode.Reply{Raw: raw, StallAt: len(raw) - len(tail), StallFor: stallFor}
	}
	return vnode.Reply{Msg: rows}
}

func (c *cfgT) faultPlan(hs int) vnet.FaultPlan {
	if c.writeFault == "" {
		return nil
	}
	return func(_ *vnet.Conn, idx, n int) []int {
		if idx < hs || n == 0 {
			return nil
		}
		if c.writeFault == "all" {
			cuts := make([]int, n)
			for i := range cuts {
				cuts[i] = i
			}
			return cuts
		}
		set := map[int]bool{}
		var cuts []int
		for _, k := range []int{0, 1, n / 2, n - 1} {
			if k >= 0 && k < n && !set[k] {
				set[k] = true
				cuts = append(cuts, k)
			}
		}
		return cuts
	}
}

func (c *cfgT) nops() int {
	n := 0
	for _, ops := range c.callers {
		n += len(ops)
	}
	return n
}

// handshakeBody: the handshake against a node that misbehaves at one step (free choice of step and
// fault): the dial must return - a connection or an error - within the connect timeout; after a failed
// dial the transport is closed and no goroutine of that connection survives.
func (c *cfgT) handshakeBody() {
	gocql.VerifResetGlobals()
	vatomic.Yield = false
	faults := []string{"none", "never", "drop", "cuthdr", "cutbody", "garbage", "error", "wrong-stream", "late"}
	step := vs.Choose(2, vs.Free) // 0: reply to OPTIONS, 1: reply to STARTUP
	fault := faults[vs.Choose(len(faults), vs.Free)]
	seen := 0
	node := vnode.New("n1", net.IPv4(10, 0, 0, 1), 9042, func(n *vnode.Node, sc *vnode.ServerConn, rec *vnode.ReqRec) vnode.Reply {
		var rep vnode.Reply
		switch rec.Req.Msg.(type) {
		case *frame.Options:
			rep = vnode.Reply{Msg: &frame.Supported{Options: []frame.KL{{Key: "CQL_VERSION", Values: []string{"3.4.5"}}}}}
		case *frame.Startup:
			rep = vnode.Reply{Msg: frame.Ready{}}
		default:
			return vnode.Reply{Msg: frame.ResultVoid{}}
		}
		mine := seen == step
		seen++
		if !mine {
			return rep
		}
		switch fault {
		case "never":
			return vnode.Reply{Never: true}
		case "drop":
			return vnode.Reply{Drop: true}
		case "cuthdr":
			rep.CutAt = 4
		case "cutbody":
			rep.CutAt = frame.HeaderSize(rec.Req.Header.Version) + 1
		case "garbage":
			rep.Raw = []byte{0x84, 0x00, 0x7f, 0xff, 0x63, 0x00, 0x00, 0x00, 0x02, 0xde, 0xad}
		case "error":
			rep.Msg = &frame.Error{Code: 0x0000, Message: "server error (scripted)"}
		case "wrong-stream":
			x := rec.Stream + 1
			rep.Stream = &x
		case "late":
			rep.Delay = lateDelay
		}
		return rep
	})
	var wlog []vnet.WriteRec
	client, server := vnet.Pipe("c0", &net.TCPAddr{IP: net.IPv4(10, 0, 0, 9), Port: 40000}, node.Addr)
	client.Log = &wlog
	node.AcceptSync(server)
	cluster := gocql.NewCluster("10.0.0.1")
	cluster.ProtoVersion = c.proto
	cluster.Timeout = reqTimeout
	if c.noTimeout {
		cluster.Timeout = 0
		cluster.WriteTimeout = reqTimeout
	}
	cluster.ConnectTimeout = reqTimeout
	cluster.WriteCoalesceWaitTime = 0
	t0 := vs.Clock()
	live, err := gocql.VerifDial(client, *cluster, !c.coalesce)
	took := vs.Clock() - t0
	_, dDev, _ := vs.Deviations()
	if dDev == 0 && took > reqTimeout+time.Millisecond {
		vs.Failf("c06:handshake:unbounded-wait", "dial returned after %v (connect timeout %v) with fault %s at step %d: %v", took, reqTimeout, fault, step, err)
	}
	if fault == "cutbody" && step == 1 {
		fault = "none" // READY has no body: nothing to cut, the whole frame is delivered
	}
	if err == nil && (fault == "never" || fault == "drop" || fault == "cuthdr" || fault == "cutbody" || fault == "garbage" || fault == "error" || fault == "wrong-stream") && dDev == 0 {
		vs.Failf("c06:handshake:succeeded-despite-fault", "dial succeeded although the node answered step %d with %s", step, fault)
	}
	if err == nil {
		live.Close()
	}
	vs.WaitQuiescent()
	if err != nil {
		if !client.Closed() {
			vs.Failf("c06:handshake:transport-left-open-after-failed-dial", "dial failed (%v) with fault %s at step %d but the transport was not closed", err, fault, step)
		}
	}
	var alive []string
	for _, t := range vs.LiveThreads() {
		if strings.Contains(t, "@gocql.") {
			alive = append(alive, t)
		}
	}
	if len(alive) > 0 {
		vs.Failf("c06:handshake:goroutine-survives", "after the dial returned (%v) with fault %s at step %d and quiescence, driver goroutines are still alive: %v", err, fault, step, alive)
	}
	vs.Observe("step=%d fault=%s -> %s", step, fault, gocql.VerifErrClass(err))
}

func (c *cfgT) body(prop string) {
	if c.handshake {
		c.handshakeBody()
		return
	}
	gocql.VerifResetGlobals()
	gocql.TimeoutLimit = c.timeoutLimit
	vatomic.Yield = false // the stream-id allocator's atomic steps are explored by C08
	w := &world{cfg: c, prop: prop, fateOf: map[string]string{}, stallRow: map[string]string{}}
	basic := vnode.Basic(w.handler)
	w.node = vnode.New("n1", net.IPv4(10, 0, 0, 1), 9042, func(n *vnode.Node, sc *vnode.ServerConn, rec *vnode.ReqRec) vnode.Reply {
		if _, ok := rec.Req.Msg.(*frame.Options); ok && sc.Ready && len(c.hbFates) > 0 {
			// the connection's heartbeat
			switch c.hbFates[vs.Choose(len(c.hbFates), vs.CostF)] {
			case "error":
				return vnode.Reply{Msg: &frame.Error{Code: 0x1001, Message: "overloaded (answer to the heartbeat)"}}
			case "never":
				return vnode.Reply{Never: true}
			}
		}
		return basic(n, sc, rec)
	})
	client, server := vnet.Pipe("c0", &net.TCPAddr{IP: net.IPv4(10, 0, 0, 9), Port: 40000}, w.node.Addr)
	client.Log = &w.wlog
	w.client = client
	if c.closeErr {
		client.CloseErr = fmt.Errorf("vnet: close failed")
	}
	w.node.AcceptSync(server)

	cluster := gocql.NewCluster("10.0.0.1")
	cluster.ProtoVersion = c.proto
	cluster.Timeout = reqTimeout
	if c.noTimeout {
		cluster.Timeout = 0
		cluster.WriteTimeout = reqTimeout
	}
	cluster.ConnectTimeout = reqTimeout
	cluster.WriteCoalesceWaitTime = 0
	if c.coalesce {
		cluster.WriteCoalesceWaitTime = coalesceWait
	}
	cluster.StreamObserver = observer{w}
	vs.Quiet(true)
	live, err := gocql.VerifDial(client, *cluster, !c.coalesce)
	if err != nil {
		vs.Quiet(false)
		vs.Failf("harness:handshake-failed", "handshake failed in the quiet prefix: %v", err)
		return
	}
	if c.freeIDs > 0 {
		w.reserved = live.NumStreams() - 1 - c.freeIDs
		if got := len(live.ReserveStreams(w.reserved)); got != w.reserved {
			vs.Failf("harness:setup", "reserved %d of %d ids", got, w.reserved)
		}
	}
	if prop == "C07" {
		w.wrecs = live.RecordWrites()
	}
	vs.Quiet(false)
	w.hsWrites = len(w.wlog)
	client.Faults = c.faultPlan(w.hsWrites)
	client.BlockWrite = c.blockWrite
	client.BlockPartial = c.blockPartial

	results := make(chan result, c.nops())
	ctxs := make([]context.Context, len(c.callers))
	cancels := make([]context.CancelFunc, len(c.callers))
	for i := range ctxs {
		ctxs[i], cancels[i] = context.WithCancel(context.Background())
	}
	bigVal := strings.Repeat("x", 300)
	// cancelOnSubmit: the cancelling thread exists from the start (low thread id: it runs as soon as its victim blocks) and
	// waits until the victim is about to submit the chosen op
	cancelGate := make(chan struct{}, 1)
	if c.canceller >= 0 && c.cancelOnSubmit {
		vs.GoNamed("canceller", func() {
			vs.Recv[struct{}](cancelGate)
			cancels[c.canceller]()
		})
	}
	for i, ops := range c.callers {
		i, ops := i, ops
		vs.GoNamed(fmt.Sprintf("caller%d", i), func() {
			for k, op := range ops {
				label := fmt.Sprintf("c%dq%d", i, k)
				if op == "L" {
					vs.Sleep(lateStart - vs.Clock())
				}
				if op == "m" { // a query submitted just after the first coalescing window closed
					vs.Sleep(coalesceWait + coalesceWait/2 - vs.Clock())
				}
				if op == "H" { // a query in flight when the first heartbeat (1s after connect) is sent
					vs.Sleep(950*time.Millisecond - vs.Clock())
				}
				if op == "M" { // a query submitted in the middle of a stall
					vs.Sleep(lateStart/2 - vs.Clock())
				}
				if i == c.canceller && c.cancelOnSubmit && k == c.cancelAtOp {
					vs.Send(cancelGate, struct{}{})
				}
				ctx := context.WithValue(ctxs[i], labelKey{}, label)
				r := result{label: label, op: op, start: vs.Clock()}
				switch op {
				case "b":
					r.err = live.ExecBuildFailure(ctx)
				default:
					stmt := "QUERYX '" + label + "'"
					if op == "Q" {
						stmt += " /* " + bigVal + " */"
					}
					it := live.Query(ctx, stmt).Iter()
					var s string
					for it.Scan(&s) {
						r.rows = append(r.rows, s)
					}
					r.err = it.Close()
				}
				r.end = vs.Clock()
				vs.Send(results, r)
			}
		})
	}
	if c.canceller >= 0 && !c.cancelOnSubmit {
		vs.GoNamed("canceller", func() { cancels[c.canceller]() })
	}
	closerDone := make(chan struct{}, 1)
	if c.closer {
		vs.GoNamed("closer", func() {
			live.C.Close()
			vs.Send(closerDone, struct{}{})
		})
	}
	var got []result
	for i := 0; i < c.nops(); i++ {
		got = append(got, vs.Recv[result](results))
	}
	if c.closer {
		vs.Recv[struct{}](closerDone)
	}
	vs.WaitQuiescent()

	var sig []string
	for _, r := range got {
		sig = append(sig, fmt.Sprintf("%s:%s/%s", r.label, w.fateOf[r.label], gocql.VerifErrClass(r.err)))
	}
	switch prop {
	case "C01":
		w.checkC01(got)
	case "C06":
		w.checkC06(got, live)
	case "C07":
		w.checkC07(got)
	}
	sort.Strings(sig)
	closed := ""
	if live.ConnClosed() {
		closed = " [conn closed]"
	}
	vs.Observe("%s%s", strings.Join(sig, " "), closed)
}

// ---------------------------------------------------------------------------------- C01

func (w *world) checkC01(got []result) {
	c := w.cfg
	for _, r := range got {
		cls := gocql.VerifErrClass(r.err)
		fate := w.fateOf[r.label]
		switch {
		case r.op == "b":
		case r.err == nil:
			want := r.label
			if fate == "stall" {
				// a stall cut short by a timer deviation is just a slow reply: the caller then gets its own (long) row
				want = w.stallRow[r.label]
			}
			if len(r.rows) != 1 || r.rows[0] != want {
				vs.Failf("c01:misdelivered-rows", "caller of %q received rows %.60q (fate %q)", r.label, r.rows, fate)
			}
			if fate != "" && fate != "reply" && fate != "late" && fate != "stall" && fate != "stallhdr" {
				vs.Failf("c01:rows-without-reply", "caller of %q received rows although the node's fate for it was %q", r.label, fate)
			}
		case cls == "server-error":
			if !strings.Contains(r.err.Error(), "invalid:"+r.label) {
				vs.Failf("c01:misdelivered-error", "caller of %q received a server error that is not its own: %v (fate %q)", r.label, r.err, fate)
			}
		case cls == "conn-closed" && c.stayOpen && fate == "reply":
			if _, dDev, _ := vs.Deviations(); dDev == 0 {
				vs.Failf("c01:response-lost:connection-closed-without-a-fault", "caller of %q got %v although the node answered it at once and nothing in this scenario ends the connection", r.label, r.err)
			}
		case cls == "timeout" && fate == "reply":
			// the node wrote the whole response the moment the request arrived: without a timer deviation nothing but the
			// driver losing the response can make the caller wait for its timeout
			if nr := w.nodeRec(r.label); nr != nil && nr.Replied && nr.ReplyAt == nr.Time {
				if _, dDev, _ := vs.Deviations(); dDev == 0 {
					vs.Failf("c01:response-lost:timeout-although-answered-at-once", "caller of %q got %v although the node answered the request the moment it arrived (at %v)", r.label, r.err, nr.Time)
				}
			}
		case fate == "wrongver" && strings.Contains(r.err.Error(), "unexpected protocol version"):
		case cls == "timeout", cls == "conn-closed", cls == "no-streams" && c.freeIDs > 0:
		case cls == "ctx-canceled":
			if c.canceller < 0 || !strings.HasPrefix(r.label, fmt.Sprintf("c%dq", c.canceller)) {
				vs.Failf("c01:spurious-cancel", "caller of %q got context.Canceled but its context was never cancelled", r.label)
			}
		case strings.HasPrefix(cls, "other:"):
			msg := r.err.Error()
			if !(strings.Contains(msg, "vnet:") || strings.Contains(msg, "EOF") || strings.Contains(msg, "closed")) {
				vs.Failf("c01:unexpected-error", "caller of %q got %v (fate %q)", r.label, r.err, fate)
			}
		default:
			vs.Failf("c01:unexpected-error", "caller of %q got %v (fate %q)", r.label, r.err, fate)
		}
	}
	ended := map[string]string{}
	for _, e := range w.events {
		switch e.kind {
		case "finished":
			if e.frameOnWire && !e.replied {
				vs.Failf("c01:stream-released-before-response", "StreamFinished for %q at %v although its frame is on the wire and the node has not answered it (fate %q)", e.label, e.at, w.fateOf[e.label])
			}
			fallthrough
		case "abandoned":
			if prev, dup := ended[e.label]; dup {
				vs.Failf("c01:stream-ended-twice", "stream of %q ended twice: %s then %s", e.label, prev, e.kind)
			}
			ended[e.label] = e.kind
		}
	}
	if len(w.node.FrameErrors) > 0 && c.writeFault == "" {
		vs.Failf("c01:node-frame-error", "node could not parse the client's bytes: %v", w.node.FrameErrors)
	}
}

// ---------------------------------------------------------------------------------- C06

func (w *world) wlogSummary() string {
	var b []string
	for _, r := range w.wlog[w.hsWrites:] {
		b = append(b, fmt.Sprintf("%s@%v wrote %d/%d %s", r.Thread, r.Time, len(r.Data), r.Asked, r.Err))
	}
	return strings.Join(b, "; ")
}

func (w *world) checkC06(got []result, live *gocql.VerifLive) {
	c := w.cfg
	// (a) exactly one outcome per request, from the allowed set, within bounded (virtual) time.
	// Reaching this point already means every caller and the closer returned: a blocked one is
	// reported by the scheduler as a deadlock with the blocked threads.
	seen := map[string]bool{}
	for _, r := range got {
		if seen[r.label] {
			vs.Failf("c06:two-outcomes", "request %q completed twice", r.label)
		}
		seen[r.label] = true
		cls := gocql.VerifErrClass(r.err)
		ok := false
		switch {
		case cls == "ok", cls == "server-error", cls == "timeout", cls == "conn-closed", cls == "ctx-canceled", cls == "ctx-deadline":
			ok = true
		case cls == "no-streams":
			ok = c.freeIDs > 0
		case strings.HasPrefix(cls, "other:"):
			msg := r.err.Error()
			// any error that closed the connection is the "connection closed" outcome
			ok = strings.Contains(msg, "vnet:") || strings.Contains(msg, "EOF") || strings.Contains(msg, "closed") ||
				(r.op == "b" && strings.Contains(msg, "frame build failure")) || live.ConnClosed() ||
				(w.fateOf[r.label] == "wrongver" && strings.Contains(msg, "unexpected protocol version"))
		}
		if !ok {
			vs.Failf("c06:unexpected-outcome", "request %q (op %s, fate %q) ended with %v", r.label, r.op, w.fateOf[r.label], r.err)
		}
		// bounded time: request timeout + write timeout (+ coalescing window); nothing else may be waited for.
		// Only meaningful when no timer was fired early: a clock deviation models the thread being descheduled
		// for that long, which no code can bound.
		limit := reqTimeout + reqTimeout + coalesceWait + time.Millisecond
		if _, dDev, _ := vs.Deviations(); dDev == 0 && !c.noTimeout && r.end-r.start > limit { // (without a request timeout only events end a request)
			d := r.end - r.start
			vs.Failf("c06:unbounded-wait", "request %q (fate %q) returned %v after it was submitted (limit %v): %v", r.label, w.fateOf[r.label], d, limit, r.err)
		}
	}
	// (b) stream observer: per started stream at most one end, never both kinds
	started := map[string]int{}
	ended := map[string][]string{}
	for _, e := range w.events {
		switch e.kind {
		case "started":
			started[e.label]++
		case "finished", "abandoned":
			ended[e.label] = append(ended[e.label], e.kind)
		}
	}
	for l, ends := range ended {
		if len(ends) > 1 {
			vs.Failf("c06:stream-ended-twice", "stream of %q ended %v", l, ends)
		}
		if started[l] == 0 {
			vs.Failf("c06:stream-ended-without-start", "stream of %q ended (%v) without StreamStarted", l, ends)
		}
	}
	// (c) stream accounting at quiescence on an open connection: every id is available except the
	// reserved ones and those of requests whose frame reached the node and is still unanswered.
	if !live.ConnClosed() {
		owed := 0
		for _, r := range w.node.Log {
			if r.Req == nil {
				continue
			}
			if _, isQ := r.Req.Msg.(*frame.Query); isQ && !r.Replied {
				owed++
			}
			// a heartbeat OPTIONS the node chose not to answer holds its id like any other request
			if _, isO := r.Req.Msg.(*frame.Options); isO && !r.Replied && r.Fate == "never" {
				owed++
			}
		}
		want := live.NumStreams() - 1 - w.reserved - owed
		if gotAvail := live.AvailableStreams(); gotAvail != want {
			vs.Failf("c06:stream-accounting", "open connection at quiescence: AvailableStreams()=%d, want %d (%d ids, %d reserved by the harness, %d requests still owed a response); outstanding calls=%d",
				gotAvail, want, live.NumStreams()-1, w.reserved, owed, live.OutstandingCalls())
		}
		if oc := live.OutstandingCalls(); oc != owed {
			vs.Failf("c06:call-table-leak", "open connection at quiescence: %d entries in the call table, %d requests owed a response; client writes: %s", oc, owed, w.wlogSummary())
		}
		for l, n := range started {
			if len(ended[l]) == 0 && n > 0 {
				if r := w.nodeRec(l); r == nil || r.Replied {
					vs.Failf("c06:stream-never-ended", "stream of %q started, its response arrived or its frame never reached the node, yet neither StreamFinished nor StreamAbandoned was called", l)
				}
			}
		}
	} else {
		// closed connection: the transport must be closed and every waiting caller was released (they all returned)
		if !w.client.Closed() {
			vs.Failf("c06:transport-left-open", "connection reports closed but the transport was never closed")
		}
	}
	if live.AvailableStreams() < 0 {
		vs.Failf("c06:negative-streams", "AvailableStreams()=%d", live.AvailableStreams())
	}
}

// ---------------------------------------------------------------------------------- C07

func (w *world) checkC07(got []result) {
	// the byte stream written after the handshake
	var stream []byte
	partialSeen := false
	for _, r := range w.wlog[w.hsWrites:] {
		if partialSeen && len(r.Data) > 0 {
			vs.Failf("c07:write-after-partial-write", "after a partial write, %d more bytes were written on the connection by %s at %v (first bytes % x)", len(r.Data), r.Thread, r.Time, r.Data[:min(len(r.Data), 12)])
		}
		if r.Err != "" && len(r.Data) > 0 && len(r.Data) < r.Asked {
			partialSeen = true
		}
		stream = append(stream, r.Data...)
	}
	// parse into frames
	type fr struct {
		label string
		op    byte
	}
	var frames []fr
	rest := stream
	hs := frame.HeaderSize(w.cfg.proto)
	for len(rest) >= hs {
		h, _, err := frame.ParseHeader(rest[:hs])
		if err != nil || h.Response || h.Version != w.cfg.proto {
			vs.Failf("c07:garbled-stream", "byte stream is not a sequence of request frames at offset %d: % x (%v)", len(stream)-len(rest), rest[:hs], err)
			return
		}
		if h.Length < 0 || h.Length > 1<<24 {
			vs.Failf("c07:garbled-stream", "byte stream is not a sequence of request frames at offset %d: implausible length %d in header % x", len(stream)-len(rest), h.Length, rest[:hs])
			return
		}
		if len(rest) < hs+int(h.Length) {
			break
		}
		req, err := frame.DecodeRequestBody(h, rest[hs:hs+int(h.Length)])
		if err != nil {
			vs.Failf("c07:garbled-stream", "frame at offset %d does not decode: %v", len(stream)-len(rest), err)
			return
		}
		f := fr{op: h.Op}
		if q, ok := req.Msg.(*frame.Query); ok {
			f.label = labelOf(q.Statement)
		}
		frames = append(frames, f)
		rest = rest[hs+int(h.Length):]
	}
	if len(rest) > 0 && !w.client.Closed() {
		vs.Failf("c07:torn-frame-on-open-connection", "the byte stream ends with %d bytes of an incomplete frame but the connection was not closed", len(rest))
	}
	count := map[string]int{}
	for _, f := range frames {
		if f.label != "" {
			count[f.label]++
		}
	}
	for l, n := range count {
		if n > 1 {
			vs.Failf("c07:frame-written-twice", "the frame of %q appears %d times", l, n)
		}
	}
	for _, r := range got {
		if r.op == "b" {
			continue
		}
		cls := gocql.VerifErrClass(r.err)
		whole := count[r.label] == 1
		// a caller that got past the write (response, server error, timeout waiting for the response) was told its write succeeded
		if (cls == "ok" || cls == "server-error" || cls == "timeout") && !whole {
			vs.Failf("c07:success-without-whole-frame", "request %q ended with %q, i.e. its write was reported successful, but its whole frame is not in the byte stream", r.label, cls)
		}
	}
	// what each request was told about its write (recorded at the contextWriter seam) against the wire
	if w.wrecs != nil {
		for _, wr := range *w.wrecs {
			label := ""
			if i := bytes.Index(wr.Data, []byte("QUERYX '")); i >= 0 {
				label = labelOf(string(wr.Data[i:]))
			}
			if wr.CtxEndedAtEntry && label != "" && bytes.Contains(stream, []byte("'"+label+"'")) {
				vs.Failf("c07:bytes-written-for-a-request-whose-context-had-already-ended", "the context of %q had ended before its write began, yet its frame is in the byte stream (write returned n=%d err=%v)", label, wr.N, wr.Err)
			}
			switch {
			case wr.Err == nil:
				if !bytes.Contains(stream, wr.Data) {
					vs.Failf("c07:write-reported-successful-but-frame-not-on-wire", "the write of %q (%d bytes) returned success but its whole frame is not in the byte stream; client writes: %s", label, len(wr.Data), w.wlogSummary())
				}
			case wr.N == 0 && wr.Ctx:
				// "a request whose context ended before writing began leaves no bytes"
				if label != "" && bytes.Contains(stream, []byte("'"+label+"'")) {
					vs.Failf("c07:bytes-on-wire-after-write-reported-not-started", "the write of %q returned (0, %v), i.e. nothing was written, yet its frame is in the byte stream; client writes: %s", label, wr.Err, w.wlogSummary())
				}
			}
		}
	}
	// a request cancelled before writing began leaves no bytes: a frame never reported as started to write
	// cannot be partially present; partial presence is only ever the single torn tail checked above.
	if n := bytes.Count(stream, []byte("QUERYX '")); n > len(count)+1 {
		vs.Failf("c07:stray-bytes", "found %d request bodies in the stream but only %d whole frames (+ at most one torn tail)", n, len(count))
	}
}

func min(a, b int) int {
	if a < b {
		return a
	}
	return b
}

// ---------------------------------------------------------------------------------- driver

func (c *cfgT) build(prop string) func() *vs.Scenario {
	return func() *vs.Scenario {
		hz := 700 * time.Millisecond
		for _, f := range c.fates {
			if f == "stall" || f == "stallhdr" {
				hz = 5 * time.Second // a stall that starts after timer deviations still ends inside the horizon
			}
		}
		if c.heartbeat {
			hz = 1300 * time.Millisecond
		}
		return &vs.Scenario{Name: c.name, Cfg: vs.Config{MaxSteps: 30000, Horizon: hz, DelayBounded: true}, Body: func() { c.body(prop) }}
	}
}

func q(n int) []string {
	out := make([]string, n)
	for i := range out {
		out[i] = "q"
	}
	return out
}

func connScenarios() []*cfgT {
	all := []string{"reply", "late", "never", "error", "drop"}
	rln := []string{"reply", "late", "never"}
	return []*cfgT{
		// C01
		{name: "v2-2x2-free2-fates", props: "C01 C06", proto: 2, callers: [][]string{q(2), q(2)}, freeIDs: 2, canceller: -1, fates: all, t: [2]int{3, 4}},
		{name: "v2-2x2-free2-cancel", props: "C01 C06", proto: 2, callers: [][]string{q(2), q(2)}, freeIDs: 2, canceller: 0, fates: rln, t: [2]int{3, 4}},
		{name: "v2-3x1-free2-writefault", props: "C01", proto: 2, callers: [][]string{q(1), q(1), q(1)}, freeIDs: 2, canceller: -1, writeFault: "some", fates: []string{"reply", "late"}, t: [2]int{2, 4}},
		{name: "v4-2x2-fates", props: "C01", proto: 4, callers: [][]string{q(2), q(2)}, canceller: -1, fates: all, t: [2]int{2, 4}},
		{name: "v2-2x2-free2-coalesce", props: "C01", proto: 2, callers: [][]string{q(2), q(2)}, freeIDs: 2, canceller: -1, coalesce: true, fates: rln, t: [2]int{2, 4}},
		{name: "v2-2x2-free2-coalesce-cancel", props: "C01 C06", proto: 2, callers: [][]string{q(2), q(2)}, freeIDs: 2, canceller: 0, coalesce: true, fates: rln, t: [2]int{2, 4}},
		{name: "v2-1+1-free1-coalesce-cancel-deep", props: "C01 C06", proto: 2, callers: [][]string{q(1), q(1)}, freeIDs: 1, canceller: 0, coalesce: true, fates: []string{"reply", "late"}, t: [2]int{4, 6}},
		{name: "v4-stalled-body-late-caller", props: "C01 C06", proto: 4, callers: [][]string{q(1), {"L"}}, canceller: -1, fates: []string{"reply", "stall", "late"}, t: [2]int{2, 3}},
		{name: "v4-stalled-body-write-error", props: "C06", proto: 4, callers: [][]string{q(1), {"M"}}, canceller: -1, writeFault: "some", fates: []string{"reply", "stall"}, t: [2]int{2, 3}},
		{name: "v4-stalled-body-write-error-no-request-timeout", props: "C06", proto: 4, callers: [][]string{q(1), {"M"}}, canceller: -1, writeFault: "some", noTimeout: true, fates: []string{"reply", "stall"}, t: [2]int{2, 3}},
		{name: "v4-2x2-response-with-another-version", props: "C01 C06", proto: 4, callers: [][]string{q(2), q(2)}, canceller: -1, fates: []string{"reply", "wrongver", "late"}, t: [2]int{2, 3}},
		{name: "v4-stalled-header-late-caller", props: "C01 C06", proto: 4, callers: [][]string{q(1), {"L"}}, canceller: -1, stayOpen: true, fates: []string{"reply", "stallhdr"}, t: [2]int{2, 3}},
		{name: "v4-heartbeat-answered-with-error", props: "C01 C06", proto: 4, callers: [][]string{{"H"}, {"H"}}, canceller: -1, heartbeat: true, hbFates: []string{"supported", "error", "never"}, fates: []string{"late", "reply", "never"}, t: [2]int{2, 3}},
		{name: "v2-stalled-body-late-caller-free2", props: "C01 C06", proto: 2, callers: [][]string{q(2), {"L"}}, freeIDs: 2, canceller: -1, fates: []string{"reply", "stall"}, t: [2]int{2, 3}},
		{name: "v2-3x2-free1-late", props: "C01", proto: 2, callers: [][]string{q(2), q(2), q(2)}, freeIDs: 1, canceller: -1, fates: rln, t: [2]int{2, 4}},
		// C06
		{name: "v4-buildfail-cancel", props: "C06", proto: 4, callers: [][]string{{"b", "q"}, {"q", "b"}}, canceller: 1, fates: rln, t: [2]int{3, 4}},
		{name: "v2-buildfail-free1", props: "C06", proto: 2, callers: [][]string{{"b", "q"}, {"q", "q"}}, freeIDs: 1, canceller: -1, fates: rln, t: [2]int{2, 3}},
		{name: "v2-buildfail-free2-3callers", props: "C06", proto: 2, callers: [][]string{{"b", "b"}, {"q"}, {"q", "b"}}, freeIDs: 2, canceller: -1, fates: []string{"reply", "late"}, t: [2]int{2, 3}},
		{name: "v4-timeoutlimit1", props: "C06", proto: 4, callers: [][]string{q(2), q(1)}, canceller: -1, timeoutLimit: 1, fates: []string{"never", "reply", "late"}, t: [2]int{2, 3}},
		{name: "v4-closer-2x2", props: "C06", proto: 4, callers: [][]string{q(2), q(2)}, canceller: -1, closer: true, fates: rln, t: [2]int{3, 4}},
		{name: "v4-closer-coalesce", props: "C06", proto: 4, callers: [][]string{q(2), q(1)}, canceller: -1, closer: true, coalesce: true, fates: rln, t: [2]int{2, 4}},
		{name: "v4-node-cuts-reply", props: "C06", proto: 4, callers: [][]string{q(2), q(1)}, canceller: -1, fates: []string{"reply", "cuthdr", "cutbody", "drop", "late"}, t: [2]int{3, 4}},
		{name: "v4-writefault-closeerr", props: "C06", proto: 4, callers: [][]string{q(1), q(1), q(1)}, canceller: -1, writeFault: "some", blockWrite: true, closeErr: true, fates: []string{"reply", "late"}, t: [2]int{2, 3}},
		{name: "v4-writefault-coalesce", props: "C06", proto: 4, callers: [][]string{q(1), q(1), q(1)}, canceller: -1, writeFault: "some", coalesce: true, fates: []string{"reply", "late"}, t: [2]int{2, 3}},
		{name: "v2-exhaustion-3x1-free2", props: "C06", proto: 2, callers: [][]string{q(2), q(2), q(2)}, freeIDs: 2, canceller: -1, fates: rln, t: [2]int{2, 3}},
		{name: "v4-handshake-faults", props: "C06", proto: 4, handshake: true, canceller: -1, t: [2]int{2, 3}},
		{name: "v2-handshake-faults", props: "C06", proto: 2, handshake: true, canceller: -1, t: [2]int{1, 2}},
		{name: "v4-heartbeat-2x1", props: "C06", proto: 4, callers: [][]string{q(1), q(1)}, canceller: -1, heartbeat: true, fates: []string{"reply", "never", "drop"}, t: [2]int{2, 3}},
		// C07
		{name: "w-direct-3-sizes", props: "C07", proto: 4, callers: [][]string{{"q"}, {"Q"}, {"q", "Q"}}, canceller: 1, writeFault: "some", fates: []string{"reply"}, t: [2]int{2, 3}},
		{name: "w-coalesce-3-sizes", props: "C07", proto: 4, callers: [][]string{{"q"}, {"Q"}, {"q", "Q"}}, canceller: 1, writeFault: "some", coalesce: true, fates: []string{"reply"}, t: [2]int{2, 3}},
		{name: "w-direct-every-offset", props: "C07", proto: 4, callers: [][]string{{"q"}, {"q"}}, canceller: -1, writeFault: "all", fates: []string{"reply"}, t: [2]int{3, 4}},
		{name: "w-coalesce-every-offset", props: "C07", proto: 4, callers: [][]string{{"q"}, {"q"}, {"q"}}, canceller: -1, writeFault: "all", coalesce: true, fates: []string{"reply"}, t: [2]int{2, 3}},
		{name: "w-direct-blocked-mid-frame-3-writers", props: "C07", proto: 4, callers: [][]string{{"q"}, {"q"}, {"q"}}, canceller: 1, writeFault: "some", blockWrite: true, blockPartial: true, fates: []string{"reply"}, t: [2]int{2, 3}},
		{name: "w-coalesce-cancel-in-second-window", props: "C07", proto: 4, callers: [][]string{{"q"}, {"m"}}, canceller: 1, cancelOnSubmit: true, coalesce: true, fates: []string{"reply"}, t: [2]int{2, 3}},
		{name: "w-coalesce-blocked-single-frame-window", props: "C07", proto: 4, callers: [][]string{{"q"}, {"m"}}, canceller: -1, writeFault: "some", blockWrite: true, blockPartial: true, coalesce: true, fates: []string{"reply"}, t: [2]int{2, 3}},
		{name: "w-direct-blocked-write", props: "C07", proto: 2, callers: [][]string{{"q", "q"}, {"Q"}}, canceller: 0, writeFault: "some", blockWrite: true, fates: []string{"reply", "late"}, t: [2]int{2, 3}},
	}
}

func connDefs(prop string) []mcreport.Def {
	var defs []mcreport.Def
	for _, c := range connScenarios() {
		if !strings.Contains(c.props, prop) {
			continue
		}
		c := c
		b := func(t int) vs.Bounds { return vs.Bounds{P: t, D: t, F: t, T: t} }
		qt := c.t[0]
		if prop != "C01" && strings.Contains(c.props, "C01") && qt > 2 && !strings.HasSuffix(c.name, "-deep") {
			qt = 2 // scenarios shared with C01 are explored deeper there
		}
		defs = append(defs, mcreport.Def{Name: c.name, Build: c.build(prop), Quick: b(qt), Thorough: b(c.t[1])})
	}
	return defs
}

const connRule = "delay-bounded exhaustive exploration: every execution of the listed one-connection scenarios on the instrumented real Conn that departs at most T times from the deterministic default schedule (P: another thread or select case runs; D: a timer fires while threads are runnable; F: a non-default environment answer - node fate reply/late/never/error/drop/cut-mid-header/cut-mid-body, client write cut short at an enumerated offset or blocked to the deadline); happens-before state caching; distinct = distinct per-caller outcome signatures"

var connAssume = []string{
	"one connection, 2-3 callers with 1-2 sequential requests each; request and write timeout 100ms, late replies after 150ms; virtual time",
	"stream-allocator atomics are not scheduling points here (explored exhaustively by C08); map iteration order is fixed (sorted) by the instrumenter",
	"plain (non-atomic, lock-free) memory accesses are not scheduling points; unsynchronised races are looked for by the separate free-running -race pass",
}
