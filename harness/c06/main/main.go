package main

import (
	"time"

	"verif/engine/mcreport"
)

func main() {
	mcreport.Main("C06", "model_checking", connRule, connAssume, connDefs("C06"), 75*time.Second, 25*time.Minute, nil)
}
