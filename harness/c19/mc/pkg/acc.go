//go:build verif

package gocql

// In-package accessor for the controlled-scheduler part of C19 (no logic of its own):
// the process-wide clock sequence must start from a chosen value in every explored
// execution (it is package state that outlives an execution).
func VerifC19SetClockSeq(v uint32) { clockSeq = v }

// VerifC19ClockSeq reads the counter (all threads are parked when the harness calls it).
func VerifC19ClockSeq() uint32 { return clockSeq }
