// C19, controlled-scheduler part: time-UUIDs generated concurrently in one process are
// pairwise distinct. 3 threads x 2 calls of UUIDFromTime(t) with the SAME t (the worst
// case: nothing but the clock sequence tells them apart), of TimeUUID() under the frozen
// virtual clock, and a mix of both. uuid.go's clock sequence is advanced with sync/atomic;
// the instrumenter maps every atomic operation onto a scheduling point, and ALL interleavings
// of these points are explored (no preemption bound).
package main

import (
	"fmt"
	"time"

	"github.com/gocql/gocql"

	"verif/engine/mcreport"
	vs "verif/engine/vsched"
	"verif/engine/vsched/vatomic"
)

const (
	maxThreads = 4
	nCalls     = 2
)

// 100 ns ticks between 1582-10-15 and 1970-01-01 (RFC 4122), written out independently of gocql
const gregorianToUnix100ns = 0x01B21DD213814000

// start values of the clock sequence: a small one, one whose 14-bit field wraps inside the run,
// one whose 16-bit initial range ends inside the run, one whose 32-bit counter wraps inside the run
var starts = []uint32{7, 0x3FFD, 0xFFFD, 0xFFFFFFFD}

type gen struct {
	name     string
	nThreads int
	// which generator thread i uses for its k-th call: 'F' UUIDFromTime(t), 'N' TimeUUID()
	plan [maxThreads][nCalls]byte
	// preemption bound per tier (-1: all interleavings)
	p [2]int
}

var execNo int64

func (g *gen) body() {
	gocql.VerifResetGlobals()
	vatomic.Yield = true
	start := starts[vs.Choose(len(starts), vs.Free)]
	gocql.VerifC19SetClockSeq(start)
	// the instant: the (frozen) virtual now; UUIDFromTime gets exactly this instant plus 57 ns
	// (inside the same 100 ns tick), TimeUUID reads the virtual clock itself
	now := vs.Now()
	// Every execution of a worker process uses a LATER instant for UUIDFromTime than all executions before it, as wall-clock
	// time would: process-wide generator state the harness does not know about (and therefore cannot reset) then looks at
	// the first call of every execution the way it does in a fresh process - "the time moved forward since the last UUID".
	execNo++
	t := now.Add(time.Duration(execNo)*time.Second + 57*time.Nanosecond)
	nThreads := g.nThreads
	var out [maxThreads][nCalls]gocql.UUID
	done := make(chan int, maxThreads)
	for i := 0; i < nThreads; i++ {
		i := i
		vs.GoNamed(fmt.Sprintf("gen%d", i), func() {
			for k := 0; k < nCalls; k++ {
				if g.plan[i][k] == 'N' {
					out[i][k] = gocql.TimeUUID()
				} else {
					out[i][k] = gocql.UUIDFromTime(t)
				}
			}
			vs.Send(done, i)
		})
	}
	for i := 0; i < nThreads; i++ {
		vs.Recv[int](done)
	}
	vs.WaitQuiescent()

	// ---- oracle
	instantOf := func(kind byte) (int64, time.Time) {
		at := now
		if kind == 'F' {
			at = t
		}
		return at.Unix()*1e7 + int64(at.Nanosecond()/100) + gregorianToUnix100ns, time.Unix(at.Unix(), int64(at.Nanosecond()/100*100)).UTC()
	}
	seen := map[gocql.UUID]string{}
	sig := ""
	for i := 0; i < nThreads; i++ {
		for k := 0; k < nCalls; k++ {
			u := out[i][k]
			wantTS, wantTime := instantOf(g.plan[i][k])
			who := fmt.Sprintf("gen%d call %d (%c)", i, k, g.plan[i][k])
			if prev, dup := seen[u]; dup {
				vs.Failf("c19:concurrent-time-uuids-not-distinct", "%s and %s both got %v (clock sequence started at %#x, same instant %v)", prev, who, u, start, t)
			}
			seen[u] = who
			if u[6]>>4 != 1 || u.Version() != 1 {
				vs.Failf("c19:concurrent:version-not-1", "%s: %v has version nibble %d / Version() %d", who, u, u[6]>>4, u.Version())
			}
			if u[8]&0xC0 != 0x80 || u.Variant() != gocql.VariantIETF {
				vs.Failf("c19:concurrent:variant-not-rfc4122", "%s: %v has byte 8 = %#x / Variant() %d", who, u, u[8], u.Variant())
			}
			ts := int64(u[6]&0x0F)<<56 | int64(u[7])<<48 | int64(u[4])<<40 | int64(u[5])<<32 | int64(u[0])<<24 | int64(u[1])<<16 | int64(u[2])<<8 | int64(u[3])
			if ts != wantTS || u.Timestamp() != wantTS {
				vs.Failf("c19:concurrent:timestamp", "%s: %v carries timestamp %d / Timestamp() %d, want %d", who, u, ts, u.Timestamp(), wantTS)
			}
			if !u.Time().Equal(wantTime) {
				vs.Failf("c19:concurrent:time", "%s: %v .Time() = %v, want %v", who, u, u.Time(), wantTime)
			}
			sig += fmt.Sprintf("%d", (uint32(u[8]&0x3F)<<8|uint32(u[9])-start)&0x3FFF)
		}
	}
	// (how far the clock sequence advanced is not judged: the property demands distinct UUIDs, not one bump per call)
	// outcome signature: which (thread, call) got which clock value, relative to the start
	vs.Observe("start=%#x clocks=%s", start, sig)
}

func main() {
	gens := []*gen{
		{name: "UUIDFromTime-same-instant-3x2", nThreads: 3, plan: [maxThreads][nCalls]byte{{'F', 'F'}, {'F', 'F'}, {'F', 'F'}}, p: [2]int{-1, -1}},
		{name: "TimeUUID-frozen-clock-3x2", nThreads: 3, plan: [maxThreads][nCalls]byte{{'N', 'N'}, {'N', 'N'}, {'N', 'N'}}, p: [2]int{-1, -1}},
		{name: "mixed-TimeUUID-UUIDFromTime-3x2", nThreads: 3, plan: [maxThreads][nCalls]byte{{'F', 'N'}, {'N', 'F'}, {'N', 'N'}}, p: [2]int{-1, -1}},
		// 4 threads: preemption-bounded in the quick tier, all interleavings in the thorough tier
		{name: "mixed-TimeUUID-UUIDFromTime-4x2", nThreads: 4, plan: [maxThreads][nCalls]byte{{'F', 'N'}, {'N', 'F'}, {'N', 'N'}, {'F', 'F'}}, p: [2]int{2, -1}},
	}
	var defs []mcreport.Def
	for _, g := range gens {
		g := g
		defs = append(defs, mcreport.Def{Name: g.name, Quick: vs.Bounds{P: g.p[0], D: -1, F: -1}, Thorough: vs.Bounds{P: g.p[1], D: -1, F: -1}, Build: func() *vs.Scenario {
			return &vs.Scenario{Name: g.name, Cfg: vs.Config{MaxSteps: 5000}, Body: g.body}
		}})
	}
	mcreport.Main("C19", "exploration",
		"controlled-scheduler part: ALL interleavings (preemption bounding with P unbounded, happens-before state caching) of 3 threads x 2 calls (and 4 x 2: preemption bound 2 in the quick tier, unbounded in the thorough tier) generating time-UUIDs for the same instant on the instrumented real uuid.go (every sync/atomic operation is a scheduling point): UUIDFromTime(t) with one t, TimeUUID() under the frozen virtual clock, and a mix; x 4 start values of the process-wide clock sequence (free choice: small, 14-bit wrap inside the run, 16-bit and 32-bit wrap inside the run); oracle: the 6 (8) UUIDs pairwise distinct, version 1, RFC 4122 variant, timestamp field and Time() = the instant to 100 ns; distinct = distinct assignments of clock values to (thread, call)",
		[]string{"3 (4) generator threads x 2 calls; one process-wide clock sequence, reset to the chosen start per execution; virtual clock frozen (no timer exists, so it never advances)",
			"a NON-atomic read-modify-write of the clock sequence has no scheduling point and is outside this part (native -race pass); a 14-bit wrap needs 16 384 UUIDs inside one 100 ns tick and is out of bounds"},
		defs, 60*time.Second, 5*time.Minute, nil)
}
