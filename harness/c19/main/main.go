// Worker of check C19 (UUIDs). Sequential, bounded-exhaustive part ("mode B").
//
// Each sub-suite is a func(*report.Run); the controlled-scheduler sub-suite for the
// "concurrently generated time-UUIDs are pairwise distinct" clause is added to `suites`
// by the lead (see NOTES.md for which clauses are decided here).
package main

import (
	"fmt"
	"os"
	"runtime/debug"
	"sync"

	"verif/engine/report"
)

type suite struct {
	name string
	fn   func(r *report.Run)
}

var suites = []suite{
	{"print-parse", suitePrintParse},
	{"parser-mutations", suiteParserMutations},
	{"time-roundtrip", suiteTimeRoundTrip},
	{"random-uuid", suiteRandomUUID},
	{"min-max-bound", suiteMinMax},
}

func main() {
	r := report.New("C19", "exploration")
	r.SetRule("nested loops over stated finite sets, all enumerated completely: " +
		"(1) UUID values: every byte from {00,01,7f,80,ff} at <=2 of 16 positions over fills {00,ff,5a} -> String/MarshalText/MarshalJSON then ParseUUID/UnmarshalText/UnmarshalJSON/encoding-json; " +
		"(2) strings: 8 base forms x {every single insertion, deletion, substitution of one of '-','g','G','/',':','@','`',' ','é',0xff,'０', insertion of a hex digit (33 digits), deletion (31 digits), every pair of hyphen insertions} at every position + fixed odd strings, through 3 parser entry points; " +
		"(3) 60-bit timestamps: 0, every single bit, every pair of bits, all-ones, 2^32(+-1), 2^48(+-1), 2^60-1, calendar instants 1582-10-15..5236 x clock values x node values x sub-tick nanoseconds x locations through TimeUUIDWith/UUIDFromTime/MinTimeUUID/MaxTimeUUID and Timestamp()/Time(); " +
		"(4) RandomUUID with crypto/rand.Reader replaced by a byte source: all 2^16 values of bytes 6 and 8 x fills; " +
		"(5) Min/MaxTimeUUID(t) against every RFC 4122 v1 UUID of instant t with byte 8 in 0x80..0xBF (all 64) and bytes 9..15 from {00,01,7f,80,ff} (all 5^7 for a few instants, <=2 positions x 3 fills for every instant of (3)) under two ports of Cassandra's TimeUUIDType order. " +
		"A case is distinct by (suite, input); non-trivial = reached the value oracle (parser accepted / call returned).")
	r.Assume(
		"the full 2^60 timestamp space and the full 2^128 value space are not enumerated: the packing is bitwise, one-/two-hot and boundary timestamps exercise every shift and mask",
		"parser oracle is one-directional (accepted => member of the admitted set and value == digits); 'optional separating hyphens' is read in the most permissive way: any number of '-' anywhere, exactly 32 hex digits, nothing else",
		"Cassandra's TimeUUIDType order is taken from the port in verif/engine/refcass2 (3.0+ compareCustom and 2.0 compare, cross-checked against each other on every pair compared)",
		"uniqueness of concurrently generated time-UUIDs is decided by a separate controlled-scheduler sub-suite, not here; 14-bit clock-sequence wrap within one 100ns tick is out of bounds",
	)
	for _, s := range suites {
		runSuite(r, s)
	}
	os.Exit(r.Finish(true))
}

func runSuite(r *report.Run, s suite) {
	defer func() {
		if p := recover(); p != nil {
			r.Violation("panic:suite:"+s.name, fmt.Sprintf("panic escaped suite %s: %v\n%s", s.name, p, debug.Stack()), s.name)
		}
	}()
	s.fn(r)
}

// guard runs f and converts a panic of the code under test into a violation.
func guard(r *report.Run, site string, replay interface{}, f func()) (ok bool) {
	defer func() {
		if p := recover(); p != nil {
			ok = false
			r.Violation("panic:"+site, fmt.Sprintf("%v\n%s", p, debug.Stack()), replay)
		}
	}()
	f()
	return true
}

var alphabet = []byte{0x00, 0x01, 0x7f, 0x80, 0xff}

// sample records at most two samples per sub-suite so that the evidence shows every suite.
var (
	sampleMu sync.Mutex
	sampleN  = map[string]int{}
)

func sample(r *report.Run, suite string, v map[string]interface{}) {
	sampleMu.Lock()
	defer sampleMu.Unlock()
	if sampleN[suite] >= 2 {
		return
	}
	sampleN[suite]++
	v["suite"] = suite
	r.Sample(v)
}
