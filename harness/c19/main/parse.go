package main

import (
	"encoding/json"
	"fmt"
	"strings"

	"github.com/gocql/gocql"
	"verif/engine/report"
)

// refParse is the independent reference for the admitted string set of the property:
// "exactly 32 hex digits plus optional separating hyphens". Most permissive reading: every
// byte is a hex digit or '-', and there are exactly 32 hex digits. value = the digits in order.
func refParse(s string) (u [16]byte, member bool) {
	n := 0
	for i := 0; i < len(s); i++ {
		c := s[i]
		var v byte
		switch {
		case c == '-':
			continue
		case c >= '0' && c <= '9':
			v = c - '0'
		case c >= 'a' && c <= 'f':
			v = c - 'a' + 10
		case c >= 'A' && c <= 'F':
			v = c - 'A' + 10
		default:
			return [16]byte{}, false
		}
		if n >= 32 {
			return [16]byte{}, false
		}
		if n%2 == 0 {
			u[n/2] = v << 4
		} else {
			u[n/2] |= v
		}
		n++
	}
	if n != 32 {
		return [16]byte{}, false
	}
	return u, true
}

// canonical is RFC 4122's textual form, written independently of UUID.String.
func canonical(u [16]byte) string {
	return fmt.Sprintf("%02x%02x%02x%02x-%02x%02x-%02x%02x-%02x%02x-%02x%02x%02x%02x%02x%02x",
		u[0], u[1], u[2], u[3], u[4], u[5], u[6], u[7], u[8], u[9], u[10], u[11], u[12], u[13], u[14], u[15])
}

type parserEntry struct {
	name string
	call func(s string) (gocql.UUID, error)
}

// The three entry points share ParseUUID; all are driven so that a divergence is seen.
// Each starts from a non-zero receiver so that a partial overwrite would be visible.
var parserEntries = []parserEntry{
	{"ParseUUID", func(s string) (gocql.UUID, error) { return gocql.ParseUUID(s) }},
	{"UnmarshalText", func(s string) (gocql.UUID, error) {
		u := gocql.UUID{0xde, 0xad, 0xbe, 0xef, 0xde, 0xad, 0xbe, 0xef, 0xde, 0xad, 0xbe, 0xef, 0xde, 0xad, 0xbe, 0xef}
		err := u.UnmarshalText([]byte(s))
		return u, err
	}},
	{"UnmarshalJSON", func(s string) (gocql.UUID, error) {
		u := gocql.UUID{0xde, 0xad, 0xbe, 0xef, 0xde, 0xad, 0xbe, 0xef, 0xde, 0xad, 0xbe, 0xef, 0xde, 0xad, 0xbe, 0xef}
		err := u.UnmarshalJSON([]byte(`"` + s + `"`))
		return u, err
	}},
}

// checkParse drives one string through every parser entry point. class names the kind of
// input for the violation key. Returns whether any entry accepted.
func checkParse(r *report.Run, class, s string, st *parseStats) {
	want, member := refParse(s)
	for _, e := range parserEntries {
		var got gocql.UUID
		var err error
		if e.name == "UnmarshalJSON" && strings.ContainsAny(s, "\"\\") {
			// the JSON entry point receives JSON text: a quote or backslash inside the string changes the JSON
			// structure (the input is then not a JSON string at all and encoding/json never hands it to
			// UnmarshalJSON); the property's "string" is the string value, covered by the other two entries
			continue
		}
		if !guard(r, e.name, s, func() { got, err = e.call(s) }) {
			continue
		}
		accepted := err == nil
		r.Case(e.name+"|"+s, accepted)
		st.total++
		if accepted {
			st.accepted++
			if !member {
				r.Violation("parse:"+e.name+":accepts-nonmember:"+class,
					fmt.Sprintf("%s(%q) accepted (value %x) although the string is not 32 hex digits plus hyphens", e.name, s, got[:]), s)
				continue
			}
			if [16]byte(got) != want {
				r.Violation("parse:"+e.name+":wrong-value:"+class,
					fmt.Sprintf("%s(%q) = %x, the digits are %x", e.name, s, got[:], want[:]), s)
			}
			if s != canonical(want) && s != strings.ToUpper(canonical(want)) {
				st.acceptedNonCanonical++
			}
		} else if member {
			// allowed by the (one-directional) statement; counted for the evidence only
			st.rejectedMember++
		}
	}
	if s == "01234567-89ab-cdéf-fedc-ba9876543210" || s == "-01234567-89ab-cdef-fedc-ba98765432-10" {
		_, err := gocql.ParseUUID(s)
		sample(r, "parser-mutations", map[string]interface{}{"class": class, "input": s, "member": member, "accepted": err == nil})
	}
}

type parseStats struct {
	total, accepted, acceptedNonCanonical, rejectedMember int
}

func suitePrintParse(r *report.Run) {
	fills := []byte{0x00, 0xff, 0x5a}
	n := 0
	check := func(u gocql.UUID) {
		n++
		key := fmt.Sprintf("pp|%x", u[:])
		replay := fmt.Sprintf("%x", u[:])
		var s string
		if !guard(r, "String", replay, func() { s = u.String() }) {
			return
		}
		r.Case(key, true)
		// the printed form must denote u (independent reference parser) ...
		if v, member := refParse(s); !member || v != [16]byte(u) {
			r.Violation("print:String:does-not-denote-value", fmt.Sprintf("UUID %x prints as %q", u[:], s), replay)
		}
		// ... and parse back to u through every entry point
		for _, e := range parserEntries {
			var back gocql.UUID
			var err error
			if !guard(r, e.name, s, func() { back, err = e.call(s) }) {
				continue
			}
			if err != nil || back != u {
				r.Violation("print-parse:String->"+e.name, fmt.Sprintf("UUID %x prints as %q, %s gives %x err=%v", u[:], s, e.name, back[:], err), replay)
			}
		}
		// upper-case and hyphen-less renderings of the same digits are members too; if accepted they must give u
		for _, alt := range []string{strings.ToUpper(canonical(u)), strings.ReplaceAll(canonical(u), "-", "")} {
			if back, err := gocql.ParseUUID(alt); err == nil && back != u {
				r.Violation("parse:ParseUUID:wrong-value:alt-rendering", fmt.Sprintf("ParseUUID(%q) = %x", alt, back[:]), alt)
			}
		}
		// text / JSON marshalling pairs
		guard(r, "MarshalText", replay, func() {
			b, err := u.MarshalText()
			var back gocql.UUID
			if err == nil {
				err = back.UnmarshalText(b)
			}
			if err != nil || back != u {
				r.Violation("print-parse:MarshalText->UnmarshalText", fmt.Sprintf("UUID %x -> %q -> %x err=%v", u[:], b, back[:], err), replay)
			}
		})
		guard(r, "MarshalJSON", replay, func() {
			b, err := u.MarshalJSON()
			var back gocql.UUID
			if err == nil {
				err = back.UnmarshalJSON(b)
			}
			if err != nil || back != u {
				r.Violation("print-parse:MarshalJSON->UnmarshalJSON", fmt.Sprintf("UUID %x -> %q -> %x err=%v", u[:], b, back[:], err), replay)
			}
			// through encoding/json, as a struct field and by pointer
			type wrap struct {
				ID  gocql.UUID
				Ptr *gocql.UUID
			}
			jb, err := json.Marshal(wrap{ID: u, Ptr: &u})
			var w wrap
			if err == nil {
				err = json.Unmarshal(jb, &w)
			}
			if err != nil || w.ID != u || w.Ptr == nil || *w.Ptr != u {
				r.Violation("print-parse:encoding/json", fmt.Sprintf("UUID %x -> %s -> %+v err=%v", u[:], jb, w, err), replay)
			}
		})
		if n%997 == 5 {
			sample(r, "print-parse", map[string]interface{}{"uuid": replay, "printed": s})
		}
	}
	for _, fill := range fills {
		var base gocql.UUID
		for i := range base {
			base[i] = fill
		}
		check(base)
		for p := 0; p < 16; p++ {
			for _, a := range alphabet {
				u := base
				u[p] = a
				check(u)
				for q := p + 1; q < 16; q++ {
					for _, b := range alphabet {
						v := u
						v[q] = b
						check(v)
						if !r.Thorough() {
							continue
						}
						for q3 := q + 1; q3 < 16; q3++ { // thorough: a third position
							for _, c := range alphabet {
								w := v
								w[q3] = c
								check(w)
							}
						}
					}
				}
			}
		}
	}
	r.Extra("print_parse_uuids", n)
}

func suiteParserMutations(r *report.Run) {
	bases := []string{
		"00000000-0000-0000-0000-000000000000",
		"ffffffff-ffff-ffff-ffff-ffffffffffff",
		"01234567-89ab-cdef-fedc-ba9876543210",
		"01234567-89AB-CDEF-FEDC-BA9876543210",
		"a0b1c2d3-e4f5-1a6b-8c7d-9e0f1A2B3C4D",
		"0123456789abcdeffedcba9876543210",
		"FFFFFFFFFFFFFFFFFFFFFFFFFFFFFFFF",
		"01-23-45-67-89-ab-cd-ef-fe-dc-ba-98-76-54-32-10",
	}
	// the stated alphabet, plus an invalid UTF-8 byte and a full-width digit
	chars := []string{"-", "g", "G", "/", ":", "@", "`", " ", "é", "\xff", "０"}
	names := map[string]string{"-": "hyphen", "g": "g", "G": "G", "/": "slash", ":": "colon", "@": "at", "`": "backtick", " ": "space", "é": "e-acute", "\xff": "byte-ff", "０": "fullwidth-0"}
	// every single byte value 0..255 (control characters, bytes that differ from a hex digit or the
	// hyphen in one bit, ...) and a few multi-byte runes near the digits/hyphen modulo 0x20/0x80
	for v := 0; v < 256; v++ {
		c := string([]byte{byte(v)})
		if _, ok := names[c]; !ok {
			chars = append(chars, c)
			names[c] = fmt.Sprintf("byte-%02x", v)
		}
	}
	for _, rn := range []rune{0x0090, 0x0099, 0x008d, 0x00ad, 0x0130, 0x0131, 0x212a, 0xff0d, 0xff41} {
		c := string(rn)
		if _, ok := names[c]; !ok {
			chars = append(chars, c)
			names[c] = fmt.Sprintf("rune-%04x", rn)
		}
	}
	hexins := []string{"0", "9", "a", "f", "A", "F"}
	st := &parseStats{}
	strs := 0
	run := func(class, s string) { strs++; checkParse(r, class, s, st) }

	for _, b := range bases {
		run("base", b)
		// substitution at every byte position
		for i := 0; i < len(b); i++ {
			for _, c := range chars {
				if string(b[i]) == c {
					continue
				}
				run("sub-"+names[c], b[:i]+c+b[i+1:])
			}
		}
		// insertion at every position (including both ends)
		for i := 0; i <= len(b); i++ {
			for _, c := range chars {
				run("ins-"+names[c], b[:i]+c+b[i:])
			}
			for _, c := range hexins {
				run("ins-hexdigit", b[:i]+c+b[i:]) // 33 digits
			}
		}
		// deletion at every position (31 digits, or one hyphen fewer)
		for i := 0; i < len(b); i++ {
			cls := "del-hexdigit"
			if b[i] == '-' {
				cls = "del-hyphen"
			}
			run(cls, b[:i]+b[i+1:])
		}
		// every pair of hyphen insertions
		for i := 0; i <= len(b); i++ {
			one := b[:i] + "-" + b[i:]
			for j := i + 1; j <= len(one); j++ {
				run("ins-2-hyphens", one[:j]+"-"+one[j:])
			}
		}
		// 30 and 34 digits: two deletions / insertions at the ends
		run("len-30", b[1:len(b)-1])
		run("len-34", "0"+b+"0")
	}
	for _, s := range []string{
		"", "-", "--------------------------------", "0", "00", strings.Repeat("0", 16), strings.Repeat("0", 64),
		"{01234567-89ab-cdef-fedc-ba9876543210}", "urn:uuid:01234567-89ab-cdef-fedc-ba9876543210",
		"0x0123456789abcdeffedcba987654321", "01234567-89ab-cdef-fedc-ba987654321 ", "\x0001234567-89ab-cdef-fedc-ba9876543210",
		"01234567-89ab-cdef-fedc-ba9876543210\n", "null",
		strings.Repeat("-", 100) + "0123456789abcdeffedcba9876543210" + strings.Repeat("-", 100),
	} {
		run("fixed", s)
	}
	r.Extra("parser_strings", strs)
	r.Extra("parser_calls", st.total)
	r.Extra("parser_accepted", st.accepted)
	r.Extra("parser_accepted_noncanonical_hyphenation", st.acceptedNonCanonical)
	r.Extra("parser_rejected_although_member_(allowed)", st.rejectedMember)
}
