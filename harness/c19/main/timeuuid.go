package main

import (
	"crypto/rand"
	"fmt"
	"io"
	"sort"
	"sync"
	"time"

	"github.com/gocql/gocql"
	"verif/engine/refcass2"
	"verif/engine/report"
)

// RFC 4122 section 4.1.4: the timestamp counts 100ns intervals since 1582-10-15T00:00:00Z.
// 0x01B21DD213814000 of them lie between that and the Unix epoch (RFC 4122 appendix A, uuid.c).
const gregorianToUnix100ns = 0x01B21DD213814000 // = 122192928000000000

// timeOf is the instant a 60-bit timestamp denotes, computed without gocql.
func timeOf(ts uint64) time.Time {
	d := int64(ts) - gregorianToUnix100ns // 100ns ticks since the Unix epoch, fits int64 (|d| < 2^60)
	sec := d / 1e7
	rem := d % 1e7
	if rem < 0 {
		rem += 1e7
		sec--
	}
	return time.Unix(sec, rem*100).UTC()
}

// timestamps returns the stated set of 60-bit timestamps, sorted, without duplicates.
// thorough adds every triple of bits.
func timestamps(thorough bool) []uint64 {
	set := map[uint64]bool{}
	add := func(v uint64) { set[v&(1<<60-1)] = true }
	add(0)
	for i := uint(0); i < 60; i++ {
		add(1 << i)
		for j := i + 1; j < 60; j++ {
			add(1<<i | 1<<j)
			if thorough {
				for k := j + 1; k < 60; k++ {
					add(1<<i | 1<<j | 1<<k)
				}
			}
		}
	}
	add(1<<60 - 1)
	for _, b := range []uint{8, 16, 24, 32, 40, 48, 56} { // every byte boundary of the packing, incl. 2^32, 2^48
		add(1<<b - 1)
		add(1 << b)
		add(1<<b + 1)
	}
	add(1<<60 - 2)
	// calendar instants between 1582-10-15 and the end of the 60-bit range (5236-03-31T21:21:00.6846975Z)
	for _, t := range []time.Time{
		time.Date(1582, 10, 15, 0, 0, 0, 0, time.UTC),
		time.Date(1582, 10, 15, 0, 0, 0, 100, time.UTC),
		time.Date(1583, 1, 1, 0, 0, 0, 0, time.UTC),
		time.Date(1677, 9, 21, 0, 12, 43, 145224100, time.UTC), // just before the int64-nanosecond range of time.Duration
		time.Date(1900, 1, 1, 0, 0, 0, 0, time.UTC),
		time.Date(1969, 12, 31, 23, 59, 59, 999999900, time.UTC),
		time.Date(1970, 1, 1, 0, 0, 0, 0, time.UTC),
		time.Date(1970, 1, 1, 0, 0, 0, 100, time.UTC),
		time.Date(2000, 2, 29, 12, 0, 0, 0, time.UTC),
		time.Date(2014, 9, 19, 21, 18, 13, 123456700, time.UTC),
		time.Date(2026, 10, 1, 0, 0, 0, 0, time.UTC),
		time.Date(2038, 1, 19, 3, 14, 8, 0, time.UTC),
		time.Date(2106, 2, 7, 6, 28, 16, 0, time.UTC),
		time.Date(2262, 4, 11, 23, 47, 16, 854775800, time.UTC), // end of the int64-nanosecond range
		time.Date(2262, 4, 12, 0, 0, 0, 0, time.UTC),
		time.Date(3000, 1, 1, 0, 0, 0, 0, time.UTC),
		time.Date(5000, 12, 31, 23, 59, 59, 999999900, time.UTC),
		time.Date(5236, 1, 1, 0, 0, 0, 0, time.UTC),
		time.Date(5236, 3, 31, 21, 21, 0, 684697500, time.UTC),
	} {
		d := t.Unix()*1e7 + int64(t.Nanosecond()/100) + gregorianToUnix100ns
		if d < 0 || d >= 1<<60 {
			panic(fmt.Sprintf("harness: calendar instant %v outside the 60-bit range", t))
		}
		add(uint64(d))
	}
	out := make([]uint64, 0, len(set))
	for v := range set {
		out = append(out, v)
	}
	sort.Slice(out, func(i, j int) bool { return out[i] < out[j] })
	return out
}

func rawVersion(u gocql.UUID) int { return int(u[6] >> 4) }

// rfcVariant: RFC 4122 section 4.1.1, the two most significant bits of octet 8 are 1 0.
func rfcVariant(u gocql.UUID) bool { return u[8]&0xC0 == 0x80 }

// checkV1 checks the clauses "returns that time (to 100ns), version 1, RFC 4122 variant" for a
// UUID that site built from timestamp ts. exact=false allows the sub-tick remainder of the input time.
func checkV1(r *report.Run, site string, u gocql.UUID, ts uint64, replay interface{}) {
	if rawVersion(u) != 1 || u.Version() != 1 {
		r.Violation("time:"+site+":version", fmt.Sprintf("%s: ts=%#x uuid=%x version nibble=%d Version()=%d", site, ts, u[:], rawVersion(u), u.Version()), replay)
	}
	if !rfcVariant(u) || u.Variant() != gocql.VariantIETF {
		r.Violation("time:"+site+":variant", fmt.Sprintf("%s: ts=%#x uuid=%x byte8=%#02x Variant()=%d", site, ts, u[:], u[8], u.Variant()), replay)
	}
	if got := refcass2.TimestampOf(u); got != ts {
		r.Violation("time:"+site+":timestamp-bits", fmt.Sprintf("%s: ts=%#x but the RFC 4122 fields of %x hold %#x", site, ts, u[:], got), replay)
	}
	if got := u.Timestamp(); got != int64(ts) {
		r.Violation("time:"+site+":Timestamp()", fmt.Sprintf("%s: ts=%#x uuid=%x Timestamp()=%#x", site, ts, u[:], got), replay)
	}
	want := timeOf(ts)
	if got := u.Time(); !got.Equal(want) {
		r.Violation("time:"+site+":Time()", fmt.Sprintf("%s: ts=%#x uuid=%x Time()=%v want %v", site, ts, u[:], got.Format(time.RFC3339Nano), want.Format(time.RFC3339Nano)), replay)
	}
}

func suiteTimeRoundTrip(r *report.Run) {
	tss := timestamps(r.Thorough())
	// clock values: in and beyond 14 bits (gocql itself passes 0x8080 / 0x7f7f and an ever-growing counter)
	clocks := []uint32{0, 1, 0x1fff, 0x2000, 0x3fff, 0x4000, 0x7f7f, 0x8080, 0xc000, 0xffff, 0x10000, 0xffffffff}
	nodes := [][]byte{
		{0, 0, 0, 0, 0, 0}, {0xff, 0xff, 0xff, 0xff, 0xff, 0xff}, {0x80, 0x80, 0x80, 0x80, 0x80, 0x80},
		{0x7f, 0x7f, 0x7f, 0x7f, 0x7f, 0x7f}, {1, 2, 3, 4, 5, 6}, {0xaa, 0xbb, 0xcc}, nil,
	}
	locs := []*time.Location{time.UTC, time.FixedZone("p14", 14*3600), time.FixedZone("m12", -12*3600), time.FixedZone("odd", 5*3600+45*60+7)}
	subticks := []int64{0, 1, 50, 99}
	var with, from int
	for _, ts := range tss {
		ts := ts
		for _, ck := range clocks {
			for ni, node := range nodes {
				replay := map[string]interface{}{"fn": "TimeUUIDWith", "ts": ts, "clock": ck, "node": fmt.Sprintf("%x", node)}
				guard(r, "TimeUUIDWith", replay, func() {
					u := gocql.TimeUUIDWith(int64(ts), ck, node)
					r.Case(fmt.Sprintf("with|%x|%x|%d", ts, ck, ni), true)
					with++
					checkV1(r, "TimeUUIDWith", u, ts, replay)
				})
			}
		}
		t0 := timeOf(ts)
		for li, loc := range locs {
			for _, sub := range subticks {
				t := t0.Add(time.Duration(sub)).In(loc)
				replay := map[string]interface{}{"fn": "UUIDFromTime", "ts": ts, "time": t.Format(time.RFC3339Nano)}
				guard(r, "UUIDFromTime", replay, func() {
					u := gocql.UUIDFromTime(t)
					r.Case(fmt.Sprintf("from|%x|%d|%d", ts, li, sub), true)
					from++
					checkV1(r, "UUIDFromTime", u, ts, replay)
					mn, mx := gocql.MinTimeUUID(t), gocql.MaxTimeUUID(t)
					checkV1(r, "MinTimeUUID", mn, ts, replay)
					checkV1(r, "MaxTimeUUID", mx, ts, replay)
				})
			}
		}
		if ts == 1<<59|1<<31 || ts == 1<<60-1 {
			u := gocql.UUIDFromTime(t0)
			sample(r, "time-roundtrip", map[string]interface{}{"ts": fmt.Sprintf("%#x", ts), "time": t0.Format(time.RFC3339Nano), "uuid": u.String(), "Time()": u.Time().Format(time.RFC3339Nano)})
		}
	}
	r.Extra("timestamps_enumerated", len(tss))
	r.Extra("time_TimeUUIDWith_cases", with)
	r.Extra("time_UUIDFromTime_cases", from)
	r.Extra("time_range", []string{timeOf(tss[0]).Format(time.RFC3339Nano), timeOf(tss[len(tss)-1]).Format(time.RFC3339Nano)})
}

// fixedSource is the enumerated stand-in for the operating system's random source.
type fixedSource struct {
	buf [16]byte
	pos int
}

func (s *fixedSource) Read(p []byte) (int, error) {
	n := 0
	for n < len(p) {
		p[n] = s.buf[s.pos%16]
		s.pos++
		n++
	}
	return n, nil
}

type errSource struct{}

func (errSource) Read(p []byte) (int, error) { return 0, io.ErrUnexpectedEOF }

func suiteRandomUUID(r *report.Run) {
	saved := rand.Reader
	defer func() { rand.Reader = saved }()
	fills := []byte{0x00, 0xff, 0xa5}
	n := 0
	versions := map[int]int{}
	src := &fixedSource{}
	rand.Reader = src
	for _, fill := range fills {
		for b6 := 0; b6 < 256; b6++ {
			for b8 := 0; b8 < 256; b8++ {
				for i := range src.buf {
					src.buf[i] = fill
				}
				src.buf[6], src.buf[8] = byte(b6), byte(b8)
				src.pos = 0
				replay := fmt.Sprintf("%x", src.buf[:])
				guard(r, "RandomUUID", replay, func() {
					u, err := gocql.RandomUUID()
					n++
					r.Case("rand|"+replay, err == nil)
					if err != nil {
						r.Violation("random:RandomUUID:error-with-working-source", err.Error(), replay)
						return
					}
					versions[rawVersion(u)]++
					if rawVersion(u) != 4 || u.Version() != 4 {
						r.Violation("random:RandomUUID:version", fmt.Sprintf("source bytes %s -> %x: version nibble %d, Version()=%d", replay, u[:], rawVersion(u), u.Version()), replay)
					}
					if !rfcVariant(u) || u.Variant() != gocql.VariantIETF {
						r.Violation("random:RandomUUID:variant", fmt.Sprintf("source bytes %s -> %x: byte 8 = %#02x", replay, u[:], u[8]), replay)
					}
					if b6 == 0xf7 && b8 == 0x7f {
						sample(r, "random-uuid", map[string]interface{}{"source": replay, "uuid": u.String()})
					}
				})
			}
		}
	}
	// MustRandomUUID shares the code; one pass over bytes 6/8 with one fill
	for b6 := 0; b6 < 256; b6++ {
		for b8 := 0; b8 < 256; b8++ {
			for i := range src.buf {
				src.buf[i] = 0x3c
			}
			src.buf[6], src.buf[8] = byte(b6), byte(b8)
			src.pos = 0
			replay := fmt.Sprintf("%x", src.buf[:])
			guard(r, "MustRandomUUID", replay, func() {
				u := gocql.MustRandomUUID()
				n++
				r.Case("mustrand|"+replay, true)
				if rawVersion(u) != 4 {
					r.Violation("random:MustRandomUUID:version", fmt.Sprintf("%s -> %x", replay, u[:]), replay)
				}
				if !rfcVariant(u) {
					r.Violation("random:MustRandomUUID:variant", fmt.Sprintf("%s -> %x", replay, u[:]), replay)
				}
			})
		}
	}
	r.Extra("random_uuid_cases", n)
	r.Extra("random_uuid_version_histogram", versions)
}

// suiteMinMax: for an instant t, MinTimeUUID(t) <= x <= MaxTimeUUID(t) for every RFC 4122
// version-1 UUID x whose timestamp is t, under Cassandra's TimeUUIDType order.
func suiteMinMax(r *report.Run) {
	tss := timestamps(false)
	fills := []byte{0x00, 0xff, 0x5a}
	// lower halves, reduced: bytes 9..15 from the alphabet at <=2 positions over 3 fills
	var reduced [][7]byte
	for _, fill := range fills {
		var base [7]byte
		for i := range base {
			base[i] = fill
		}
		reduced = append(reduced, base)
		for p := 0; p < 7; p++ {
			for _, a := range alphabet {
				u := base
				u[p] = a
				reduced = append(reduced, u)
				for q := p + 1; q < 7; q++ {
					for _, b := range alphabet {
						v := u
						v[q] = b
						reduced = append(reduced, v)
					}
				}
			}
		}
	}
	// lower halves, full: all 5^7
	var full [][7]byte
	var rec func(i int, cur [7]byte)
	rec = func(i int, cur [7]byte) {
		if i == 7 {
			full = append(full, cur)
			return
		}
		for _, a := range alphabet {
			cur[i] = a
			rec(i+1, cur)
		}
	}
	rec(0, [7]byte{})
	fullInstants := map[uint64]bool{0: true, 1<<60 - 1: true, 1<<59 | 1<<31: true}
	if r.Thorough() {
		for _, v := range []uint64{1, 1 << 32, 1<<32 - 1, 1 << 48, 1<<48 - 1, 1 << 56, 0x01B21DD213814000, 0x01f0a8d5c0de1234 & (1<<60 - 1)} {
			fullInstants[v] = true
		}
	}

	type job struct {
		ts   uint64
		lows [][7]byte
	}
	jobs := make(chan job, 64)
	var wg sync.WaitGroup
	var mu sync.Mutex
	var compared int64
	outcomes := map[string]int64{}
	for w := 0; w < 16; w++ {
		wg.Add(1)
		go func() {
			defer wg.Done()
			for j := range jobs {
				t := timeOf(j.ts)
				var mn, mx gocql.UUID
				replay := map[string]interface{}{"ts": j.ts, "time": t.Format(time.RFC3339Nano)}
				if !guard(r, "MinTimeUUID/MaxTimeUUID", replay, func() { mn, mx = gocql.MinTimeUUID(t), gocql.MaxTimeUUID(t) }) {
					continue
				}
				var n int64
				local := map[string]int64{}
				for _, low := range j.lows {
					for b8 := 0x80; b8 <= 0xBF; b8++ {
						x := refcass2.PackV1(j.ts, byte(b8), low)
						n++
						c1, c1l := refcass2.CompareTimeUUID([16]byte(mn), x), refcass2.CompareTimeUUIDLegacy([16]byte(mn), x)
						c2, c2l := refcass2.CompareTimeUUID(x, [16]byte(mx)), refcass2.CompareTimeUUIDLegacy(x, [16]byte(mx))
						if c1 != c1l || c2 != c2l {
							r.Infra("refcass2 ports disagree on %x vs %x / %x", x, mn, mx)
							continue
						}
						local[fmt.Sprintf("min%+d,max%+d", c1, c2)]++
						if c1 > 0 {
							r.Violation("minmax:MinTimeUUID:not-a-lower-bound",
								fmt.Sprintf("instant %v (ts %#x): MinTimeUUID=%x sorts AFTER the v1 UUID %x of the same instant under TimeUUIDType", t.Format(time.RFC3339Nano), j.ts, mn[:], x), map[string]interface{}{"ts": j.ts, "x": fmt.Sprintf("%x", x)})
						}
						if c2 > 0 {
							r.Violation("minmax:MaxTimeUUID:not-an-upper-bound",
								fmt.Sprintf("instant %v (ts %#x): MaxTimeUUID=%x sorts BEFORE the v1 UUID %x of the same instant under TimeUUIDType", t.Format(time.RFC3339Nano), j.ts, mx[:], x), map[string]interface{}{"ts": j.ts, "x": fmt.Sprintf("%x", x)})
						}
					}
				}
				// one counted case per (instant, size of the lower-half set); comparisons are counted separately
				r.Case(fmt.Sprintf("minmax|%x|%d", j.ts, len(j.lows)), true)
				mu.Lock()
				compared += n
				for k, v := range local {
					outcomes[k] += v
				}
				mu.Unlock()
				if j.ts == 1<<59|1<<31 || j.ts == 1<<32 {
					sample(r, "min-max-bound", map[string]interface{}{"instant": t.Format(time.RFC3339Nano), "min": mn.String(), "max": mx.String(), "uuids_of_instant_compared": n})
				}
			}
		}()
	}
	// every instant of the (pairs-of-bits) timestamp set with the reduced lower halves; the full
	// 5^7 lower halves for 3 (quick) / 11 (thorough) instants
	nInst := 0
	for _, ts := range tss {
		if fullInstants[ts] {
			jobs <- job{ts, full}
		} else {
			jobs <- job{ts, reduced}
		}
		nInst++
	}
	for ts := range fullInstants { // any full instant not already in tss
		i := sort.Search(len(tss), func(i int) bool { return tss[i] >= ts })
		if i == len(tss) || tss[i] != ts {
			jobs <- job{ts, full}
			nInst++
		}
	}
	close(jobs)
	wg.Wait()
	r.Extra("minmax_instants", nInst)
	r.Extra("minmax_instants_with_all_5^7_lower_halves", len(fullInstants))
	r.Extra("minmax_lower_halves_reduced", len(reduced))
	r.Extra("minmax_comparisons", compared*2)
	r.Extra("minmax_outcome_histogram", outcomes)
}
