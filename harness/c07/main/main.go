package main

import (
	"time"

	"verif/engine/mcreport"
)

func main() {
	mcreport.Main("C07", "fault_enumeration", connRule, connAssume, connDefs("C07"), 75*time.Second, 20*time.Minute, nil)
}
