package main

// Shared by C12 and C02: guarded calls into gocql, Unmarshal target enumeration,
// printing of Go values, the parallel job runner.

import (
	"fmt"
	"math/big"
	"os"
	"reflect"
	"runtime"
	"runtime/debug"
	"sort"
	"strings"
	"sync"
	"sync/atomic"
	"time"
	"verif/engine/report"

	"github.com/gocql/gocql"
	"gopkg.in/inf.v0"
	"verif/engine/refcql/value"
)

func ifaceOf(rv reflect.Value) interface{} {
	if !rv.IsValid() {
		return nil
	}
	return rv.Interface()
}

// safeMarshal calls gocql.Marshal, turning a panic into a value.
func safeMarshal(ti gocql.TypeInfo, v interface{}) (b []byte, err error, pan interface{}) {
	defer func() {
		if r := recover(); r != nil {
			pan = panicInfo{r, gocqlFrame()}
		}
	}()
	b, err = gocql.Marshal(ti, v)
	if err == nil && len(b) > 0 {
		retain(b, nil, func() string { return fmt.Sprintf("Marshal(%v, %T)", ti, v) })
	}
	return
}

// Retention check: bytes handed out by Marshal and byte slices / big integers filled in by Unmarshal
// belong to the caller; a later call (on this or another goroutine) must not change them. Catches
// shared scratch buffers and pooled results that single-call comparisons cannot see.
type retained struct {
	b    []byte
	big  *big.Int
	snap string
	desc func() string
}

var (
	retMu  sync.Mutex
	retBuf [24]retained
	retIdx int
	retR   *report.Run // set by main
)

func retain(b []byte, n *big.Int, desc func() string) {
	retMu.Lock()
	defer retMu.Unlock()
	for i := range retBuf {
		e := &retBuf[i]
		if e.desc == nil {
			continue
		}
		now := ""
		if e.big != nil {
			now = e.big.String()
		} else {
			now = string(e.b)
		}
		if now != e.snap && retR != nil {
			retR.Violation("retained-result-changed-by-a-later-call", fmt.Sprintf("the result of %s changed from %x to %x after later Marshal/Unmarshal calls (shared buffer?)", e.desc(), e.snap, now), nil)
			e.desc = nil
		}
	}
	e := retained{b: b, big: n, desc: desc}
	if n != nil {
		e.snap = n.String()
	} else {
		e.snap = string(b)
	}
	retBuf[retIdx%len(retBuf)] = e
	retIdx++
}

func safeUnmarshal(ti gocql.TypeInfo, data []byte, dst interface{}) (err error, pan interface{}) {
	defer func() {
		if r := recover(); r != nil {
			pan = panicInfo{r, gocqlFrame()}
		}
	}()
	err = gocql.Unmarshal(ti, data, dst)
	if err == nil {
		switch d := dst.(type) {
		case *[]byte:
			if len(*d) > 0 {
				retain(*d, nil, func() string { return fmt.Sprintf("Unmarshal(%v) into *[]byte", ti) })
			}
		case *big.Int:
			retain(nil, d, func() string { return fmt.Sprintf("Unmarshal(%v) into *big.Int", ti) })
		case **big.Int:
			if *d != nil {
				retain(nil, *d, func() string { return fmt.Sprintf("Unmarshal(%v) into **big.Int", ti) })
			}
		}
	}
	return
}

// panicInfo is a recovered panic with the innermost gocql function on the stack.
type panicInfo struct {
	val  interface{}
	site string
}

func (p panicInfo) String() string { return fmt.Sprintf("%v (in gocql.%s)", p.val, p.site) }

// gocqlFrame returns the name of the innermost function of package gocql on the (panicking) stack.
func gocqlFrame() string {
	const pfx = "github.com/gocql/gocql."
	pcs := make([]uintptr, 64)
	n := runtime.Callers(2, pcs)
	frames := runtime.CallersFrames(pcs[:n])
	for {
		f, more := frames.Next()
		if strings.HasPrefix(f.Function, pfx) {
			name := f.Function[len(pfx):]
			if i := strings.IndexAny(name, "(."); i > 0 {
				name = name[:i]
			}
			return name
		}
		if !more {
			return "unknown"
		}
	}
}

// panicSite extracts a short stable description of a recovered panic.
func panicSite(p interface{}) string {
	site := ""
	if pi, ok := p.(panicInfo); ok {
		site = pi.site + ":"
		p = pi.val
	}
	return site + panicClass(p)
}

func panicClass(p interface{}) string {
	s := fmt.Sprint(p)
	switch {
	case strings.Contains(s, "reflect.Set: value of type") && strings.Contains(s, "is not assignable"):
		return "reflect.Set-not-assignable"
	case strings.Contains(s, "reflect: call of reflect.Value.Type on zero Value"):
		return "reflect-Type-on-zero-Value"
	case strings.Contains(s, "index out of range"):
		return "index-out-of-range"
	case strings.Contains(s, "slice bounds out of range"):
		return "slice-bounds"
	case strings.Contains(s, "nil pointer"):
		return "nil-deref"
	case strings.Contains(s, "interface conversion"):
		return "interface-conversion"
	}
	if len(s) > 40 {
		s = s[:40]
	}
	return strings.ReplaceAll(s, " ", "-")
}

// ---------------------------------------------------------------------------
// Unmarshal targets

// scalarTargets lists the Go types T such that *T is a documented Unmarshal
// target for the scalar type (Unmarshal doc table), plus the named types with
// the same underlying type.  For varint, which the Unmarshal table does not
// mention, the Marshal table's types are used (each is the "same Go type"
// target of its own source).
func scalarTargets(t *value.Type) []reflect.Type {
	switch t.ID {
	case value.Ascii, value.Text, value.Varchar, value.Blob:
		return []reflect.Type{tString, tBytes, tMyString, tMyBytes}
	case value.Boolean:
		return []reflect.Type{tBool, tMyBool}
	case value.TinyInt, value.SmallInt, value.Int, value.BigInt, value.Counter, value.Varint:
		out := append([]reflect.Type{}, intTypes...)
		out = append(out, tBig, tString)
		return append(out, namedInt...)
	case value.Float:
		return []reflect.Type{tF32, tMyF32}
	case value.Double:
		return []reflect.Type{tF64, tMyF64}
	case value.Decimal:
		return []reflect.Type{tDec}
	case value.Time:
		return []reflect.Type{tInt64, tGoDur, tMyInt64}
	case value.Timestamp:
		return []reflect.Type{tInt64, tTime, tMyInt64}
	case value.Date:
		return []reflect.Type{tTime, tString}
	case value.Duration:
		return []reflect.Type{tDur}
	case value.UUID:
		return []reflect.Type{tUUID, tString, tBytes}
	case value.TimeUUID:
		return []reflect.Type{tUUID, tString, tBytes, tTime}
	case value.Inet:
		return []reflect.Type{tIP, tString}
	}
	return nil
}

func firstTypes(ts []reflect.Type, n int) []reflect.Type {
	if len(ts) > n {
		return ts[:n]
	}
	return ts
}

// targetsFor lists target Go types for a value of type t whose abstract shape is a
// (array targets need the element count).  rich: all element targets; otherwise 2 + a pointer variant.
func targetsFor(t *value.Type, a value.Value, rich bool) []reflect.Type {
	var out []reflect.Type
	seen := map[reflect.Type]bool{}
	add := func(gt reflect.Type) {
		if gt != nil && !seen[gt] {
			seen[gt] = true
			out = append(out, gt)
		}
	}
	if len(t.Elems) == 0 {
		ts := scalarTargets(t)
		if !rich {
			ts = firstTypes(ts, 2)
		}
		for _, gt := range ts {
			add(gt)
		}
		if len(ts) > 0 {
			add(reflect.PtrTo(ts[0])) // holder **T: nullable
			if rich {
				for _, gt := range ts[1:] {
					add(reflect.PtrTo(gt))
				}
			}
		}
		return out
	}
	kidShape := func(i int) value.Value {
		switch a.K {
		case value.KList, value.KTuple, value.KUDT:
			if i < len(a.Elems) {
				return a.Elems[i]
			}
		}
		return value.Null()
	}
	switch t.ID {
	case value.List, value.Set:
		shape := kidShape(0)
		ets := targetsFor(t.Elems[0], shape, rich && t.Depth() == 1)
		for _, et := range ets {
			add(reflect.SliceOf(et))
		}
		if a.K == value.KList && len(ets) > 0 {
			add(reflect.ArrayOf(len(a.Elems), ets[0]))
			add(reflect.ArrayOf(len(a.Elems)+1, ets[0])) // wrong size: must be refused
		}
		if len(ets) > 0 {
			add(reflect.PtrTo(reflect.SliceOf(ets[0])))
		}
	case value.Map:
		var ks, vs value.Value = value.Null(), value.Null()
		if a.K == value.KMap && len(a.Keys) > 0 {
			ks, vs = a.Keys[0], a.Elems[0]
		}
		kts := targetsFor(t.Elems[0], ks, rich && t.Depth() == 1)
		vts := targetsFor(t.Elems[1], vs, rich && t.Depth() == 1)
		var ckts []reflect.Type
		for _, kt := range kts {
			if kt.Comparable() && kt.Kind() != reflect.Ptr && kt.Kind() != reflect.Interface {
				ckts = append(ckts, kt)
			}
		}
		if len(ckts) == 0 || len(vts) == 0 {
			return out
		}
		for _, vt := range vts {
			add(reflect.MapOf(ckts[0], vt))
		}
		for _, kt := range ckts[1:] {
			add(reflect.MapOf(kt, vts[0]))
		}
		add(reflect.PtrTo(reflect.MapOf(ckts[0], vts[0])))
	case value.Tuple, value.UDT:
		n := len(t.Elems)
		slot := make([][]reflect.Type, n)
		for i := range slot {
			slot[i] = targetsFor(t.Elems[i], kidShape(i), rich && t.Depth() == 1)
			if len(slot[i]) == 0 {
				return out
			}
			if t.ID == value.Tuple {
				// unmarshalTuple stores values of gocql's default Go type for the component (goType table):
				// the default type and a pointer to it first, then at most two other documented types
				d := defaultGoType(t.Elems[i])
				lim := []reflect.Type{d, reflect.PtrTo(d)}
				for _, gt := range slot[i] {
					if gt != d && gt != reflect.PtrTo(d) && len(lim) < 4 && rich {
						lim = append(lim, gt)
					}
				}
				slot[i] = lim
			}
		}
		mk := func(types []reflect.Type) reflect.Type {
			fields := make([]reflect.StructField, n)
			for i := range fields {
				fields[i] = reflect.StructField{Name: fieldNames[i], Type: types[i]}
				if t.ID == value.UDT {
					fields[i].Tag = reflect.StructTag(fmt.Sprintf(`cql:"%s"`, t.Names[i]))
				}
			}
			return reflect.StructOf(fields)
		}
		def := make([]reflect.Type, n)
		for i := range def {
			def[i] = slot[i][0]
		}
		if t.ID == value.Tuple {
			add(tIfSlice)
		} else {
			add(tStrMap)
			add(tUdtU)
		}
		add(mk(def))
		for i := 0; i < n; i++ {
			for _, gt := range slot[i][1:] {
				types := append([]reflect.Type{}, def...)
				types[i] = gt
				add(mk(types))
			}
		}
		if t.ID == value.Tuple {
			same := true
			for _, e := range t.Elems {
				if e.String() != t.Elems[0].String() {
					same = false
				}
			}
			if same {
				for _, gt := range slot[0] {
					add(reflect.SliceOf(gt))
				}
				add(reflect.ArrayOf(n, slot[0][0]))
				add(reflect.ArrayOf(n+1, slot[0][0]))
			}
		}
		add(reflect.PtrTo(mk(def)))
		if t.ID == value.UDT {
			// structs that do not have every field of the UDT ("skip fields which exist in the UDT but not in the
			// struct"): every non-empty proper subset of the fields omitted in turn - first, middle, last, several.
			// Being ordinary members of this list they also occur nested: as the element of a list/set, the value
			// and the key of a map, and a field of an enclosing UDT struct.
			oms := omitStructs(t, def)
			for _, st := range oms {
				add(st)
			}
			if len(oms) > 0 && rich {
				add(reflect.PtrTo(oms[0])) // holder **struct
			}
		}
	}
	return out
}

// omitStructs lists, for a UDT with n fields, the 2^n-2 tagged struct types that keep a non-empty proper subset
// of the fields (kept field i has Go type types[i]).
func omitStructs(t *value.Type, types []reflect.Type) []reflect.Type {
	n := len(t.Elems)
	var out []reflect.Type
	for mask := 1; mask < (1<<uint(n))-1; mask++ { // bit i set = field i omitted
		var fields []reflect.StructField
		for i := 0; i < n; i++ {
			if mask&(1<<uint(i)) == 0 {
				fields = append(fields, reflect.StructField{Name: fieldNames[i], Type: types[i], Tag: reflect.StructTag(fmt.Sprintf(`cql:"%s"`, t.Names[i]))})
			}
		}
		out = append(out, reflect.StructOf(fields))
	}
	return out
}

// structOmitsField: gt (pointers stripped) is a struct target/source for the UDT t that lacks at least one of t's fields.
func structOmitsField(t *value.Type, gt reflect.Type) bool {
	for gt.Kind() == reflect.Ptr {
		gt = gt.Elem()
	}
	if t.ID != value.UDT || gt.Kind() != reflect.Struct || gt == tUdtM || gt == tUdtU {
		return false
	}
	for _, n := range t.Names {
		if udtFieldIndex(gt, n) < 0 {
			return true
		}
	}
	return false
}

// omitsUDTField: somewhere inside the Go type gt bound to t, a UDT goes into a struct that lacks one of its fields.
func omitsUDTField(t *value.Type, gt reflect.Type) bool {
	for gt.Kind() == reflect.Ptr {
		gt = gt.Elem()
	}
	if len(t.Elems) == 0 || gt.Kind() == reflect.Interface {
		return false
	}
	if structOmitsField(t, gt) {
		return true
	}
	for i := range t.Elems { // list/set: the element; map: key, value; tuple/UDT: every component
		ct := t.Elems[i]
		kgt := kidTargetTypeStatic(t, gt, i)
		if kgt != nil && kgt.Kind() != reflect.Interface && omitsUDTField(ct, kgt) {
			return true
		}
	}
	return false
}

// kidTargetTypeStatic is kidTargetType without the replacement of interface{} by gocql's default type.
func kidTargetTypeStatic(t *value.Type, gt reflect.Type, i int) reflect.Type {
	switch t.ID {
	case value.List, value.Set:
		if gt.Kind() == reflect.Slice || gt.Kind() == reflect.Array {
			return gt.Elem()
		}
	case value.Map:
		if gt.Kind() == reflect.Map {
			if i == 0 {
				return gt.Key()
			}
			return gt.Elem()
		}
	case value.Tuple:
		switch gt.Kind() {
		case reflect.Slice, reflect.Array:
			return gt.Elem()
		case reflect.Struct:
			if i < gt.NumField() {
				return gt.Field(i).Type
			}
		}
	case value.UDT:
		if gt.Kind() == reflect.Struct && gt != tUdtU && gt != tUdtM {
			if fi := udtFieldIndex(gt, t.Names[i]); fi >= 0 {
				return gt.Field(fi).Type
			}
		}
	}
	return nil
}

// ---------------------------------------------------------------------------
// printing

func pretty(rv reflect.Value) string {
	var sb strings.Builder
	prettyTo(&sb, rv, 0)
	s := sb.String()
	if len(s) > 600 {
		s = s[:600] + "…"
	}
	return s
}

func prettyTo(sb *strings.Builder, rv reflect.Value, depth int) {
	if !rv.IsValid() {
		sb.WriteString("nil")
		return
	}
	if depth > 8 {
		sb.WriteString("…")
		return
	}
	gt := rv.Type()
	switch gt {
	case tBig:
		x := rv.Interface().(big.Int)
		sb.WriteString("big(" + x.String() + ")")
		return
	case tDec:
		x := rv.Interface().(inf.Dec)
		fmt.Fprintf(sb, "dec(%s,scale=%d)", x.UnscaledBig(), x.Scale())
		return
	case tTime:
		x := rv.Interface().(time.Time)
		if x.IsZero() {
			sb.WriteString("time.Time{}")
		} else {
			sb.WriteString("time(" + x.Format(time.RFC3339Nano) + ")")
		}
		return
	case tUdtM:
		sb.WriteString("UDTMarshaler")
		prettyTo(sb, rv.Field(0), depth+1)
		return
	}
	switch rv.Kind() {
	case reflect.Ptr:
		if rv.IsNil() {
			fmt.Fprintf(sb, "(%s)(nil)", goName(gt))
			return
		}
		sb.WriteString("&")
		prettyTo(sb, rv.Elem(), depth+1)
	case reflect.Interface:
		if rv.IsNil() {
			sb.WriteString("nil")
			return
		}
		prettyTo(sb, rv.Elem(), depth+1)
	case reflect.String:
		s := rv.String()
		if len(s) > 48 {
			fmt.Fprintf(sb, "%s(%q…len=%d)", goName(gt), s[:8], len(s))
		} else {
			fmt.Fprintf(sb, "%s(%q)", goName(gt), s)
		}
	case reflect.Slice, reflect.Array:
		if rv.Kind() == reflect.Slice && rv.IsNil() {
			fmt.Fprintf(sb, "%s(nil)", goName(gt))
			return
		}
		if gt.Elem() == tUint8 {
			b := make([]byte, rv.Len())
			reflect.Copy(reflect.ValueOf(b), rv)
			if len(b) > 24 {
				fmt.Fprintf(sb, "%s(0x%x…len=%d)", goName(gt), b[:8], len(b))
			} else {
				fmt.Fprintf(sb, "%s(0x%x)", goName(gt), b)
			}
			return
		}
		sb.WriteString(goName(gt) + "{")
		for i := 0; i < rv.Len(); i++ {
			if i > 0 {
				sb.WriteString(", ")
			}
			prettyTo(sb, rv.Index(i), depth+1)
		}
		sb.WriteString("}")
	case reflect.Map:
		if rv.IsNil() {
			fmt.Fprintf(sb, "%s(nil)", goName(gt))
			return
		}
		var items []string
		for _, k := range rv.MapKeys() {
			var ib strings.Builder
			prettyTo(&ib, k, depth+1)
			ib.WriteString(": ")
			prettyTo(&ib, rv.MapIndex(k), depth+1)
			items = append(items, ib.String())
		}
		sort.Strings(items)
		sb.WriteString(goName(gt) + "{" + strings.Join(items, ", ") + "}")
	case reflect.Struct:
		sb.WriteString(goName(gt) + "{")
		for i := 0; i < rv.NumField(); i++ {
			if i > 0 {
				sb.WriteString(", ")
			}
			prettyTo(sb, rv.Field(i), depth+1)
		}
		sb.WriteString("}")
	case reflect.Float32, reflect.Float64:
		fmt.Fprintf(sb, "%s(%v)", goName(gt), rv.Float())
	default:
		fmt.Fprintf(sb, "%s(%v)", goName(gt), rv.Interface())
	}
}

func hexOrNull(b []byte) string {
	if b == nil {
		return "null"
	}
	if len(b) > 80 {
		return fmt.Sprintf("%x…(%d bytes)", b[:80], len(b))
	}
	return fmt.Sprintf("%x", b)
}

// ---------------------------------------------------------------------------
// parallel runner

// parallel runs f(i) for i in [0,n) on all CPUs and returns when all are done.
func parallel(n int, f func(i int)) {
	debug.SetGCPercent(400) // the workers allocate many short-lived reflect values; trade memory for time
	workers := runtime.GOMAXPROCS(0)
	if workers > n {
		workers = n
	}
	var next int64 = -1
	var wg sync.WaitGroup
	for w := 0; w < workers; w++ {
		wg.Add(1)
		go func() {
			defer wg.Done()
			for {
				i := int(atomic.AddInt64(&next, 1))
				if i >= n {
					return
				}
				f(i)
			}
		}()
	}
	wg.Wait()
}

// counters is a goroutine-safe string -> count map for evidence extras.
type counters struct {
	mu sync.Mutex
	m  map[string]int64
}

func newCounters() *counters { return &counters{m: map[string]int64{}} }

func (c *counters) add(k string, n int64) {
	c.mu.Lock()
	c.m[k] += n
	c.mu.Unlock()
}

func (c *counters) merge(o map[string]int64) {
	c.mu.Lock()
	for k, v := range o {
		c.m[k] += v
	}
	c.mu.Unlock()
}

func (c *counters) snapshot() map[string]int64 {
	c.mu.Lock()
	defer c.mu.Unlock()
	out := map[string]int64{}
	for k, v := range c.m {
		out[k] = v
	}
	return out
}

// ---------------------------------------------------------------------------
// violation funnel: optional dump of every distinct finding key (VERIF_KEYS_OUT=<file>), for triage

type keyLog struct {
	mu    sync.Mutex
	first map[string]string
	count map[string]int
}

var allKeys = &keyLog{first: map[string]string{}, count: map[string]int{}}

type violator interface {
	Violation(key, detail string, replay interface{})
}

func violation(r violator, key, detail string, replay interface{}) {
	allKeys.mu.Lock()
	if _, ok := allKeys.first[key]; !ok {
		allKeys.first[key] = detail
	}
	allKeys.count[key]++
	allKeys.mu.Unlock()
	r.Violation(key, detail, replay)
}

func dumpKeys() {
	path := os.Getenv("VERIF_KEYS_OUT")
	if path == "" {
		return
	}
	allKeys.mu.Lock()
	defer allKeys.mu.Unlock()
	keys := make([]string, 0, len(allKeys.first))
	for k := range allKeys.first {
		keys = append(keys, k)
	}
	sort.Strings(keys)
	var sb strings.Builder
	for _, k := range keys {
		fmt.Fprintf(&sb, "%s\t%d\t%s\n", k, allKeys.count[k], allKeys.first[k])
	}
	os.WriteFile(path, []byte(sb.String()), 0o644)
}

// sampleWanted picks the type trees whose cases are shown as samples in the evidence file (a spread over the space).
func sampleWanted(ts string) bool {
	switch ts {
	case "varint", "date", "duration", "decimal", "list<int>", "map<text,bigint>",
		"tuple<int,text>", "udt{a:bigint,b:text}", "list<map<int,bigint>>", "map<text,set<varint>>", "tuple<int,udt{a:text,b:varint}>", "udt{a:list<uuid>,b:int}":
		return true
	}
	return false
}

// guarded runs one type case; a panic while a decoded value is compared or printed
// means gocql handed back a corrupt value (e.g. aliased big.Int / byte slices): that
// is a violation of the case's type, not a harness crash.
func guarded(r *report.Run, tc TypeCase, f func()) {
	defer func() {
		if p := recover(); p != nil {
			stack := string(debug.Stack())
			site := "unknown"
			for _, l := range strings.Split(stack, "\n") {
				if strings.HasPrefix(l, "math/big.") || strings.HasPrefix(l, "github.com/gocql/gocql.") || strings.HasPrefix(l, "reflect.") {
					site = l
					if i := strings.Index(site, "("); i > 0 {
						site = site[:i]
					}
					break
				}
			}
			r.Violation("corrupt-decoded-value:panic-while-inspecting:"+site, fmt.Sprintf("type %s: %v\n%s", tc.T, p, stack), map[string]string{"type": tc.T.String()})
		}
	}()
	f()
}

// omitCached memoises omitsUDTField per Go type (one memo per type tree).
func omitCached(memo map[reflect.Type]bool, t *value.Type, gt reflect.Type) bool {
	if gt == nil {
		return false
	}
	v, ok := memo[gt]
	if !ok {
		v = omitsUDTField(t, gt)
		memo[gt] = v
	}
	return v
}
