package main

// Shared by C12 and C02: the bounded-exhaustive generator of Go source values.
//
// For a CQL type tree the generator yields "groups": one group per static Go
// type, each with that type's boundary-value alphabet.  Containers are built
// from the groups of their element types by reflection, varying one thing at
// a time around a default (first value of first group), so that every element
// Go type and every element boundary value occurs inside every container
// shape, and every container shape (nil, empty, 1, 2 elements, null elements,
// typed nil pointers, arrays, map[X]struct{}, []interface{}, structs,
// map[string]interface{}, UDTMarshaler) occurs for every type tree.

import (
	"fmt"
	"math"
	"math/big"
	"net"
	"reflect"
	"strings"
	"time"

	"github.com/gocql/gocql"
	"gopkg.in/inf.v0"
	"verif/engine/refcql/value"
)

// GoVal is one Go source value.
type GoVal struct {
	RV    reflect.Value // invalid = the untyped nil
	Exact bool          // Marshal then Unmarshal into the same Go type must reproduce it exactly
}

// Group is the alphabet of one static Go type.
type Group struct {
	GT   reflect.Type // nil for the untyped nil
	Vals []GoVal
}

type budget int

const (
	top         budget = iota // the value bound to the column itself: full alphabets, pointer and pointer-to-pointer
	elemFull                  // element of a depth-1 container: full alphabets, pointers with few values
	elemReduced               // anything inside a depth-2 tree: 3 Go types x 3 values
)

type gen struct {
	thorough bool
	memo     map[string][]*Group
}

func newGen(thorough bool) *gen { return &gen{thorough: thorough, memo: map[string][]*Group{}} }

func gv(x interface{}) GoVal  { return GoVal{reflect.ValueOf(x), true} }
func gvn(x interface{}) GoVal { return GoVal{reflect.ValueOf(x), false} }

func grp(gt reflect.Type, vals ...GoVal) *Group { return &Group{GT: gt, Vals: vals} }

// convertGroup re-types every value of a group to a named type with the same underlying type.
func convertGroup(g *Group, gt reflect.Type) *Group {
	out := &Group{GT: gt}
	for _, v := range g.Vals {
		out.Vals = append(out.Vals, GoVal{v.RV.Convert(gt), v.Exact})
	}
	return out
}

func bigStr(s string) *big.Int {
	x, ok := new(big.Int).SetString(s, 10)
	if !ok {
		panic(s)
	}
	return x
}

// intBounds: 0, 1, -1, then for every width boundary k: 2^k-1, 2^k, -2^k, -2^k-1.
// quick: k in {7,8,15,16,23,24,...,63,64,71} (every byte-length boundary of a varint up to 2^71);
// thorough: every k in 1..72 and 2^k+1, -2^k+1 as well.
func intBounds(thorough bool) []*big.Int {
	out := []*big.Int{big.NewInt(0), big.NewInt(1), big.NewInt(-1)}
	ks := []uint{7, 8, 15, 16, 23, 24, 31, 32, 39, 40, 47, 48, 55, 56, 63, 64, 71}
	if thorough {
		ks = nil
		for k := uint(1); k <= 72; k++ {
			ks = append(ks, k)
		}
	}
	seen := map[string]bool{"0": true, "1": true, "-1": true}
	add := func(x *big.Int) {
		if !seen[x.String()] {
			seen[x.String()] = true
			out = append(out, x)
		}
	}
	for _, k := range ks {
		p := pow2(k)
		add(new(big.Int).Sub(p, big1))
		add(new(big.Int).Set(p))
		add(new(big.Int).Neg(p))
		add(new(big.Int).Sub(new(big.Int).Neg(p), big1))
		if thorough {
			add(new(big.Int).Add(p, big1))
			add(new(big.Int).Add(new(big.Int).Neg(p), big1))
		}
	}
	return out
}

func intGroup(gt reflect.Type, bounds []*big.Int) *Group {
	g := &Group{GT: gt}
	bits := kindBits(gt.Kind())
	for _, b := range bounds {
		rv := reflect.New(gt).Elem()
		if isSignedKind(gt.Kind()) {
			if !fitsSigned(b, bits) {
				continue
			}
			rv.SetInt(b.Int64())
		} else {
			if b.Sign() < 0 || b.Cmp(pow2(bits)) >= 0 {
				continue
			}
			rv.SetUint(b.Uint64())
		}
		g.Vals = append(g.Vals, GoVal{rv, true})
	}
	return g
}

func intStringGroup(bounds []*big.Int) *Group {
	g := &Group{GT: tString}
	lim := pow2(65)
	for _, b := range bounds {
		if b.CmpAbs(lim) <= 0 {
			g.Vals = append(g.Vals, gv(b.String()))
		}
	}
	g.Vals = append(g.Vals, gvn("+1"), gvn("007"), gvn("-0"), // decimal notation, not canonical
		gv(""), gv("abc"), gv("1.5"), gv(" 1"), gv("0x10"), gv("1e3")) // not decimal integers: must be refused
	return g
}

func bigGroup(bounds []*big.Int) *Group {
	g := &Group{GT: tBig}
	for _, b := range bounds {
		g.Vals = append(g.Vals, gv(*new(big.Int).Set(b)))
	}
	return g
}

func longString(n int) string { return strings.Repeat("x", n) }

func mustUUID(s string) gocql.UUID {
	u, err := gocql.ParseUUID(s)
	if err != nil {
		panic(err)
	}
	return u
}

// scalarBase lists the groups (without pointer variants) of every documented
// Go source type, and the named types with the same underlying type, for a
// scalar CQL type.
func (g *gen) scalarBase(t *value.Type) []*Group {
	bounds := intBounds(g.thorough)
	var out []*Group
	switch t.ID {
	case value.Ascii, value.Text, value.Varchar, value.Blob:
		strs := []string{"a", "", "hello world", "\x00", longString(255), longString(256)}
		if t.ID != value.Ascii {
			strs = append(strs, "héllo 世界")
		}
		if t.ID == value.Text || t.ID == value.Blob {
			strs = append(strs, longString(32768)) // first length whose [short] has the sign bit set (protocol <= 2 element framing)
		}
		if g.thorough {
			strs = append(strs, longString(65535), longString(65536))
		}
		sg, bg := &Group{GT: tString}, &Group{GT: tBytes}
		for _, s := range strs {
			sg.Vals = append(sg.Vals, gv(s))
			bg.Vals = append(bg.Vals, gv([]byte(s)))
		}
		bg.Vals = append(bg.Vals, gv([]byte(nil)))
		if t.ID == value.Blob {
			bg.Vals = append(bg.Vals, gv([]byte{0xff, 0x00, 0x80, 0x7f}))
		}
		out = append(out, sg, bg, convertGroup(sg, tMyString), convertGroup(bg, tMyBytes))
	case value.Boolean:
		bgp := grp(tBool, gv(true), gv(false))
		out = append(out, bgp, convertGroup(bgp, tMyBool))
	case value.TinyInt, value.SmallInt, value.Int, value.BigInt, value.Counter, value.Varint:
		for _, gt := range intTypes {
			out = append(out, intGroup(gt, bounds))
		}
		out = append(out, intStringGroup(bounds))
		if t.ID == value.BigInt || t.ID == value.Counter || t.ID == value.Varint {
			out = append(out, bigGroup(bounds))
		}
		for _, gt := range namedInt {
			out = append(out, intGroup(gt, bounds))
		}
	case value.Float:
		bitsList := []uint32{0x3F800000, 0x00000000, 0x80000000, 0xBF800000, 0x7F7FFFFF, 0x00800000, 0x00000001, 0x807FFFFF,
			0x7F800000, 0xFF800000, 0x7FC00000, 0x7FC00001, 0xFFC12345, 0x40490FDB}
		fg := &Group{GT: tF32}
		for _, b := range bitsList {
			fg.Vals = append(fg.Vals, gv(math.Float32frombits(b)))
		}
		out = append(out, fg, convertGroup(fg, tMyF32))
	case value.Double:
		bitsList := []uint64{0x3FF0000000000000, 0, 0x8000000000000000, 0xBFF0000000000000, 0x7FEFFFFFFFFFFFFF, 0x0010000000000000,
			0x0000000000000001, 0x800FFFFFFFFFFFFF, 0x7FF0000000000000, 0xFFF0000000000000, 0x7FF8000000000000, 0x7FF8000000000001,
			0xFFF8123456789ABC, 0x400921FB54442D18}
		fg := &Group{GT: tF64}
		for _, b := range bitsList {
			fg.Vals = append(fg.Vals, gv(math.Float64frombits(b)))
		}
		out = append(out, fg, convertGroup(fg, tMyF64))
	case value.Decimal:
		dg := &Group{GT: tDec}
		unscaled := []*big.Int{big.NewInt(123), big.NewInt(0), big.NewInt(-1), big.NewInt(127), big.NewInt(128), big.NewInt(-128), big.NewInt(-129),
			bigStr("9223372036854775808"), bigStr("-9223372036854775809"), bigStr("2361183241434822606848"), bigStr("-2361183241434822606849")}
		scales := []int32{2, 0, -1, 1, math.MaxInt32, math.MinInt32}
		for i, u := range unscaled {
			for j, s := range scales {
				if g.thorough || i < 3 || j < 1 || i == j+3 {
					dg.Vals = append(dg.Vals, gv(*inf.NewDecBig(new(big.Int).Set(u), inf.Scale(s))))
				}
			}
		}
		out = append(out, dg)
	case value.Time:
		ns := []int64{1, 0, 86399999999999, 3600000000000, -1, 86400000000000, math.MaxInt64, math.MinInt64}
		ig, dgp := &Group{GT: tInt64}, &Group{GT: tGoDur}
		for _, n := range ns {
			ig.Vals = append(ig.Vals, gv(n))
			dgp.Vals = append(dgp.Vals, gv(time.Duration(n)))
		}
		out = append(out, ig, dgp, convertGroup(ig, tMyInt64), convertGroup(dgp, tMyDur))
	case value.Timestamp:
		ms := []int64{1486166400123, 0, 1, -1, -43200000, -12219292800000, 253402300799999, math.MaxInt64, math.MinInt64}
		ig, tg := &Group{GT: tInt64}, &Group{GT: tTime}
		for _, n := range ms {
			ig.Vals = append(ig.Vals, gv(n))
			tg.Vals = append(tg.Vals, gv(time.UnixMilli(n).UTC()))
		}
		tg.Vals = append(tg.Vals,
			gv(time.Date(2001, 2, 3, 4, 5, 6, 789000000, time.FixedZone("x", 5*3600+1800))),
			gv(time.Date(1, 1, 1, 0, 0, 0, 1000000, time.UTC)),
			gv(time.Date(1969, 12, 31, 23, 59, 59, 999000000, time.FixedZone("y", -8*3600))),
			gv(time.Time{}))
		out = append(out, ig, tg, convertGroup(ig, tMyInt64))
	case value.Date:
		day := int64(86400000)
		ig := grp(tInt64, gv(int64(1486166400000)), gv(int64(0)), gv(day), gv(-day), gvn(int64(1)), gvn(day-1),
			gvn(int64(-1)), gvn(-day-1), gvn(int64(-43200000)), gvn(-day+1),
			gv((1<<31-1)*day), gv(-(1<<31)*day), gvn((1<<31-1)*day+day-1),
			gv((1<<31)*day), gv(-(1<<31)*day-1), gv(int64(math.MaxInt64)), gv(int64(math.MinInt64))) // the last four: outside the date range
		tg := grp(tTime,
			gv(time.Date(2017, 2, 4, 0, 0, 0, 0, time.UTC)),
			gv(time.Unix(0, 0).UTC()),
			gv(time.Date(1969, 12, 31, 0, 0, 0, 0, time.UTC)),
			gvn(time.Date(1969, 12, 31, 12, 0, 0, 0, time.UTC)),
			gvn(time.Date(1969, 12, 31, 23, 59, 59, 999000000, time.UTC)),
			gvn(time.Date(1970, 1, 1, 23, 59, 59, 999999999, time.UTC)),
			gvn(time.Date(1582, 10, 15, 6, 0, 0, 0, time.UTC)),
			gvn(time.Date(2017, 2, 4, 13, 0, 0, 0, time.FixedZone("z", 14*3600))),
			gv(time.Date(2017, 2, 4, 5, 30, 0, 0, time.FixedZone("x", 5*3600+1800))), // midnight UTC
			gv(time.Date(1, 1, 2, 0, 0, 0, 0, time.UTC)),
			gv(time.Date(9999, 12, 31, 0, 0, 0, 0, time.UTC)),
			gv(time.Date(999999, 12, 31, 0, 0, 0, 0, time.UTC)),
			gv(time.Date(-999999, 1, 1, 0, 0, 0, 0, time.UTC)),
			gv(time.Date(5881581, 1, 1, 0, 0, 0, 0, time.UTC)),  // after the last date (5881580-07-11)
			gv(time.Date(-5877642, 1, 1, 0, 0, 0, 0, time.UTC)), // before the first date (-5877641-06-23)
			gv(time.Time{}))
		sg := grp(tString, gv("2017-02-04"), gv("1970-01-01"), gv("1969-12-31"), gv("0001-01-01"), gv("9999-12-31"), gv("2016-02-29"), gv("1582-10-15"), gv(""),
			gv("2017-02-30"), gv("2017-13-01"), gv("2015-02-29"), gv("not-a-date"), gv("20170204"), gv("2017-02-04T00:00:00Z"), gv(" 2017-02-04"), gv("17201"))
		out = append(out, ig, tg, sg, convertGroup(ig, tMyInt64), convertGroup(sg, tMyString))
	case value.Duration:
		ns := []int64{4210000000000, 0, 1, -1, 63, 64, -64, -65, 1 << 20, 1<<55 - 1, 1 << 55, math.MaxInt64, math.MinInt64}
		ig, dgp, cg := &Group{GT: tInt64}, &Group{GT: tGoDur}, &Group{GT: tDur}
		for _, n := range ns {
			ig.Vals = append(ig.Vals, gv(n))
			dgp.Vals = append(dgp.Vals, gv(time.Duration(n)))
			cg.Vals = append(cg.Vals, gv(gocql.Duration{Nanoseconds: n}))
		}
		cg.Vals = append(cg.Vals, gv(gocql.Duration{Months: 1, Days: 2, Nanoseconds: 3}), gv(gocql.Duration{Months: -1, Days: -2, Nanoseconds: -3}),
			gv(gocql.Duration{Months: 63, Days: 64}), gv(gocql.Duration{Months: -64, Days: -65}),
			gv(gocql.Duration{Months: math.MaxInt32, Days: math.MaxInt32, Nanoseconds: math.MaxInt64}),
			gv(gocql.Duration{Months: math.MinInt32, Days: math.MinInt32, Nanoseconds: math.MinInt64}),
			gv(gocql.Duration{Months: 12}), gv(gocql.Duration{Days: 8192}))
		sg := grp(tString, gv("1h10m10s"), gv("0"), gv("-1ns"), gv("1.5s"), gv("2562047h47m16.854775807s"), gv(""), gv("abc"), gv("1d"), gv("10"))
		out = append(out, ig, dgp, cg, sg, convertGroup(ig, tMyInt64), convertGroup(dgp, tMyDur))
	case value.UUID, value.TimeUUID:
		us := []string{"3dcd9800-f3d9-11bf-86d4-b8e8562c0cd0", "00000000-0000-1000-8000-000000000000", "ffffffff-ffff-1fff-bfff-ffffffffffff", "0f8e1f80-5a3d-11e7-907b-a6006ad3dba0"}
		if t.ID == value.UUID {
			us = append(us, "00000000-0000-0000-0000-000000000000", "ffffffff-ffff-ffff-ffff-ffffffffffff", "01020304-0506-4708-890a-0b0c0d0e0f10")
		}
		ug, ag, bg, sg := &Group{GT: tUUID}, &Group{GT: tArr16}, &Group{GT: tBytes}, &Group{GT: tString}
		for _, s := range us {
			u := mustUUID(s)
			ug.Vals = append(ug.Vals, gv(u))
			ag.Vals = append(ag.Vals, gv([16]byte(u)))
			bg.Vals = append(bg.Vals, gv(append([]byte{}, u[:]...)))
			sg.Vals = append(sg.Vals, gv(s))
		}
		bg.Vals = append(bg.Vals, gv([]byte(nil)), gv([]byte{}), gv(make([]byte, 15)), gv(make([]byte, 17)))
		sg.Vals = append(sg.Vals, gvn(strings.ToUpper(us[0])), gvn(strings.ReplaceAll(us[0], "-", "")),
			gv(""), gv("3dcd9800-f3d9-11bf-86d4-b8e8562c0cd"), gv("3dcd9800-f3d9-11bf-86d4-b8e8562c0cd00"), gv("zdcd9800-f3d9-11bf-86d4-b8e8562c0cd0"))
		out = append(out, ug, ag, bg, sg)
	case value.Inet:
		ipg := grp(tIP, gv(net.IP{127, 0, 0, 1}), gvn(net.ParseIP("127.0.0.1")), gv(net.ParseIP("::1")), gv(net.ParseIP("2001:db8::ff00:42:8329")),
			gv(net.IP{0, 0, 0, 0}), gv(net.IP{255, 255, 255, 255}), gv(net.ParseIP("::")), gv(net.ParseIP("ffff:ffff:ffff:ffff:ffff:ffff:ffff:ffff")),
			gvn(net.ParseIP("::ffff:1.2.3.4")), gv(net.ParseIP("::fffe:1.2.3.4")), gv(net.IP(nil)))
		sg := grp(tString, gv("127.0.0.1"), gv("::1"), gv("2001:db8::ff00:42:8329"), gv("0.0.0.0"), gv("255.255.255.255"), gv("::"),
			gvn("::ffff:1.2.3.4"), gvn("2001:0db8:0000:0000:0000:ff00:0042:8329"), gvn("2001:DB8::1"),
			gv(""), gv("1.2.3"), gv("1.2.3.256"), gv("localhost"), gv("1.2.3.4/24"), gv(":::"))
		out = append(out, ipg, sg)
	default:
		panic("scalarBase: " + t.String())
	}
	return out
}

func firstN(vals []GoVal, n int) []GoVal {
	if len(vals) > n {
		return vals[:n]
	}
	return vals
}

func ptrTo(v reflect.Value) reflect.Value {
	p := reflect.New(v.Type())
	p.Elem().Set(v)
	return p
}

// ptrVal wraps a value in a pointer.  A pointer to something nil (nil pointer, nil slice, nil map)
// is null and reads back as a nil outer pointer, so it is not "exact".
func ptrVal(v GoVal) GoVal {
	exact := v.Exact
	switch v.RV.Kind() {
	case reflect.Ptr, reflect.Slice, reflect.Map, reflect.Interface:
		if v.RV.IsNil() {
			exact = false
		}
	}
	return GoVal{ptrTo(v.RV), exact}
}

// pointerGroups adds *T (every value, or the first n, plus the typed nil) and, at the top, **T groups.
func pointerGroups(base []*Group, b budget) []*Group {
	var out []*Group
	for _, g := range base {
		if g.GT == nil {
			continue
		}
		n := len(g.Vals)
		if b != top {
			n = 3
		}
		pg := &Group{GT: reflect.PtrTo(g.GT)}
		for _, v := range firstN(g.Vals, n) {
			pg.Vals = append(pg.Vals, ptrVal(v))
		}
		pg.Vals = append(pg.Vals, GoVal{reflect.Zero(pg.GT), true}) // typed nil pointer = null
		out = append(out, pg)
		if b == top {
			ppg := &Group{GT: reflect.PtrTo(pg.GT)}
			for _, v := range firstN(pg.Vals, 3) {
				ppg.Vals = append(ppg.Vals, ptrVal(v))
			}
			ppg.Vals = append(ppg.Vals,
				GoVal{ptrTo(reflect.Zero(pg.GT)), false}, // pointer to a nil pointer = null (reads back as a nil outer pointer)
				GoVal{reflect.Zero(ppg.GT), true})
			out = append(out, ppg)
		}
	}
	return out
}

func reduceGroups(gs []*Group, nGroups, nVals int) []*Group {
	var out []*Group
	for i, g := range gs {
		if i >= nGroups {
			break
		}
		out = append(out, &Group{GT: g.GT, Vals: firstN(g.Vals, nVals)})
	}
	return out
}

// groups returns the source groups of type t under a budget.
func (g *gen) groups(t *value.Type, b budget) []*Group {
	key := fmt.Sprintf("%s|%d", t, b)
	if r, ok := g.memo[key]; ok {
		return r
	}
	var out []*Group
	if len(t.Elems) == 0 {
		base := g.scalarBase(t)
		if b == elemReduced {
			base = reduceGroups(base, 3, 3)
			out = append(base, pointerGroups(base[:1], b)...)
		} else {
			out = append(base, pointerGroups(base, b)...)
		}
		if b == top {
			out = append(out, &Group{GT: nil, Vals: []GoVal{{reflect.Value{}, true}}}) // untyped nil
		}
	} else {
		out = g.containerGroups(t, b)
	}
	g.memo[key] = out
	return out
}

func childBudget(t *value.Type, b budget) budget {
	if b == top && t.Depth() == 1 {
		return elemFull
	}
	return elemReduced
}

// defaultVal is the first value of the first group.
func defaultVal(gs []*Group) (reflect.Type, GoVal) { return gs[0].GT, gs[0].Vals[0] }

func sliceOf(gt reflect.Type, exact bool, vals ...GoVal) GoVal {
	s := reflect.MakeSlice(reflect.SliceOf(gt), len(vals), len(vals))
	for i, v := range vals {
		if v.RV.IsValid() {
			s.Index(i).Set(v.RV)
		}
		exact = exact && v.Exact
	}
	return GoVal{s, exact}
}

func arrayOf(gt reflect.Type, vals ...GoVal) GoVal {
	a := reflect.New(reflect.ArrayOf(len(vals), gt)).Elem()
	exact := true
	for i, v := range vals {
		if v.RV.IsValid() {
			a.Index(i).Set(v.RV)
		}
		exact = exact && v.Exact
	}
	return GoVal{a, exact}
}

func hashable(v reflect.Value) bool {
	if !v.IsValid() || !v.Type().Comparable() {
		return false
	}
	if k := v.Kind(); k == reflect.Float32 || k == reflect.Float64 {
		return v.Float() == v.Float() // no NaN keys
	}
	return true
}

func setOf(gt reflect.Type, vals ...GoVal) (GoVal, bool) {
	m := reflect.MakeMap(reflect.MapOf(gt, tNothing))
	for _, v := range vals {
		if !hashable(v.RV) {
			return GoVal{}, false
		}
		m.SetMapIndex(v.RV, reflect.Zero(tNothing))
	}
	return GoVal{m, false}, true
}

func mapOf(kt, vt reflect.Type, exact bool, kv ...GoVal) (GoVal, bool) {
	m := reflect.MakeMap(reflect.MapOf(kt, vt))
	for i := 0; i+1 < len(kv); i += 2 {
		if !hashable(kv[i].RV) {
			return GoVal{}, false
		}
		val := kv[i+1].RV
		if !val.IsValid() {
			val = reflect.Zero(vt)
		}
		m.SetMapIndex(kv[i].RV, val)
		exact = exact && kv[i].Exact && kv[i+1].Exact
	}
	return GoVal{m, exact}, true
}

func hasIface(gt reflect.Type) bool {
	switch gt.Kind() {
	case reflect.Interface:
		return true
	case reflect.Ptr, reflect.Slice, reflect.Array:
		return hasIface(gt.Elem())
	case reflect.Map:
		return hasIface(gt.Key()) || hasIface(gt.Elem())
	case reflect.Struct:
		if gt == tTime || gt == tBig || gt == tDec {
			return false
		}
		for i := 0; i < gt.NumField(); i++ {
			if hasIface(gt.Field(i).Type) {
				return true
			}
		}
	}
	return false
}

func (g *gen) containerGroups(t *value.Type, b budget) []*Group {
	cb := childBudget(t, b)
	byType := map[reflect.Type]*Group{}
	var order []*Group
	add := func(v GoVal) {
		gt := v.RV.Type()
		if hasIface(gt) || gt == tUdtM {
			v.Exact = false // read back through gocql's default Go types: compared on the abstraction
		}
		gr := byType[gt]
		if gr == nil {
			gr = &Group{GT: gt}
			byType[gt] = gr
			order = append(order, gr)
		}
		gr.Vals = append(gr.Vals, v)
	}
	rich := b == top
	switch t.ID {
	case value.List, value.Set:
		egs := g.groups(t.Elems[0], cb)
		for gi, eg := range egs {
			if eg.GT == nil {
				continue
			}
			st := reflect.SliceOf(eg.GT)
			add(GoVal{reflect.Zero(st), true}) // nil slice = null
			add(sliceOf(eg.GT, true))          // empty
			n := len(eg.Vals)
			if !rich {
				n = 1
			}
			for i := 0; i < n; i++ {
				add(sliceOf(eg.GT, true, eg.Vals[i]))
			}
			if len(eg.Vals) >= 2 {
				m := len(eg.Vals)
				if !rich {
					m = 1
				}
				for i := 0; i < m; i++ {
					add(sliceOf(eg.GT, true, eg.Vals[i], eg.Vals[(i+1)%len(eg.Vals)]))
				}
			}
			if rich || gi == 0 {
				for _, v := range firstN(eg.Vals, 3) {
					add(arrayOf(eg.GT, v))
				}
				if len(eg.Vals) >= 2 {
					add(arrayOf(eg.GT, eg.Vals[0], eg.Vals[1]))
				}
				add(arrayOf(eg.GT)) // [0]T
				if eg.GT.Comparable() {
					for _, v := range firstN(eg.Vals, 3) {
						if s, ok := setOf(eg.GT, v); ok {
							add(s)
						}
					}
					if len(eg.Vals) >= 2 {
						if s, ok := setOf(eg.GT, eg.Vals[0], eg.Vals[1]); ok && s.RV.Len() == 2 {
							add(s)
						}
					}
					if s, ok := setOf(eg.GT); ok {
						add(s)
					}
				}
			}
		}
		// []interface{} with elements of mixed static types and the untyped nil
		for gi, eg := range egs {
			if eg.GT == nil || (!rich && gi > 1) {
				continue
			}
			add(sliceOf(tIface, false, eg.Vals[0]))
			add(sliceOf(tIface, false, eg.Vals[0], egs[(gi+1)%len(egs)].Vals[0]))
		}
		add(sliceOf(tIface, false, GoVal{reflect.Value{}, true}))
		add(sliceOf(tIface, false, egs[0].Vals[0], GoVal{reflect.Value{}, true}))
	case value.Map:
		kgs := g.groups(t.Elems[0], cb)
		vgs := g.groups(t.Elems[1], cb)
		one := func(kg, vg *Group, allK, allV bool) {
			if kg.GT == nil || vg.GT == nil || !kg.GT.Comparable() {
				return
			}
			mt := reflect.MapOf(kg.GT, vg.GT)
			add(GoVal{reflect.Zero(mt), true}) // nil map = null
			if m, ok := mapOf(kg.GT, vg.GT, true); ok {
				add(m)
			}
			k0, v0 := kg.Vals[0], vg.Vals[0]
			nv := 1
			if allV {
				nv = len(vg.Vals)
			}
			for i := 0; i < nv; i++ {
				if m, ok := mapOf(kg.GT, vg.GT, true, k0, vg.Vals[i]); ok {
					add(m)
				}
			}
			nk := 1
			if allK {
				nk = len(kg.Vals)
			}
			for i := 1; i < nk; i++ {
				if m, ok := mapOf(kg.GT, vg.GT, true, kg.Vals[i], v0); ok {
					add(m)
				}
			}
			if len(kg.Vals) >= 2 {
				v1 := vg.Vals[len(vg.Vals)-1]
				if len(vg.Vals) >= 2 {
					v1 = vg.Vals[1]
				}
				if m, ok := mapOf(kg.GT, vg.GT, true, k0, v0, kg.Vals[1], v1); ok && m.RV.Len() == 2 {
					add(m)
				}
			}
		}
		if rich {
			for _, vg := range vgs {
				one(kgs[0], vg, false, true)
			}
			for i, kg := range kgs {
				if i > 0 {
					one(kg, vgs[0], true, false)
				}
			}
			if g.thorough {
				for i, kg := range kgs {
					for j, vg := range vgs {
						if i > 0 && j > 0 {
							one(kg, vg, false, false)
						}
					}
				}
			}
		} else {
			one(kgs[0], vgs[0], false, false)
			if len(kgs) > 1 {
				one(kgs[1], vgs[len(vgs)-1], false, false) // last value group of the reduced set is the pointer group: null values
			}
		}
	case value.Tuple, value.UDT:
		g.productGroups(t, b, cb, add)
	}
	var out []*Group
	out = append(out, order...)
	if b == top {
		// pointer to container, typed nil pointer to container, untyped nil
		var extra []*Group
		for _, gr := range firstGroups(order, 3) {
			pg := &Group{GT: reflect.PtrTo(gr.GT)}
			for _, v := range firstN(gr.Vals, 3) {
				pg.Vals = append(pg.Vals, ptrVal(v))
			}
			pg.Vals = append(pg.Vals, GoVal{reflect.Zero(pg.GT), true})
			extra = append(extra, pg)
		}
		out = append(out, extra...)
		out = append(out, &Group{GT: nil, Vals: []GoVal{{reflect.Value{}, true}}})
	}
	return out
}

func firstGroups(gs []*Group, n int) []*Group {
	if len(gs) > n {
		return gs[:n]
	}
	return gs
}

var fieldNames = []string{"F0", "F1", "F2", "F3"}

// productGroups builds tuple and UDT sources.
func (g *gen) productGroups(t *value.Type, b, cb budget, add func(GoVal)) {
	n := len(t.Elems)
	slot := make([][]*Group, n)
	defT := make([]reflect.Type, n)
	defV := make([]GoVal, n)
	for i, et := range t.Elems {
		slot[i] = g.groups(et, cb)
		defT[i], defV[i] = defaultVal(slot[i])
	}
	rich := b == top
	nilVal := GoVal{reflect.Value{}, true}
	isUDT := t.ID == value.UDT

	// (a) interface-slot form: []interface{} for tuples, map[string]interface{} / UDTMarshaler for UDTs
	ifaceForm := func(vals []GoVal, omit int) {
		if !isUDT {
			add(sliceOf(tIface, false, vals...))
			return
		}
		m := map[string]interface{}{}
		for i, v := range vals {
			if i == omit {
				continue // key absent = null
			}
			if v.RV.IsValid() {
				m[t.Names[i]] = v.RV.Interface()
			} else {
				m[t.Names[i]] = nil
			}
		}
		add(GoVal{reflect.ValueOf(m), false})
		add(GoVal{reflect.ValueOf(udtM{F: m}), false})
	}
	cp := func() []GoVal { return append([]GoVal{}, defV...) }
	ifaceForm(cp(), -1)
	for i := 0; i < n; i++ {
		for gi, sg := range slot[i] {
			nv := len(sg.Vals)
			if !rich {
				nv = 1
				if gi > 1 {
					continue
				}
			}
			for _, v := range firstN(sg.Vals, nv) {
				vals := cp()
				vals[i] = v
				ifaceForm(vals, -1)
			}
			if sg.GT != nil && sg.GT.Kind() != reflect.Ptr {
				// typed nil pointer in an interface slot
				vals := cp()
				vals[i] = GoVal{reflect.Zero(reflect.PtrTo(sg.GT)), true}
				if rich || gi == 0 {
					ifaceForm(vals, -1)
				}
			}
		}
		vals := cp()
		vals[i] = nilVal
		ifaceForm(vals, -1)
		if isUDT {
			ifaceForm(cp(), i)
		}
	}
	allNil := make([]GoVal, n)
	for i := range allNil {
		allNil[i] = nilVal
	}
	ifaceForm(allNil, -1)
	if !isUDT && rich {
		add(sliceOf(tIface, false, append(cp(), defV[0])...)) // wrong arity: must be refused
		add(sliceOf(tIface, false, cp()[:n-1]...))
	}

	// (b) struct form
	mkStruct := func(types []reflect.Type, vals []GoVal, tagged bool) {
		fields := make([]reflect.StructField, n)
		for i := range fields {
			fields[i] = reflect.StructField{Name: fieldNames[i], Type: types[i]}
			if isUDT && tagged {
				fields[i].Tag = reflect.StructTag(fmt.Sprintf(`cql:"%s"`, t.Names[i]))
			}
		}
		st := reflect.StructOf(fields)
		sv := reflect.New(st).Elem()
		exact := true
		for i, v := range vals {
			if v.RV.IsValid() {
				sv.Field(i).Set(v.RV)
			}
			exact = exact && v.Exact
		}
		add(GoVal{sv, exact})
		if rich {
			add(ptrVal(GoVal{sv, exact}))
		}
	}
	for i := 0; i < n; i++ {
		for gi, sg := range slot[i] {
			if sg.GT == nil {
				continue
			}
			nv := len(sg.Vals)
			if !rich {
				nv = 1
				if gi > 0 && sg.GT.Kind() != reflect.Ptr {
					continue
				}
			}
			types := append([]reflect.Type{}, defT...)
			types[i] = sg.GT
			for _, v := range firstN(sg.Vals, nv) {
				vals := cp()
				vals[i] = v
				mkStruct(types, vals, true)
			}
			if sg.GT.Kind() == reflect.Ptr {
				vals := cp()
				vals[i] = GoVal{reflect.Zero(sg.GT), true}
				mkStruct(types, vals, true)
			}
		}
	}
	if isUDT && n > 1 {
		// structs that lack fields of the UDT: EVERY non-empty proper subset of the fields is omitted in turn (first,
		// middle, last, several), the omitted fields are null. The kept fields take the k-th value of their default
		// group, k = 0,1,2 at the top and k = 0,1 when nested (for every element type one of the first two values is
		// not the zero value, so a kept field that is wrongly read as null / from another field's bytes shows).
		nk := 2
		if rich {
			nk = 3
		}
		for mask := 1; mask < (1<<uint(n))-1; mask++ { // bit i set = field i omitted
			var fields []reflect.StructField
			var kept []int
			for i := 0; i < n; i++ {
				if mask&(1<<uint(i)) == 0 {
					fields = append(fields, reflect.StructField{Name: fieldNames[i], Type: defT[i], Tag: reflect.StructTag(fmt.Sprintf(`cql:"%s"`, t.Names[i]))})
					kept = append(kept, i)
				}
			}
			st := reflect.StructOf(fields)
			for k := 0; k < nk; k++ {
				sv := reflect.New(st).Elem()
				for fi, i := range kept {
					vals := slot[i][0].Vals
					if v := vals[k%len(vals)]; v.RV.IsValid() {
						sv.Field(fi).Set(v.RV)
					}
				}
				add(GoVal{sv, false})
				if rich && k == 1 {
					add(ptrVal(GoVal{sv, false}))
				}
			}
		}
	}

	// (c) homogeneous slice / array form (tuples whose components share one CQL type)
	if !isUDT {
		same := true
		for _, et := range t.Elems {
			if et.String() != t.Elems[0].String() {
				same = false
			}
		}
		if same {
			for gi, sg := range slot[0] {
				if sg.GT == nil || (!rich && gi > 0 && sg.GT.Kind() != reflect.Ptr) {
					continue
				}
				nv := len(sg.Vals)
				if !rich {
					nv = 1
				}
				for k := 0; k < nv; k++ {
					vals := make([]GoVal, n)
					for i := range vals {
						vals[i] = sg.Vals[(k+i)%len(sg.Vals)]
					}
					add(sliceOf(sg.GT, true, vals...))
					add(arrayOf(sg.GT, vals...))
				}
				if rich {
					add(GoVal{reflect.Zero(reflect.SliceOf(sg.GT)), true})
				}
			}
		}
	}
}
