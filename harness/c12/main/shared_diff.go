package main

// Shared by C12 and C02: attribution of a mismatch to the innermost component
// (so that the same defect has the same finding key at top level and nested),
// finding-key construction, deep equality.

import (
	"bytes"
	"fmt"
	"math"
	"math/big"
	"reflect"
	"strings"
	"time"

	"gopkg.in/inf.v0"
	"verif/engine/refcql/value"
)

type mismatch struct {
	LeafT  *value.Type
	LeafRV reflect.Value
	Ctx    *value.Type  // enclosing container (nil at top level)
	CtxGo  reflect.Type // Go type of the enclosing container value
	Want   []byte       // nil = null
	Got    []byte
	Note   string
}

func partBytes(p value.Part) []byte {
	if p.Null {
		return nil
	}
	if p.B == nil {
		return []byte{}
	}
	return p.B
}

func sameBytes(t *value.Type, a, b []byte, proto int) bool {
	if (a == nil) != (b == nil) {
		return false
	}
	if bytes.Equal(a, b) {
		return true
	}
	ca, e1 := value.Canon(t, a, proto)
	cb, e2 := value.Canon(t, b, proto)
	return e1 == nil && e2 == nil && bytes.Equal(ca, cb)
}

// setified returns t with every list turned into a set (used when a Go map[X]struct{} was bound to a list:
// the order of the elements is then Go's map order).
func setified(t *value.Type) *value.Type {
	c := *t
	if c.ID == value.List {
		c.ID = value.Set
	}
	c.Elems = make([]*value.Type, len(t.Elems))
	for i, e := range t.Elems {
		c.Elems[i] = setified(e)
	}
	return &c
}

// hasUnorderedList reports whether somewhere in rv a Go map is bound to a CQL list.
func hasUnorderedList(t *value.Type, rv reflect.Value) bool {
	if len(t.Elems) == 0 {
		return false
	}
	rv, isNil := deref(rv)
	if isNil {
		return false
	}
	if (rv.Kind() == reflect.Slice || rv.Kind() == reflect.Map) && rv.IsNil() {
		return false
	}
	kids, unordered, ok := kidsOf(t, rv)
	if !ok {
		return false
	}
	if unordered && t.ID == value.List {
		return true
	}
	for _, k := range kids {
		if hasUnorderedList(k.T, k.RV) {
			return true
		}
	}
	return false
}

// locate descends into want/got along the Go value until the innermost differing component.
func locate(t *value.Type, rv reflect.Value, want, got []byte, proto int, ctx *value.Type, ctxGo reflect.Type) mismatch {
	base := mismatch{LeafT: t, LeafRV: rv, Ctx: ctx, CtxGo: ctxGo, Want: want, Got: got}
	if want == nil || got == nil || len(t.Elems) == 0 || len(want) == 0 || len(got) == 0 {
		return base
	}
	drv, isNil := deref(rv)
	if isNil {
		return base
	}
	kids, unordered, ok := kidsOf(t, drv)
	if !ok {
		return base
	}
	wp, e1 := value.Split(t, want, proto)
	gp, e2 := value.Split(t, got, proto)
	if e1 != nil || e2 != nil || len(wp) != len(gp) || len(kids) != len(wp) {
		base.Note = "bad-framing"
		return base
	}
	if !unordered {
		for i := range wp {
			if !sameBytes(kids[i].T, partBytes(wp[i]), partBytes(gp[i]), proto) {
				return locate(kids[i].T, kids[i].RV, partBytes(wp[i]), partBytes(gp[i]), proto, t, drv.Type())
			}
		}
		return base
	}
	step := 1
	if t.ID == value.Map {
		step = 2
	}
	n := len(wp) / step
	usedG := make([]bool, n)
	var freeW []int
	for i := 0; i < n; i++ {
		found := false
		for j := 0; j < n && !found; j++ {
			if usedG[j] {
				continue
			}
			all := true
			for s := 0; s < step; s++ {
				if !sameBytes(kids[i*step+s].T, partBytes(wp[i*step+s]), partBytes(gp[j*step+s]), proto) {
					all = false
				}
			}
			if all {
				usedG[j] = true
				found = true
			}
		}
		if !found {
			freeW = append(freeW, i)
		}
	}
	var freeG []int
	for j, u := range usedG {
		if !u {
			freeG = append(freeG, j)
		}
	}
	if len(freeW) >= 1 && len(freeG) >= 1 {
		i, j := freeW[0], freeG[0]
		if step == 2 {
			// pair the entries that have the same key
		pairing:
			for _, wi := range freeW {
				for _, gj := range freeG {
					if sameBytes(kids[wi*2].T, partBytes(wp[wi*2]), partBytes(gp[gj*2]), proto) {
						i, j = wi, gj
						break pairing
					}
				}
			}
		}
		for s := 0; s < step; s++ {
			k := kids[i*step+s]
			if !sameBytes(k.T, partBytes(wp[i*step+s]), partBytes(gp[j*step+s]), proto) {
				return locate(k.T, k.RV, partBytes(wp[i*step+s]), partBytes(gp[j*step+s]), proto, t, drv.Type())
			}
		}
	}
	base.Note = "entries-differ"
	return base
}

// leafGoName names the Go value at a leaf for finding keys: pointers are
// stripped, nil pointers/slices/maps are named by their nil-ness.
func leafGoName(t *value.Type, rv reflect.Value) string {
	if !rv.IsValid() {
		return "nil"
	}
	for rv.Kind() == reflect.Ptr || rv.Kind() == reflect.Interface {
		if rv.IsNil() {
			if rv.Kind() == reflect.Interface {
				return "nil"
			}
			return "nil-ptr"
		}
		rv = rv.Elem()
	}
	gt := rv.Type()
	if (rv.Kind() == reflect.Slice || rv.Kind() == reflect.Map) && rv.IsNil() {
		if gt == tBytes || gt == tMyBytes || gt == tIP {
			return "nil-" + goName(gt)
		}
		return "nil-" + goKindClass(gt)
	}
	if len(t.Elems) > 0 {
		return goKindClass(gt)
	}
	return goName(gt)
}

// valueClass refines a key by the class of the offending leaf value where one
// CQL/Go type pair has classes that behave differently.
func valueClass(t *value.Type, rv reflect.Value) string {
	drv, isNil := deref(rv)
	if isNil {
		return ""
	}
	if _, ok := absOf(t, drv); !ok {
		return ":out-of-domain"
	}
	switch t.ID {
	case value.Ascii, value.Text, value.Varchar, value.Blob:
		if (drv.Kind() == reflect.String || drv.Kind() == reflect.Slice) && drv.Len() == 0 {
			return ":empty"
		}
	case value.Tuple, value.UDT, value.List, value.Set, value.Map:
		if (drv.Kind() == reflect.Slice || drv.Kind() == reflect.Map) && drv.IsNil() {
			return ""
		}
		if kids, _, ok := kidsOf(t, drv); ok {
			for _, k := range kids {
				if a, ok := absOf(k.T, k.RV); ok && a.IsNull() {
					return ":with-null-elem"
				}
			}
		}
	}
	if t.ID == value.Date {
		var ms *big.Int
		switch {
		case drv.Type() == tTime:
			tm := drv.Interface().(time.Time)
			if tm.IsZero() {
				return ""
			}
			ms = timeMillis(tm)
		case drv.Kind() == reflect.Int64:
			ms = big.NewInt(drv.Int())
		default:
			return ""
		}
		if ms.Sign() < 0 && new(big.Int).Mod(ms, msPerDay).Sign() != 0 {
			return ":pre-epoch-non-midnight"
		}
	}
	return ""
}

func fixedLen(id value.TypeID) int {
	switch id {
	case value.TinyInt, value.Boolean:
		return 1
	case value.SmallInt:
		return 2
	case value.Int, value.Float, value.Date:
		return 4
	case value.BigInt, value.Counter, value.Double, value.Time, value.Timestamp:
		return 8
	case value.UUID, value.TimeUUID:
		return 16
	}
	return 0
}

func mismatchKind(m mismatch) string {
	switch {
	case m.Note != "":
		return m.Note
	case m.Want == nil && m.Got != nil && len(m.Got) == 0:
		return "null-written-as-empty"
	case m.Want == nil && m.Got != nil:
		return "null-written-as-value"
	case m.Want != nil && m.Got == nil:
		return "value-written-as-null"
	}
	if w := fixedLen(m.LeafT.ID); w > 0 && len(m.Got) != w {
		return fmt.Sprintf("non-%d-byte", w)
	}
	return "wrong-bytes"
}

// marshalKey is the finding key of a Marshal mismatch.
func marshalKey(m mismatch) string {
	kind := mismatchKind(m)
	leaf := leafGoName(m.LeafT, m.LeafRV)
	if m.Ctx != nil && (kind == "null-written-as-empty" || kind == "value-written-as-null" || kind == "null-written-as-value") {
		// a framing-level defect of the enclosing container: keyed by container and the kind of nil, not by the element's type
		switch {
		case leaf == "nil-ptr":
			return fmt.Sprintf("marshal:%s<-%s:elem<-typed-nil-pointer:%s", m.Ctx.ID, goKindClass(m.CtxGo), kind)
		case strings.HasPrefix(leaf, "nil-"):
			return fmt.Sprintf("marshal:%s:elem<-nil-slice-or-map:%s", m.Ctx.ID, kind)
		}
		return fmt.Sprintf("marshal:%s<-%s:elem<-%s:%s", m.Ctx.ID, goKindClass(m.CtxGo), leaf, kind)
	}
	return fmt.Sprintf("marshal:%s<-%s%s:%s", m.LeafT.ID, leaf, valueClass(m.LeafT, m.LeafRV), kind)
}

// refusedLeaf finds the innermost component of rv that lies outside its column's domain.
func refusedLeaf(t *value.Type, rv reflect.Value) (*value.Type, reflect.Value) {
	drv, isNil := deref(rv)
	if isNil || len(t.Elems) == 0 {
		return t, rv
	}
	if (drv.Kind() == reflect.Slice || drv.Kind() == reflect.Map) && drv.IsNil() {
		return t, rv
	}
	kids, _, ok := kidsOf(t, drv)
	if !ok {
		return t, rv
	}
	for _, k := range kids {
		if _, ok := absOf(k.T, k.RV); !ok {
			return refusedLeaf(k.T, k.RV)
		}
	}
	return t, rv
}

// absLeafDiff finds the innermost component where the abstraction of the Go
// value rv differs from the wanted abstract value.
func absLeafDiff(t *value.Type, want value.Value, rv reflect.Value) (*value.Type, reflect.Value, value.Value, value.Value) {
	got, _ := absOf(t, rv)
	drv, isNil := deref(rv)
	if isNil || len(t.Elems) == 0 || got.K != want.K {
		return t, rv, want, got
	}
	if (drv.Kind() == reflect.Slice || drv.Kind() == reflect.Map) && drv.IsNil() {
		return t, rv, want, got
	}
	kids, unordered, ok := kidsOf(t, drv)
	if !ok {
		return t, rv, want, got
	}
	var wantKids []value.Value
	if want.K == value.KMap {
		for i := range want.Keys {
			wantKids = append(wantKids, want.Keys[i], want.Elems[i])
		}
	} else {
		wantKids = want.Elems
	}
	for len(wantKids) < len(kids) && t.ID == value.UDT {
		wantKids = append(wantKids, value.Null())
	}
	if len(wantKids) != len(kids) {
		return t, rv, want, got
	}
	eq := func(kt *value.Type, w value.Value, krv reflect.Value) bool {
		g, ok := absOf(kt, krv)
		return ok && value.Equal(normAbs(kt, w), normAbs(kt, g))
	}
	if !unordered {
		for i, k := range kids {
			if !eq(k.T, wantKids[i], k.RV) {
				return absLeafDiff(k.T, wantKids[i], k.RV)
			}
		}
		return t, rv, want, got
	}
	step := 1
	if t.ID == value.Map {
		step = 2
	}
	// got entries without a partner among the wanted ones
	for i := 0; i+step <= len(kids); i += step {
		found := false
		for j := 0; j+step <= len(wantKids) && !found; j += step {
			all := true
			for s := 0; s < step; s++ {
				if !eq(kids[i+s].T, wantKids[j+s], kids[i+s].RV) {
					all = false
				}
			}
			found = all
		}
		if !found {
			// pair it with the wanted entry that has the same key (maps) or the same position
			j := i
			if step == 2 {
				for x := 0; x+1 < len(wantKids); x += 2 {
					if eq(kids[i].T, wantKids[x], kids[i].RV) {
						j = x
					}
				}
			}
			for s := 0; s < step; s++ {
				if !eq(kids[i+s].T, wantKids[j+s], kids[i+s].RV) {
					return absLeafDiff(kids[i+s].T, wantKids[j+s], kids[i+s].RV)
				}
			}
		}
	}
	return t, rv, want, got
}

// staticLeafName names the Go type of a leaf for Unmarshal keys (pointer levels stripped).
func staticLeafName(t *value.Type, rv reflect.Value) string {
	if !rv.IsValid() {
		return "nil"
	}
	gt := rv.Type()
	if gt.Kind() == reflect.Interface && !rv.IsNil() {
		gt = rv.Elem().Type()
	}
	for gt.Kind() == reflect.Ptr {
		gt = gt.Elem()
	}
	if len(t.Elems) > 0 {
		return goKindClass(gt)
	}
	return goName(gt)
}

// deepEq is reflect.DeepEqual with: floats compared by bit pattern, big.Int and
// inf.Dec by Cmp, time.Time by instant.  nil and empty slices/maps differ.
func deepEq(a, b reflect.Value) bool {
	if !a.IsValid() || !b.IsValid() {
		return a.IsValid() == b.IsValid()
	}
	if a.Type() != b.Type() {
		return false
	}
	switch a.Type() {
	case tBig:
		x, y := a.Interface().(big.Int), b.Interface().(big.Int)
		return x.Cmp(&y) == 0
	case tDec:
		x, y := a.Interface().(inf.Dec), b.Interface().(inf.Dec)
		return x.Scale() == y.Scale() && x.UnscaledBig().Cmp(y.UnscaledBig()) == 0
	case tTime:
		return a.Interface().(time.Time).Equal(b.Interface().(time.Time))
	}
	switch a.Kind() {
	case reflect.Float32:
		return math.Float32bits(float32(a.Float())) == math.Float32bits(float32(b.Float()))
	case reflect.Float64:
		return math.Float64bits(a.Float()) == math.Float64bits(b.Float())
	case reflect.Ptr, reflect.Interface:
		if a.IsNil() || b.IsNil() {
			return a.IsNil() == b.IsNil()
		}
		return deepEq(a.Elem(), b.Elem())
	case reflect.Slice:
		if a.IsNil() != b.IsNil() || a.Len() != b.Len() {
			return false
		}
		for i := 0; i < a.Len(); i++ {
			if !deepEq(a.Index(i), b.Index(i)) {
				return false
			}
		}
		return true
	case reflect.Array:
		for i := 0; i < a.Len(); i++ {
			if !deepEq(a.Index(i), b.Index(i)) {
				return false
			}
		}
		return true
	case reflect.Map:
		if a.IsNil() != b.IsNil() || a.Len() != b.Len() {
			return false
		}
		for _, k := range a.MapKeys() {
			bv := b.MapIndex(k)
			if !bv.IsValid() {
				// keys holding pointers are equal by pointee
				found := false
				for _, bk := range b.MapKeys() {
					if deepEq(k, bk) && deepEq(a.MapIndex(k), b.MapIndex(bk)) {
						found = true
						break
					}
				}
				if !found {
					return false
				}
				continue
			}
			if !deepEq(a.MapIndex(k), bv) {
				return false
			}
		}
		return true
	case reflect.Struct:
		for i := 0; i < a.NumField(); i++ {
			if !deepEq(a.Field(i), b.Field(i)) {
				return false
			}
		}
		return true
	}
	if a.CanInterface() && b.CanInterface() {
		return reflect.DeepEqual(a.Interface(), b.Interface())
	}
	return false
}

// abstractKids lists the components of an abstract container value with their CQL types.
func abstractKids(t *value.Type, a value.Value) (ts []*value.Type, vs []value.Value) {
	switch {
	case (t.ID == value.List || t.ID == value.Set) && a.K == value.KList:
		for _, e := range a.Elems {
			ts, vs = append(ts, t.Elems[0]), append(vs, e)
		}
	case t.ID == value.Map && a.K == value.KMap:
		for i := range a.Keys {
			ts, vs = append(ts, t.Elems[0], t.Elems[1]), append(vs, a.Keys[i], a.Elems[i])
		}
	case (t.ID == value.Tuple && a.K == value.KTuple) || (t.ID == value.UDT && a.K == value.KUDT):
		for i, e := range a.Elems {
			if i < len(t.Elems) {
				ts, vs = append(ts, t.Elems[i]), append(vs, e)
			}
		}
	}
	return
}

// kidTargetType is the Go type component i (in abstractKids order) is unmarshalled into when the container goes into gt.
func kidTargetType(t *value.Type, gt reflect.Type, i int) reflect.Type {
	for gt.Kind() == reflect.Ptr {
		gt = gt.Elem()
	}
	var kt reflect.Type
	switch t.ID {
	case value.List, value.Set:
		if gt.Kind() == reflect.Slice || gt.Kind() == reflect.Array {
			kt = gt.Elem()
		}
	case value.Map:
		if gt.Kind() == reflect.Map {
			if i%2 == 0 {
				kt = gt.Key()
			} else {
				kt = gt.Elem()
			}
		}
	case value.Tuple:
		switch gt.Kind() {
		case reflect.Slice, reflect.Array:
			kt = gt.Elem()
		case reflect.Struct:
			if i < gt.NumField() {
				kt = gt.Field(i).Type
			}
		}
	case value.UDT:
		switch {
		case gt == tStrMap:
			kt = tIface
		case gt.Kind() == reflect.Struct && gt != tUdtU && gt != tUdtM:
			if fi := udtFieldIndex(gt, t.Names[i]); fi >= 0 {
				kt = gt.Field(fi).Type
			}
		}
	}
	if kt != nil && kt.Kind() == reflect.Interface {
		ct := t.Elems[0]
		switch t.ID {
		case value.Map:
			ct = t.Elems[i%2]
		case value.Tuple, value.UDT:
			ct = t.Elems[i]
		}
		kt = defaultGoType(ct)
	}
	return kt
}

// blameUnmarshal finds the innermost component that, unmarshalled on its own into
// the Go type it has inside gt, already fails (error or panic) although that
// type can represent it; it returns the container itself if no component does.
func blameUnmarshal(t *value.Type, a value.Value, gt reflect.Type, proto int) (*value.Type, value.Value, reflect.Type) {
	for gt.Kind() == reflect.Ptr {
		gt = gt.Elem()
	}
	kts, kvs := abstractKids(t, a)
	for i := range kts {
		kgt := kidTargetType(t, gt, i)
		if kgt == nil {
			continue
		}
		if _, ab := project(kts[i], kvs[i], kgt); ab != able {
			continue
		}
		enc, null, err := value.EncodeErr(kts[i], kvs[i], proto)
		if err != nil {
			continue
		}
		if null {
			enc = nil
		}
		uerr, pan := safeUnmarshal(toTypeInfo(kts[i], proto), enc, reflect.New(kgt).Interface())
		if uerr != nil || pan != nil {
			return blameUnmarshal(kts[i], kvs[i], kgt, proto)
		}
	}
	return t, a, gt
}

func typeLeafName(t *value.Type, gt reflect.Type) string {
	for gt.Kind() == reflect.Ptr {
		gt = gt.Elem()
	}
	if len(t.Elems) > 0 {
		return goKindClass(gt)
	}
	return goName(gt)
}

func nullClass(v value.Value) string {
	switch v.K {
	case value.KNull:
		return ":null"
	case value.KEmpty:
		return ":empty"
	}
	return ""
}

// hasDupKeys reports a set/map with two entries denoting the same element/key (an artefact of
// distinct Go keys such as two pointers to equal values): not a meaningful CQL value.
func hasDupKeys(t *value.Type, v value.Value) bool {
	kts, kvs := abstractKids(t, v)
	for i := range kts {
		if hasDupKeys(kts[i], kvs[i]) {
			return true
		}
	}
	if (t.ID != value.Set && t.ID != value.Map) || (v.K != value.KList && v.K != value.KMap) {
		return false
	}
	keys := v.Elems
	if v.K == value.KMap {
		keys = v.Keys
	}
	seen := map[string]bool{}
	for _, k := range keys {
		b, null, err := value.EncodeErr(t.Elems[0], normAbs(t.Elems[0], k), 4)
		s := fmt.Sprintf("%v|%x|%v", null, b, err != nil)
		if seen[s] {
			return true
		}
		seen[s] = true
	}
	return false
}

// wrongValueClass names recognisable kinds of a wrong Unmarshal result.
func wrongValueClass(want, got value.Value) string {
	switch {
	case (want.K == value.KText || want.K == value.KBytes) && len(want.B) == 0 && got.K == value.KNull:
		return "empty-read-as-nil"
	case want.K == value.KNull && got.K != value.KNull:
		return "null-read-as-value"
	case want.K != value.KNull && got.K == value.KNull:
		return "value-read-as-nil"
	}
	return "wrong-value"
}

// standaloneOK: the abstract value a of type t, encoded by the reference and unmarshalled on its own into a fresh
// *gt, gives what project demands (true also when nothing is demanded).
func standaloneOK(t *value.Type, a value.Value, gt reflect.Type, proto int) bool {
	exp, ab := project(t, a, gt)
	if ab != able || hasDupKeys(t, exp) {
		return true
	}
	enc, null, err := value.EncodeErr(t, a, proto)
	if err != nil {
		return true
	}
	if null {
		enc = nil
	}
	h := reflect.New(gt)
	if uerr, pan := safeUnmarshal(toTypeInfo(t, proto), enc, h.Interface()); uerr != nil || pan != nil {
		return false
	}
	got, ok := absOf(t, h.Elem())
	return ok && value.Equal(normAbs(t, got), normAbs(t, exp))
}

// omittedFieldAtFault attributes a FAILED Unmarshal of a into gt (the caller saw it fail) to the skipping of UDT
// fields the target struct does not have: descending through the components that also fail when unmarshalled on
// their own into the Go type they have inside gt, it arrives at a UDT that goes into a struct lacking one of its
// fields while each of its components is fine on its own. Such a failure gets one key wherever the UDT is nested,
// whatever the type of the field that was then decoded from the wrong bytes.
func omittedFieldAtFault(t *value.Type, a value.Value, gt reflect.Type, proto int) bool {
	for gt.Kind() == reflect.Ptr {
		gt = gt.Elem()
	}
	kts, kvs := abstractKids(t, a)
	for i := range kts {
		kgt := kidTargetType(t, gt, i)
		if kgt == nil {
			continue
		}
		if !standaloneOK(kts[i], kvs[i], kgt, proto) {
			return omittedFieldAtFault(kts[i], kvs[i], kgt, proto)
		}
	}
	return a.K == value.KUDT && structOmitsField(t, gt)
}
