// C12 — encoded values are the CQL specification's encoding, byte for byte.
//
// Direction 1 (Marshal): for every CQL type tree x protocol version x Go source
// value of the generator, gocql.Marshal either returns an error or returns
// exactly value.Encode(type, abs(goValue), version) (sets, maps and lists bound
// from Go maps compared as multisets of entries); a value outside the column's
// domain must be refused.
// Direction 2 (Unmarshal): for every abstract value v met in direction 1 (plus
// the alternative conformant encodings of value.Alternates) and every
// documented target Go type able to represent v, gocql.Unmarshal(type,
// value.Encode(type, v, version)) succeeds and the target then denotes v.
package main

import (
	"fmt"
	"os"
	"reflect"
	"sort"

	"github.com/gocql/gocql"
	"verif/engine/refcql/value"
	"verif/engine/report"
)

type domEntry struct {
	v   value.Value
	enc []byte // nil = null
}

func main() {
	r := report.New("C12", "exploration")
	retR = r
	thorough := r.Thorough()
	r.SetRule("every CQL type tree (21 scalars; list/set/map/tuple/UDT over all scalars at depth 1 and over the reduced alphabet " +
		"{int,bigint,text,varint,boolean,uuid,timestamp} at depth 2) x protocol version (1-5; tuple/UDT 3-5; depth 2: 2,3 quick / all thorough) " +
		"x every Go source type of the Marshal doc table for the type (plus named types, *T, **T, typed nil pointers, untyped nil, " +
		"[]T/[n]T/map[X]struct{}/[]interface{}/struct/map[string]interface{}/UDTMarshaler shapes, structs omitting every non-empty proper " +
		"subset of a UDT's fields) x a boundary-value alphabet per Go type, " +
		"containers varying one element type/value at a time around a default; then every abstract value so met (plus alternative conformant " +
		"encodings: boolean true as any non-zero byte, widened and 9-byte vints, UDTs with trailing null fields omitted) x every documented " +
		"Unmarshal target able to hold it (for every UDT, at the top and nested in list/set/map/UDT, including the structs that omit each " +
		"non-empty proper subset of its fields). A case is (type, version, Go type, value) resp. (type, version, encoding, target type); " +
		"non-trivial = Marshal returned bytes (not an error) resp. the target is able to represent the value.")
	r.Assume("value.Encode/Decode (engine/refcql/value) is the specification's serialisation (unit-tested against hand-computed vectors)",
		"interpretations of NOTES.md: nil pointer/nil slice/nil map = null; unsigned Go integers on fixed-width columns denote the bit pattern; "+
			"zero time.Time and \"\" (date) denote the zero-length value; net.IP with To4()!=nil is IPv4; sub-millisecond timestamps, signalling NaNs, "+
			"invalid UTF-8, mixed-sign durations, null map keys and null elements under protocol <=2 (inexpressible) are not generated",
		"a Marshal error is always accepted (the property allows refusal); targets unable to represent a value are C02's subject")

	cases := enumTypes(thorough)
	cnt := newCounters()
	// big jobs first for better load balance
	order := make([]int, len(cases))
	for i := range order {
		order[i] = i
	}
	sort.SliceStable(order, func(a, b int) bool { return weight(cases[order[a]]) > weight(cases[order[b]]) })
	// the scalars first, so that the first (recorded) instance of a finding is the smallest one
	var scalars, rest []int
	for _, i := range order {
		if cases[i].Depth == 0 {
			scalars = append(scalars, i)
		} else {
			rest = append(rest, i)
		}
	}
	parallel(len(scalars), func(i int) { guarded(r, cases[scalars[i]], func() { runCase(r, cases[scalars[i]], thorough, cnt) }) })
	parallel(len(rest), func(i int) { guarded(r, cases[rest[i]], func() { runCase(r, cases[rest[i]], thorough, cnt) }) })

	snap := cnt.snapshot()
	r.Extra("type_trees", len(cases))
	r.Extra("counters", snap)
	dumpKeys()
	os.Exit(r.Finish(true))
}

func weight(tc TypeCase) int {
	w := len(tc.Protos)
	if tc.T.ID == value.Map {
		w *= 6
	}
	if tc.Depth == 1 {
		w *= 3
	}
	return w
}

func runCase(r *report.Run, tc TypeCase, thorough bool, cnt *counters) {
	local := map[string]int64{}
	defer func() { cnt.merge(local) }()
	g := newGen(thorough)
	groups := g.groups(tc.T, top)
	t := tc.T
	ts := t.String()
	sampled := false
	for _, proto := range tc.Protos {
		ti := toTypeInfo(t, proto)
		dom := map[string]domEntry{}
		for gi, gr := range groups {
			for vi, sv := range gr.Vals {
				ck := fmt.Sprintf("M|%s|v%d|%d|%d", ts, proto, gi, vi)
				a, inDomain := absOf(t, sv.RV)
				got, err, pan := safeMarshal(ti, ifaceOf(sv.RV))
				local[fmt.Sprintf("marshal_cases_v%d", proto)]++
				local[fmt.Sprintf("marshal_cases_depth%d", tc.Depth)]++
				r.Case(ck, err == nil && pan == nil)
				replay := func(extra map[string]interface{}) map[string]interface{} {
					m := map[string]interface{}{"direction": "marshal", "cql_type": ts, "proto": proto,
						"go_type": goName(gr.GT), "go_value": pretty(sv.RV), "got": hexOrNull(got)}
					for k, v := range extra {
						m[k] = v
					}
					return m
				}
				if pan != nil {
					lt, lrv := refusedLeaf(t, sv.RV)
					if inDomain {
						lt, lrv = t, sv.RV
					}
					_, _ = lt, lrv
					key := fmt.Sprintf("panic:marshal:%s", panicSite(pan))
					violation(r, key, fmt.Sprintf("gocql.Marshal(%s v%d, %s) panicked: %v", ts, proto, pretty(sv.RV), pan), replay(map[string]interface{}{"panic": fmt.Sprint(pan)}))
					local["marshal_panics"]++
					continue
				}
				if err != nil {
					local["marshal_refused"]++
					continue
				}
				local["marshal_accepted"]++
				if !inDomain {
					lt, lrv := refusedLeaf(t, sv.RV)
					key := fmt.Sprintf("marshal:%s<-%s:out-of-domain:accepted", lt.ID, leafGoName(lt, lrv))
					violation(r, key, fmt.Sprintf("gocql.Marshal(%s v%d, %s) = %s: the value is outside the column's domain (component %s of type %s) and must be refused",
						ts, proto, pretty(sv.RV), hexOrNull(got), pretty(lrv), lt), replay(nil))
					continue
				}
				want, wantNull, encErr := value.EncodeErr(t, a, proto)
				if encErr != nil {
					local["marshal_inexpressible_skipped"]++ // e.g. null element with protocol <= 2: the specification defines no bytes
					continue
				}
				if wantNull {
					want = nil
				}
				cmpT := t
				if hasUnorderedList(t, sv.RV) {
					cmpT = setified(t)
				}
				if !sameBytes(cmpT, want, got, proto) {
					m := locate(cmpT, sv.RV, want, got, proto, nil, nil)
					key := marshalKey(m)
					violation(r, key, fmt.Sprintf("gocql.Marshal(%s v%d, %s) = %s, specification: %s (abstract value %s); innermost difference at %s component %s: got %s want %s",
						ts, proto, pretty(sv.RV), hexOrNull(got), hexOrNull(want), a, m.LeafT, pretty(m.LeafRV), hexOrNull(m.Got), hexOrNull(m.Want)),
						replay(map[string]interface{}{"want": hexOrNull(want), "abstract": a.String()}))
					local["marshal_mismatches"]++
					continue
				}
				if !sampled && sampleWanted(ts) && vi == len(gr.Vals)/2 && len(got) > 0 && r.NeedSample() {
					sampled = true
					r.Sample(fmt.Sprintf("Marshal(%s v%d, %s) = %s == spec", ts, proto, pretty(sv.RV), hexOrNull(got)))
				}
				dk := "n"
				if want != nil {
					canon, cerr := value.Canon(setified(t), want, proto)
					if cerr != nil {
						r.Infra("reference cannot re-read its own encoding %x of %s: %v", want, ts, cerr)
						continue
					}
					dk = "b" + string(canon)
				}
				if _, ok := dom[dk]; !ok {
					dom[dk] = domEntry{a, want}
				}
			}
		}
		// direction 2
		keys := make([]string, 0, len(dom))
		for k := range dom {
			keys = append(keys, k)
		}
		sort.Strings(keys)
		for di, k := range keys {
			e := dom[k]
			if hasDupKeys(t, e.v) {
				continue
			}
			encs := []domEntry{e}
			if e.enc != nil {
				back, derr := value.Decode(t, e.enc, proto)
				if derr != nil || !value.Equal(normAbs(t, back), normAbs(t, e.v)) {
					r.Infra("reference self-check: %s %s -> %x -> %s (%v)", ts, e.v, e.enc, back, derr)
					continue
				}
				encs = append(encs, alternates(t, e.v, proto)...)
			}
			for ei, x := range encs {
				checkUnmarshal(r, t, ti, proto, x.v, x.enc, fmt.Sprintf("U|%s|v%d|%d|%d", ts, proto, di, ei), ei > 0, local)
			}
		}
	}
}

// alternates returns alternative conformant encodings of v, each with the
// abstract value exactly as encoded (a UDT without its trailing null fields is
// the UDT value with fewer components): those of the value itself and, for
// containers, v with its first component re-encoded alternatively.
func alternates(t *value.Type, v value.Value, proto int) []domEntry {
	var out []domEntry
	if t.ID == value.UDT && v.K == value.KUDT {
		for n := len(v.Elems); n > 0 && v.Elems[n-1].IsNull(); n-- {
			short := value.Value{K: value.KUDT, Elems: v.Elems[:n-1]}
			if b, _, err := value.EncodeErr(t, short, proto); err == nil {
				out = append(out, domEntry{short, b})
			}
		}
	} else {
		for _, b := range value.Alternates(t, v, proto) {
			out = append(out, domEntry{v, b})
		}
	}
	if len(t.Elems) == 0 || len(v.Elems) == 0 {
		return out
	}
	// splice an alternative encoding of the first component into the framing
	std, _, err := value.EncodeErr(t, v, proto)
	if err != nil {
		return out
	}
	parts, err := value.Split(t, std, proto)
	if err != nil || len(parts) == 0 {
		return out
	}
	idx, et, ev := 0, t.Elems[0], v.Elems[0]
	if t.ID == value.Map {
		idx, et = 1, t.Elems[1] // first value
	}
	if parts[idx].Null {
		return out
	}
	for _, alt := range alternates(et, ev, proto) {
		var b []byte
		switch t.ID {
		case value.List, value.Set, value.Map:
			n := len(parts)
			if t.ID == value.Map {
				n /= 2
			}
			if proto <= 2 {
				b = append(b, byte(n>>8), byte(n))
			} else {
				b = append(b, byte(n>>24), byte(n>>16), byte(n>>8), byte(n))
			}
		}
		for i, p := range parts {
			pb := p.B
			if i == idx {
				pb = alt.enc
			}
			if t.IsCollection() && proto <= 2 {
				b = append(b, byte(len(pb)>>8), byte(len(pb)))
				b = append(b, pb...)
			} else if p.Null {
				b = append(b, 0xff, 0xff, 0xff, 0xff)
			} else {
				n := len(pb)
				b = append(b, byte(n>>24), byte(n>>16), byte(n>>8), byte(n))
				b = append(b, pb...)
			}
		}
		nv := v
		nv.Elems = append([]value.Value{}, v.Elems...)
		nv.Elems[0] = alt.v
		// the splice must itself be conformant: the reference has to read it back as the value
		if back, derr := value.Decode(t, b, proto); derr == nil && value.Equal(normAbs(t, back), normAbs(t, nv)) {
			out = append(out, domEntry{nv, b})
		}
	}
	return out
}

func checkUnmarshal(r *report.Run, t *value.Type, ti gocql.TypeInfo, proto int, v value.Value, enc []byte, ck string, alt bool, local map[string]int64) {
	ts := t.String()
	for gi, gt := range targetsFor(t, v, true) {
		exp, ab := project(t, v, gt)
		holder := reflect.New(gt)
		err, pan := safeUnmarshal(ti, enc, holder.Interface())
		local[fmt.Sprintf("unmarshal_cases_v%d", proto)]++
		if omitsUDTField(t, gt) {
			local[fmt.Sprintf("unmarshal_into_struct_omitting_udt_fields_depth%d", t.Depth())]++
		}
		if alt {
			local["unmarshal_alternate_encoding_cases"]++
		}
		r.Case(fmt.Sprintf("%s|%d", ck, gi), ab == able)
		replay := map[string]interface{}{"direction": "unmarshal", "cql_type": ts, "proto": proto, "abstract": v.String(),
			"encoding": hexOrNull(enc), "target": "*" + goName(gt)}
		if pan != nil {
			key := fmt.Sprintf("panic:unmarshal:%s", panicSite(pan))
			replay["panic"] = fmt.Sprint(pan)
			violation(r, key, fmt.Sprintf("gocql.Unmarshal(%s v%d, %s, *%s) panicked: %v", ts, proto, hexOrNull(enc), goName(gt), pan), replay)
			continue
		}
		if ab != able || hasDupKeys(t, exp) {
			local["unmarshal_target_not_able_or_undocumented"]++
			continue
		}
		if err != nil {
			lt, lv, lgt := blameUnmarshal(t, v, gt, proto)
			key := fmt.Sprintf("unmarshal:%s->%s%s:error", lt.ID, typeLeafName(lt, lgt), nullClass(lv))
			if omitsUDTField(t, gt) && omittedFieldAtFault(t, v, gt, proto) {
				key = "unmarshal:udt->struct:omitted-field:error"
			}
			replay["error"] = err.Error()
			violation(r, key, fmt.Sprintf("gocql.Unmarshal(%s v%d, %s = %s, *%s) failed: %v", ts, proto, hexOrNull(enc), v, goName(gt), err), replay)
			continue
		}
		gotAbs, ok := absOf(t, holder.Elem())
		if ok && value.Equal(normAbs(t, gotAbs), normAbs(t, exp)) {
			local["unmarshal_ok"]++
			continue
		}
		lt, lrv, lw, lg := absLeafDiff(t, exp, holder.Elem())
		key := fmt.Sprintf("unmarshal:%s->%s%s:%s", lt.ID, staticLeafName(lt, lrv), nullClass(lw), wrongValueClass(lw, lg))
		if omitsUDTField(t, gt) && omittedFieldAtFault(t, v, gt, proto) {
			// every kept field is fine on its own: the fields the struct does not have were not skipped properly
			key = "unmarshal:udt->struct:omitted-field:wrong-value"
		}
		replay["got"] = pretty(holder.Elem())
		violation(r, key, fmt.Sprintf("gocql.Unmarshal(%s v%d, %s, *%s) = %s which denotes %s, specification: %s (expected in this target: %s); innermost difference at %s: got %s want %s",
			ts, proto, hexOrNull(enc), goName(gt), pretty(holder.Elem()), gotAbs, v, exp, lt, lg, lw), replay)
	}
}
