package main

// Shared by C12 and C02 (harness/c02/main has relative symlinks to the shared_*.go files
// of harness/c12/main): enumeration of CQL type trees and their translation to gocql.TypeInfo.

import (
	"github.com/gocql/gocql"
	"verif/engine/refcql/value"
)

// reduced element alphabet for nesting (DESIGN section 4, C02)
var elemAlphabet = []value.TypeID{value.Int, value.BigInt, value.Text, value.Varint, value.Boolean, value.UUID, value.Timestamp}

// TypeCase is one CQL type tree with the protocol versions it is checked under.
type TypeCase struct {
	T      *value.Type
	Protos []int
	Depth  int
}

func sc(id value.TypeID) *value.Type { return value.Scalar(id) }

// enumTypes lists every CQL type tree of the check.
//
//	depth 0: the 21 scalars, protocol 1..5
//	depth 1: list<s>, set<s>, map<s,s>, tuple<s>, udt{a:s} for all 21 scalars s;
//	         map<k,v>, tuple<a,b>, udt{a,b} for all (a,b) in E x E; tuple<a,b,c>/udt{a,b,c} along the diagonal of E
//	         (collections protocol 1..5, tuple/UDT protocol 3..5: they do not exist before v3)
//	depth 2: for every inner in {list<e>, set<e>, map<e,e'>, tuple<e,e'>, udt{e,e'}} (e in E, e' = successor of e in E;
//	         thorough: e' over all of E): list<inner>, set<inner>, map<text,inner>, map<inner,int> (inner not a map),
//	         tuple<int,inner>, tuple<inner,text>, udt{a:inner,b:int}
//	         (quick: protocol 2,3 for pure collections and 3 for trees containing tuple/UDT; thorough: all applicable versions)
func enumTypes(thorough bool) []TypeCase {
	var out []TypeCase
	all := []int{1, 2, 3, 4, 5}
	v3 := []int{3, 4, 5}
	for _, id := range value.Scalars {
		out = append(out, TypeCase{sc(id), all, 0})
	}
	for _, id := range value.Scalars {
		out = append(out,
			TypeCase{value.ListOf(sc(id)), all, 1},
			TypeCase{value.SetOf(sc(id)), all, 1},
			TypeCase{value.MapOf(sc(id), sc(id)), all, 1},
			TypeCase{value.TupleOf(sc(id)), v3, 1},
			TypeCase{value.UDTOf([]string{"a"}, sc(id)), v3, 1})
	}
	E := elemAlphabet
	for i, a := range E {
		for _, b := range E {
			if a != b {
				out = append(out, TypeCase{value.MapOf(sc(a), sc(b)), all, 1})
			}
			out = append(out,
				TypeCase{value.TupleOf(sc(a), sc(b)), v3, 1},
				TypeCase{value.UDTOf([]string{"a", "b"}, sc(a), sc(b)), v3, 1})
		}
		b, c := E[(i+1)%len(E)], E[(i+2)%len(E)]
		out = append(out,
			TypeCase{value.TupleOf(sc(a), sc(b), sc(c)), v3, 1},
			TypeCase{value.UDTOf([]string{"a", "b", "c"}, sc(a), sc(b), sc(c)), v3, 1})
	}
	// depth 2
	var inner []*value.Type
	for i, a := range E {
		seconds := []value.TypeID{E[(i+1)%len(E)]}
		if thorough {
			seconds = E
		}
		inner = append(inner, value.ListOf(sc(a)), value.SetOf(sc(a)))
		for _, b := range seconds {
			inner = append(inner,
				value.MapOf(sc(a), sc(b)),
				value.TupleOf(sc(a), sc(b)),
				value.UDTOf([]string{"a", "b"}, sc(a), sc(b)))
		}
	}
	for _, in := range inner {
		outers := []*value.Type{
			value.ListOf(in), value.SetOf(in), value.MapOf(sc(value.Text), in),
			value.TupleOf(sc(value.Int), in), value.TupleOf(in, sc(value.Text)),
			value.UDTOf([]string{"a", "b"}, in, sc(value.Int)),
		}
		if in.ID != value.Map {
			outers = append(outers, value.MapOf(in, sc(value.Int)))
		}
		for _, o := range outers {
			protos := []int{2, 3}
			if thorough {
				protos = all
			}
			if hasTupleOrUDT(o) {
				protos = []int{3}
				if thorough {
					protos = v3
				}
			}
			out = append(out, TypeCase{o, protos, 2})
		}
	}
	return out
}

func hasTupleOrUDT(t *value.Type) bool {
	if t.ID == value.Tuple || t.ID == value.UDT {
		return true
	}
	for _, e := range t.Elems {
		if hasTupleOrUDT(e) {
			return true
		}
	}
	return false
}

// toTypeInfo builds the gocql.TypeInfo of a type tree for one protocol version.
// All needed fields are exported (NativeType is an exported embedded field with
// the public constructor NewNativeType), so no in-package accessor is required.
func toTypeInfo(t *value.Type, proto int) gocql.TypeInfo {
	nt := gocql.NewNativeType(byte(proto), gocql.Type(int(t.ID)), "")
	switch t.ID {
	case value.List, value.Set:
		return gocql.CollectionType{NativeType: nt, Elem: toTypeInfo(t.Elems[0], proto)}
	case value.Map:
		return gocql.CollectionType{NativeType: nt, Key: toTypeInfo(t.Elems[0], proto), Elem: toTypeInfo(t.Elems[1], proto)}
	case value.Tuple:
		elems := make([]gocql.TypeInfo, len(t.Elems))
		for i, e := range t.Elems {
			elems[i] = toTypeInfo(e, proto)
		}
		return gocql.TupleTypeInfo{NativeType: nt, Elems: elems}
	case value.UDT:
		fields := make([]gocql.UDTField, len(t.Elems))
		for i, e := range t.Elems {
			fields[i] = gocql.UDTField{Name: t.Names[i], Type: toTypeInfo(e, proto)}
		}
		return gocql.UDTTypeInfo{NativeType: nt, KeySpace: t.Keyspace, Name: t.Name, Elements: fields}
	}
	return nt
}
