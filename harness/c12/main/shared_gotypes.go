package main

// Shared by C12 and C02: the Go types used as Marshal sources / Unmarshal targets.

import (
	"math/big"
	"net"
	"reflect"
	"strings"
	"time"

	"github.com/gocql/gocql"
	"gopkg.in/inf.v0"
)

// named types ("type myInt int32 ...": quantifier of C02/C12)
type (
	myInt      int
	myInt8     int8
	myInt16    int16
	myInt32    int32
	myInt64    int64
	myUint     uint
	myUint8    uint8
	myUint16   uint16
	myUint32   uint32
	myUint64   uint64
	myString   string
	myBytes    []byte
	myBool     bool
	myFloat32  float32
	myFloat64  float64
	myDuration time.Duration
)

// udtM is a gocql.UDTMarshaler (value receiver, as the interface's doc demands):
// every field is marshalled with gocql.Marshal from F; a missing key is null.
type udtM struct{ F map[string]interface{} }

func (u udtM) MarshalUDT(name string, info gocql.TypeInfo) ([]byte, error) {
	v, ok := u.F[name]
	if !ok {
		return nil, nil
	}
	return gocql.Marshal(info, v)
}

// udtU is a gocql.UDTUnmarshaler that records the raw bytes handed to it per field.
type udtU struct {
	Names []string
	Data  [][]byte
}

func (u *udtU) UnmarshalUDT(name string, info gocql.TypeInfo, data []byte) error {
	u.Names = append(u.Names, name)
	if data == nil {
		u.Data = append(u.Data, nil)
	} else {
		u.Data = append(u.Data, append([]byte{}, data...))
	}
	return nil
}

var (
	tBig     = reflect.TypeOf(big.Int{})
	tDec     = reflect.TypeOf(inf.Dec{})
	tTime    = reflect.TypeOf(time.Time{})
	tUUID    = reflect.TypeOf(gocql.UUID{})
	tDur     = reflect.TypeOf(gocql.Duration{})
	tIP      = reflect.TypeOf(net.IP{})
	tUdtM    = reflect.TypeOf(udtM{})
	tUdtU    = reflect.TypeOf(udtU{})
	tNothing = reflect.TypeOf(struct{}{})
	tString  = reflect.TypeOf("")
	tBytes   = reflect.TypeOf([]byte(nil))
	tBool    = reflect.TypeOf(false)
	tInt     = reflect.TypeOf(int(0))
	tInt8    = reflect.TypeOf(int8(0))
	tInt16   = reflect.TypeOf(int16(0))
	tInt32   = reflect.TypeOf(int32(0))
	tInt64   = reflect.TypeOf(int64(0))
	tUint    = reflect.TypeOf(uint(0))
	tUint8   = reflect.TypeOf(uint8(0))
	tUint16  = reflect.TypeOf(uint16(0))
	tUint32  = reflect.TypeOf(uint32(0))
	tUint64  = reflect.TypeOf(uint64(0))
	tF32     = reflect.TypeOf(float32(0))
	tF64     = reflect.TypeOf(float64(0))
	tGoDur   = reflect.TypeOf(time.Duration(0))
	tArr16   = reflect.TypeOf([16]byte{})
	tIface   = reflect.TypeOf((*interface{})(nil)).Elem()
	tIfSlice = reflect.TypeOf([]interface{}(nil))
	tStrMap  = reflect.TypeOf(map[string]interface{}(nil))

	intTypes = []reflect.Type{tInt, tInt8, tInt16, tInt32, tInt64, tUint, tUint8, tUint16, tUint32, tUint64}
	namedInt = []reflect.Type{reflect.TypeOf(myInt(0)), reflect.TypeOf(myInt8(0)), reflect.TypeOf(myInt16(0)),
		reflect.TypeOf(myInt32(0)), reflect.TypeOf(myInt64(0)), reflect.TypeOf(myUint(0)), reflect.TypeOf(myUint8(0)),
		reflect.TypeOf(myUint16(0)), reflect.TypeOf(myUint32(0)), reflect.TypeOf(myUint64(0))}
	tMyInt64  = reflect.TypeOf(myInt64(0))
	tMyString = reflect.TypeOf(myString(""))
	tMyBytes  = reflect.TypeOf(myBytes(nil))
	tMyBool   = reflect.TypeOf(myBool(false))
	tMyF32    = reflect.TypeOf(myFloat32(0))
	tMyF64    = reflect.TypeOf(myFloat64(0))
	tMyDur    = reflect.TypeOf(myDuration(0))
)

// goName is the stable, short name of a Go type used in samples and finding keys.
func goName(gt reflect.Type) string {
	if gt == nil {
		return "nil"
	}
	switch gt {
	case tBytes:
		return "[]byte"
	case tArr16:
		return "[16]byte"
	case tIfSlice:
		return "[]interface{}"
	case tStrMap:
		return "map[string]interface{}"
	case tUdtM:
		return "UDTMarshaler"
	case tUdtU:
		return "UDTUnmarshaler"
	}
	switch gt.Kind() {
	case reflect.Ptr:
		return "*" + goName(gt.Elem())
	case reflect.Slice:
		if gt.Name() == "" {
			return "[]" + goName(gt.Elem())
		}
	case reflect.Array:
		if gt.Name() == "" {
			return "[n]" + goName(gt.Elem())
		}
	case reflect.Map:
		if gt.Name() == "" {
			if gt.Elem() == tNothing {
				return "map[" + goName(gt.Key()) + "]struct{}"
			}
			return "map[" + goName(gt.Key()) + "]" + goName(gt.Elem())
		}
	case reflect.Struct:
		if gt.Name() == "" {
			parts := make([]string, gt.NumField())
			for i := range parts {
				parts[i] = goName(gt.Field(i).Type)
				if tag := gt.Field(i).Tag.Get("cql"); tag != "" {
					parts[i] = tag + ":" + parts[i] // shows which UDT fields a struct has (and which it omits)
				}
			}
			return "struct{" + strings.Join(parts, ";") + "}"
		}
	case reflect.Interface:
		if gt.Name() == "" {
			return "interface{}"
		}
	}
	s := gt.String()
	s = strings.ReplaceAll(s, "main.", "")
	s = strings.ReplaceAll(s, "uint8", "byte")
	return s
}

// goKindClass names the Go shape of a container value for finding keys.
func goKindClass(gt reflect.Type) string {
	for gt.Kind() == reflect.Ptr {
		gt = gt.Elem()
	}
	switch {
	case gt == tIfSlice:
		return "[]interface{}"
	case gt == tStrMap:
		return "map[string]interface{}"
	case gt == tUdtM:
		return "UDTMarshaler"
	case gt == tUdtU:
		return "UDTUnmarshaler"
	}
	switch gt.Kind() {
	case reflect.Slice:
		return "slice"
	case reflect.Array:
		return "array"
	case reflect.Map:
		if gt.Elem() == tNothing {
			return "map[X]struct{}"
		}
		return "map"
	case reflect.Struct:
		return "struct"
	}
	return goName(gt)
}
