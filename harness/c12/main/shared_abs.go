package main

// Shared by C12 and C02: the harness-written abstraction function from Go
// values to the abstract CQL value domain, and the projection of an abstract
// value onto an Unmarshal target type.
//
// Conventions (each is an interpretation written down in NOTES.md):
//   * a nil interface, nil pointer (any depth), nil slice bound to a string/blob/
//     collection/tuple column and a nil map bound to a map column denote CQL null
//     ("nil is serialized as CQL null", "the pointed-to value is marshaled");
//   * fixed-width integer columns of w bits: a signed Go integer denotes its
//     mathematical value and must lie in [-2^(w-1), 2^(w-1)); an unsigned Go
//     integer denotes the w-bit pattern and must lie in [0, 2^w);
//   * varint/decimal: mathematical value;
//   * date: floor(instant / 24h) in UTC; timestamp: floor(instant / 1ms);
//   * the zero time.Time and the empty date string denote the zero-length
//     ("empty") value, which is what gocql documents by behaviour for them;
//   * net.IP: an address with To4() != nil is the IPv4 address (Go's net.IP
//     identifies a.b.c.d with ::ffff:a.b.c.d).

import (
	"math"
	"math/big"
	"net"
	"reflect"
	"sort"
	"time"

	"github.com/gocql/gocql"
	"gopkg.in/inf.v0"
	"verif/engine/refcql/value"
)

type kid struct {
	T  *value.Type
	RV reflect.Value // invalid = absent / untyped nil
}

// deref strips interfaces and pointers. isNil is true for an invalid value or a nil pointer/interface on the way.
func deref(rv reflect.Value) (out reflect.Value, isNil bool) {
	for rv.IsValid() && (rv.Kind() == reflect.Ptr || rv.Kind() == reflect.Interface) {
		if rv.IsNil() {
			return rv, true
		}
		rv = rv.Elem()
	}
	if !rv.IsValid() {
		return rv, true
	}
	return rv, false
}

var (
	big0       = big.NewInt(0)
	big1       = big.NewInt(1)
	msPerDay   = big.NewInt(86400000)
	minInt64   = big.NewInt(math.MinInt64)
	maxInt64   = big.NewInt(math.MaxInt64)
	daysMin    = big.NewInt(-1 << 31)
	daysMax    = big.NewInt(1<<31 - 1)
	uuidEpoch  = time.Date(1582, 10, 15, 0, 0, 0, 0, time.UTC)
	widthOfCQL = map[value.TypeID]uint{value.TinyInt: 8, value.SmallInt: 16, value.Int: 32, value.BigInt: 64, value.Counter: 64}
)

func pow2(k uint) *big.Int { return new(big.Int).Lsh(big1, k) }

func floorDiv(a, b *big.Int) *big.Int {
	q, m := new(big.Int).DivMod(a, b, new(big.Int)) // Euclidean: m >= 0, so q is the floor for b > 0
	_ = m
	return q
}

func fitsSigned(i *big.Int, bits uint) bool {
	return i.Cmp(new(big.Int).Neg(pow2(bits-1))) >= 0 && i.Cmp(pow2(bits-1)) < 0
}

func timeMillis(t time.Time) *big.Int {
	ms := new(big.Int).Mul(big.NewInt(t.Unix()), big.NewInt(1000)) // Unix() is the floor of the seconds
	return ms.Add(ms, big.NewInt(int64(t.Nanosecond()/1000000)))
}

// civilDays returns days since 1970-01-01 of a proleptic Gregorian date, ok=false if the date does not exist.
func civilDays(y, m, d int) (int64, bool) {
	if m < 1 || m > 12 || d < 1 {
		return 0, false
	}
	dim := []int{31, 28, 31, 30, 31, 30, 31, 31, 30, 31, 30, 31}[m-1]
	if m == 2 && (y%4 == 0 && (y%100 != 0 || y%400 == 0)) {
		dim = 29
	}
	if d > dim {
		return 0, false
	}
	// days-from-civil (era based)
	yy := int64(y)
	if m <= 2 {
		yy--
	}
	era := yy / 400
	if yy < 0 && yy%400 != 0 {
		era--
	}
	yoe := yy - era*400
	mp := int64((m + 9) % 12)
	doy := (153*mp+2)/5 + int64(d) - 1
	doe := yoe*365 + yoe/4 - yoe/100 + doy
	return era*146097 + doe - 719468, true
}

// parseDate reads "YYYY-MM-DD" (exactly that shape).
func parseDate(s string) (int64, bool) {
	if len(s) != 10 || s[4] != '-' || s[7] != '-' {
		return 0, false
	}
	num := func(x string) (int, bool) {
		n := 0
		for _, c := range x {
			if c < '0' || c > '9' {
				return 0, false
			}
			n = n*10 + int(c-'0')
		}
		return n, true
	}
	y, ok1 := num(s[0:4])
	m, ok2 := num(s[5:7])
	d, ok3 := num(s[8:10])
	if !ok1 || !ok2 || !ok3 {
		return 0, false
	}
	return civilDays(y, m, d)
}

// parseDecimalInt reads an optionally signed run of decimal digits.
func parseDecimalInt(s string) (*big.Int, bool) {
	body := s
	if len(body) > 0 && (body[0] == '+' || body[0] == '-') {
		body = body[1:]
	}
	if body == "" {
		return nil, false
	}
	for _, c := range body {
		if c < '0' || c > '9' {
			return nil, false
		}
	}
	return new(big.Int).SetString(s, 10)
}

func parseUUIDString(s string) ([]byte, bool) {
	var nib []byte
	for _, c := range s {
		switch {
		case c == '-':
		case c >= '0' && c <= '9':
			nib = append(nib, byte(c-'0'))
		case c >= 'a' && c <= 'f':
			nib = append(nib, byte(c-'a'+10))
		case c >= 'A' && c <= 'F':
			nib = append(nib, byte(c-'A'+10))
		default:
			return nil, false
		}
	}
	if len(nib) != 32 {
		return nil, false
	}
	out := make([]byte, 16)
	for i := range out {
		out[i] = nib[2*i]<<4 | nib[2*i+1]
	}
	return out, true
}

func isByteSlice(rv reflect.Value) bool {
	return rv.Kind() == reflect.Slice && rv.Type().Elem().Kind() == reflect.Uint8
}

func isSignedKind(k reflect.Kind) bool {
	return k >= reflect.Int && k <= reflect.Int64
}
func isUnsignedKind(k reflect.Kind) bool {
	return k >= reflect.Uint && k <= reflect.Uint64
}

func kindBits(k reflect.Kind) uint {
	switch k {
	case reflect.Int8, reflect.Uint8:
		return 8
	case reflect.Int16, reflect.Uint16:
		return 16
	case reflect.Int32, reflect.Uint32:
		return 32
	}
	return 64 // int, uint, int64, uint64 on the 64 bit platform the checks run on
}

func bigOfInt(rv reflect.Value) *big.Int {
	if isSignedKind(rv.Kind()) {
		return big.NewInt(rv.Int())
	}
	return new(big.Int).SetUint64(rv.Uint())
}

func normIP(b []byte) []byte {
	if len(b) == 16 {
		mapped := true
		for i := 0; i < 10; i++ {
			if b[i] != 0 {
				mapped = false
			}
		}
		if mapped && b[10] == 0xff && b[11] == 0xff {
			return append([]byte{}, b[12:]...)
		}
	}
	return append([]byte{}, b...)
}

// uuidTicks extracts the 60 bit timestamp (100 ns units since 1582-10-15) of a version 1 UUID (RFC 4122 4.1.4).
func uuidTicks(b []byte) (*big.Int, bool) {
	if len(b) != 16 || b[6]>>4 != 1 {
		return nil, false
	}
	lo := uint64(b[0])<<24 | uint64(b[1])<<16 | uint64(b[2])<<8 | uint64(b[3])
	mid := uint64(b[4])<<8 | uint64(b[5])
	hi := uint64(b[6]&0x0f)<<8 | uint64(b[7])
	return new(big.Int).SetUint64(hi<<48 | mid<<32 | lo), true
}

// absOf maps a Go value bound to (or read from) a column of type t to the
// abstract value it denotes.  ok=false: the value lies outside the column's
// domain, so Marshal must refuse it.
func absOf(t *value.Type, rv reflect.Value) (value.Value, bool) {
	rv, isNil := deref(rv)
	if isNil {
		return value.Null(), true
	}
	if rv.Type() == tRawAbs {
		ra := rv.Interface().(rawAbs)
		return ra.v, !ra.bad
	}
	if len(t.Elems) > 0 {
		if (rv.Kind() == reflect.Slice || rv.Kind() == reflect.Map) && rv.IsNil() {
			return value.Null(), true
		}
		kids, _, ok := kidsOf(t, rv)
		if !ok {
			return value.Value{}, false
		}
		vals := make([]value.Value, len(kids))
		for i, k := range kids {
			var kok bool
			if vals[i], kok = absOf(k.T, k.RV); !kok {
				return value.Value{}, false
			}
		}
		switch t.ID {
		case value.List, value.Set:
			return value.Value{K: value.KList, Elems: vals}, true
		case value.Tuple:
			return value.Value{K: value.KTuple, Elems: vals}, true
		case value.UDT:
			return value.Value{K: value.KUDT, Elems: vals}, true
		}
		m := value.Value{K: value.KMap, Keys: []value.Value{}, Elems: []value.Value{}}
		for i := 0; i+1 < len(vals); i += 2 {
			m.Keys = append(m.Keys, vals[i])
			m.Elems = append(m.Elems, vals[i+1])
		}
		return m, true
	}
	gt := rv.Type()
	k := rv.Kind()
	if gt == tRawAbs {
		ra := rv.Interface().(rawAbs)
		return ra.v, !ra.bad
	}
	switch t.ID {
	case value.Ascii, value.Text, value.Varchar, value.Blob:
		var b []byte
		switch {
		case k == reflect.String:
			b = []byte(rv.String())
		case isByteSlice(rv):
			if rv.IsNil() {
				return value.Null(), true
			}
			b = rv.Bytes()
		default:
			return value.Value{}, false
		}
		if t.ID == value.Blob {
			return value.BytesV(b), true
		}
		return value.Value{K: value.KText, B: append([]byte{}, b...)}, true
	case value.Boolean:
		if k != reflect.Bool {
			return value.Value{}, false
		}
		return value.BoolV(rv.Bool()), true
	case value.TinyInt, value.SmallInt, value.Int, value.BigInt, value.Counter:
		w := widthOfCQL[t.ID]
		switch {
		case gt == tBig:
			x := rv.Interface().(big.Int)
			if !fitsSigned(&x, w) {
				return value.Value{}, false
			}
			return value.BigV(&x), true
		case isSignedKind(k):
			x := big.NewInt(rv.Int())
			if !fitsSigned(x, w) {
				return value.Value{}, false
			}
			return value.BigV(x), true
		case isUnsignedKind(k):
			x := new(big.Int).SetUint64(rv.Uint())
			if x.Cmp(pow2(w)) >= 0 {
				return value.Value{}, false
			}
			if x.Cmp(pow2(w-1)) >= 0 { // the w-bit pattern read as two's complement
				x.Sub(x, pow2(w))
			}
			return value.BigV(x), true
		case k == reflect.String:
			x, ok := parseDecimalInt(rv.String())
			if !ok || !fitsSigned(x, w) {
				return value.Value{}, false
			}
			return value.BigV(x), true
		}
		return value.Value{}, false
	case value.Varint:
		switch {
		case gt == tBig:
			x := rv.Interface().(big.Int)
			return value.BigV(&x), true
		case isSignedKind(k) || isUnsignedKind(k):
			return value.BigV(bigOfInt(rv)), true
		case k == reflect.String:
			x, ok := parseDecimalInt(rv.String())
			if !ok {
				return value.Value{}, false
			}
			return value.BigV(x), true
		}
		return value.Value{}, false
	case value.Float:
		if k != reflect.Float32 {
			return value.Value{}, false
		}
		return value.Bits32V(math.Float32bits(float32(rv.Float()))), true
	case value.Double:
		if k != reflect.Float64 {
			return value.Value{}, false
		}
		return value.Bits64V(math.Float64bits(rv.Float())), true
	case value.Decimal:
		if gt != tDec {
			return value.Value{}, false
		}
		d := rv.Interface().(inf.Dec)
		return value.DecV(d.UnscaledBig(), int32(d.Scale())), true
	case value.Time:
		if k != reflect.Int64 {
			return value.Value{}, false
		}
		return value.IntV(rv.Int()), true
	case value.Timestamp:
		switch {
		case gt == tTime:
			tm := rv.Interface().(time.Time)
			if tm.IsZero() {
				return value.Empty(), true
			}
			ms := timeMillis(tm)
			if ms.Cmp(minInt64) < 0 || ms.Cmp(maxInt64) > 0 {
				return value.Value{}, false
			}
			return value.BigV(ms), true
		case k == reflect.Int64:
			return value.IntV(rv.Int()), true
		}
		return value.Value{}, false
	case value.Date:
		var days *big.Int
		switch {
		case gt == tTime:
			tm := rv.Interface().(time.Time)
			if tm.IsZero() {
				return value.Empty(), true
			}
			days = floorDiv(timeMillis(tm), msPerDay)
		case k == reflect.Int64:
			days = floorDiv(big.NewInt(rv.Int()), msPerDay)
		case k == reflect.String:
			if rv.String() == "" {
				return value.Empty(), true
			}
			d, ok := parseDate(rv.String())
			if !ok {
				return value.Value{}, false
			}
			days = big.NewInt(d)
		default:
			return value.Value{}, false
		}
		if days.Cmp(daysMin) < 0 || days.Cmp(daysMax) > 0 {
			return value.Value{}, false
		}
		return value.BigV(days), true
	case value.Duration:
		switch {
		case gt == tDur:
			d := rv.Interface().(gocql.Duration)
			return value.DurV(int64(d.Months), int64(d.Days), d.Nanoseconds), true
		case k == reflect.Int64:
			return value.DurV(0, 0, rv.Int()), true
		case k == reflect.String:
			d, err := time.ParseDuration(rv.String()) // the documented meaning of a string bound to duration
			if err != nil {
				return value.Value{}, false
			}
			return value.DurV(0, 0, int64(d)), true
		}
		return value.Value{}, false
	case value.UUID, value.TimeUUID:
		switch {
		case gt == tTime && t.ID == value.TimeUUID:
			// only meaningful for Unmarshal targets: ticks since 1582-10-15
			tm := rv.Interface().(time.Time)
			ns := new(big.Int).Mul(big.NewInt(tm.Unix()-uuidEpoch.Unix()), big.NewInt(1e9))
			ns.Add(ns, big.NewInt(int64(tm.Nanosecond())))
			return value.BigV(floorDiv(ns, big.NewInt(100))), true
		case k == reflect.Array && gt.Elem().Kind() == reflect.Uint8 && gt.Len() == 16:
			b := make([]byte, 16)
			reflect.Copy(reflect.ValueOf(b), rv)
			return value.UUIDV(b), true
		case isByteSlice(rv):
			if rv.IsNil() {
				return value.Null(), true
			}
			if rv.Len() != 16 {
				return value.Value{}, false
			}
			return value.UUIDV(rv.Bytes()), true
		case k == reflect.String:
			b, ok := parseUUIDString(rv.String())
			if !ok {
				return value.Value{}, false
			}
			return value.UUIDV(b), true
		}
		return value.Value{}, false
	case value.Inet:
		switch {
		case isByteSlice(rv):
			if rv.IsNil() {
				return value.Null(), true
			}
			if n := rv.Len(); n != 4 && n != 16 {
				return value.Value{}, false
			}
			return value.InetV(normIP(rv.Bytes())), true
		case k == reflect.String:
			ip := net.ParseIP(rv.String())
			if ip == nil {
				return value.Value{}, false
			}
			return value.InetV(normIP(ip)), true
		}
		return value.Value{}, false
	}
	return value.Value{}, false
}

// sortedMapKeys orders the keys of a Go map by the serialisation of what they denote (deterministic).
func sortedMapKeys(kt *value.Type, rv reflect.Value) []reflect.Value {
	keys := rv.MapKeys()
	enc := make([]string, len(keys))
	for i, k := range keys {
		a, ok := absOf(kt, k)
		if ok {
			if b, null, err := value.EncodeErr(kt, a, 4); err == nil && !null {
				enc[i] = "1" + string(b)
			}
		}
	}
	idx := make([]int, len(keys))
	for i := range idx {
		idx[i] = i
	}
	sort.SliceStable(idx, func(i, j int) bool { return enc[idx[i]] < enc[idx[j]] })
	out := make([]reflect.Value, len(keys))
	for i, k := range idx {
		out[i] = keys[k]
	}
	return out
}

// udtFieldIndex maps UDT field names to struct field indexes the documented way (cql tag, else field name).
func udtFieldIndex(gt reflect.Type, name string) int {
	for i := 0; i < gt.NumField(); i++ {
		if gt.Field(i).Tag.Get("cql") == name {
			return i
		}
	}
	if f, ok := gt.FieldByName(name); ok && len(f.Index) == 1 {
		return f.Index[0]
	}
	return -1
}

// kidsOf lists the components of a (dereferenced, non-nil) Go value bound to
// a collection/tuple/UDT type in the order the abstraction uses (map: k0,v0,
// k1,v1,...).  unordered: the Go value has no inherent order (Go map).
// ok=false: the Go value does not have the shape of the CQL type.
func kidsOf(t *value.Type, rv reflect.Value) (kids []kid, unordered, ok bool) {
	gt := rv.Type()
	switch t.ID {
	case value.List, value.Set:
		switch rv.Kind() {
		case reflect.Slice, reflect.Array:
			for i := 0; i < rv.Len(); i++ {
				kids = append(kids, kid{t.Elems[0], rv.Index(i)})
			}
			return kids, false, true
		case reflect.Map:
			if gt.Elem() != tNothing {
				return nil, false, false
			}
			for _, k := range sortedMapKeys(t.Elems[0], rv) {
				kids = append(kids, kid{t.Elems[0], k})
			}
			return kids, true, true
		}
	case value.Map:
		if rv.Kind() != reflect.Map {
			return nil, false, false
		}
		for _, k := range sortedMapKeys(t.Elems[0], rv) {
			kids = append(kids, kid{t.Elems[0], k}, kid{t.Elems[1], rv.MapIndex(k)})
		}
		return kids, true, true
	case value.Tuple:
		switch rv.Kind() {
		case reflect.Slice, reflect.Array:
			if rv.Len() != len(t.Elems) {
				return nil, false, false
			}
			for i := range t.Elems {
				kids = append(kids, kid{t.Elems[i], rv.Index(i)})
			}
			return kids, false, true
		case reflect.Struct:
			if gt.NumField() != len(t.Elems) {
				return nil, false, false
			}
			for i := range t.Elems {
				kids = append(kids, kid{t.Elems[i], rv.Field(i)})
			}
			return kids, false, true
		}
	case value.UDT:
		switch {
		case gt == tStrMap || gt == tUdtM:
			m := rv
			if gt == tUdtM {
				m = rv.Field(0)
			}
			for i, n := range t.Names {
				kids = append(kids, kid{t.Elems[i], m.MapIndex(reflect.ValueOf(n))}) // missing key: invalid = null
			}
			return kids, false, true
		case gt == tUdtU:
			u := rv.Interface().(udtU)
			for i := range t.Names {
				var fv reflect.Value
				if i < len(u.Data) && u.Names[i] == t.Names[i] && u.Data[i] != nil {
					if dv, err := value.Decode(t.Elems[i], u.Data[i], 4); err == nil {
						fv = reflect.ValueOf(rawAbs{v: dv})
					} else {
						fv = reflect.ValueOf(rawAbs{bad: true})
					}
				}
				kids = append(kids, kid{t.Elems[i], fv})
			}
			return kids, false, true
		case rv.Kind() == reflect.Struct:
			for i, n := range t.Names {
				fi := udtFieldIndex(gt, n)
				if fi < 0 {
					kids = append(kids, kid{t.Elems[i], reflect.Value{}})
				} else {
					kids = append(kids, kid{t.Elems[i], rv.Field(fi)})
				}
			}
			return kids, false, true
		}
	}
	return nil, false, false
}

// rawAbs carries an already abstract value through absOf (used for the UDTUnmarshaler target).
type rawAbs struct {
	v   value.Value
	bad bool
}

var tRawAbs = reflect.TypeOf(rawAbs{})

// ---------------------------------------------------------------------------
// projection onto an Unmarshal target

type ability int

const (
	able     ability = iota // the target can represent the value: Unmarshal must succeed and yield it
	unable                  // the target cannot represent it: Unmarshal must return an error (C02 only)
	dontcare                // undocumented / ambiguous: nothing is demanded
)

func worse(a, b ability) ability {
	if a == dontcare || b == dontcare {
		return dontcare
	}
	if a == unable || b == unable {
		return unable
	}
	return able
}

// defaultGoType is the Go type gocql stores in interface{} slots (its documented goType table).
func defaultGoType(t *value.Type) reflect.Type {
	switch t.ID {
	case value.Varchar, value.Ascii, value.Inet, value.Text:
		return tString
	case value.BigInt, value.Counter:
		return tInt64
	case value.Time:
		return tGoDur
	case value.Timestamp, value.Date:
		return tTime
	case value.Blob:
		return tBytes
	case value.Boolean:
		return tBool
	case value.Float:
		return tF32
	case value.Double:
		return tF64
	case value.Int:
		return tInt
	case value.SmallInt:
		return tInt16
	case value.TinyInt:
		return tInt8
	case value.Decimal:
		return reflect.PtrTo(tDec)
	case value.UUID, value.TimeUUID:
		return tUUID
	case value.Varint:
		return reflect.PtrTo(tBig)
	case value.Duration:
		return tDur
	case value.List, value.Set:
		e := defaultGoType(t.Elems[0])
		if e == nil {
			return nil
		}
		return reflect.SliceOf(e)
	case value.Map:
		k, e := defaultGoType(t.Elems[0]), defaultGoType(t.Elems[1])
		if k == nil || e == nil || !k.Comparable() {
			return nil // gocql's goType would panic in reflect.MapOf (e.g. map<blob,...>): not a usable default
		}
		return reflect.MapOf(k, e)
	case value.Tuple:
		return tIfSlice
	case value.UDT:
		return tStrMap
	}
	return nil
}

// project computes what a fresh target of Go type gt must denote after a
// successful Unmarshal of the abstract value a of type t.
func project(t *value.Type, a value.Value, gt reflect.Type) (value.Value, ability) {
	switch gt.Kind() {
	case reflect.Ptr:
		if a.IsNull() {
			return value.Null(), able
		}
		return project(t, a, gt.Elem())
	case reflect.Interface:
		d := defaultGoType(t)
		if d == nil {
			return a, dontcare
		}
		return project(t, a, d)
	}
	if a.K == value.KNull {
		// "Otherwise, nulls are unmarshalled as zero value."
		if gt.Kind() == reflect.Array || (t.ID == value.Tuple && gt.Kind() == reflect.Slice) || gt == tUdtU {
			return a, dontcare
		}
		if (t.ID == value.Tuple || t.ID == value.UDT) && gt.Kind() == reflect.Struct && gt != tUdtM {
			// every component is unmarshalled from null in turn
			nulls := value.Value{K: value.KTuple, Elems: make([]value.Value, len(t.Elems))}
			if t.ID == value.UDT {
				nulls.K = value.KUDT
			}
			return projectContainer(t, nulls, gt)
		}
		z, ok := absOf(t, reflect.Zero(gt))
		if !ok {
			return a, dontcare
		}
		return z, able
	}
	if a.K == value.KEmpty {
		return a, dontcare
	}
	if len(t.Elems) > 0 {
		return projectContainer(t, a, gt)
	}
	if t.ID == value.TimeUUID && gt == tTime && a.K == value.KUUID {
		// "timeuuid | *time.Time | timestamp of the UUID"
		if ticks, ok := uuidTicks(a.B); ok {
			return value.BigV(ticks), able
		}
		return a, dontcare
	}
	return a, scalarAbility(t, a, gt)
}

func projectContainer(t *value.Type, a value.Value, gt reflect.Type) (value.Value, ability) {
	res := able
	sub := func(et *value.Type, ev value.Value, egt reflect.Type) value.Value {
		pv, ab := project(et, ev, egt)
		res = worse(res, ab)
		return pv
	}
	switch t.ID {
	case value.List, value.Set:
		if gt.Kind() != reflect.Slice && gt.Kind() != reflect.Array {
			return a, dontcare
		}
		if gt.Kind() == reflect.Array && gt.Len() != len(a.Elems) {
			return a, unable
		}
		out := value.Value{K: value.KList, Elems: make([]value.Value, len(a.Elems))}
		for i, e := range a.Elems {
			out.Elems[i] = sub(t.Elems[0], e, gt.Elem())
		}
		return out, res
	case value.Map:
		if gt.Kind() != reflect.Map {
			return a, dontcare
		}
		out := value.Value{K: value.KMap, Keys: make([]value.Value, len(a.Keys)), Elems: make([]value.Value, len(a.Elems))}
		for i := range a.Keys {
			out.Keys[i] = sub(t.Elems[0], a.Keys[i], gt.Key())
			out.Elems[i] = sub(t.Elems[1], a.Elems[i], gt.Elem())
		}
		return out, res
	case value.Tuple:
		out := value.Value{K: value.KTuple, Elems: make([]value.Value, len(a.Elems))}
		// unmarshalTuple decodes every component into gocql's default Go type for it (goType table) and
		// then assigns; only component types that equal the default type (or a pointer to it, or
		// interface{}) are therefore taken as supported ("able"); others must merely not misbehave.
		supported := func(i int, ct reflect.Type) bool {
			d := defaultGoType(t.Elems[i])
			return ct == d || ct == reflect.PtrTo(d) || ct.Kind() == reflect.Interface
		}
		switch gt.Kind() {
		case reflect.Struct:
			if gt.NumField() != len(t.Elems) || gt == tTime || gt == tBig || gt == tDec {
				return a, dontcare
			}
			for i, e := range a.Elems {
				out.Elems[i] = sub(t.Elems[i], e, gt.Field(i).Type)
				if !supported(i, gt.Field(i).Type) {
					res = dontcare
				}
			}
		case reflect.Slice, reflect.Array:
			if gt.Kind() == reflect.Array && gt.Len() != len(t.Elems) {
				return a, unable
			}
			for i, e := range a.Elems {
				out.Elems[i] = sub(t.Elems[i], e, gt.Elem())
				if !supported(i, gt.Elem()) {
					res = dontcare
				}
			}
		default:
			return a, dontcare
		}
		return out, res
	case value.UDT:
		out := value.Value{K: value.KUDT, Elems: make([]value.Value, len(t.Elems))}
		for i := range t.Elems {
			present := i < len(a.Elems)
			switch {
			case gt == tStrMap:
				if !present {
					out.Elems[i] = value.Null() // key not set
				} else {
					out.Elems[i] = sub(t.Elems[i], a.Elems[i], tIface)
				}
			case gt == tUdtU:
				if present {
					out.Elems[i] = a.Elems[i]
				} else {
					out.Elems[i] = value.Null()
				}
			case gt.Kind() == reflect.Struct:
				fi := udtFieldIndex(gt, t.Names[i])
				if fi < 0 {
					out.Elems[i] = value.Null() // "skip fields which exist in the UDT but not in the struct"
					continue
				}
				ev := value.Null()
				if present {
					ev = a.Elems[i]
				}
				out.Elems[i] = sub(t.Elems[i], ev, gt.Field(fi).Type)
			default:
				return a, dontcare
			}
		}
		return out, res
	}
	return a, dontcare
}

// scalarAbility decides whether Go type gt can represent scalar a of CQL type t.
func scalarAbility(t *value.Type, a value.Value, gt reflect.Type) ability {
	k := gt.Kind()
	byteSlice := k == reflect.Slice && gt.Elem().Kind() == reflect.Uint8
	switch t.ID {
	case value.Ascii, value.Text, value.Varchar, value.Blob:
		if k == reflect.String || byteSlice {
			return able
		}
	case value.Boolean:
		if k == reflect.Bool {
			return able
		}
	case value.TinyInt, value.SmallInt, value.Int, value.BigInt, value.Counter:
		w := widthOfCQL[t.ID]
		switch {
		case gt == tBig, k == reflect.String:
			return able
		case isSignedKind(k):
			if fitsSigned(a.I, kindBits(k)) {
				return able
			}
			return unable
		case isUnsignedKind(k):
			u := new(big.Int).Set(a.I) // zero-extended w-bit pattern
			if u.Sign() < 0 {
				u.Add(u, pow2(w))
			}
			if u.Cmp(pow2(kindBits(k))) < 0 {
				return able
			}
			return unable
		}
	case value.Varint:
		switch {
		case gt == tBig:
			return able
		case k == reflect.String:
			if fitsSigned(a.I, 64) {
				return able
			}
			return dontcare
		case isSignedKind(k):
			if fitsSigned(a.I, kindBits(k)) {
				return able
			}
			return unable
		case isUnsignedKind(k):
			if a.I.Sign() >= 0 && a.I.Cmp(pow2(kindBits(k))) < 0 {
				if a.I.Cmp(maxInt64) > 0 && gt != tUint64 {
					// Marshal refuses such a value from uint / named uint64 sources, so no round trip demands reading it back
					return dontcare
				}
				return able
			}
			return unable
		}
	case value.Float:
		if k == reflect.Float32 {
			return able
		}
	case value.Double:
		if k == reflect.Float64 {
			return able
		}
	case value.Decimal:
		if gt == tDec {
			return able
		}
	case value.Time:
		if k == reflect.Int64 {
			return able
		}
	case value.Timestamp:
		if k == reflect.Int64 {
			return able
		}
		if gt == tTime {
			if a.I.Cmp(big.NewInt(-62135596800000)) == 0 {
				return dontcare // 0001-01-01T00:00:00Z is Go's zero time, which gocql reserves for "empty"
			}
			return able
		}
	case value.Date:
		if gt == tTime {
			if a.I.Cmp(big.NewInt(-719162)) == 0 {
				return dontcare // 0001-01-01, see above
			}
			return able
		}
		if k == reflect.String {
			// "2006-01-02" can only express years 0000..9999
			lo, _ := civilDays(0, 1, 1)
			hi, _ := civilDays(9999, 12, 31)
			if a.I.Cmp(big.NewInt(lo)) >= 0 && a.I.Cmp(big.NewInt(hi)) <= 0 {
				return able
			}
			return dontcare
		}
	case value.Duration:
		if gt == tDur {
			return able
		}
	case value.UUID, value.TimeUUID:
		if gt == tUUID || gt == tArr16 || k == reflect.String || byteSlice {
			return able
		}
		if gt == tTime && t.ID == value.TimeUUID {
			return dontcare // handled by the caller (timestamp of the UUID)
		}
	case value.Inet:
		if gt == tIP || k == reflect.String {
			return able
		}
	}
	return dontcare
}

// normAbs makes two abstract values of type t comparable with value.Equal:
// sets/maps sorted, absent UDT fields null, IPv4-mapped addresses as IPv4.
func normAbs(t *value.Type, v value.Value) value.Value {
	v = mapLeaves(t, v, func(lt *value.Type, lv value.Value) value.Value {
		if lt.ID == value.Inet && lv.K == value.KInet {
			return value.InetV(normIP(lv.B))
		}
		return lv
	})
	return value.Normalize(t, v)
}

func mapLeaves(t *value.Type, v value.Value, f func(*value.Type, value.Value) value.Value) value.Value {
	if len(t.Elems) == 0 || (v.K != value.KList && v.K != value.KMap && v.K != value.KTuple && v.K != value.KUDT) {
		return f(t, v)
	}
	out := value.Value{K: v.K}
	et := func(i int) *value.Type {
		if t.ID == value.Tuple || t.ID == value.UDT {
			return t.Elems[i]
		}
		if t.ID == value.Map {
			return t.Elems[1]
		}
		return t.Elems[0]
	}
	for i, e := range v.Elems {
		if (t.ID == value.Tuple || t.ID == value.UDT) && i >= len(t.Elems) {
			break
		}
		out.Elems = append(out.Elems, mapLeaves(et(i), e, f))
	}
	if v.K == value.KMap {
		out.Keys = []value.Value{}
		if out.Elems == nil {
			out.Elems = []value.Value{}
		}
		for _, k := range v.Keys {
			out.Keys = append(out.Keys, mapLeaves(t.Elems[0], k, f))
		}
	}
	if out.Elems == nil {
		out.Elems = []value.Value{}
	}
	return out
}
