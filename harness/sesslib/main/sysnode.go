package main

// A scripted node that also serves the system tables a control connection
// reads (system.local, system.peers, schema versions), from a cluster view the
// harness mutates, and pushes events to registered connections.

import (
	"fmt"
	"net"
	"os"
	"strings"
	"time"

	"verif/engine/refcql/frame"
	"verif/engine/vnode"
	vs "verif/engine/vsched"
)

type vhost struct {
	id     string // canonical uuid text
	ip     string // rpc (native) address; also the broadcast/peer address unless peerIP is set
	peerIP string // node-to-node (broadcast / peer) address when it differs from the rpc address
	dc     string
	rack   string
	tokens []string
	noTok  bool // invalid peer row: no tokens
	// nullCols / emptyCols: system.peers columns of this node's row that are served as NULL / as a zero-length value
	// (kinds of invalid peer rows: gocql documents a peer without rpc_address, host_id, data_center, rack or tokens as
	// invalid). noTok is nullCols{"tokens"}. The node's own system.local row is always complete.
	nullCols  []string
	emptyCols []string
}

// validityCols: the system.peers columns whose absence makes a peer row invalid (what gocql's isValidPeer, host_source.go, documents as an invalid peer).
var validityCols = []string{"rpc_address", "host_id", "data_center", "rack", "tokens"}

func (h vhost) absent(col string) bool {
	if col == "tokens" && h.noTok {
		return true
	}
	for _, c := range h.nullCols {
		if c == col {
			return true
		}
	}
	for _, c := range h.emptyCols {
		if c == col {
			return true
		}
	}
	return false
}

// invalid: the node's system.peers row lacks one of the columns a valid peer must have.
func (h vhost) invalid() bool {
	for _, c := range validityCols {
		if h.absent(c) {
			return true
		}
	}
	return false
}

// peersCell: the cell served for a column of this node's system.peers row: b, or NULL (nil) for a nullCols column, or
// empty for an emptyCols column (a zero-length value; for the tokens collection: a set of zero elements).
func (h vhost) peersCell(col string, b []byte, empty []byte) []byte {
	if col == "tokens" && h.noTok {
		return nil
	}
	for _, c := range h.nullCols {
		if c == col {
			return nil
		}
	}
	for _, c := range h.emptyCols {
		if c == col {
			return empty
		}
	}
	return b
}

type cview struct {
	hosts []vhost // hosts[0..]: every node of the cluster; a node serves itself as local and the others as peers
}

func (v *cview) clone() *cview {
	c := &cview{}
	c.hosts = append(c.hosts, v.hosts...)
	return c
}

func (v *cview) String() string {
	var b []string
	for _, h := range v.hosts {
		s := h.id[len(h.id)-2:] + "@" + h.ip
		if h.noTok {
			s += "(invalid)"
		}
		if len(h.nullCols) > 0 {
			s += "(null:" + strings.Join(h.nullCols, "+") + ")"
		}
		if len(h.emptyCols) > 0 {
			s += "(empty:" + strings.Join(h.emptyCols, "+") + ")"
		}
		b = append(b, s)
	}
	return "{" + strings.Join(b, " ") + "}"
}

func uuidBytes(s string) []byte {
	hex := strings.ReplaceAll(s, "-", "")
	out := make([]byte, 16)
	for i := 0; i < 16; i++ {
		fmt.Sscanf(hex[2*i:2*i+2], "%02x", &out[i])
	}
	return out
}

func (h vhost) nodeIP() string {
	if h.peerIP != "" {
		return h.peerIP
	}
	return h.ip
}

func hostUUID(n int) string { return fmt.Sprintf("00000000-0000-0000-0000-0000000000%02x", n) }

const schemaVersion = "11111111-1111-1111-1111-111111111111"

type sysnode struct {
	cl           *vcluster
	view         func() *cview // current view
	self         string        // this node's ip
	peersLog     *[]string     // appended: which view was served by a successful system.peers read
	localLog     *[]string
	failPeers    func() bool                            // a system.peers read fails when this returns true
	peersDelay   func() time.Duration                   // virtual delay of the reply to a system.peers read (nil: none)
	optionsReply func(sc *vnode.ServerConn) interface{} // non-nil result: sent instead of SUPPORTED in reply to OPTIONS
	prepared     map[string]string
	registered   []*vnode.ServerConn
	next         vnode.Handler
}

func textCol(ks, tb, name string) frame.ColumnSpec {
	return frame.ColumnSpec{Keyspace: ks, Table: tb, Name: name, Type: frame.Leaf(frame.TVarchar)}
}
func col(ks, tb, name string, t *frame.Type) frame.ColumnSpec {
	return frame.ColumnSpec{Keyspace: ks, Table: tb, Name: name, Type: t}
}

func inetCell(ip string) []byte { return []byte(net.ParseIP(ip).To4()) }

func tokensCell(version int, toks []string) []byte {
	var items [][]byte
	for _, t := range toks {
		items = append(items, frame.TextCell(t))
	}
	return frame.CollectionCell(version, len(items), items...)
}

func (sn *sysnode) rowsFor(stmt string, version int) (*frame.ResultRows, *frame.Error) {
	v := sn.view()
	norm := strings.ToLower(strings.Join(strings.Fields(stmt), " "))
	switch {
	case strings.HasPrefix(norm, "select * from system.local"):
		cols := []frame.ColumnSpec{textCol("system", "local", "key"), col("system", "local", "host_id", frame.Leaf(frame.TUUID)), textCol("system", "local", "data_center"),
			textCol("system", "local", "rack"), textCol("system", "local", "release_version"), textCol("system", "local", "partitioner"), textCol("system", "local", "cluster_name"),
			col("system", "local", "tokens", frame.SetOf(frame.Leaf(frame.TVarchar))), col("system", "local", "broadcast_address", frame.Leaf(frame.TInet)),
			col("system", "local", "rpc_address", frame.Leaf(frame.TInet)), col("system", "local", "schema_version", frame.Leaf(frame.TUUID))}
		r := &frame.ResultRows{Meta: frame.RowsMetadata{GlobalTableSpec: true, GlobalKeyspace: "system", GlobalTable: "local", ColumnCount: int32(len(cols)), Columns: cols}}
		for _, h := range v.hosts {
			if h.ip == sn.self {
				r.Rows = append(r.Rows, [][]byte{frame.TextCell("local"), uuidBytes(h.id), frame.TextCell(h.dc), frame.TextCell(h.rack), frame.TextCell("3.11.4"),
					frame.TextCell("org.apache.cassandra.dht.Murmur3Partitioner"), frame.TextCell("verif"), tokensCell(version, h.tokens), inetCell(h.nodeIP()), inetCell(h.ip), uuidBytes(schemaVersion)})
			}
		}
		if sn.localLog != nil {
			*sn.localLog = append(*sn.localLog, v.String())
		}
		return r, nil
	case strings.HasPrefix(norm, "select * from system.peers_v2"):
		return nil, &frame.Error{Code: 0x2200, Message: "unconfigured table peers_v2"}
	case strings.HasPrefix(norm, "select * from system.peers"):
		if sn.failPeers != nil && sn.failPeers() {
			return nil, &frame.Error{Code: 0x1001, Message: "overloaded (scripted refresh failure)"}
		}
		cols := []frame.ColumnSpec{col("system", "peers", "peer", frame.Leaf(frame.TInet)), col("system", "peers", "host_id", frame.Leaf(frame.TUUID)), textCol("system", "peers", "data_center"),
			textCol("system", "peers", "rack"), textCol("system", "peers", "release_version"), col("system", "peers", "tokens", frame.SetOf(frame.Leaf(frame.TVarchar))),
			col("system", "peers", "rpc_address", frame.Leaf(frame.TInet)), col("system", "peers", "schema_version", frame.Leaf(frame.TUUID))}
		r := &frame.ResultRows{Meta: frame.RowsMetadata{GlobalTableSpec: true, GlobalKeyspace: "system", GlobalTable: "peers", ColumnCount: int32(len(cols)), Columns: cols}}
		for _, h := range v.hosts {
			if h.ip == sn.self {
				continue
			}
			e := []byte{}
			r.Rows = append(r.Rows, [][]byte{inetCell(h.nodeIP()), h.peersCell("host_id", uuidBytes(h.id), e), h.peersCell("data_center", frame.TextCell(h.dc), e), h.peersCell("rack", frame.TextCell(h.rack), e),
				frame.TextCell("3.11.4"), h.peersCell("tokens", tokensCell(version, h.tokens), tokensCell(version, nil)), h.peersCell("rpc_address", inetCell(h.ip), e), uuidBytes(schemaVersion)})
		}
		if sn.peersLog != nil {
			*sn.peersLog = append(*sn.peersLog, v.String())
			if os.Getenv("SYSNODE_DEBUG") != "" {
				fmt.Fprintf(os.Stderr, "SYSNODE peers read at %v on %s: %s\n", vs.Clock(), sn.self, v)
			}
		}
		return r, nil
	case strings.HasPrefix(norm, "select schema_version from system.local"):
		cols := []frame.ColumnSpec{col("system", "local", "schema_version", frame.Leaf(frame.TUUID))}
		return &frame.ResultRows{Meta: frame.RowsMetadata{GlobalTableSpec: true, GlobalKeyspace: "system", GlobalTable: "local", ColumnCount: 1, Columns: cols}, Rows: [][][]byte{{uuidBytes(schemaVersion)}}}, nil
	}
	return nil, nil
}

func (sn *sysnode) handler() vnode.Handler {
	if sn.prepared == nil {
		sn.prepared = map[string]string{}
	}
	return vnode.Basic(func(n *vnode.Node, sc *vnode.ServerConn, rec *vnode.ReqRec) vnode.Reply {
		version := rec.Req.Header.Version
		switch m := rec.Req.Msg.(type) {
		case *frame.Query:
			if rows, e := sn.rowsFor(m.Statement, version); e != nil {
				return vnode.Reply{Msg: e}
			} else if rows != nil {
				rep := vnode.Reply{Msg: rows}
				if sn.peersDelay != nil && strings.Contains(strings.ToLower(m.Statement), "system.peers") {
					rep.Delay = sn.peersDelay()
				}
				return rep
			}
		case *frame.Prepare:
			if rows, e := sn.rowsFor(m.Statement, version); rows != nil || e != nil {
				if rows == nil { // peers_v2: the PREPARE itself fails
					return vnode.Reply{Msg: e}
				}
				id := "sys:" + m.Statement
				sn.prepared[id] = m.Statement
				meta := rows.Meta
				return vnode.Reply{Msg: &frame.ResultPrepared{ID: []byte(id), Result: meta}}
			}
		case *frame.Execute:
			if stmt, ok := sn.prepared[string(m.ID)]; ok {
				rows, e := sn.rowsFor(stmt, version)
				if e != nil {
					return vnode.Reply{Msg: e}
				}
				if m.Params.SkipMetadata {
					rows.Meta.NoMetadata = true
					rows.Meta.GlobalTableSpec = false
					rows.Meta.Columns = nil
				}
				rep := vnode.Reply{Msg: rows}
				if sn.peersDelay != nil && strings.Contains(strings.ToLower(stmt), "system.peers") {
					rep.Delay = sn.peersDelay()
				}
				return rep
			}
		}
		if sn.next != nil {
			return sn.next(n, sc, rec)
		}
		return vnode.Reply{Msg: frame.ResultVoid{}}
	})
}

// wrapRegister records connections that sent REGISTER so that events can be pushed to them.
func (sn *sysnode) wrapRegister(h vnode.Handler) vnode.Handler {
	return func(n *vnode.Node, sc *vnode.ServerConn, rec *vnode.ReqRec) vnode.Reply {
		if _, ok := rec.Req.Msg.(*frame.Options); ok && sn.optionsReply != nil {
			if m := sn.optionsReply(sc); m != nil {
				return vnode.Reply{Msg: m}
			}
		}
		if _, ok := rec.Req.Msg.(*frame.Register); ok {
			sn.registered = append(sn.registered, sc)
		}
		return h(n, sc, rec)
	}
}

// push sends an event to every registered, still open connection of this node (from a fresh thread).
func (sn *sysnode) push(msg interface{}) int {
	sent := 0
	for _, sc := range sn.registered {
		if sc.C.Closed() || sc.C.PeerClosed() {
			continue
		}
		if err := sc.Push(4, msg); err == nil {
			sent++
		}
	}
	return sent
}

var _ = vs.Clock
