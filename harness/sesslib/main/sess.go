// Shared session-level harness pieces: a cluster of scripted nodes behind a vnet dialer.
package main

import (
	"fmt"
	"net"
	"sort"

	"github.com/gocql/gocql"

	"verif/engine/vnode"
	vs "verif/engine/vsched"
	context "verif/engine/vsched/vcontext"
	"verif/engine/vsched/vnet"
)

type vcluster struct {
	nodes   map[string]*vnode.Node // by ip (add: one node per IP address, port 9042) or by "ip:port" (addAt: several nodes may share an IP)
	byPort  bool                   // some node was added with addAt: the dialer routes by "ip:port" first
	order   []string
	clients []*vnet.Conn
	dials   int
	// dialFate decides a dial: nil error = connect. Called in the dialling thread.
	dialFate func(ip string, n int) error
	sync     bool
	wlog     []vnet.WriteRec
	closeErr error // every transport's Close returns this error (models a failing TLS close-notify)
}

func newCluster(sync bool) *vcluster {
	return &vcluster{nodes: map[string]*vnode.Node{}, sync: sync}
}

func (cl *vcluster) add(ip string, h vnode.Handler) *vnode.Node {
	n := vnode.New("n"+ip, net.ParseIP(ip), 9042, h)
	cl.nodes[ip] = n
	cl.order = append(cl.order, ip)
	sort.Strings(cl.order)
	return n
}

// addAt adds a node that listens on ip:port and is keyed by "ip:port" (in nodes, order, dialFate and the pipe names), so
// that several nodes can share one IP address and differ only in their port (address translation / NAT, local clusters).
// Nodes added with add keep their one-port-per-IP behaviour (key = ip).
func (cl *vcluster) addAt(ip string, port int, h vnode.Handler) *vnode.Node {
	key := (&net.TCPAddr{IP: net.ParseIP(ip), Port: port}).String()
	n := vnode.New("n"+key, net.ParseIP(ip), port, h)
	cl.nodes[key] = n
	cl.byPort = true
	cl.order = append(cl.order, key)
	sort.Strings(cl.order)
	return n
}

func (cl *vcluster) dialer() gocql.HostDialer {
	return gocql.VerifDialFunc{DisableCoalesce: true, Fn: func(ctx context.Context, host *gocql.HostInfo) (net.Conn, error) {
		ip := gocql.VerifHostAddr(host)
		if cl.byPort {
			// a node keyed by "ip:port" is reached only on exactly that port; from here on ip is that key
			if key := gocql.VerifHostAddrPort(host); cl.nodes[key] != nil {
				ip = key
			}
		}
		n := cl.nodes[ip]
		cl.dials++
		if cl.dialFate != nil {
			if err := cl.dialFate(ip, cl.dials); err != nil {
				return nil, err
			}
		}
		if n == nil {
			return nil, fmt.Errorf("vnet: connect %s: no route to host", ip)
		}
		client, server := vnet.Pipe(fmt.Sprintf("%s#%d", ip, cl.dials), &net.TCPAddr{IP: net.IPv4(10, 9, 9, 9), Port: 40000 + cl.dials}, n.Addr)
		client.Log = &cl.wlog
		client.CloseErr = cl.closeErr
		cl.clients = append(cl.clients, client)
		if cl.sync {
			n.AcceptSync(server)
		} else {
			n.Accept(server)
		}
		return client, nil
	}}
}

// liveThreads returns the names of threads that are alive now (for leak oracles).
func liveThreadSet() map[string]bool {
	m := map[string]bool{}
	for _, t := range vs.LiveThreads() {
		m[t] = true
	}
	return m
}
