// Shared session-level harness pieces: a cluster of scripted nodes behind a vnet dialer.
package main

import (
	"fmt"
	"net"
	"sort"

	"github.com/gocql/gocql"

	"verif/engine/vnode"
	vs "verif/engine/vsched"
	context "verif/engine/vsched/vcontext"
	"verif/engine/vsched/vnet"
)

type vcluster struct {
	nodes   map[string]*vnode.Node // by ip
	order   []string
	clients []*vnet.Conn
	dials   int
	// dialFate decides a dial: nil error = connect. Called in the dialling thread.
	dialFate func(ip string, n int) error
	sync     bool
	wlog     []vnet.WriteRec
	closeErr error // every transport's Close returns this error (models a failing TLS close-notify)
}

func newCluster(sync bool) *vcluster {
	return &vcluster{nodes: map[string]*vnode.Node{}, sync: sync}
}

func (cl *vcluster) add(ip string, h vnode.Handler) *vnode.Node {
	n := vnode.New("n"+ip, net.ParseIP(ip), 9042, h)
	cl.nodes[ip] = n
	cl.order = append(cl.order, ip)
	sort.Strings(cl.order)
	return n
}

func (cl *vcluster) dialer() gocql.HostDialer {
	return gocql.VerifDialFunc{DisableCoalesce: true, Fn: func(ctx context.Context, host *gocql.HostInfo) (net.Conn, error) {
		ip := gocql.VerifHostAddr(host)
		n := cl.nodes[ip]
		cl.dials++
		if cl.dialFate != nil {
			if err := cl.dialFate(ip, cl.dials); err != nil {
				return nil, err
			}
		}
		if n == nil {
			return nil, fmt.Errorf("vnet: connect %s: no route to host", ip)
		}
		client, server := vnet.Pipe(fmt.Sprintf("%s#%d", ip, cl.dials), &net.TCPAddr{IP: net.IPv4(10, 9, 9, 9), Port: 40000 + cl.dials}, n.Addr)
		client.Log = &cl.wlog
		client.CloseErr = cl.closeErr
		cl.clients = append(cl.clients, client)
		if cl.sync {
			n.AcceptSync(server)
		} else {
			n.Accept(server)
		}
		return client, nil
	}}
}

// liveThreads returns the names of threads that are alive now (for leak oracles).
func liveThreadSet() map[string]bool {
	m := map[string]bool{}
	for _, t := range vs.LiveThreads() {
		m[t] = true
	}
	return m
}
