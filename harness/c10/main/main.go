// Worker of check C10: replica sets for a token equal Cassandra's placement.
package main

import (
	"encoding/hex"
	"fmt"
	"math/big"
	"os"
	"regexp"
	"runtime"
	"sort"
	"strconv"
	"strings"
	"sync"
	"sync/atomic"

	"github.com/gocql/gocql"
	"verif/engine/refcass"
	"verif/engine/report"
)

var r *report.Run

// ---------------------------------------------------------------- ring arrangements

// arrangement: n nodes, owners[i] = node owning the i-th smallest ring token. Every
// node owns 1 or 2 tokens. Nodes are interchangeable until they are labelled (every
// labelling is enumerated), so they are numbered by first appearance clockwise from the
// smallest token; apart from that every ownership sequence is kept (rotations too:
// lookups below the smallest / above the largest token make the origin matter).
type arrangement struct {
	n      int
	owners []int
}

func arrangements(maxNodes int) []arrangement {
	var out []arrangement
	for n := 1; n <= maxNodes; n++ {
		var rec func(owners []int, counts []int)
		rec = func(owners []int, counts []int) {
			if len(counts) == n {
				out = append(out, arrangement{n, append([]int{}, owners...)})
			}
			for e := 0; e <= len(counts) && e < n; e++ {
				if e == len(counts) {
					rec(append(owners, e), append(append([]int{}, counts...), 1))
				} else if counts[e] < 2 {
					counts[e]++
					rec(append(owners, e), counts)
					counts[e]--
				}
			}
		}
		rec(nil, nil)
	}
	return out
}

var locations = []refcass.Endpoint{{DC: "dc1", Rack: "r1"}, {DC: "dc1", Rack: "r2"}, {DC: "dc2", Rack: "r1"}, {DC: "dc2", Rack: "r2"}}

// ---------------------------------------------------------------- replication settings

type strategy struct {
	name   string
	simple bool
	rf     int            // SimpleStrategy
	dcs    map[string]int // NetworkTopologyStrategy: DCs named by the keyspace
	ks     *gocql.KeyspaceMetadata
}

func strategies() []strategy {
	var out []strategy
	for rf := 0; rf <= 4; rf++ {
		var v interface{} = strconv.Itoa(rf) // system_schema.keyspaces reports strings
		if rf%2 == 0 {
			v = rf // older code paths hand ints
		}
		out = append(out, strategy{name: fmt.Sprintf("Simple(rf=%d)", rf), simple: true, rf: rf, ks: &gocql.KeyspaceMetadata{
			Name: "ks", StrategyClass: "org.apache.cassandra.locator.SimpleStrategy",
			StrategyOptions: map[string]interface{}{"class": "org.apache.cassandra.locator.SimpleStrategy", "replication_factor": v}}})
	}
	for rf1 := -1; rf1 <= 3; rf1++ { // -1: the keyspace does not name the DC
		for rf2 := -1; rf2 <= 3; rf2++ {
			for _, rfx := range []int{-1, 1, 3} { // dcX: a DC the ring does not contain
				dcs := map[string]int{}
				opts := map[string]interface{}{"class": "org.apache.cassandra.locator.NetworkTopologyStrategy"}
				var parts []string
				for _, d := range []struct {
					dc string
					rf int
				}{{"dc1", rf1}, {"dc2", rf2}, {"dcX", rfx}} {
					if d.rf >= 0 {
						dcs[d.dc] = d.rf
						if d.dc == "dc2" {
							opts[d.dc] = d.rf
						} else {
							opts[d.dc] = strconv.Itoa(d.rf)
						}
						parts = append(parts, fmt.Sprintf("%s:%d", d.dc, d.rf))
					}
				}
				out = append(out, strategy{name: "NTS{" + strings.Join(parts, ",") + "}", dcs: dcs, ks: &gocql.KeyspaceMetadata{
					Name: "ks", StrategyClass: "org.apache.cassandra.locator.NetworkTopologyStrategy", StrategyOptions: opts}})
			}
		}
	}
	return out
}

// ---------------------------------------------------------------- partitioners

type partSpec struct {
	short, name string
	pool        []string // 8 candidate ring tokens, ascending in Cassandra's order
	extra       []string // lookups below everything / above everything
	cmp         func(a, b string) int
	between     func(a, b string) []string // tokens strictly between two ring tokens / next to one
}

func bigOf(s string) *big.Int {
	v, ok := new(big.Int).SetString(s, 10)
	if !ok {
		panic("bad number " + s)
	}
	return v
}

func numCmp(a, b string) int { return bigOf(a).Cmp(bigOf(b)) }

func hexCmp(a, b string) int {
	x, err1 := hex.DecodeString(a)
	y, err2 := hex.DecodeString(b)
	if err1 != nil || err2 != nil {
		panic("bad hex token")
	}
	return refcass.CompareUnsignedBytes(x, y)
}

func numBetween(a, b string) []string {
	x, y := bigOf(a), bigOf(b)
	mid := new(big.Int).Add(x, y)
	mid.Rsh(mid, 1) // floor((x+y)/2) for either sign (arithmetic shift)
	return []string{new(big.Int).Add(x, big.NewInt(1)).String(), mid.String(), new(big.Int).Sub(y, big.NewInt(1)).String()}
}

var partSpecs = []partSpec{
	{short: "m3", name: "org.apache.cassandra.dht.Murmur3Partitioner",
		pool:  []string{"-9000000000000000000", "-4611686018427387905", "-1000000000", "-7", "5", "1000000000", "4611686018427387904", "9000000000000000000"},
		extra: []string{"-9223372036854775808", "-9000000000000000001", "9000000000000000001", "9223372036854775807"},
		cmp:   numCmp, between: numBetween},
	{short: "rnd", name: "org.apache.cassandra.dht.RandomPartitioner",
		pool: []string{"1", "2147483648", "9223372036854775807", "9223372036854775813", "18446744073709551617", "1267650600228229401496703205376",
			"85070591730234615865843651857942052864", "170141183460469231731687303715884105727"},
		extra: []string{"0", "170141183460469231731687303715884105728"},
		cmp:   numCmp, between: numBetween},
	// ByteOrderedPartitioner: Cassandra prints its tokens as lower-case hex, whose string
	// order equals the unsigned byte order of the decoded tokens (prefix included).
	{short: "ord", name: "org.apache.cassandra.dht.ByteOrderedPartitioner",
		pool:  []string{"00", "0001", "10", "7f", "7fff", "80", "c0de", "ff"},
		extra: []string{"", "ffff"},
		cmp:   hexCmp,
		between: func(a, b string) []string {
			return []string{a + "00"} // smallest token above a; kept only if below b
		}},
}

// ringTokens picks T of the 8 candidates (a centred window, so signs / widths mix).
func (p *partSpec) ringTokens(T int) []string {
	off := (len(p.pool) - T) / 2
	return p.pool[off : off+T]
}

// lookups: equal to every ring token, between every neighbouring pair (next to each
// end and the middle), below the smallest and above the largest.
func (p *partSpec) lookups(ring []string) []string {
	seen := map[string]bool{}
	var out []string
	add := func(s string) {
		if !seen[s] {
			seen[s] = true
			out = append(out, s)
		}
	}
	for i, t := range ring {
		add(t)
		if i+1 < len(ring) {
			for _, m := range p.between(t, ring[i+1]) {
				if p.cmp(t, m) < 0 && p.cmp(m, ring[i+1]) < 0 {
					add(m)
				}
			}
		}
	}
	for _, e := range p.extra {
		add(e)
	}
	return out
}

// ---------------------------------------------------------------- main

type counters struct {
	evals, lookupsBelow, lookupsAbove, lookupsEqual, lookupsBetween int64
	replicaMaps, panics                                             int64
	byStrategy                                                      [2]int64
	emptyExpected, multiDC, rackSkips                               int64
}

var cnt counters

func main() {
	r = report.New("C10", "exploration")
	maxNodes := 3
	if r.Thorough() {
		maxNodes = 4
	}
	arrs := arrangements(maxNodes)
	if !r.Thorough() {
		// quick also covers the 4-node rings in which every node owns one token (rack repeats with
		// 3+1 nodes per rack need four nodes in a datacenter); thorough covers all 4-node rings
		for _, a := range arrangements(4) {
			if a.n == 4 && len(a.owners) == 4 {
				arrs = append(arrs, a)
			}
		}
	}
	strats := strategies()
	// added in round 4 (both tiers): rack repeats with vnodes and a replication factor above racks + 1.
	// 4 nodes in ONE datacenter, every assignment of the nodes to the racks r1, r2 (every uneven split 3+1 / 1+3 in
	// every position, the even ones and the one-rack ones too), one node owning two tokens and the others one, in
	// every ownership sequence, NetworkTopologyStrategy{dc1: 1..5}. The main space stops at rf 3 (and quick at 4-node
	// rings with one token per node), which never walks past the second token of a node set aside for its rack.
	var vnArrs []arrangement
	for _, a := range arrangements(4) {
		if a.n == 4 && len(a.owners) == 5 {
			vnArrs = append(vnArrs, a)
		}
	}
	var vnStrats []strategy
	for rf := 1; rf <= 5; rf++ {
		if r.Thorough() && rf <= 3 {
			continue // thorough: these settings on these rings are part of the main space
		}
		var v interface{} = strconv.Itoa(rf)
		if rf%2 == 0 {
			v = rf
		}
		vnStrats = append(vnStrats, strategy{name: fmt.Sprintf("NTS{dc1:%d}", rf), dcs: map[string]int{"dc1": rf}, ks: &gocql.KeyspaceMetadata{
			Name: "ks", StrategyClass: "org.apache.cassandra.locator.NetworkTopologyStrategy",
			StrategyOptions: map[string]interface{}{"class": "org.apache.cassandra.locator.NetworkTopologyStrategy", "dc1": v}}})
	}
	r.SetRule(fmt.Sprintf("rack repeats with vnodes: 4 nodes in one datacenter, every assignment of the nodes to 2 racks (all uneven splits), token counts (2,1,1,1) in every ownership sequence (%d), NetworkTopologyStrategy{dc1: rf} for rf 1..5 (thorough: 4..5 here, 1..3 in the main space), same partitioners, lookups and oracle as the main space. Main space: ", len(vnArrs))+fmt.Sprintf(fmt.Sprintf("rings of 1..%d nodes, each owning 1 or 2 tokens, every ownership sequence around the ring (nodes numbered by first appearance; quick adds the 4-node rings with one token per node: %d sequences); "+
		"every labelling of the nodes over {dc1,dc2}x{r1,r2}; SimpleStrategy rf 0..4 and NetworkTopologyStrategy with dc1, dc2 each absent/0/1/2/3 and a DC the ring lacks absent/1/3 (%d settings); "+
		"Murmur3, Random and ByteOrdered rings; lookup tokens equal to every ring token, between every neighbouring pair, below the smallest and above the largest. "+
		"One evaluation = one replica map built or one lookup in it; a case (ring, labelling, setting) is non-trivial when Cassandra places at least one replica for some token. "+
		seqRule(r.Thorough())+" There one evaluation = one event applied or one lookup after it.", maxNodes, len(arrs), len(strats))))
	r.Assume("Cassandra's placement is as ported in /verif/engine/refcass (2.x/3.0 NetworkTopologyStrategy cross-checked against the 3.11/4.x rewrite on 633k enumerated cases; SimpleStrategy)",
		"replica lists are compared as sets; order is only constrained by 'range owner first whenever its datacenter holds replicas' (SimpleStrategy: whenever rf > 0)",
		"ByteOrdered ring tokens are lower-case hex strings whose string order equals Cassandra's byte order; how gocql relates such strings to key bytes is not part of this property",
		"rf values reach gocql as strings (system_schema) or ints (alternating), as getReplicationFactorFromOpts accepts both",
		"topology-change sequences: a failing keyspace metadata fetch is transient (the keyspace's replication is unchanged, so Cassandra's placement on the current ring is the truth); after an event during which the fetch failed the policy may hold no replica map entry for the keyspace (it then routes by the current ring's owner), but an entry it does hold must be Cassandra's placement on the current ring; after an event during which the fetch succeeded the entry must be exactly that placement",
		"topology-change sequences: all nodes are up; the policy is TokenAwareHostPolicy(RoundRobinHostPolicy()) without shuffling, so the hosts Pick offers first are the replicas in list order")

	type item struct {
		a     arrangement
		label int
	}
	var items []item
	for _, a := range arrs {
		nl := 1
		for i := 0; i < a.n; i++ {
			nl *= 4
		}
		for l := 0; l < nl; l++ {
			items = append(items, item{a, l})
		}
	}
	// the smallest rings first and in order, so that the example reported for a finding is
	// the same minimal one on every run; the rest in parallel
	first := 0
	for first < len(items) && items[first].a.n <= 2 {
		runItem(items[first].a, items[first].label, strats)
		first++
	}
	// the rack-repeat family with vnodes (small: in order, so its example is the same on every run)
	vnItems := 0
	for _, a := range vnArrs {
		for rl := 0; rl < 16; rl++ { // bit i of rl = rack of node i; all nodes in dc1
			label, m := 0, 1
			for i := 0; i < 4; i++ {
				label += ((rl >> uint(i)) & 1) * m // locations[0] = dc1/r1, locations[1] = dc1/r2
				m *= 4
			}
			runItem(a, label, vnStrats)
			vnItems++
		}
	}
	r.Extra("rack_repeat_vnode_family", map[string]int{"ownership_sequences": len(vnArrs), "labelled_rings": vnItems, "settings": len(vnStrats)})
	var next int64 = int64(first) - 1
	var wg sync.WaitGroup
	for w := 0; w < runtime.NumCPU(); w++ {
		wg.Add(1)
		go func() {
			defer wg.Done()
			for {
				i := atomic.AddInt64(&next, 1)
				if i >= int64(len(items)) {
					return
				}
				runItem(items[i].a, items[i].label, strats)
			}
		}()
	}
	wg.Wait()

	// second part: topology-change sequences through a token-aware policy (sequences.go)
	findSeqKeys()
	sitems := seqItems(r.Thorough())
	first = 0
	for first < len(sitems) && sitems[first].a.n <= 2 {
		runSeqItem(sitems[first], strats)
		first++
	}
	next = int64(first) - 1
	for w := 0; w < runtime.NumCPU(); w++ {
		wg.Add(1)
		go func() {
			defer wg.Done()
			for {
				i := atomic.AddInt64(&next, 1)
				if i >= int64(len(sitems)) {
					return
				}
				runSeqItem(sitems[i], strats)
			}
		}()
	}
	wg.Wait()
	r.Extra("topology_change_sequences", seqExtra())

	r.Extra("ring_arrangements", len(arrs))
	r.Extra("ring_labellings", len(items))
	r.Extra("replication_settings", len(strats))
	r.Extra("replica_maps_built", cnt.replicaMaps)
	r.Extra("replica_maps_that_panicked", cnt.panics)
	r.Extra("lookups", map[string]int64{"equal_to_ring_token": cnt.lookupsEqual, "between": cnt.lookupsBetween, "below_smallest": cnt.lookupsBelow, "above_largest": cnt.lookupsAbove})
	r.Extra("lookups_by_strategy", map[string]int64{"SimpleStrategy": cnt.byStrategy[0], "NetworkTopologyStrategy": cnt.byStrategy[1]})
	r.Extra("lookups_where_cassandra_places_nothing", cnt.emptyExpected)
	r.Extra("lookups_with_replicas_in_two_dcs", cnt.multiDC)
	os.Exit(r.Finish(true))
}

var digits = regexp.MustCompile(`[-0-9]+|"[^"]*"|:.*$`)

func panicClass(p interface{}) string {
	s := fmt.Sprint(p)
	if strings.HasPrefix(s, "runtime error") {
		return strings.ReplaceAll(digits.ReplaceAllString(s, ""), " ", "-")
	}
	s = digits.ReplaceAllString(s, "")
	f := strings.Fields(strings.NewReplacer(".", " ", "=", " ", ",", " ").Replace(s))
	if len(f) > 4 {
		f = f[:4]
	}
	return strings.Join(f, "-")
}

func runItem(a arrangement, label int, strats []strategy) {
	n, T := a.n, len(a.owners)
	eps := make([]refcass.Endpoint, n)
	x := label
	for i := range eps {
		eps[i] = locations[x%4]
		x /= 4
	}
	topo := &refcass.Topology{Endpoints: eps, TokenOwner: a.owners}
	nodesInDC := map[string]int{}
	for _, e := range eps {
		nodesInDC[e.DC]++
	}
	ringID := fmt.Sprintf("owners=%v nodes=%v", a.owners, eps)

	// the gocql rings (one per partitioner)
	type built struct {
		ps      *partSpec
		hosts   []*gocql.HostInfo
		idx     map[*gocql.HostInfo]int
		ring    *gocql.VerifC10Ring
		tokens  []string
		lookups []string
		starts  []int // reference start index per lookup
		class   []int // 0 below the smallest, 1 above the largest, 2 equal to a ring token, 3 between
	}
	var rings []*built
	for pi := range partSpecs {
		ps := &partSpecs[pi]
		b := &built{ps: ps, idx: map[*gocql.HostInfo]int{}}
		b.tokens = ps.ringTokens(T)
		for h := 0; h < n; h++ {
			var toks []string
			for pos := T - 1; pos >= 0; pos-- { // descending: newTokenRing has to sort
				if a.owners[pos] == h {
					toks = append(toks, b.tokens[pos])
				}
			}
			hi := gocql.VerifC10NewHost(h, eps[h].DC, eps[h].Rack, toks)
			b.hosts = append(b.hosts, hi)
			b.idx[hi] = h
		}
		// hand the hosts over in reverse order: the ring must not depend on it
		rev := make([]*gocql.HostInfo, n)
		for i, h := range b.hosts {
			rev[n-1-i] = h
		}
		ring, err := gocql.VerifC10NewRing(ps.name, rev)
		if err != nil {
			r.Infra("newTokenRing(%s): %v", ps.name, err)
			return
		}
		b.ring = ring
		// the sorted ring itself
		ts, hs := ring.Entries()
		for i := range ts {
			if i >= T || ts[i] != b.tokens[i] || b.idx[hs[i]] != a.owners[i] {
				r.Violation("tokenRing:"+ps.short+":not-sorted-in-token-order", fmt.Sprintf("%s: ring %v, expected tokens %v", ringID, ts, b.tokens), ringID)
				break
			}
		}
		b.lookups = ps.lookups(b.tokens)
		for _, lk := range b.lookups {
			start := refcass.FirstTokenIndex(b.tokens, lk, ps.cmp)
			b.starts = append(b.starts, start)
			switch {
			case ps.cmp(lk, b.tokens[0]) < 0:
				b.class = append(b.class, 0)
			case ps.cmp(lk, b.tokens[T-1]) > 0:
				b.class = append(b.class, 1)
			case ps.cmp(lk, b.tokens[start]) == 0:
				b.class = append(b.class, 2)
			default:
				b.class = append(b.class, 3)
			}
		}
		rings = append(rings, b)
	}

	var c counters
	for si := range strats {
		st := &strats[si]
		// reference placement per start index
		exp := make([][]int, T)
		any := false
		for s := 0; s < T; s++ {
			if st.simple {
				exp[s] = refcass.SimpleStrategyEndpoints(st.rf, topo, s)
			} else {
				exp[s] = refcass.NetworkTopologyEndpoints(st.dcs, topo, s)
			}
			any = any || len(exp[s]) > 0
		}
		caseKey := fmt.Sprintf("%v|%d|%s", a.owners, label, st.name)
		sName := "NTS"
		sIdx := 1
		if st.simple {
			sName, sIdx = "SimpleStrategy", 0
		}
		// features of the case used in finding keys
		vnodes := T > n
		unknownDC, absentRingDC, rfAboveNodes := false, false, false
		if !st.simple {
			for dc, rf := range st.dcs {
				if nodesInDC[dc] == 0 && rf > 0 {
					unknownDC = true
				}
				if nodesInDC[dc] > 0 && rf > nodesInDC[dc] {
					rfAboveNodes = true
				}
			}
			for dc := range nodesInDC {
				if st.dcs[dc] == 0 {
					absentRingDC = true
				}
			}
		} else {
			rfAboveNodes = st.rf > n
		}
		feat := func() string {
			var f []string
			if vnodes {
				f = append(f, "vnodes")
			}
			if rfAboveNodes {
				f = append(f, "rf>nodes")
			}
			if unknownDC {
				f = append(f, "keyspace-dc-not-in-ring")
			}
			if absentRingDC {
				f = append(f, "ring-dc-without-replicas")
			}
			if len(f) == 0 {
				return "plain"
			}
			return strings.Join(f, "+")
		}

		for _, b := range rings {
			replay := map[string]interface{}{"owners": a.owners, "nodes": eps, "setting": st.name, "partitioner": b.ps.short, "ring_tokens": b.tokens}
			var rm *gocql.VerifC10Replicas
			var ok bool
			var pan interface{}
			func() {
				defer func() { pan = recover() }()
				rm, ok = gocql.VerifC10ReplicaMap(st.ks, b.ring)
			}()
			c.replicaMaps++
			r.Case(caseKey+"|"+b.ps.short, any)
			if pan != nil {
				c.panics++
				cls := panicClass(pan)
				key := sName + ":replicaMap-panics:" + cls
				viol(key, func() string { return fmt.Sprintf("%s %s (%s): panic: %v", ringID, st.name, b.ps.short, pan) }, replay)
				continue
			}
			if !ok {
				r.Violation(sName+":getStrategy-returns-nil", fmt.Sprintf("%s", st.name), replay)
				continue
			}
			for li, lk := range b.lookups {
				start := b.starts[li]
				want := exp[start]
				c.evals++
				c.byStrategy[sIdx]++
				switch b.class[li] {
				case 0:
					c.lookupsBelow++
				case 1:
					c.lookupsAbove++
				case 2:
					c.lookupsEqual++
				default:
					c.lookupsBetween++
				}
				if len(want) == 0 {
					c.emptyExpected++
				} else {
					d0 := eps[want[0]].DC
					for _, e := range want {
						if eps[e].DC != d0 {
							c.multiDC++
							break
						}
					}
				}
				var hosts []*gocql.HostInfo
				func() {
					defer func() { pan = recover() }()
					hosts, _, _ = rm.ReplicasFor(lk)
				}()
				if pan != nil {
					r.Violation(sName+":replicasFor-panics:"+panicClass(pan), fmt.Sprintf("%s %s lookup %s: %v", ringID, st.name, lk, pan), replay)
					continue
				}
				got := make([]int, len(hosts))
				for i, h := range hosts {
					if h == nil {
						got[i] = -1
					} else {
						got[i] = b.idx[h]
					}
				}
				detail := func() string {
					return fmt.Sprintf("%s, %s, %s ring %v, lookup token %q (range owner: node %d): gocql replicas %v, Cassandra %v",
						ringID, st.name, b.ps.short, b.tokens, lk, a.owners[start], got, want)
				}
				replay["lookup"] = lk
				if len(want) >= 2 && T > n && li == 2 && label%7 == 3 && b.ps.short == "m3" && (st.simple || len(st.dcs) >= 2) && r.NeedSample() {
					if st.simple && atomic.AddInt64(&simpleSamples, 1) > 3 {
						// at most 3 SimpleStrategy samples
					} else {
						r.Sample(map[string]interface{}{"ring_owners": a.owners, "nodes": eps, "setting": st.name, "ring_tokens": b.tokens, "lookup": lk, "cassandra": want, "gocql": got})
					}
				}
				dup := false
				var seen, ws uint // bit sets over node numbers (bit 0: a nil host)
				for _, g := range got {
					if seen&(1<<uint(g+1)) != 0 {
						dup = true
					}
					seen |= 1 << uint(g+1)
				}
				if dup {
					// one root cause; its consequences (a real replica pushed out, list longer than the
					// cluster) are not reported separately for the same lookup
					viol(sName+":node-listed-twice", detail, replay)
					continue
				}
				if len(got) > n {
					viol(sName+":more-replicas-than-nodes", detail, replay)
				}
				for _, e := range want {
					ws |= 1 << uint(e+1)
				}
				missing, extra := ws&^seen != 0, seen&^ws != 0
				if missing || extra {
					kind := "replica-set-differs"
					switch {
					case missing && !extra:
						kind = "replica-missing"
					case extra && !missing:
						kind = "non-replica-listed"
					}
					viol(sName+":"+kind+":"+feat(), detail, replay)
				}
				owner := a.owners[start]
				ownerHolds := st.simple && st.rf > 0 || !st.simple && st.dcs[eps[owner].DC] > 0
				if ownerHolds && (len(got) == 0 || got[0] != owner) {
					viol(sName+":range-owner-not-first:"+feat(), detail, replay)
				}
			}
		}
	}
	// merge counters
	addAll(&c)
}

// viol reports a violation; the detail text and replay are only built the first time a
// key is seen (report.Run keeps the first occurrence per key, later ones are only counted).
var firstSeen sync.Map

func viol(key string, detail func() string, replay interface{}) {
	if _, dup := firstSeen.LoadOrStore(key, true); dup {
		r.Violation(key, "", nil)
		return
	}
	r.Violation(key, detail(), replay)
}

var cmu sync.Mutex
var simpleSamples int64

func addAll(c *counters) {
	cmu.Lock()
	defer cmu.Unlock()
	cnt.evals += c.evals
	cnt.lookupsBelow += c.lookupsBelow
	cnt.lookupsAbove += c.lookupsAbove
	cnt.lookupsEqual += c.lookupsEqual
	cnt.lookupsBetween += c.lookupsBetween
	cnt.replicaMaps += c.replicaMaps
	cnt.panics += c.panics
	cnt.byStrategy[0] += c.byStrategy[0]
	cnt.byStrategy[1] += c.byStrategy[1]
	cnt.emptyExpected += c.emptyExpected
	cnt.multiDC += c.multiDC
	r.AddCounts(c.evals, nil) // lookups; r.Case counted one evaluation per replica map built
}

var _ = sort.Ints
