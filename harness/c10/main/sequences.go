package main

// Topology-change sequences: the token -> replica association a token-aware policy SERVES
// (its token ring, the replica map it holds for the session keyspace, the hosts Pick offers first)
// after every sequence of AddHost / RemoveHost / KeyspaceChanged events, each with the keyspace
// metadata fetch succeeding or failing (a schema query that timed out). The policy states reached
// are explored breadth first with a visited set (state = member set + ring + replica map content).

import (
	"errors"
	"fmt"
	"sort"
	"strconv"
	"strings"
	"sync"

	"github.com/gocql/gocql"
	"verif/engine/refcass"
)

const seqKS = "ks"   // the session keyspace
const seqKS2 = "ks2" // another keyspace (same replication), known to the policy only through KeyspaceChanged events for it

// universes of up to this many nodes also get the events "KeyspaceChanged for another keyspace" and lookups in it
func otherKsMaxNodes(thorough bool) int {
	if thorough {
		return 3
	}
	return 2
}

type seqEvent struct {
	kind int // 0 AddHost, 1 RemoveHost, 2 KeyspaceChanged (session keyspace), 3 KeyspaceChanged (another keyspace)
	node int
	ok   bool // the keyspace metadata can be fetched while the event is processed
}

var seqEvName = []string{"AddHost", "RemoveHost", "KeyspaceChanged", "KeyspaceChanged-of-another-keyspace"}

func (e seqEvent) String() string {
	s := seqEvName[e.kind]
	if e.kind < 2 {
		s += "(node " + strconv.Itoa(e.node) + ")"
	}
	if !e.ok {
		s += " while the keyspace metadata fetch fails"
	}
	return s
}

func pathString(p []seqEvent) []string {
	out := []string{"SetPartitioner"}
	for _, e := range p {
		out = append(out, e.String())
	}
	return out
}

// settings used by this sub-suite (names as built by strategies())
var seqSettingNames = map[string]bool{
	"Simple(rf=1)": true, "Simple(rf=2)": true, "Simple(rf=3)": true,
	"NTS{dc1:1,dc2:1}": true, "NTS{dc1:2,dc2:1}": true, "NTS{dc1:2}": true, "NTS{dc2:1,dcX:1}": true,
}

// routing keys whose Murmur3 token falls into the wide gaps between the Murmur3 candidate ring tokens
// (the narrow gaps cannot be hit by searching keys); they are looked up through Pick as well
type seqKey struct {
	key []byte
	tok string
}

var seqKeys []seqKey

func findSeqKeys() {
	pool := partSpecs[0].pool
	found := make([]bool, len(pool)+1)
	for i := 0; i < 4000; i++ {
		k := []byte("k" + strconv.Itoa(i))
		t := strconv.FormatInt(refcass.Murmur3Token(k), 10)
		gap := 0
		for gap < len(pool) && numCmp(t, pool[gap]) > 0 {
			gap++
		}
		if !found[gap] {
			found[gap] = true
			seqKeys = append(seqKeys, seqKey{k, t})
		}
	}
}

type seqCounters struct {
	universes, explorations, states, transitions, failedFetchTransitions, replayedEvents int64
	lookups, lookupsWithoutEntry, picks, frontierCut, panics, violatingStates            int64
	maxDepth                                                                             int64
	byEvent                                                                              [4]int64
}

var seqCnt seqCounters
var seqMu sync.Mutex
var seqSamples int64

type seqItem struct {
	a     arrangement
	label int
}

// seqItems: the universes (ring arrangement + labelling) of this sub-suite.
func seqItems(thorough bool) []seqItem {
	maxNodes := 3
	if thorough {
		maxNodes = 4
	}
	var items []seqItem
	for _, a := range arrangements(maxNodes) {
		full := thorough && a.n <= 3 // every labelling over {dc1,dc2}x{r1,r2}
		nl := 1
		for i := 0; i < a.n; i++ {
			nl *= 4
		}
		for l := 0; l < nl; l++ {
			if !full {
				// every datacenter assignment; racks alternate (node i in rack i mod 2)
				ok, x := true, l
				for i := 0; i < a.n; i++ {
					if x%4%2 != i%2 {
						ok = false
					}
					x /= 4
				}
				if !ok {
					continue
				}
			}
			items = append(items, seqItem{a, l})
		}
	}
	return items
}

func seqRule(thorough bool) string {
	lab := "every datacenter assignment over {dc1,dc2} with racks alternating r1,r2 by node"
	nodes := "1..3"
	if thorough {
		lab = "every labelling over {dc1,dc2}x{r1,r2} (4 nodes: every datacenter assignment, racks alternating)"
		nodes = "1..4"
	}
	return "Topology-change sequences: universes of " + nodes + " nodes owning 1 or 2 Murmur3 tokens each in every ownership sequence, " + lab + "; 7 replication settings (SimpleStrategy rf 1..3, NTS 1+1, 2+1, dc1 only, dc2 + a DC the ring lacks); " +
		"a token-aware policy starts empty (SetPartitioner) and receives every sequence of up to n+2 events from {AddHost x (x absent), RemoveHost x (x present), KeyspaceChanged} x {keyspace metadata fetch succeeds, fails}, explored breadth first and pruned at policy states already visited " +
		"(state = member set + served token ring + replica map content); after every event the served ring, the replica map entry for every lookup token (equal to / between / below / above the current ring's tokens, and the tokens of routing keys) and the hosts Pick offers first are compared with Cassandra's placement on the CURRENT ring."
}

func runSeqItem(it seqItem, strats []strategy) {
	otherKsMax := otherKsMaxNodes(r.Thorough())
	a, label := it.a, it.label
	n, T := a.n, len(a.owners)
	ps := &partSpecs[0]
	eps := make([]refcass.Endpoint, n)
	x := label
	for i := range eps {
		eps[i] = locations[x%4]
		x /= 4
	}
	allTokens := ps.ringTokens(T)
	hosts := make([]*gocql.HostInfo, n)
	idx := map[*gocql.HostInfo]int{}
	for h := 0; h < n; h++ {
		var toks []string
		for pos := T - 1; pos >= 0; pos-- {
			if a.owners[pos] == h {
				toks = append(toks, allTokens[pos])
			}
		}
		hosts[h] = gocql.VerifC10NewHost(h, eps[h].DC, eps[h].Rack, toks)
		idx[hosts[h]] = h
	}
	universe := fmt.Sprintf("owners=%v nodes=%v tokens=%v", a.owners, eps, allTokens)

	// per member set: the current ring, its lookups and (per setting, below) Cassandra's placement
	type lookup struct {
		tok   string
		start int
		key   []byte // non-nil: the token of this routing key (also looked up through Pick)
	}
	type sub struct {
		tokens  []string
		owners  []int // universe node per ring position
		compact []int // universe node -> index in topo (present nodes only)
		members []int
		topo    *refcass.Topology
		lookups []lookup
	}
	subs := make([]*sub, 1<<uint(n))
	for mask := range subs {
		s := &sub{compact: make([]int, n)}
		topo := &refcass.Topology{}
		for h := 0; h < n; h++ {
			s.compact[h] = -1
			if mask&(1<<uint(h)) != 0 {
				s.compact[h] = len(topo.Endpoints)
				topo.Endpoints = append(topo.Endpoints, eps[h])
				s.members = append(s.members, h)
			}
		}
		for pos := 0; pos < T; pos++ {
			if h := a.owners[pos]; mask&(1<<uint(h)) != 0 {
				s.tokens = append(s.tokens, allTokens[pos])
				s.owners = append(s.owners, h)
				topo.TokenOwner = append(topo.TokenOwner, s.compact[h])
			}
		}
		s.topo = topo
		var lks []string
		if len(s.tokens) > 0 {
			lks = ps.lookups(s.tokens)
		} else {
			lks = ps.extra
		}
		for _, lk := range lks {
			st := 0
			if len(s.tokens) > 0 {
				st = refcass.FirstTokenIndex(s.tokens, lk, ps.cmp)
			}
			s.lookups = append(s.lookups, lookup{tok: lk, start: st})
		}
		for _, k := range seqKeys {
			st := 0
			if len(s.tokens) > 0 {
				st = refcass.FirstTokenIndex(s.tokens, k.tok, ps.cmp)
			}
			s.lookups = append(s.lookups, lookup{tok: k.tok, start: st, key: k.key})
		}
		subs[mask] = s
	}

	var c seqCounters
	c.universes++
	for si := range strats {
		st := &strats[si]
		if !seqSettingNames[st.name] {
			continue
		}
		c.explorations++
		sName := "NTS"
		if st.simple {
			sName = "SimpleStrategy"
		}
		// Cassandra's placement per member set and start index (universe node numbers)
		want := make([][][]int, len(subs))
		any := false
		for mask, s := range subs {
			want[mask] = make([][]int, len(s.tokens))
			for start := range s.tokens {
				var e []int
				if st.simple {
					e = refcass.SimpleStrategyEndpoints(st.rf, s.topo, start)
				} else {
					e = refcass.NetworkTopologyEndpoints(st.dcs, s.topo, start)
				}
				w := make([]int, len(e))
				for i, ci := range e {
					w[i] = s.members[ci]
				}
				want[mask][start] = w
				any = any || len(w) > 0
			}
		}
		r.Case(fmt.Sprintf("seq|%v|%d|%s", a.owners, label, st.name), any)

		kss := []string{seqKS}
		if n <= otherKsMax {
			kss = append(kss, seqKS2)
		}
		fetchOK := true
		fetch := func(name string) (*gocql.KeyspaceMetadata, error) {
			if name != seqKS && name != seqKS2 {
				return nil, errors.New("unknown keyspace " + name)
			}
			if !fetchOK {
				return nil, errors.New("gocql: no response received from cassandra within timeout period")
			}
			return st.ks, nil
		}
		apply := func(pol gocql.HostSelectionPolicy, ev seqEvent) {
			fetchOK = ev.ok
			switch ev.kind {
			case 0:
				pol.AddHost(hosts[ev.node])
			case 1:
				pol.RemoveHost(hosts[ev.node])
			case 2:
				pol.KeyspaceChanged(gocql.KeyspaceUpdateEvent{Keyspace: seqKS, Change: "UPDATED"})
			default:
				pol.KeyspaceChanged(gocql.KeyspaceUpdateEvent{Keyspace: seqKS2, Change: "UPDATED"})
			}
			fetchOK = true
		}
		build := func(path []seqEvent) gocql.HostSelectionPolicy {
			pol := gocql.VerifC10NewPolicy(seqKS, fetch)
			fetchOK = true
			pol.SetPartitioner(ps.name)
			for _, ev := range path {
				apply(pol, ev)
				c.replayedEvents++
			}
			return pol
		}

		// check compares what the policy serves with the placement on the current ring and returns the state key
		check := func(pol gocql.HostSelectionPolicy, mask int, path []seqEvent, ev *seqEvent) (stateKey string, clean bool) {
			clean = true
			viol := func(key string, detail func() string, replay interface{}) {
				clean = false
				viol(key, detail, replay)
			}
			s := subs[mask]
			after := "SetPartitioner"
			if ev != nil {
				after = seqEvName[ev.kind]
			}
			failed := ev != nil && !ev.ok
			ringSuffix := ":after-" + after
			if failed {
				ringSuffix += ":keyspace-metadata-fetch-failed"
			}
			replay := func() map[string]interface{} {
				return map[string]interface{}{"ring_owners": a.owners, "nodes": eps, "ring_tokens": allTokens, "setting": st.name, "events": pathString(path), "members_now": s.members}
			}
			var key strings.Builder
			key.WriteString(strconv.Itoa(mask))
			ring, _ := gocql.VerifC10PolicyView(pol, seqKS)
			if ring == nil {
				viol("policy:no-token-ring"+ringSuffix, func() string {
					return fmt.Sprintf("%s, %s, events %v: the policy serves no token ring", universe, st.name, pathString(path))
				}, replay())
				return key.String() + "|noring", false
			}
			ts, hs := ring.Entries()
			okRing := len(ts) == len(s.tokens)
			for i := range ts {
				key.WriteString("|" + ts[i] + ":" + strconv.Itoa(idx[hs[i]]))
				if okRing && (ts[i] != s.tokens[i] || idx[hs[i]] != s.owners[i]) {
					okRing = false
				}
			}
			if !okRing {
				viol("policy:token-ring-not-current"+ringSuffix, func() string {
					var got []string
					for i := range ts {
						got = append(got, fmt.Sprintf("%s:%d", ts[i], idx[hs[i]]))
					}
					return fmt.Sprintf("%s, %s, events %v: members now %v, ring should be tokens %v owners %v, the policy serves %v", universe, st.name, pathString(path), s.members, s.tokens, s.owners, got)
				}, replay())
			}
			for _, K := range kss {
				_, rm := gocql.VerifC10PolicyView(pol, K)
				// the entry for keyspace K must be exact when this event fetched K's metadata successfully; otherwise the
				// policy may hold no entry for K, but an entry it holds must still be the placement on the current ring
				var strict bool
				suffix := ":after-" + after
				if K == seqKS {
					strict = ev == nil || ev.kind != 3 && ev.ok
					if failed && ev.kind != 3 {
						suffix += ":keyspace-metadata-fetch-failed"
					}
				} else {
					strict = ev != nil && ev.kind == 3 && ev.ok
					suffix += ":other-keyspace"
					if failed && ev.kind == 3 {
						suffix += ":keyspace-metadata-fetch-failed"
					}
				}
				if rm == nil {
					key.WriteString("|nomap")
				} else {
					mt, mh := rm.Entries()
					key.WriteString("|map")
					for i := range mt {
						key.WriteString("|" + mt[i] + "=")
						for _, h := range mh[i] {
							if h == nil {
								key.WriteString("nil,")
							} else {
								key.WriteString(strconv.Itoa(idx[h]) + ",")
							}
						}
					}
				}
				for _, lk := range s.lookups {
					c.lookups++
					var w []int
					owner := -1
					if len(s.tokens) > 0 {
						w = want[mask][lk.start]
						owner = s.owners[lk.start]
					}
					ownerHolds := owner >= 0 && (st.simple && st.rf > 0 || !st.simple && st.dcs[eps[owner].DC] > 0)
					var got []int
					found := false
					var pan interface{}
					if rm != nil {
						func() {
							defer func() { pan = recover() }()
							var hl []*gocql.HostInfo
							hl, _, found = rm.ReplicasFor(lk.tok)
							for _, h := range hl {
								if h == nil {
									got = append(got, -1)
								} else {
									got = append(got, idx[h])
								}
							}
						}()
					}
					detail := func() string {
						entry := "no entry for the keyspace"
						if rm != nil && !found {
							entry = "empty replica map"
						} else if found {
							entry = fmt.Sprintf("replicas %v", got)
						}
						return fmt.Sprintf("%s, %s, events %v: members now %v, current ring tokens %v owners %v; lookup token %q (range owner: node %d): for keyspace %s the policy holds %s, Cassandra places it on %v",
							universe, st.name, pathString(path), s.members, s.tokens, s.owners, lk.tok, owner, K, entry, w)
					}
					rp := func() map[string]interface{} { m := replay(); m["lookup"] = lk.tok; m["keyspace"] = K; return m }
					if pan != nil {
						viol("policy:"+sName+":replicasFor-panics:"+panicClass(pan)+suffix, detail, rp())
						continue
					}
					if !found {
						c.lookupsWithoutEntry++
					}
					// after a failed fetch the policy may hold no association at all (it then routes by the ring owner)
					entryOK := true
					if found || strict {
						entryOK = false
						dup, stale := false, false
						var seen, ws uint
						for _, g := range got {
							if seen&(1<<uint(g+1)) != 0 {
								dup = true
							}
							seen |= 1 << uint(g+1)
							if g < 0 || mask&(1<<uint(g)) == 0 {
								stale = true
							}
						}
						for _, e := range w {
							ws |= 1 << uint(e+1)
						}
						missing, extra := ws&^seen != 0, seen&^ws != 0
						ownerBad := ownerHolds && (len(got) == 0 || got[0] != owner)
						switch {
						case !strict:
							// an entry the policy kept or built although this event could not / did not fetch the keyspace's
							// metadata: one finding per event kind, whatever the symptom (node that left still listed, ranges
							// of a joined node still with the old owner, ...)
							if stale || dup || missing || extra || ownerBad {
								viol("policy:replica-map-entry-not-for-the-current-ring"+suffix, detail, rp())
							} else {
								entryOK = true
							}
						case stale:
							viol("policy:"+sName+":node-not-in-the-ring-listed"+suffix, detail, rp())
						case dup:
							viol("policy:"+sName+":node-listed-twice"+suffix, detail, rp())
						default:
							entryOK = !missing && !extra && !ownerBad
							if missing || extra {
								kind := "replica-set-differs"
								switch {
								case missing && !extra:
									kind = "replica-missing"
								case extra && !missing:
									kind = "non-replica-listed"
								}
								viol("policy:"+sName+":"+kind+suffix, detail, rp())
							}
							if ownerBad {
								viol("policy:"+sName+":range-owner-not-first"+suffix, detail, rp())
							}
						}
					}
					if lk.key == nil || !entryOK {
						continue // (what Pick offers on top of a wrong entry is a consequence)
					}
					// the hosts Pick offers for a query with this routing key
					c.picks++
					var S []int
					bad := ""
					pan = nil
					func() {
						defer func() { pan = recover() }()
						next := pol.Pick(gocql.VerifC10Query(K, lk.key))
						if next == nil {
							bad = "nil-iterator"
							return
						}
						for i := 0; ; i++ {
							sh := next()
							if sh == nil {
								return
							}
							if i >= 4*n+8 {
								bad = "sequence-does-not-end"
								return
							}
							h := sh.Info()
							if h == nil {
								bad = "nil-host-offered"
								return
							}
							S = append(S, idx[h])
						}
					}()
					pdetail := func() string {
						return fmt.Sprintf("%s, %s, events %v: members now %v, current ring tokens %v owners %v; routing key %q (token %s, range owner: node %d): Pick offers %v, Cassandra places the token on %v",
							universe, st.name, pathString(path), s.members, s.tokens, s.owners, lk.key, lk.tok, owner, S, w)
					}
					if pan != nil {
						viol("policy:Pick-panics:"+panicClass(pan)+suffix, pdetail, rp())
						continue
					}
					if bad != "" {
						viol("policy:Pick:"+bad+suffix, pdetail, rp())
						continue
					}
					var seen uint
					gone, twice := false, false
					for _, g := range S {
						if mask&(1<<uint(g)) == 0 {
							gone = true
						}
						if seen&(1<<uint(g)) != 0 {
							twice = true
						}
						seen |= 1 << uint(g)
					}
					switch {
					case gone:
						viol("policy:Pick:node-not-in-the-ring-offered"+suffix, pdetail, rp())
					case twice:
						viol("policy:Pick:node-offered-twice"+suffix, pdetail, rp())
					case strict && len(w) > 0:
						okFirst := len(S) >= len(w)
						if okFirst {
							var first, ws uint
							for _, g := range S[:len(w)] {
								first |= 1 << uint(g)
							}
							for _, e := range w {
								ws |= 1 << uint(e)
							}
							okFirst = first == ws
						}
						if !okFirst {
							viol("policy:Pick:"+sName+":replicas-not-offered-first"+suffix, pdetail, rp())
						} else if ownerHolds && S[0] != owner {
							viol("policy:Pick:"+sName+":range-owner-not-offered-first"+suffix, pdetail, rp())
						}
					}
				}
			}
			return key.String(), clean
		}

		// breadth-first exploration of the policy's states
		evSlots := n + 1 // one Add/Remove slot per node, KeyspaceChanged
		if len(kss) > 1 {
			evSlots++ // KeyspaceChanged of the other keyspace
		}
		type qItem struct {
			path []seqEvent
			mask int
		}
		maxDepth := n + 2
		visited := map[string]bool{}
		var queue []qItem
		{
			var pol gocql.HostSelectionPolicy
			if pan := catchPanic(func() { pol = build(nil) }); pan != nil {
				c.panics++
				viol("policy:"+sName+":SetPartitioner-panics:"+panicClass(pan), func() string { return fmt.Sprintf("%s, %s: %v", universe, st.name, pan) }, nil)
				continue
			}
			k, clean := check(pol, 0, nil, nil)
			visited[k] = true
			c.states++
			if clean {
				queue = append(queue, qItem{nil, 0})
			}
		}
		for len(queue) > 0 {
			it := queue[0]
			queue = queue[1:]
			for node := 0; node < evSlots; node++ {
				for f := 0; f < 2; f++ {
					ev := seqEvent{kind: 2, ok: f == 0}
					if node > n {
						ev.kind = 3
					}
					newMask := it.mask
					if node < n {
						ev.node = node
						if it.mask&(1<<uint(node)) != 0 {
							ev.kind = 1
							newMask &^= 1 << uint(node)
						} else {
							ev.kind = 0
							newMask |= 1 << uint(node)
						}
					}
					path := append(append(make([]seqEvent, 0, len(it.path)+1), it.path...), ev)
					var pol gocql.HostSelectionPolicy
					if pan := catchPanic(func() { pol = build(it.path) }); pan != nil {
						continue // reported when the prefix was explored
					}
					c.transitions++
					c.byEvent[ev.kind]++
					if !ev.ok {
						c.failedFetchTransitions++
					}
					if pan := catchPanic(func() { apply(pol, ev) }); pan != nil {
						c.panics++
						fetchOK = true
						sfx := ""
						if !ev.ok {
							sfx = ":keyspace-metadata-fetch-failed"
						}
						viol("policy:"+sName+":"+seqEvName[ev.kind]+"-panics:"+panicClass(pan)+sfx, func() string {
							return fmt.Sprintf("%s, %s, events %v: panic: %v", universe, st.name, pathString(path), pan)
						}, map[string]interface{}{"ring_owners": a.owners, "nodes": eps, "setting": st.name, "events": pathString(path)})
						continue
					}
					k, clean := check(pol, newMask, path, &ev)
					if int64(len(path)) > c.maxDepth {
						c.maxDepth = int64(len(path))
					}
					if visited[k] {
						continue
					}
					visited[k] = true
					c.states++
					if !clean {
						c.violatingStates++ // reported; states behind a violating state are not explored (their findings would be consequences)
					} else if len(path) < maxDepth {
						queue = append(queue, qItem{path, newMask})
					} else {
						c.frontierCut++
					}
					if any && !ev.ok && ev.kind == 1 && len(path) == n+1 && n >= 3 && T > n && !st.simple && r.NeedSample() {
						seqMu.Lock()
						take := seqSamples < 2
						if take {
							seqSamples++
						}
						seqMu.Unlock()
						if take {
							_, rm := gocql.VerifC10PolicyView(pol, seqKS)
							r.Sample(map[string]interface{}{"ring_owners": a.owners, "nodes": eps, "ring_tokens": allTokens, "setting": st.name, "events": pathString(path),
								"members_now": subs[newMask].members, "policy_holds_a_replica_map_for_the_keyspace": rm != nil})
						}
					}
				}
			}
		}
	}

	seqMu.Lock()
	seqCnt.universes += c.universes
	seqCnt.explorations += c.explorations
	seqCnt.states += c.states
	seqCnt.transitions += c.transitions
	seqCnt.failedFetchTransitions += c.failedFetchTransitions
	seqCnt.replayedEvents += c.replayedEvents
	seqCnt.lookups += c.lookups
	seqCnt.lookupsWithoutEntry += c.lookupsWithoutEntry
	seqCnt.picks += c.picks
	seqCnt.frontierCut += c.frontierCut
	seqCnt.panics += c.panics
	seqCnt.violatingStates += c.violatingStates
	if c.maxDepth > seqCnt.maxDepth {
		seqCnt.maxDepth = c.maxDepth
	}
	for i := range c.byEvent {
		seqCnt.byEvent[i] += c.byEvent[i]
	}
	seqMu.Unlock()
	r.AddCounts(c.lookups+c.transitions, nil)
}

func catchPanic(f func()) (pan interface{}) {
	defer func() { pan = recover() }()
	f()
	return nil
}

func seqExtra() map[string]interface{} {
	var ks []string
	for _, k := range seqKeys {
		ks = append(ks, string(k.key)+"="+k.tok)
	}
	sort.Strings(ks)
	return map[string]interface{}{
		"universes": seqCnt.universes, "explorations_universe_x_setting": seqCnt.explorations, "policy_states_visited": seqCnt.states,
		"transitions_checked": seqCnt.transitions, "transitions_with_a_failing_fetch": seqCnt.failedFetchTransitions,
		"transitions_by_event":            map[string]int64{"AddHost": seqCnt.byEvent[0], "RemoveHost": seqCnt.byEvent[1], "KeyspaceChanged": seqCnt.byEvent[2], "KeyspaceChanged of another keyspace": seqCnt.byEvent[3]},
		"events_replayed_to_reach_states": seqCnt.replayedEvents, "lookups": seqCnt.lookups, "lookups_with_no_replica_map_entry": seqCnt.lookupsWithoutEntry,
		"picks_drained": seqCnt.picks, "longest_event_sequence": seqCnt.maxDepth, "new_states_at_the_length_bound_not_expanded": seqCnt.frontierCut,
		"events_that_panicked": seqCnt.panics, "violating_states_not_expanded": seqCnt.violatingStates, "routing_keys": ks,
	}
}
