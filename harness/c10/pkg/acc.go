//go:build verif

package gocql

import (
	"net"
	"strconv"
)

// In-package accessors for check C10 (no logic of their own).

// VerifC10NewHost builds a ring member the way the driver's host source fills it in.
func VerifC10NewHost(id int, dc, rack string, tokens []string) *HostInfo {
	return &HostInfo{
		hostId:         "host-" + strconv.Itoa(id),
		connectAddress: net.IPv4(10, 0, byte(id>>8), byte(id+1)),
		port:           9042,
		dataCenter:     dc,
		rack:           rack,
		tokens:         tokens,
		state:          NodeUp,
	}
}

type VerifC10Ring struct{ r *tokenRing }

func VerifC10NewRing(partitioner string, hosts []*HostInfo) (*VerifC10Ring, error) {
	tr, err := newTokenRing(partitioner, hosts)
	if err != nil {
		return nil, err
	}
	return &VerifC10Ring{tr}, nil
}

// Entries returns the sorted ring as (token string, owner).
func (v *VerifC10Ring) Entries() ([]string, []*HostInfo) {
	ts := make([]string, len(v.r.tokens))
	hs := make([]*HostInfo, len(v.r.tokens))
	for i, e := range v.r.tokens {
		ts[i], hs[i] = e.token.String(), e.host
	}
	return ts, hs
}

type VerifC10Replicas struct {
	m tokenRingReplicas
	p partitioner
}

// VerifC10ReplicaMap is getStrategy(ks).replicaMap(ring); ok=false when getStrategy returns nil.
func VerifC10ReplicaMap(ks *KeyspaceMetadata, ring *VerifC10Ring) (rm *VerifC10Replicas, ok bool) {
	strat := getStrategy(ks, nopLogger{})
	if strat == nil {
		return nil, false
	}
	return &VerifC10Replicas{strat.replicaMap(ring.r), ring.r.partitioner}, true
}

func (v *VerifC10Replicas) Len() int { return len(v.m) }

// ReplicasFor is replicasFor(partitioner.ParseString(tok)); found=false when it returns nil.
func (v *VerifC10Replicas) ReplicasFor(tok string) (hosts []*HostInfo, endToken string, found bool) {
	ht := v.m.replicasFor(v.p.ParseString(tok))
	if ht == nil {
		return nil, "", false
	}
	return ht.hosts, ht.token.String(), true
}

// ---- the token-aware policy's view (topology-change sequences sub-suite)

// VerifC10NewPolicy is TokenAwareHostPolicy(RoundRobinHostPolicy()) initialised the way
// tokenAwareHostPolicy.Init(session) does it, with the session keyspace name and a keyspace
// metadata getter supplied by the harness (the substitution policies_test.go makes).
func VerifC10NewPolicy(keyspace string, fetch func(keyspace string) (*KeyspaceMetadata, error)) HostSelectionPolicy {
	p := TokenAwareHostPolicy(RoundRobinHostPolicy())
	t := p.(*tokenAwareHostPolicy)
	t.getKeyspaceName = func() string { return keyspace }
	t.getKeyspaceMetadata = fetch
	t.logger = nopLogger{}
	return p
}

// VerifC10PolicyView returns the token ring the policy currently serves (nil: none) and the
// replica map it holds for the keyspace (nil: no entry for the keyspace).
func VerifC10PolicyView(p HostSelectionPolicy, keyspace string) (*VerifC10Ring, *VerifC10Replicas) {
	t, ok := p.(*tokenAwareHostPolicy)
	if !ok {
		return nil, nil
	}
	meta := t.getMetadataReadOnly()
	if meta == nil || meta.tokenRing == nil {
		return nil, nil
	}
	ring := &VerifC10Ring{meta.tokenRing}
	m, ok := meta.replicas[keyspace]
	if !ok {
		return ring, nil
	}
	return ring, &VerifC10Replicas{m, meta.tokenRing.partitioner}
}

// OwnerOf is tokenRing.GetHostForToken(partitioner.ParseString(tok)).
func (v *VerifC10Ring) OwnerOf(tok string) *HostInfo {
	h, _ := v.r.GetHostForToken(v.r.partitioner.ParseString(tok))
	return h
}

// Entries returns the replica map as (end token, replicas) in map order.
func (v *VerifC10Replicas) Entries() ([]string, [][]*HostInfo) {
	ts := make([]string, len(v.m))
	hs := make([][]*HostInfo, len(v.m))
	for i, e := range v.m {
		ts[i], hs[i] = e.token.String(), e.hosts
	}
	return ts, hs
}

// VerifC10Query is a Query for the keyspace with the given routing key.
func VerifC10Query(keyspace string, routingKey []byte) ExecutableQuery {
	q := &Query{routingInfo: &queryRoutingInfo{}}
	q.getKeyspace = func() string { return keyspace }
	q.RoutingKey(routingKey)
	return q
}
