package main

import (
	"fmt"
	"runtime"
	"sort"
	"strings"
	"sync"
	"sync/atomic"

	"github.com/gocql/gocql"
	"verif/engine/refcass"
)

// ---------------------------------------------------------------- the enumerated space

const (
	stUp             = 0 // added, connected (HostUp), up
	stDownUnnotified = 1 // known to the policy (AddHost) but marked down, no HostDown delivered (yet)
	stDownNotified   = 2 // was up, then marked down and HostDown delivered
	stBounced        = 3 // was up, went down (HostDown), came back (HostUp): up, at the end of its list
)

var statusName = []string{"up", "down(no event)", "down(HostDown)", "up(after down+up)"}
var dcName = []string{"local", "remote"}
var rackName = []string{"r1", "r2"}

type hostSpec struct{ dc, rack, status int }

type state struct {
	hosts     []hostSpec
	perm      []int // ring position (ascending token) -> host; nil: no host has tokens
	partFirst bool  // SetPartitioner before the hosts are added (session start) or after (ring refresh)
}

func (s *state) String() string {
	var hs []string
	for i, h := range s.hosts {
		hs = append(hs, fmt.Sprintf("h%d=%s/%s/%s", i, dcName[h.dc], rackName[h.rack], statusName[h.status]))
	}
	ring := "no host has tokens"
	if s.perm != nil {
		ring = fmt.Sprintf("ring (ascending tokens) owned by hosts %v", s.perm)
	}
	return fmt.Sprintf("[%s] %s, partitioner set %s adding hosts", strings.Join(hs, " "), ring, map[bool]string{true: "before", false: "after"}[s.partFirst])
}

func (h hostSpec) up() bool { return h.status == stUp || h.status == stBounced }

// ring tokens (Murmur3), one per host, ascending
var ringPos = []int64{-6000000000000000000, -2000000000000000000, 2000000000000000000, 6000000000000000000}

// routing keys: keyA hashes into (ringPos[0], ringPos[1]], keyB above ringPos[3] (wraps to the first range)
var keyA, keyB []byte

func findKeys() {
	for i := 0; keyA == nil || keyB == nil; i++ {
		k := []byte(fmt.Sprintf("key-%d", i))
		t := refcass.Murmur3Token(k)
		if keyA == nil && t > ringPos[0] && t <= ringPos[1] {
			keyA = k
		}
		if keyB == nil && t > ringPos[3] {
			keyB = k
		}
	}
}

type polCfg struct {
	kind                        int // 0 round-robin, 1 dc-aware, 2 rack-aware (as the policy itself or as the token-aware fallback)
	tokenAware, shuffle, nonLoc bool
}

var kindName = []string{"round-robin", "dc-aware", "rack-aware"}

// name used in finding keys: the policy combination; shuffling is left out because
// no constraint other than "primary first" (which is only demanded without it) depends on it
func (p polCfg) name() string {
	if !p.tokenAware {
		return kindName[p.kind]
	}
	s := "token-aware(" + kindName[p.kind]
	if p.nonLoc {
		s += ",non-local-fallback"
	}
	return s + ")"
}

func (p polCfg) full() string {
	s := p.name()
	if p.shuffle {
		s += "+shuffle"
	}
	return s
}

func (p polCfg) tier(h hostSpec) int {
	switch p.kind {
	case 1:
		return h.dc
	case 2:
		if h.dc == 0 {
			return h.rack
		}
		return 2
	}
	return 0
}

func newFallback(kind int) gocql.HostSelectionPolicy {
	switch kind {
	case 1:
		return gocql.DCAwareRoundRobinPolicy("local")
	case 2:
		return gocql.RackAwareRoundRobinPolicy("local", "r1")
	}
	return gocql.RoundRobinHostPolicy()
}

// keyspace replication settings offered to the token-aware policy
type ksSetting struct {
	name   string
	meta   *gocql.KeyspaceMetadata
	simple int            // SimpleStrategy rf (0: not simple)
	dcs    map[string]int // NTS
}

func ksSettings() []ksSetting {
	out := []ksSetting{{name: "metadata unavailable"}}
	for rf := 1; rf <= 3; rf++ {
		out = append(out, ksSetting{name: fmt.Sprintf("SimpleStrategy rf=%d", rf), simple: rf, meta: &gocql.KeyspaceMetadata{Name: "ks",
			StrategyClass: "org.apache.cassandra.locator.SimpleStrategy", StrategyOptions: map[string]interface{}{"class": "SimpleStrategy", "replication_factor": fmt.Sprint(rf)}}})
	}
	for rf := 1; rf <= 2; rf++ {
		out = append(out, ksSetting{name: fmt.Sprintf("NTS{local:%d,remote:%d}", rf, rf), dcs: map[string]int{"local": rf, "remote": rf}, meta: &gocql.KeyspaceMetadata{Name: "ks",
			StrategyClass: "org.apache.cassandra.locator.NetworkTopologyStrategy", StrategyOptions: map[string]interface{}{"class": "NetworkTopologyStrategy", "local": fmt.Sprint(rf), "remote": fmt.Sprint(rf)}}})
	}
	return out
}

// ---------------------------------------------------------------- counters

type seqCounters struct {
	states, picks, routedPicks, panics, policies int64
	withRemoteReplicaSegment, shuffledPicks      int64
	outcomes                                     map[uint64]struct{}
}

var seqTotal = seqCounters{outcomes: map[uint64]struct{}{}}
var seqMu sync.Mutex

// ---------------------------------------------------------------- driver

func suiteSequential() bool {
	findKeys()
	maxHosts := 3
	if r.Thorough() {
		maxHosts = 4
	}
	r.SetRule(fmt.Sprintf("cluster states of 0..%d hosts: every assignment of datacenter {local,remote}, rack {r1,r2} and status {up, down without event, down after HostDown, up again after HostDown+HostUp (<=3 hosts)} "+
		"per host; token ownership: one Murmur3 token per host in every order around the ring, or no host has tokens; partitioner announced before or after the hosts (<=2 hosts: both). "+
		"Policies: round-robin, DC-aware, rack-aware; token-aware over each x shuffle on/off x non-local-replicas fallback on/off x keyspace {metadata unavailable, SimpleStrategy rf 1..3, NTS 1+1, NTS 2+2}. "+
		"Queries: nil, no routing key, key in the 2nd range (two successive picks), key above the last token (wraps). Plain policies: 3 successive picks. Every iterator is drained. "+
		"One evaluation = one drained Pick; a state is non-trivial when it has an up host. "+overlapRule(r.Thorough())+eventsRule(r.Thorough()), maxHosts))
	r.Assume("replicas of a token are Cassandra's (refcass ports, as in C10) on the ring of all hosts the policy was told about, up or down",
		"a host is 'known to the policy' from AddHost until RemoveHost; HostDown/HostUp are delivered as Session.handleNodeDown/handleNodeConnected do (state set first, then the event)",
		"with keyspace metadata unavailable the replicas are unknown: the oracle accepts the order demanded for 'no replicas known' or for 'the range owner is the only known replica'",
		"round-robin rotation: the hosts of one tier are offered in list order starting one position later on each successive Pick (down hosts skipped)",
		"hosts without tokens next to hosts with tokens are not enumerated (gocql drops peers without tokens before they reach a policy)",
		"shuffling uses math/rand; the oracle constrains sets and tiers only, so in the single-iteration part the random order needs no control; in the overlapping-iterations part the generator's source is scripted (verified against math/rand at start-up) and the shuffle outcomes are enumerated",
		"event sequences: a host's up/down mark changes only together with a notification (mark up + AddHost, mark up + HostUp, mark down + HostDown), so 'up and known' is what the policy was told: known = the last of AddHost/RemoveHost for the host was AddHost; HostUp/HostDown/RemoveHost are delivered only for known hosts, AddHost for any host (Session.startPoolFill re-announces a known host)",
		"overlapping iterations: the property is per query, so each of two iterators in progress on one policy must satisfy the per-query clauses whatever the other one does; nothing is demanded about how the two orders relate")

	type item struct{ n, label int }
	var items []item
	for n := 0; n <= maxHosts; n++ {
		for l := 0; l < pow(4, n); l++ {
			items = append(items, item{n, l})
		}
	}
	// small states first and in order (stable minimal examples), the rest in parallel
	first := 0
	for first < len(items) && items[first].n <= 2 {
		runLabelled(items[first].n, items[first].label)
		first++
	}
	next := int64(first) - 1
	var wg sync.WaitGroup
	for w := 0; w < runtime.NumCPU(); w++ {
		wg.Add(1)
		go func() {
			defer wg.Done()
			for {
				i := atomic.AddInt64(&next, 1)
				if i >= int64(len(items)) {
					return
				}
				runLabelled(items[i].n, items[i].label)
			}
		}()
	}
	wg.Wait()
	r.Extra("sequential", map[string]interface{}{
		"cluster_states": seqTotal.states, "policy_instances": seqTotal.policies, "picks_drained": seqTotal.picks,
		"picks_routed_by_token": seqTotal.routedPicks, "picks_with_a_farther_tier_replica_segment": seqTotal.withRemoteReplicaSegment,
		"picks_with_shuffling": seqTotal.shuffledPicks, "picks_that_panicked": seqTotal.panics,
		"distinct_labelling_policy_sequence_triples": len(seqTotal.outcomes), "routing_keys": []string{string(keyA), string(keyB)}})
	return true
}

func pow(b, e int) int {
	v := 1
	for ; e > 0; e-- {
		v *= b
	}
	return v
}

func permutations(n int) [][]int {
	var out [][]int
	var rec func(cur []int, used int)
	rec = func(cur []int, used int) {
		if len(cur) == n {
			out = append(out, append([]int{}, cur...))
			return
		}
		for i := 0; i < n; i++ {
			if used&(1<<uint(i)) == 0 {
				rec(append(cur, i), used|1<<uint(i))
			}
		}
	}
	rec(nil, 0)
	return out
}

func runLabelled(n, label int) {
	c := seqCounters{outcomes: map[uint64]struct{}{}}
	nStatus := 4
	if n > 3 {
		nStatus = 3
	}
	perms := permutations(n)
	for sc := 0; sc < pow(nStatus, n); sc++ {
		hosts := make([]hostSpec, n)
		l, s := label, sc
		for i := range hosts {
			hosts[i] = hostSpec{dc: l % 2, rack: l / 2 % 2, status: s % nStatus}
			l /= 4
			s /= nStatus
		}
		for pi := -1; pi < len(perms); pi++ {
			if pi == -1 && n == 0 {
				continue // the empty cluster has one arrangement (the empty permutation)
			}
			var perm []int
			if pi >= 0 {
				perm = perms[pi]
			}
			for pf := 0; pf < 2; pf++ {
				if pf == 1 && n > 2 {
					continue
				}
				st := &state{hosts: hosts, perm: perm, partFirst: pf == 0}
				runState(st, &c)
			}
		}
	}
	seqMu.Lock()
	seqTotal.states += c.states
	seqTotal.picks += c.picks
	seqTotal.routedPicks += c.routedPicks
	seqTotal.panics += c.panics
	seqTotal.policies += c.policies
	seqTotal.withRemoteReplicaSegment += c.withRemoteReplicaSegment
	seqTotal.shuffledPicks += c.shuffledPicks
	for k := range c.outcomes {
		if len(seqTotal.outcomes) < 2000000 {
			seqTotal.outcomes[k] = struct{}{}
		}
	}
	seqMu.Unlock()
	r.AddCounts(c.picks, nil)
}

var allKs = ksSettings()

// ---------------------------------------------------------------- one state

type expRep struct {
	R     []int
	owner int
}

type env struct {
	exp   map[[2]int]expRep // (keyspace setting, key index) -> Cassandra's replicas, per state
	st    *state
	hosts []*gocql.HostInfo
	idx   map[*gocql.HostInfo]int
	c     *seqCounters
	// finding keys of the overlapping-iterations sub-suite name the full policy configuration
	// (shuffling is a controlled dimension there) and carry a suffix
	fullName bool
	suffix   string
}

// kp: the policy part of a finding key
func (e *env) kp(p polCfg) string {
	if e.fullName {
		return p.full()
	}
	return p.name()
}

// violation reports a finding: to the report in the main worker process, to the shard's
// collector in a child process of the overlapping-iterations sub-suite (overlap.go)
var violation = func(key, detail string, replay interface{}) { r.Violation(key, detail, replay) }

func runState(st *state, c *seqCounters) {
	c.states++
	anyUp := false
	for _, h := range st.hosts {
		anyUp = anyUp || h.up()
	}
	r.Case(st.String(), anyUp)

	// the policy's view of its host lists (for the rotation oracle): add order, hosts that got
	// HostDown removed, hosts that came back appended in the order they came back
	var listOrder []int
	for i, h := range st.hosts {
		if h.status == stUp || h.status == stDownUnnotified {
			listOrder = append(listOrder, i)
		}
	}
	for i, h := range st.hosts {
		if h.status == stBounced {
			listOrder = append(listOrder, i)
		}
	}

	exp := map[[2]int]expRep{}
	if len(st.perm) > 0 {
		e := &env{st: st}
		for ki := range allKs {
			for qi, k := range [][]byte{keyA, keyB} {
				R, owner := e.expectedReplicas(&allKs[ki], k)
				exp[[2]int{ki, qi}] = expRep{R, owner}
			}
		}
	}
	for kind := 0; kind < 3; kind++ {
		// the plain policy
		runPolicy(st, polCfg{kind: kind}, listOrder, exp, c)
		for opt := 0; opt < 4; opt++ {
			runPolicy(st, polCfg{kind: kind, tokenAware: true, shuffle: opt&1 != 0, nonLoc: opt&2 != 0}, listOrder, exp, c)
		}
	}
}

// setup builds fresh HostInfo objects and a fresh policy and replays the events that lead to the state.
func setup(st *state, p polCfg, currentKs *int) (pol gocql.HostSelectionPolicy, hosts []*gocql.HostInfo, idx map[*gocql.HostInfo]int) {
	n := len(st.hosts)
	hosts = make([]*gocql.HostInfo, n)
	idx = map[*gocql.HostInfo]int{}
	tokenOf := make([][]string, n)
	for pos, h := range st.perm {
		tokenOf[h] = []string{fmt.Sprint(ringPos[pos])}
	}
	for i, h := range st.hosts {
		hosts[i] = gocql.VerifC11NewHost(i, dcName[h.dc], rackName[h.rack], h.status != stDownUnnotified, tokenOf[i])
		idx[hosts[i]] = i
	}
	pol = newFallback(p.kind)
	if p.tokenAware {
		pol = newTokenAware(pol, p)
		gocql.VerifC11InitTokenAware(pol, "ks", func() *gocql.KeyspaceMetadata { return allKs[*currentKs].meta })
	}
	const partitioner = "org.apache.cassandra.dht.Murmur3Partitioner"
	if st.partFirst {
		pol.SetPartitioner(partitioner)
	}
	for _, h := range hosts {
		pol.AddHost(h)
	}
	for i, h := range st.hosts {
		if h.status != stDownUnnotified {
			pol.HostUp(hosts[i])
		}
	}
	for i, h := range st.hosts {
		if h.status == stDownNotified || h.status == stBounced {
			gocql.VerifC11SetUp(hosts[i], false)
			pol.HostDown(hosts[i])
		}
	}
	for i, h := range st.hosts {
		if h.status == stBounced {
			gocql.VerifC11SetUp(hosts[i], true)
			pol.HostUp(hosts[i])
		}
	}
	if !st.partFirst {
		pol.SetPartitioner(partitioner)
	}
	return
}

func newTokenAware(fb gocql.HostSelectionPolicy, p polCfg) gocql.HostSelectionPolicy {
	switch {
	case p.shuffle && p.nonLoc:
		return gocql.TokenAwareHostPolicy(fb, gocql.ShuffleReplicas(), gocql.NonLocalReplicasFallback())
	case p.shuffle:
		return gocql.TokenAwareHostPolicy(fb, gocql.ShuffleReplicas())
	case p.nonLoc:
		return gocql.TokenAwareHostPolicy(fb, gocql.NonLocalReplicasFallback())
	}
	return gocql.TokenAwareHostPolicy(fb)
}

type query struct {
	name string
	key  []byte
	nilQ bool
	ki   int // index of the key (0 keyA, 1 keyB)
}

func runPolicy(st *state, p polCfg, listOrder []int, exp map[[2]int]expRep, c *seqCounters) {
	c.policies++
	cur := 0
	var pol gocql.HostSelectionPolicy
	var hosts []*gocql.HostInfo
	var idx map[*gocql.HostInfo]int
	replayBase := map[string]interface{}{"state": st.String(), "policy": p.full()}
	if pan := catch(func() { pol, hosts, idx = setup(st, p, &cur) }); pan != nil {
		c.panics++
		violation(p.name()+":panic-while-applying-cluster-events:"+panicClass(pan), fmt.Sprintf("%s on %s: %v", p.full(), st, pan), replayBase)
		return
	}
	e := &env{st: st, hosts: hosts, idx: idx, c: c, exp: exp}
	if !p.tokenAware {
		var seqs [][]int
		ok := true
		for i := 0; i < 3; i++ {
			q := gocql.VerifC11Query("ks", keyA)
			S, good := e.pick(pol, p, q, "successive pick "+itoa(i+1), "", replayBase)
			ok = ok && good
			if good {
				e.checkGeneric(p, S, "", replayBase)
				e.checkTiers(p, S, 0, "hosts", "", replayBase)
			}
			seqs = append(seqs, S)
		}
		if ok {
			e.checkRotation(p, listOrder, seqs, replayBase)
		}
		return
	}
	for ki := range allKs {
		cur = ki
		ks := &allKs[ki]
		if pan := catch(func() { pol.KeyspaceChanged(gocql.KeyspaceUpdateEvent{Keyspace: "ks", Change: "UPDATED"}) }); pan != nil {
			c.panics++
			violation(p.name()+":panic-in-KeyspaceChanged:"+panicClass(pan), fmt.Sprintf("%s on %s, keyspace %s: %v", p.full(), st, ks.name, pan), replayBase)
			continue
		}
		for _, q := range []query{{name: "nil query", nilQ: true}, {name: "no routing key"}, {name: "keyA", key: keyA}, {name: "keyA again", key: keyA}, {name: "keyB", key: keyB, ki: 1}} {
			var eq gocql.ExecutableQuery
			if !q.nilQ {
				eq = gocql.VerifC11Query("ks", q.key)
			}
			what := ks.name + ", " + q.name
			S, good := e.pick(pol, p, eq, what, ringClass(st), replayBase)
			if !good {
				continue
			}
			e.checkGeneric(p, S, what, replayBase)
			if q.key == nil || len(st.perm) == 0 {
				// no routing information: the fallback's order
				e.checkTiers(p, S, 0, "hosts", what, replayBase)
				continue
			}
			c.routedPicks++
			if p.shuffle {
				c.shuffledPicks++
			}
			e.checkTokenAware(pol, p, ki, ks, q, S, what, replayBase)
		}
	}
}

func ringClass(st *state) string {
	if st.perm == nil || len(st.perm) == 0 {
		return ":empty-token-ring"
	}
	return ""
}

func catch(f func()) (pan interface{}) {
	defer func() { pan = recover() }()
	f()
	return nil
}

func panicClass(p interface{}) string {
	s := fmt.Sprint(p)
	switch {
	case strings.Contains(s, "nil pointer"):
		return "nil-pointer-dereference"
	case strings.Contains(s, "index out of range"):
		return "index-out-of-range"
	case strings.Contains(s, "divide by zero"):
		return "divide-by-zero"
	}
	f := strings.Fields(s)
	if len(f) > 4 {
		f = f[:4]
	}
	return strings.Join(f, "-")
}

// pick calls Pick and drains the iterator. ok=false if it panicked, did not end, or returned a nil host.
func (e *env) pick(pol gocql.HostSelectionPolicy, p polCfg, q gocql.ExecutableQuery, what, class string, replay map[string]interface{}) (S []int, ok bool) {
	e.c.picks++
	n := len(e.hosts)
	limit := 4*n + 8
	bad := ""
	pan := catch(func() {
		next := pol.Pick(q)
		if next == nil {
			bad = "Pick-returns-nil-iterator"
			return
		}
		for i := 0; ; i++ {
			sh := next()
			if sh == nil {
				return
			}
			if i >= limit {
				bad = "sequence-does-not-end"
				return
			}
			h := sh.Info()
			if h == nil {
				bad = "nil-host-offered"
				return
			}
			id, known := e.idx[h]
			if !known {
				bad = "unknown-host-offered"
				return
			}
			S = append(S, id)
		}
	})
	rp := withWhat(replay, what)
	if pan != nil {
		e.c.panics++
		violation(polCfg{kind: p.kind, tokenAware: p.tokenAware}.name()+":Pick-panics:"+panicClass(pan)+class, fmt.Sprintf("%s on %s; %s: panic after offering %v: %v", p.full(), e.st, what, S, pan), rp)
		return S, false
	}
	if bad != "" {
		violation(p.name()+":"+bad+class, fmt.Sprintf("%s on %s; %s: offered so far %v", p.full(), e.st, what, S), rp)
		return S, false
	}
	if len(e.c.outcomes) < 200000 {
		// distinct (labelling, policy, offered sequence) triples, to show the search is not vacuous
		h := uint64(14695981039346656037)
		mix := func(v int) { h = (h ^ uint64(v+1)) * 1099511628211 }
		for _, hs := range e.st.hosts {
			mix(hs.dc*2 + hs.rack)
		}
		mix(p.kind)
		if p.tokenAware {
			mix(7)
		}
		if p.nonLoc {
			mix(8)
		}
		mix(len(S) + 100)
		for _, x := range S {
			mix(x)
		}
		e.c.outcomes[h] = struct{}{}
	}
	if n >= 3 && p.tokenAware && p.kind == 2 && p.nonLoc && len(S) == n && strings.Contains(what, "NTS{local:1") && strings.HasSuffix(what, "keyB") && e.st.hosts[0].dc != e.st.hosts[1].dc && r.NeedSample() {
		r.Sample(map[string]interface{}{"state": e.st.String(), "policy": p.full(), "query": what, "offered": S})
	}
	return S, true
}

func withWhat(replay map[string]interface{}, what string) map[string]interface{} {
	m := map[string]interface{}{"query": what}
	for k, v := range replay {
		m[k] = v
	}
	return m
}

// checkGeneric: only up hosts, no host twice, every up host the policy knows.
func (e *env) checkGeneric(p polCfg, S []int, what string, replay map[string]interface{}) {
	seen := 0
	for _, h := range S {
		if !e.st.hosts[h].up() {
			violation(e.kp(p)+":down-host-offered"+e.suffix, fmt.Sprintf("%s on %s; %s: offered %v, h%d is down", p.full(), e.st, what, S, h), withWhat(replay, what))
		}
		if seen&(1<<uint(h)) != 0 {
			violation(e.kp(p)+":host-offered-twice"+e.suffix, fmt.Sprintf("%s on %s; %s: offered %v", p.full(), e.st, what, S), withWhat(replay, what))
		}
		seen |= 1 << uint(h)
	}
	for i, h := range e.st.hosts {
		if h.up() && seen&(1<<uint(i)) == 0 {
			violation(e.kp(p)+":up-host-never-offered"+e.suffix, fmt.Sprintf("%s on %s; %s: offered %v, h%d is up and known", p.full(), e.st, what, S, i), withWhat(replay, what))
			break
		}
	}
}

// checkTiers: from position `from` on, tier numbers never decrease.
func (e *env) checkTiers(p polCfg, S []int, from int, part, what string, replay map[string]interface{}) bool {
	for i := from + 1; i < len(S); i++ {
		if p.tier(e.st.hosts[S[i]]) < p.tier(e.st.hosts[S[i-1]]) {
			violation(e.kp(p)+":farther-tier-before-nearer:"+part+e.suffix, fmt.Sprintf("%s on %s; %s: offered %v, tiers %v", p.full(), e.st, what, S, e.tiers(p, S)), withWhat(replay, what))
			return false
		}
	}
	return true
}

func (e *env) tiers(p polCfg, S []int) []int {
	t := make([]int, len(S))
	for i, h := range S {
		t[i] = p.tier(e.st.hosts[h])
	}
	return t
}

// checkRotation (round-robin family): per tier there is a start s0 such that the k-th successive
// pick offers the tier's list from position s0+k on, cyclically, down hosts skipped.
func (e *env) checkRotation(p polCfg, listOrder []int, seqs [][]int, replay map[string]interface{}) {
	for tier := 0; tier < 3; tier++ {
		var L []int
		for _, h := range listOrder {
			if p.tier(e.st.hosts[h]) == tier {
				L = append(L, h)
			}
		}
		if len(L) == 0 {
			continue
		}
		okSome := false
		for s0 := 0; s0 < len(L) && !okSome; s0++ {
			all := true
			for k, S := range seqs {
				var want, got []int
				for j := 0; j < len(L); j++ {
					if h := L[(s0+k+j)%len(L)]; e.st.hosts[h].up() {
						want = append(want, h)
					}
				}
				for _, h := range S {
					if p.tier(e.st.hosts[h]) == tier {
						got = append(got, h)
					}
				}
				if fmt.Sprint(want) != fmt.Sprint(got) {
					all = false
					break
				}
			}
			okSome = all
		}
		if !okSome {
			violation(p.name()+":successive-picks-do-not-rotate-the-start", fmt.Sprintf("%s on %s: tier %d list %v, successive picks offered %v", p.full(), e.st, tier, L, seqs), replay)
			return
		}
	}
}

// expectedReplicas: Cassandra's replicas for the key on the ring of all hosts the policy knows.
func (e *env) expectedReplicas(ks *ksSetting, key []byte) (replicas []int, owner int) {
	n := len(e.st.perm)
	tok := refcass.Murmur3Token(key)
	start := refcass.FirstTokenIndex(ringPos[:n], tok, func(a, b int64) int {
		switch {
		case a < b:
			return -1
		case a > b:
			return 1
		}
		return 0
	})
	topo := &refcass.Topology{TokenOwner: e.st.perm}
	for _, h := range e.st.hosts {
		topo.Endpoints = append(topo.Endpoints, refcass.Endpoint{DC: dcName[h.dc], Rack: rackName[h.rack]})
	}
	owner = e.st.perm[start]
	switch {
	case ks.simple > 0:
		return refcass.SimpleStrategyEndpoints(ks.simple, topo, start), owner
	case ks.dcs != nil:
		return refcass.NetworkTopologyEndpoints(ks.dcs, topo, start), owner
	}
	return nil, owner
}

// tokenAwareProblem checks S against: up replicas of the nearest tier first (primary first unless
// shuffling), then - with non-local fallback - the up replicas of farther tiers in tier order, then the
// rest in tier order. It returns "" or the violated clause.
func (e *env) tokenAwareProblem(p polCfg, R []int, S []int) (clause string, segB bool) {
	var A, B []int
	for _, h := range R {
		if !e.st.hosts[h].up() {
			continue
		}
		if p.tier(e.st.hosts[h]) == 0 {
			A = append(A, h)
		} else {
			B = append(B, h)
		}
	}
	if len(S) < len(A) || !sameSet(S[:min(len(S), len(A))], A) {
		return "nearest-tier-replicas-not-first", false
	}
	if !p.shuffle && len(A) > 0 && len(R) > 0 && R[0] == A[0] && S[0] != R[0] {
		return "primary-replica-not-first", false
	}
	pos := len(A)
	if p.nonLoc {
		if len(S) < pos+len(B) || !sameSet(S[pos:pos+len(B)], B) {
			return "farther-tier-replicas-not-before-the-other-hosts", false
		}
		for i := pos + 1; i < pos+len(B); i++ {
			if p.tier(e.st.hosts[S[i]]) < p.tier(e.st.hosts[S[i-1]]) {
				return "farther-tier-replicas-not-in-tier-order", false
			}
		}
		pos += len(B)
		segB = len(B) > 0
	}
	for i := pos + 1; i < len(S); i++ {
		if p.tier(e.st.hosts[S[i]]) < p.tier(e.st.hosts[S[i-1]]) {
			return "farther-tier-before-nearer:remaining-hosts", segB
		}
	}
	return "", segB
}

func min(a, b int) int {
	if a < b {
		return a
	}
	return b
}

func sameSet(a, b []int) bool {
	if len(a) != len(b) {
		return false
	}
	x, y := append([]int{}, a...), append([]int{}, b...)
	sort.Ints(x)
	sort.Ints(y)
	for i := range x {
		if x[i] != y[i] {
			return false
		}
	}
	return true
}

func (e *env) checkTokenAware(pol gocql.HostSelectionPolicy, p polCfg, ki int, ks *ksSetting, q query, S []int, what string, replay map[string]interface{}) {
	x := e.exp[[2]int{ki, q.ki}]
	R, owner := x.R, x.owner
	var clause string
	var segB bool
	if ks.meta == nil {
		// replicas unknown: either reading is accepted
		if clause, _ = e.tokenAwareProblem(p, nil, S); clause != "" {
			clause, segB = e.tokenAwareProblem(p, []int{owner}, S)
			R = []int{owner}
		}
	} else {
		clause, segB = e.tokenAwareProblem(p, R, S)
	}
	if segB {
		e.c.withRemoteReplicaSegment++
	}
	if clause == "" {
		return
	}
	var own []int
	for _, h := range gocql.VerifC11GocqlReplicas(pol, "ks", q.key) {
		own = append(own, e.idx[h])
	}
	// part of the finding's identity for the fallback clause: is there any replica (up or down) in the middle tier
	middle := false
	for _, h := range R {
		middle = middle || p.tier(e.st.hosts[h]) == 1
	}
	key := e.kp(p) + ":" + clause
	if clause == "farther-tier-replicas-not-before-the-other-hosts" && p.kind == 2 && !middle {
		key += ":no-replica-in-the-middle-tier"
	}
	key += e.suffix
	violation(key, fmt.Sprintf("%s on %s; %s: Cassandra's replicas %v (tiers %v; gocql's own list %v), offered %v (tiers %v)",
		p.full(), e.st, what, R, e.tiers(p, R), own, S, e.tiers(p, S)), withWhat(replay, what))
}
