package main

// Sub-suite "event sequences" (round 4): the sequential part enumerates cluster STATES, each reached by
// ONE canonical event sequence (AddHost all, HostUp, HostDown, HostUp). Here the SEQUENCES of policy
// notifications are enumerated, so that bookkeeping that differs between the layers of a policy
// (the token-aware host list keeps a host across HostDown, its fallback drops it) is exercised by
// every order of AddHost / RemoveHost / HostUp / HostDown / AddHost-again.

import (
	"fmt"
	"runtime"
	"strings"
	"sync"
	"sync/atomic"

	"github.com/gocql/gocql"
)

const (
	evAddUp  = 0 // the host is marked up, then AddHost (a node announced as up; also "AddHost again" for a known host)
	evAdd    = 1 // AddHost of a host that is marked down (Session.startPoolFill on an UP event: the state changes only at HostUp)
	evRemove = 2 // RemoveHost
	evUp     = 3 // setState(NodeUp), HostUp   (Session.handleNodeConnected)
	evDown   = 4 // setState(NodeDown), HostDown (Session.handleNodeDown)
)

var evName = []string{"mark-up+AddHost", "AddHost(marked down)", "RemoveHost", "mark-up+HostUp", "mark-down+HostDown"}

type event struct{ kind, host int }

func (e event) String() string { return fmt.Sprintf("%s(h%d)", evName[e.kind], e.host) }

// the harness's model: what the policy was told
type evModel struct {
	present, up [3]bool
}

// options: AddHost for any host (known or not), the other notifications only for hosts the policy
// knows (AddHost'ed and not removed since). A host's up/down mark changes only together with a notification.
func (m *evModel) options(n int) []event {
	var out []event
	for h := 0; h < n; h++ {
		out = append(out, event{evAddUp, h})
		if !m.up[h] {
			out = append(out, event{evAdd, h})
		}
		if m.present[h] {
			out = append(out, event{evRemove, h}, event{evUp, h}, event{evDown, h})
		}
	}
	return out
}

func (m *evModel) apply(e event) {
	switch e.kind {
	case evAddUp:
		m.present[e.host], m.up[e.host] = true, true
	case evAdd:
		m.present[e.host] = true
	case evRemove:
		m.present[e.host] = false
	case evUp:
		m.up[e.host] = true
	case evDown:
		m.up[e.host] = false
	}
}

// fixed labelling: every tier of every policy is populated
var evHosts = []hostSpec{{dc: 0, rack: 0}, {dc: 0, rack: 1}, {dc: 1, rack: 0}}

// keyspace settings used (indices into allKs): SimpleStrategy rf 1, rf 2, NTS{local:1,remote:1}
var evKs = []int{1, 2, 4}

type evItem struct {
	n         int
	startFull bool // false: the policy knows no host; true: session start delivered (AddHost + HostUp for all n hosts)
	seq       []event
}

func (it *evItem) String() string {
	var s []string
	for _, e := range it.seq {
		s = append(s, e.String())
	}
	start := "no host known"
	if it.startFull {
		start = fmt.Sprintf("h0..h%d added and up (AddHost, HostUp)", it.n-1)
	}
	return fmt.Sprintf("hosts h0=local/r1 h1=local/r2 h2=remote/r1 (one token each); start: %s; events: [%s]", start, strings.Join(s, ", "))
}

func evMaxLen(thorough, startFull bool) int {
	if startFull && !thorough {
		return 3
	}
	return 4
}

func eventsRule(thorough bool) string {
	return fmt.Sprintf(" Event sequences: hosts h0 local/r1, h1 local/r2, h2 remote/r1 (one token each); start: no host known (3 hosts, sequences of <= 4 events) or session start delivered for 1..3 hosts (AddHost + HostUp each; sequences of <= %d events); "+
		"events: {mark up + AddHost (any host, known or not), AddHost of a host marked down (any host), RemoveHost, mark up + HostUp, mark down + HostDown (known hosts)}, every sequence; all 15 policy configurations, token-aware under SimpleStrategy rf 1, rf 2 and NTS 1+1; "+
		"after the sequence: plain policies 2 successive picks, token-aware nil / keyless / two keyed queries, each drained; oracle: finite, no nil host, no panic, only up hosts, no removed host, no host twice, every host that is up and known (last told AddHost, not RemoveHost) offered.", evMaxLen(thorough, true))
}

type evCounters struct{ sequences, policies, picks, upKnownHosts int64 }

var evTotal evCounters

func suiteEvents() bool {
	var items []*evItem
	var rec func(n int, full bool, m evModel, seq []event, maxLen int)
	rec = func(n int, full bool, m evModel, seq []event, maxLen int) {
		items = append(items, &evItem{n: n, startFull: full, seq: append([]event{}, seq...)})
		if len(seq) == maxLen {
			return
		}
		for _, e := range m.options(n) {
			m2 := m
			m2.apply(e)
			rec(n, full, m2, append(seq, e), maxLen)
		}
	}
	rec(3, false, evModel{}, nil, evMaxLen(r.Thorough(), false))
	for n := 1; n <= 3; n++ {
		var m evModel
		for h := 0; h < n; h++ {
			m.present[h], m.up[h] = true, true
		}
		rec(n, true, m, nil, evMaxLen(r.Thorough(), true))
	}
	// shortest sequences first and in order (the example reported for a key is the same minimal one on
	// every run), the long ones in parallel
	var short, long []*evItem
	for _, it := range items {
		if len(it.seq) <= 3 && (!it.startFull || it.n == 1 || len(it.seq) <= 2) {
			short = append(short, it)
		} else {
			long = append(long, it)
		}
	}
	for l := 0; l <= 3; l++ {
		for _, it := range short {
			if len(it.seq) == l {
				runEvItem(it)
			}
		}
	}
	next := int64(-1)
	var wg sync.WaitGroup
	for w := 0; w < runtime.NumCPU(); w++ {
		wg.Add(1)
		go func() {
			defer wg.Done()
			for {
				i := atomic.AddInt64(&next, 1)
				if i >= int64(len(long)) {
					return
				}
				runEvItem(long[i])
			}
		}()
	}
	wg.Wait()
	r.Extra("event_sequences", map[string]interface{}{"sequences": evTotal.sequences, "policy_instances": evTotal.policies, "picks_drained": evTotal.picks,
		"up_and_known_hosts_demanded": evTotal.upKnownHosts})
	return true
}

func runEvItem(it *evItem) {
	var c evCounters
	c.sequences++
	// final model
	var m evModel
	if it.startFull {
		for h := 0; h < it.n; h++ {
			m.present[h], m.up[h] = true, true
		}
	}
	for _, e := range it.seq {
		m.apply(e)
	}
	anyUp := false
	for h := 0; h < it.n; h++ {
		anyUp = anyUp || m.present[h] && m.up[h]
	}
	r.Case("events|"+it.String(), anyUp && len(it.seq) > 0)
	for kind := 0; kind < 3; kind++ {
		runEvPolicy(it, &m, polCfg{kind: kind}, 0, &c)
		for opt := 0; opt < 4; opt++ {
			for _, ki := range evKs {
				runEvPolicy(it, &m, polCfg{kind: kind, tokenAware: true, shuffle: opt&1 != 0, nonLoc: opt&2 != 0}, ki, &c)
			}
		}
	}
	atomic.AddInt64(&evTotal.sequences, c.sequences)
	atomic.AddInt64(&evTotal.policies, c.policies)
	atomic.AddInt64(&evTotal.picks, c.picks)
	atomic.AddInt64(&evTotal.upKnownHosts, c.upKnownHosts)
	r.AddCounts(c.picks, nil)
}

func runEvPolicy(it *evItem, m *evModel, p polCfg, ki int, c *evCounters) {
	c.policies++
	n := it.n
	hosts := make([]*gocql.HostInfo, n)
	idx := map[*gocql.HostInfo]int{}
	for i := 0; i < n; i++ {
		hosts[i] = gocql.VerifC11NewHost(i, dcName[evHosts[i].dc], rackName[evHosts[i].rack], it.startFull, []string{fmt.Sprint(ringPos[i])})
		idx[hosts[i]] = i
	}
	cfgName := p.full()
	if p.tokenAware {
		cfgName += ", keyspace " + allKs[ki].name
	}
	replay := map[string]interface{}{"case": it.String(), "policy": cfgName}
	var pol gocql.HostSelectionPolicy
	pan := catch(func() {
		pol = newFallback(p.kind)
		if p.tokenAware {
			pol = newTokenAware(pol, p)
			cur := ki
			gocql.VerifC11InitTokenAware(pol, "ks", func() *gocql.KeyspaceMetadata { return allKs[cur].meta })
		}
		pol.SetPartitioner("org.apache.cassandra.dht.Murmur3Partitioner")
		if it.startFull {
			for _, h := range hosts {
				pol.AddHost(h)
			}
			for _, h := range hosts {
				pol.HostUp(h)
			}
		}
		for _, e := range it.seq {
			h := hosts[e.host]
			switch e.kind {
			case evAddUp:
				gocql.VerifC11SetUp(h, true)
				pol.AddHost(h)
			case evAdd:
				pol.AddHost(h)
			case evRemove:
				pol.RemoveHost(h)
			case evUp:
				gocql.VerifC11SetUp(h, true)
				pol.HostUp(h)
			case evDown:
				gocql.VerifC11SetUp(h, false)
				pol.HostDown(h)
			}
		}
	})
	if pan != nil {
		violation(p.name()+":panic-while-applying-cluster-events:"+panicClass(pan)+":event-sequence", fmt.Sprintf("%s; %s: %v", cfgName, it, pan), replay)
		return
	}
	type q struct {
		name string
		eq   gocql.ExecutableQuery
	}
	var qs []q
	if !p.tokenAware {
		qs = []q{{"successive pick 1", gocql.VerifC11Query("ks", keyA)}, {"successive pick 2", gocql.VerifC11Query("ks", keyA)}}
	} else {
		qs = []q{{"nil query", nil}, {"no routing key", gocql.VerifC11Query("ks", nil)}, {"keyA", gocql.VerifC11Query("ks", keyA)}, {"keyB", gocql.VerifC11Query("ks", keyB)}}
	}
	for _, query := range qs {
		c.picks++
		var S []int
		bad := ""
		limit := 4*n + 8
		pan := catch(func() {
			next := pol.Pick(query.eq)
			if next == nil {
				bad = "Pick-returns-nil-iterator"
				return
			}
			for i := 0; ; i++ {
				sh := next()
				if sh == nil {
					return
				}
				if i >= limit {
					bad = "sequence-does-not-end"
					return
				}
				h := sh.Info()
				if h == nil {
					bad = "nil-host-offered"
					return
				}
				id, known := idx[h]
				if !known {
					bad = "unknown-host-offered"
					return
				}
				S = append(S, id)
			}
		})
		rp := withWhat(replay, query.name)
		detail := func(extra string) string {
			return fmt.Sprintf("%s; %s; %s: offered %v%s (told to the policy: known %v, up %v)", cfgName, it, query.name, S, extra, m.present[:n], m.up[:n])
		}
		if pan != nil {
			violation(polCfg{kind: p.kind, tokenAware: p.tokenAware}.name()+":Pick-panics:"+panicClass(pan)+":event-sequence", detail(fmt.Sprintf(", then panic: %v", pan)), rp)
			continue
		}
		if bad != "" {
			violation(p.name()+":"+bad+":event-sequence", detail(""), rp)
			continue
		}
		seen := 0
		for _, h := range S {
			switch {
			case !m.present[h]:
				violation(p.name()+":removed-host-offered:event-sequence", detail(fmt.Sprintf(", h%d was removed", h)), rp)
			case !m.up[h]:
				violation(p.name()+":down-host-offered:event-sequence", detail(fmt.Sprintf(", h%d is down", h)), rp)
			}
			if seen&(1<<uint(h)) != 0 {
				violation(p.name()+":host-offered-twice:event-sequence", detail(""), rp)
			}
			seen |= 1 << uint(h)
		}
		for h := 0; h < n; h++ {
			if m.present[h] && m.up[h] {
				c.upKnownHosts++
				if seen&(1<<uint(h)) == 0 {
					violation(p.name()+":up-host-never-offered:event-sequence", detail(fmt.Sprintf(", h%d is up and known", h)), rp)
					break
				}
			}
		}
	}
}
