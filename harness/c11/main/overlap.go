package main

// Overlapping iterations (sequential, one thread): two queries are in progress on the same
// policy at the same time - iterator A is picked and partly consumed, iterator B is picked and
// partly consumed, then A is drained, then B. Each of the two offered sequences must satisfy
// the property's per-query clauses on its own.
//
// ShuffleReplicas draws from the package's one random generator. Here the generator's source is
// replaced by a scripted one and the OUTCOME of every shuffle is an enumerated dimension, so the
// verdict is the same on every run. The generator is a package global, so this sub-suite runs in
// single-threaded child processes of the worker (one shard each); the parent merges their results.

import (
	"bufio"
	"encoding/json"
	"fmt"
	"math/rand"
	"os"
	"os/exec"
	"runtime"
	"sort"
	"strconv"
	"strings"
	"sync"

	"github.com/gocql/gocql"
	"verif/engine/report"
)

const overlapEnv = "VERIF_C11_OVERLAP_SHARD" // "<shard>/<shards>/<tier>"

// ---------------------------------------------------------------- scripted random source

// scriptSource hands out the scripted values; when the script is exhausted it keeps answering
// with a value that makes every bounded draw 0 (and never triggers math/rand's rejection loop).
type scriptSource struct {
	vals     []int64
	pos      int
	overdraw int
}

// drawValue: a 63-bit source value for which math/rand's multiply-shift reduction of the top 32
// bits to [0,m) gives j (the low half of the product stays >= m, so nothing is rejected).
func drawValue(j, m int) int64 {
	return int64(uint64(j)<<32/uint64(m)+65536) << 31
}

func (s *scriptSource) Int63() int64 {
	if s.pos < len(s.vals) {
		v := s.vals[s.pos]
		s.pos++
		return v
	}
	s.overdraw++
	return drawValue(0, 1)
}
func (s *scriptSource) Seed(int64) {}

func (s *scriptSource) set(vals []int64) { s.vals, s.pos = vals, 0 }

// shuffleOutcomes[L] lists, for a shuffle of L elements, every outcome as (script, resulting
// permutation of 0..L-1); the last entry is the identity. Filled and verified by calibrate().
type shuffleOutcome struct {
	script []int64
	perm   []int
}

var shuffleOutcomes [5][]shuffleOutcome

// calibrate builds the scripts for L = 0..4 and verifies against math/rand itself that they produce
// exactly the L! permutations (so the enumeration does not rest on knowledge of math/rand's internals).
func calibrate() error {
	for L := 0; L <= 4; L++ {
		var tuples [][]int
		var rec func(i int, cur []int)
		rec = func(i int, cur []int) {
			if i < 1 {
				tuples = append(tuples, append([]int{}, cur...))
				return
			}
			for j := 0; j <= i; j++ {
				rec(i-1, append(cur, j))
			}
		}
		rec(L-1, nil)
		seen := map[string]bool{}
		for _, tu := range tuples {
			var script []int64
			for k, j := range tu {
				script = append(script, drawValue(j, L-k)) // draw k is for i = L-1-k, range i+1 = L-k
			}
			src := &scriptSource{vals: script}
			perm := make([]int, L)
			for i := range perm {
				perm[i] = i
			}
			rand.New(src).Shuffle(L, func(i, j int) { perm[i], perm[j] = perm[j], perm[i] })
			if src.pos != len(script) || src.overdraw != 0 {
				return fmt.Errorf("shuffle of %d elements consumed %d+%d random values, script has %d", L, src.pos, src.overdraw, len(script))
			}
			seen[fmt.Sprint(perm)] = true
			shuffleOutcomes[L] = append(shuffleOutcomes[L], shuffleOutcome{script, perm})
		}
		want := 1
		for i := 2; i <= L; i++ {
			want *= i
		}
		if len(seen) != want || len(tuples) != want {
			return fmt.Errorf("scripts for a shuffle of %d elements produce %d distinct permutations, expected %d", L, len(seen), want)
		}
		last := shuffleOutcomes[L][len(shuffleOutcomes[L])-1].perm
		for i, v := range last {
			if i != v {
				return fmt.Errorf("last script for %d elements is not the identity: %v", L, last)
			}
		}
	}
	return nil
}

// ---------------------------------------------------------------- shard results

type ovViol struct {
	Key    string      `json:"key"`
	Detail string      `json:"detail"`
	Replay interface{} `json:"replay"`
	Count  int64       `json:"count"`
	Order  int64       `json:"order"` // index of the first work item that showed it (smallest = minimal example)
}

type ovResult struct {
	Picks          int64         `json:"picks"`
	Cases          int64         `json:"cases"`
	States         int64         `json:"states"`
	Policies       int64         `json:"policies"`
	ShuffledCases  int64         `json:"shuffled_cases"`
	ShuffleScripts int64         `json:"shuffle_scripts"`
	BothPartial    int64         `json:"both_partial"`
	Overdraw       int64         `json:"overdraw"`
	Panics         int64         `json:"panics"`
	Distinct       [][8]byte     `json:"distinct"`
	Viol           []*ovViol     `json:"viol"`
	Samples        []interface{} `json:"samples"`
	Err            string        `json:"err"`
}

// ---------------------------------------------------------------- the space

type ovItem struct{ n, label, sc int }

// status vectors of an item's hosts: quick - at most one host down (after HostDown); thorough - every
// subset of the hosts down (<= 3 hosts), all up (4 hosts)
func ovStatusVectors(thorough bool, n int) [][]int {
	var out [][]int
	switch {
	case thorough && n == 4:
		out = append(out, make([]int, n))
	case thorough:
		for m := 0; m < 1<<uint(n); m++ {
			v := make([]int, n)
			for i := range v {
				if m&(1<<uint(i)) != 0 {
					v[i] = stDownNotified
				}
			}
			out = append(out, v)
		}
	default:
		out = append(out, make([]int, n))
		for d := 0; d < n; d++ {
			v := make([]int, n)
			v[d] = stDownNotified
			out = append(out, v)
		}
	}
	return out
}

func ovItems(thorough bool) []ovItem {
	maxHosts := 3
	if thorough {
		maxHosts = 4
	}
	var items []ovItem
	for n := 1; n <= maxHosts; n++ {
		ns := len(ovStatusVectors(thorough, n))
		for l := 0; l < pow(4, n); l++ {
			for sc := 0; sc < ns; sc++ {
				items = append(items, ovItem{n, l, sc})
			}
		}
	}
	return items
}

func overlapRule(thorough bool) string {
	if thorough {
		return "Overlapping iterations: cluster states of 1..3 hosts (datacenter x rack x status {up, down after HostDown} x every token order) and of 4 hosts all up; every policy configuration (3 plain, token-aware over each x shuffle x non-local fallback x 6 keyspace settings); " +
			"query pairs (same token range, different token ranges); iterator A is picked and takes a hosts, iterator B is picked and takes b hosts, A is drained, B is drained, for every a, b in 0..n (4 hosts: b in {0, n}); " +
			"with ShuffleReplicas the outcome of A's and of B's shuffle is dictated through a scripted random source: every pair of permutations (4 hosts: A's shuffle the every-draw-0 permutation, a rotation, B's every permutation)."
	}
	return "Overlapping iterations: cluster states of 1..3 hosts (datacenter x rack x every token order; all hosts up or exactly one down after HostDown); every policy configuration (3 plain, token-aware over each x shuffle x non-local fallback x 6 keyspace settings); " +
		"query pairs (same token range, different token ranges); iterator A is picked and takes a hosts, iterator B is picked and takes b hosts, A is drained, B is drained, for every a, b in 0..n; " +
		"with ShuffleReplicas the outcome of each shuffle is dictated through a scripted random source: A's shuffle is the every-draw-0 permutation (a rotation: not the identity), B's shuffle every permutation of the replicas."
}

// ---------------------------------------------------------------- child

type ovChild struct {
	res      ovResult
	viol     map[string]*ovViol
	order    int64
	context  func() (string, map[string]interface{})
	src      *scriptSource
	thorough bool
}

func (c *ovChild) violation(key, detail string, replay interface{}) {
	if v := c.viol[key]; v != nil {
		v.Count++
		return
	}
	ctx, rp := c.context()
	if m, ok := replay.(map[string]interface{}); ok {
		for k, x := range m {
			if _, dup := rp[k]; !dup {
				rp[k] = x
			}
		}
	}
	v := &ovViol{Key: key, Detail: detail + " [" + ctx + "]", Replay: rp, Count: 1, Order: c.order}
	c.viol[key] = v
	c.res.Viol = append(c.res.Viol, v)
}

func overlapChildMain(spec string) {
	f := strings.Split(spec, "/")
	shard, _ := strconv.Atoi(f[0])
	shards, _ := strconv.Atoi(f[1])
	c := &ovChild{viol: map[string]*ovViol{}, src: &scriptSource{}, thorough: len(f) > 2 && f[2] == "thorough"}
	defer func() {
		if p := recover(); p != nil {
			c.res.Err = fmt.Sprint("harness panic: ", p)
		}
		w := bufio.NewWriter(os.Stdout)
		json.NewEncoder(w).Encode(&c.res)
		w.Flush()
	}()
	runtime.GOMAXPROCS(2)
	if err := calibrate(); err != nil {
		c.res.Err = "scripted random source: " + err.Error()
		return
	}
	findKeys()
	violation = c.violation
	gocql.VerifC11SetRandSource(c.src)
	for i, it := range ovItems(c.thorough) {
		if i%shards != shard {
			continue
		}
		c.order = int64(i)
		c.runItem(it)
	}
}

func (c *ovChild) runItem(it ovItem) {
	n := it.n
	sv := ovStatusVectors(c.thorough, n)[it.sc]
	hosts := make([]hostSpec, n)
	l := it.label
	anyUp := false
	for i := range hosts {
		hosts[i] = hostSpec{dc: l % 2, rack: l / 2 % 2, status: sv[i]}
		l /= 4
		anyUp = anyUp || hosts[i].up()
	}
	// plain policies do not look at tokens: one state without tokens
	{
		st := &state{hosts: hosts, partFirst: true}
		c.res.States++
		for kind := 0; kind < 3; kind++ {
			c.runPolicy(st, polCfg{kind: kind}, nil)
		}
	}
	for _, perm := range permutations(n) {
		st := &state{hosts: hosts, perm: perm, partFirst: true}
		c.res.States++
		if anyUp {
			c.res.Distinct = append(c.res.Distinct, report.KeyHash("overlap|"+st.String()))
		}
		exp := map[[2]int]expRep{}
		e := &env{st: st}
		for ki := range allKs {
			for qi, k := range [][]byte{keyA, keyB} {
				R, owner := e.expectedReplicas(&allKs[ki], k)
				exp[[2]int{ki, qi}] = expRep{R, owner}
			}
		}
		for kind := 0; kind < 3; kind++ {
			for opt := 0; opt < 4; opt++ {
				c.runPolicy(st, polCfg{kind: kind, tokenAware: true, shuffle: opt&1 != 0, nonLoc: opt&2 != 0}, exp)
			}
		}
	}
}

var ovKeys = [][]byte{nil, nil} // keyA, keyB (set once findKeys ran)
var ovKeyName = []string{"keyA", "keyB"}
var ovPairs = [][2]int{{0, 0}, {0, 1}}

func (c *ovChild) runPolicy(st *state, p polCfg, exp map[[2]int]expRep) {
	c.res.Policies++
	ovKeys[0], ovKeys[1] = keyA, keyB
	cur := 0
	var pol gocql.HostSelectionPolicy
	var hosts []*gocql.HostInfo
	var idx map[*gocql.HostInfo]int
	c.src.set(nil)
	c.context = func() (string, map[string]interface{}) {
		return "while applying the cluster events", map[string]interface{}{"state": st.String(), "policy": p.full()}
	}
	if pan := catch(func() { pol, hosts, idx = setup(st, p, &cur) }); pan != nil {
		c.res.Panics++
		violation(p.full()+":panic-while-applying-cluster-events:"+panicClass(pan)+":overlapping-iterations", fmt.Sprintf("%s on %s: %v", p.full(), st, pan), nil)
		return
	}
	e := &env{st: st, hosts: hosts, idx: idx, c: &seqCounters{}, exp: exp, fullName: true, suffix: ":overlapping-iterations"}
	if !p.tokenAware {
		c.runPair(e, pol, p, -1, nil, [2]int{0, 0})
		return
	}
	for ki := range allKs {
		cur = ki
		if pan := catch(func() { pol.KeyspaceChanged(gocql.KeyspaceUpdateEvent{Keyspace: "ks", Change: "UPDATED"}) }); pan != nil {
			c.res.Panics++
			violation(p.full()+":panic-in-KeyspaceChanged:"+panicClass(pan)+":overlapping-iterations", fmt.Sprintf("%s on %s, keyspace %s: %v", p.full(), st, allKs[ki].name, pan), nil)
			continue
		}
		for _, pair := range ovPairs {
			c.runPair(e, pol, p, ki, &allKs[ki], pair)
		}
	}
}

// runPair enumerates the shuffle outcomes and the consumption pattern (a, b) for one query pair.
func (c *ovChild) runPair(e *env, pol gocql.HostSelectionPolicy, p polCfg, ki int, ks *ksSetting, pair [2]int) {
	n := len(e.hosts)
	noShuffle := []shuffleOutcome{{}}
	outA, outB := noShuffle, noShuffle
	if p.shuffle {
		// the number of random draws a Pick makes is the length of gocql's own replica list (diagnostic
		// accessor; only sizes the script - a script that is too short or too long changes nothing in the verdict)
		la := len(gocql.VerifC11GocqlReplicas(pol, "ks", ovKeys[pair[0]]))
		lb := len(gocql.VerifC11GocqlReplicas(pol, "ks", ovKeys[pair[1]]))
		if la > 4 {
			la = 0 // longer than any list of <= 4 distinct hosts: leave it to the default draws (all 0)
		}
		if lb > 4 {
			lb = 0
		}
		outB = shuffleOutcomes[lb]
		all := shuffleOutcomes[la]
		if c.thorough && n <= 3 {
			outA = all
		} else {
			outA = all[:1] // every draw 0: a rotation of the list (not the identity when there are 2+ replicas)
		}
	}
	bs := make([]int, 0, n+1)
	for b := 0; b <= n; b++ {
		if c.thorough && n == 4 && b != 0 && b != n {
			continue
		}
		bs = append(bs, b)
	}
	qA := gocql.VerifC11Query("ks", ovKeys[pair[0]])
	qB := gocql.VerifC11Query("ks", ovKeys[pair[1]])
	ksName := "-"
	if ks != nil {
		ksName = ks.name
	}
	for _, oa := range outA {
		for _, ob := range outB {
			c.res.ShuffleScripts++
			for a := 0; a <= n; a++ {
				for _, b := range bs {
					var SA, SB []int
					c.context = func() (string, map[string]interface{}) {
						rp := map[string]interface{}{"state": e.st.String(), "policy": p.full(), "keyspace": ksName,
							"query_A": ovKeyName[pair[0]], "query_B": ovKeyName[pair[1]], "A_takes_before_B_is_picked": a, "B_takes_before_A_is_drained": b,
							"offered_to_A": SA, "offered_to_B": SB}
						s := fmt.Sprintf("overlapping iterations: A=%s picked, takes %d; B=%s picked, takes %d; A drained; B drained; A was offered %v, B was offered %v",
							ovKeyName[pair[0]], a, ovKeyName[pair[1]], b, SA, SB)
						if p.shuffle {
							rp["shuffle_of_A"], rp["shuffle_of_B"] = oa.perm, ob.perm
							s += fmt.Sprintf("; shuffle outcome (permutation applied to the replica list) at A's Pick %v, at B's Pick %v", oa.perm, ob.perm)
						}
						return s, rp
					}
					c.res.Cases++
					c.res.Picks += 2
					if p.shuffle && (len(oa.perm) > 1 || len(ob.perm) > 1) {
						c.res.ShuffledCases++
					}
					bad := ""
					var itA, itB gocql.NextHost
					limit := 4*n + 8
					take := func(it gocql.NextHost, S *[]int, k int) (ended bool) {
						for i := 0; k < 0 || i < k; i++ {
							sh := it()
							if sh == nil {
								return true
							}
							if len(*S) >= limit {
								bad = "sequence-does-not-end"
								return true
							}
							h := sh.Info()
							if h == nil {
								bad = "nil-host-offered"
								return true
							}
							id, known := e.idx[h]
							if !known {
								bad = "unknown-host-offered"
								return true
							}
							*S = append(*S, id)
						}
						return false
					}
					pan := catch(func() {
						c.src.set(oa.script)
						if itA = pol.Pick(qA); itA == nil {
							bad = "Pick-returns-nil-iterator"
							return
						}
						endA := take(itA, &SA, a)
						c.src.set(ob.script)
						if itB = pol.Pick(qB); itB == nil {
							bad = "Pick-returns-nil-iterator"
							return
						}
						endB := take(itB, &SB, b)
						if bad != "" {
							return
						}
						if !endA && !endB && a > 0 && b > 0 {
							c.res.BothPartial++
						}
						if !endA {
							take(itA, &SA, -1)
						}
						if !endB && bad == "" {
							take(itB, &SB, -1)
						}
					})
					c.res.Overdraw += int64(c.src.overdraw)
					c.src.overdraw = 0
					if pan != nil {
						c.res.Panics++
						violation(p.full()+":Pick-panics:"+panicClass(pan)+":overlapping-iterations", fmt.Sprintf("%s on %s: panic: %v", p.full(), e.st, pan), nil)
						continue
					}
					if bad != "" {
						violation(p.full()+":"+bad+":overlapping-iterations", fmt.Sprintf("%s on %s", p.full(), e.st), nil)
						continue
					}
					for x, S := range [][]int{SA, SB} {
						who := "iterator A"
						if x == 1 {
							who = "iterator B"
						}
						e.checkGeneric(p, S, who, nil)
						if !p.tokenAware {
							e.checkTiers(p, S, 0, "hosts", who, nil)
							continue
						}
						qi := pair[x]
						e.checkTokenAware(pol, p, ki, ks, query{name: ovKeyName[qi], key: ovKeys[qi], ki: qi}, S, who, nil)
					}
					if len(c.res.Samples) < 2 && p.shuffle && len(ob.perm) >= 2 && a >= 1 && b >= 1 && n >= 3 && p.kind == 1 && ob.perm[0] != 0 {
						_, rp := c.context()
						c.res.Samples = append(c.res.Samples, rp)
					}
				}
			}
		}
	}
}

// ---------------------------------------------------------------- parent

// suiteOverlapStart launches the shard processes; the returned function waits for them and merges
// their results into the report. It returns false if the sub-suite did not complete.
func suiteOverlapStart() func() bool {
	shards := runtime.NumCPU()
	if shards > 16 {
		shards = 16
	}
	exe, err := os.Executable()
	if err != nil {
		r.Infra("overlapping-iterations sub-suite: %v", err)
		return func() bool { return false }
	}
	tier := "quick"
	if r.Thorough() {
		tier = "thorough"
	}
	results := make([]*ovResult, shards)
	errs := make([]error, shards)
	var wg sync.WaitGroup
	for i := 0; i < shards; i++ {
		wg.Add(1)
		go func(i int) {
			defer wg.Done()
			cmd := exec.Command(exe)
			cmd.Env = append(os.Environ(), fmt.Sprintf("%s=%d/%d/%s", overlapEnv, i, shards, tier))
			cmd.Stderr = os.Stderr
			out, err := cmd.Output()
			if err != nil {
				errs[i] = err
				return
			}
			res := &ovResult{}
			if err := json.Unmarshal(out, res); err != nil {
				errs[i] = fmt.Errorf("bad output: %v", err)
				return
			}
			results[i] = res
		}(i)
	}
	return func() bool {
		wg.Wait()
		ok := true
		var tot ovResult
		byKey := map[string]*ovViol{}
		var samples []interface{}
		for i, res := range results {
			if errs[i] != nil || res == nil {
				r.Infra("overlapping-iterations sub-suite: shard %d: %v", i, errs[i])
				ok = false
				continue
			}
			if res.Err != "" {
				r.Infra("overlapping-iterations sub-suite: shard %d: %s", i, res.Err)
				ok = false
				continue
			}
			tot.Picks += res.Picks
			tot.Cases += res.Cases
			tot.States += res.States
			tot.Policies += res.Policies
			tot.ShuffledCases += res.ShuffledCases
			tot.ShuffleScripts += res.ShuffleScripts
			tot.BothPartial += res.BothPartial
			tot.Overdraw += res.Overdraw
			tot.Panics += res.Panics
			r.AddCounts(res.Picks, res.Distinct)
			samples = append(samples, res.Samples...)
			for _, v := range res.Viol {
				if old := byKey[v.Key]; old == nil {
					byKey[v.Key] = v
				} else if v.Order < old.Order {
					v.Count += old.Count
					byKey[v.Key] = v
				} else {
					old.Count += v.Count
				}
			}
		}
		var keys []string
		for k := range byKey {
			keys = append(keys, k)
		}
		sort.Slice(keys, func(i, j int) bool {
			if byKey[keys[i]].Order != byKey[keys[j]].Order {
				return byKey[keys[i]].Order < byKey[keys[j]].Order
			}
			return keys[i] < keys[j]
		})
		for _, k := range keys {
			v := byKey[k]
			r.Violation(v.Key, v.Detail, v.Replay)
			for i := int64(1); i < v.Count && i < 100000; i++ {
				r.Violation(v.Key, "", nil)
			}
		}
		if len(samples) > 3 {
			samples = samples[:3]
		}
		for _, s := range samples {
			if r.NeedSample() {
				r.Sample(s)
			}
		}
		r.Extra("overlapping_iterations", map[string]interface{}{
			"rule": overlapRule(r.Thorough()), "shard_processes": shards, "cluster_states": tot.States, "policy_instances": tot.Policies,
			"cases": tot.Cases, "picks_drained": tot.Picks, "cases_with_a_dictated_shuffle_of_2_or_more_replicas": tot.ShuffledCases,
			"shuffle_outcome_pairs": tot.ShuffleScripts, "cases_with_both_iterators_partly_consumed": tot.BothPartial,
			"random_values_drawn_beyond_the_script": tot.Overdraw, "cases_that_panicked": tot.Panics, "examples": samples})
		return ok
	}
}
