// Worker of check C11: host selection offers each live node once, nearest and replicas first.
//
// suiteSequential is the sequential (mode B) part: exhaustive enumeration of cluster
// states x policies x queries. suiteOverlap (overlap.go) enumerates two overlapping iterations
// on one policy with every shuffle outcome dictated. The concurrent part (policy methods racing
// with Pick under a controlled scheduler) is the companion worker in ../mc.
package main

import (
	"fmt"
	"os"

	"verif/engine/report"
)

var r *report.Run

func main() {
	if spec := os.Getenv(overlapEnv); spec != "" {
		// a shard process of the overlapping-iterations sub-suite (overlap.go): prints its result as JSON
		overlapChildMain(spec)
		return
	}
	r = report.New("C11", "exploration")
	if err := calibrate(); err != nil {
		r.Infra("scripted random source: %v", err)
		os.Exit(r.Finish(false))
	}
	waitOverlap := suiteOverlapStart() // shard processes, run next to the sequential suite
	exhaustive := suiteSequential()
	exhaustive = suiteEvents() && exhaustive // sequences of policy notifications (events.go)
	exhaustive = waitOverlap() && exhaustive
	os.Exit(r.Finish(exhaustive))
}

func itoa(i int) string { return fmt.Sprint(i) }
