// Worker of check C11: host selection offers each live node once, nearest and replicas first.
//
// suiteSequential is the sequential (mode B) part: exhaustive enumeration of cluster
// states x policies x queries. A concurrent part (policy methods racing with Pick under
// a controlled scheduler) is a separate sub-suite to be added next to it in main().
package main

import (
	"fmt"
	"os"

	"verif/engine/report"
)

var r *report.Run

func main() {
	r = report.New("C11", "exploration")
	exhaustive := suiteSequential()
	// further sub-suites (e.g. suiteConcurrent) go here; each returns whether it completed its space
	os.Exit(r.Finish(exhaustive))
}

func itoa(i int) string { return fmt.Sprint(i) }
