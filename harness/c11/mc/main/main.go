// C11, controlled-scheduler part: safety of host selection while the topology changes.
// One picker thread calls Pick(query with a routing key) 2-3 times and drains every
// iterator; 1-2 mutator threads deliver the session's topology events (AddHost, RemoveHost,
// HostDown, HostUp, KeyspaceChanged, SetPartitioner) to the same policy. Real policies of
// the instrumented gocql (cowHostList's mutex + atomic.Value, the token-aware policy's
// mutex + atomic metadata, HostInfo's RWMutex are all scheduling points).
package main

import (
	"fmt"
	"strings"
	"time"

	"github.com/gocql/gocql"

	"verif/engine/mcreport"
	vs "verif/engine/vsched"
	"verif/engine/vsched/vatomic"
)

const (
	murmur3 = "org.apache.cassandra.dht.Murmur3Partitioner"
	randomP = "org.apache.cassandra.dht.RandomPartitioner"
)

// 4 hosts: h0 local/r1, h1 local/r2, h2 remote/r1, h3 local/r1. h0 h1 h2 are in the cluster at the
// start (up); h3 joins in some scripts.
var hostSpec = []struct{ dc, rack, token string }{
	{"local", "r1", "-6000000000000000000"},
	{"local", "r2", "-2000000000000000000"},
	{"remote", "r1", "2000000000000000000"},
	{"local", "r1", "6000000000000000000"},
}

type op struct {
	kind string // add remove down up ks part
	host int
	arg  string
}

func (o op) String() string {
	switch o.kind {
	case "ks":
		return "KeyspaceChanged"
	case "part":
		return "SetPartitioner(" + o.arg[strings.LastIndex(o.arg, ".")+1:] + ")"
	}
	return fmt.Sprintf("%s(h%d)", o.kind, o.host)
}

// scripts of the first mutator: it owns hosts h0, h1 (no other thread touches their membership)
var scriptsA = [][]op{
	{{kind: "remove", host: 0}, {kind: "remove", host: 1}},                        // the local DC empties
	{{kind: "down", host: 0}, {kind: "up", host: 0}},                              // bounce
	{{kind: "remove", host: 1}, {kind: "add", host: 1}},                           // leave and rejoin
	{{kind: "down", host: 1}, {kind: "remove", host: 0}, {kind: "part", arg: randomP}}, // and the ring is rebuilt under another partitioner
}

// scripts of the second mutator: it owns hosts h2, h3 and the keyspace/partitioner events
var scriptsB = [][]op{
	{{kind: "add", host: 3}, {kind: "ks"}},
	{{kind: "remove", host: 2}, {kind: "add", host: 3}},
	{{kind: "ks"}, {kind: "down", host: 2}},
	{{kind: "part", arg: randomP}, {kind: "part", arg: murmur3}},
}

type c11cfg struct {
	name     string
	kind     int // 0 round-robin 1 dc-aware 2 rack-aware
	token    bool
	shuffle  bool
	mutators int
	picks    int
	t        [2]int
}

func (c *c11cfg) newPolicy(nonLocal bool) gocql.HostSelectionPolicy {
	var p gocql.HostSelectionPolicy
	switch c.kind {
	case 0:
		p = gocql.RoundRobinHostPolicy()
	case 1:
		p = gocql.DCAwareRoundRobinPolicy("local")
	default:
		p = gocql.RackAwareRoundRobinPolicy("local", "r1")
	}
	if !c.token {
		return p
	}
	switch {
	case c.shuffle && nonLocal:
		return gocql.TokenAwareHostPolicy(p, gocql.ShuffleReplicas(), gocql.NonLocalReplicasFallback())
	case c.shuffle:
		return gocql.TokenAwareHostPolicy(p, gocql.ShuffleReplicas())
	case nonLocal:
		return gocql.TokenAwareHostPolicy(p, gocql.NonLocalReplicasFallback())
	}
	return gocql.TokenAwareHostPolicy(p)
}

type pickRec struct {
	offered []int
	nilInfo bool
	endless bool
}

func (c *c11cfg) body() {
	gocql.VerifResetGlobals()
	vatomic.Yield = true // the policies' atomics (list snapshots, start offsets, metadata pointer) are what is explored here
	vs.Quiet(true)
	hosts := make([]*gocql.HostInfo, len(hostSpec))
	idx := map[*gocql.HostInfo]int{}
	for i, s := range hostSpec {
		hosts[i] = gocql.VerifC11NewHost(i, s.dc, s.rack, true, []string{s.token})
		idx[hosts[i]] = i
	}
	vs.Quiet(false)
	// configuration: free choices, all explored
	nonLocal := false
	ksKind := 0
	if c.token {
		nonLocal = vs.Choose(2, vs.Free) == 1
		ksKind = vs.Choose(2, vs.Free)
	}
	sa := scriptsA[vs.Choose(len(scriptsA), vs.Free)]
	var sb []op
	if c.mutators > 1 {
		sb = scriptsB[vs.Choose(len(scriptsB), vs.Free)]
	}
	pol := c.newPolicy(nonLocal)
	ksMeta := &gocql.KeyspaceMetadata{Name: "ks", StrategyClass: "org.apache.cassandra.locator.SimpleStrategy",
		StrategyOptions: map[string]interface{}{"class": "SimpleStrategy", "replication_factor": "2"}}
	if ksKind == 1 {
		ksMeta = &gocql.KeyspaceMetadata{Name: "ks", StrategyClass: "org.apache.cassandra.locator.NetworkTopologyStrategy",
			StrategyOptions: map[string]interface{}{"class": "NetworkTopologyStrategy", "local": "2", "remote": "1"}}
	}
	vs.Quiet(true)
	if c.token {
		gocql.VerifC11InitTokenAware(pol, "ks", func() *gocql.KeyspaceMetadata { return ksMeta })
	}
	pol.SetPartitioner(murmur3)
	for i := 0; i < 3; i++ {
		pol.AddHost(hosts[i])
		pol.HostUp(hosts[i])
	}
	pol.KeyspaceChanged(gocql.KeyspaceUpdateEvent{Keyspace: "ks", Change: "UPDATED"})
	vs.Quiet(false)

	// model of what the policy has been told, per host: member (added, not removed), up
	member := []bool{true, true, true, false}
	up := []bool{true, true, true, true}
	apply := func(o op) {
		switch o.kind {
		case "add":
			gocql.VerifC11SetUp(hosts[o.host], true)
			pol.AddHost(hosts[o.host])
			pol.HostUp(hosts[o.host]) // session: handleNodeUp/addNewNode end in policy.HostUp after the pool is filled
			member[o.host], up[o.host] = true, true
		case "remove":
			pol.RemoveHost(hosts[o.host])
			member[o.host] = false
		case "down":
			gocql.VerifC11SetUp(hosts[o.host], false)
			pol.HostDown(hosts[o.host])
			up[o.host] = false
		case "up":
			gocql.VerifC11SetUp(hosts[o.host], true)
			pol.HostUp(hosts[o.host])
			up[o.host] = true
		case "ks":
			pol.KeyspaceChanged(gocql.KeyspaceUpdateEvent{Keyspace: "ks", Change: "UPDATED"})
		case "part":
			pol.SetPartitioner(o.arg)
		}
	}
	drain := func(q gocql.ExecutableQuery) pickRec {
		var r pickRec
		it := pol.Pick(q)
		if it == nil {
			vs.Failf("c11:concurrent:nil-iterator", "%s: Pick returned a nil iterator", c.name)
			return r
		}
		limit := 4*len(hosts) + 8
		for n := 0; ; n++ {
			if n >= limit {
				r.endless = true
				break
			}
			sh := it()
			if sh == nil {
				break
			}
			h := sh.Info()
			if h == nil {
				r.nilInfo = true
				r.offered = append(r.offered, -1)
				continue
			}
			i, known := idx[h]
			if !known {
				i = -2
			}
			r.offered = append(r.offered, i)
		}
		return r
	}

	key := []byte("key-1")
	done := make(chan int, 3)
	picks := make([]pickRec, 0, c.picks)
	vs.GoNamed("picker", func() {
		for n := 0; n < c.picks; n++ {
			picks = append(picks, drain(gocql.VerifC11Query("ks", key)))
		}
		vs.Send(done, 0)
	})
	vs.GoNamed("mutatorA", func() {
		for _, o := range sa {
			apply(o)
		}
		vs.Send(done, 1)
	})
	nthreads := 2
	if sb != nil {
		nthreads = 3
		vs.GoNamed("mutatorB", func() {
			for _, o := range sb {
				apply(o)
			}
			vs.Send(done, 2)
		})
	}
	for i := 0; i < nthreads; i++ {
		vs.Recv[int](done)
	}
	vs.WaitQuiescent()

	// ---- oracle (safety clauses only; a panic on any thread is reported by the scheduler as panic:<site>)
	desc := fmt.Sprintf("%s nonLocalFallback=%v ks=%d A=%v B=%v", c.name, nonLocal, ksKind, sa, sb)
	var sig []string
	for n, r := range picks {
		if r.nilInfo {
			vs.Failf("c11:concurrent:nil-host-offered", "pick %d offered a SelectedHost whose Info() is nil: %v [%s]", n, r.offered, desc)
		}
		if r.endless {
			vs.Failf("c11:concurrent:iterator-does-not-end", "pick %d: iterator still yields hosts after %d calls: %v [%s]", n, len(r.offered), r.offered, desc)
		}
		seen := map[int]bool{}
		for _, i := range r.offered {
			if i == -2 {
				vs.Failf("c11:concurrent:unknown-host-offered", "pick %d offered a host that was never given to the policy [%s]", n, desc)
			}
			if i >= 0 && seen[i] {
				vs.Failf("c11:concurrent:host-offered-twice", "pick %d offered h%d twice: %v [%s]", n, i, r.offered, desc)
			}
			seen[i] = true
		}
		sig = append(sig, fmt.Sprint(r.offered))
	}
	// at quiescence the cluster state is again a definite one (every host's membership and status was
	// changed by one thread only): a fresh pick must offer exactly the up hosts the policy knows
	// (the sequential clauses of the property, applied to the state the concurrent events led to)
	final := drain(gocql.VerifC11Query("ks", key))
	got := map[int]int{}
	for _, i := range final.offered {
		got[i]++
	}
	for i := range hosts {
		want := 0
		if member[i] && up[i] {
			want = 1
		}
		switch {
		case got[i] > 1:
			vs.Failf("c11:quiescent:host-offered-twice", "after the events, a pick offers h%d %d times: %v [%s]", i, got[i], final.offered, desc)
		case got[i] == 1 && want == 0 && !up[i]:
			vs.Failf("c11:quiescent:down-host-offered", "after the events, a pick offers h%d which is down: %v [%s]", i, final.offered, desc)
		case got[i] == 1 && want == 0:
			vs.Failf("c11:quiescent:removed-host-offered", "after the events, a pick offers h%d which was removed: %v [%s]", i, final.offered, desc)
		case got[i] == 0 && want == 1:
			vs.Failf("c11:quiescent:up-host-never-offered", "after the events, a pick does not offer h%d which is known and up: %v [%s]", i, final.offered, desc)
		}
	}
	if final.nilInfo || final.endless {
		vs.Failf("c11:quiescent:nil-or-endless", "after the events: %+v [%s]", final, desc)
	}
	vs.Observe("nl=%v ks=%d A=%v B=%v picks=%s final=%v", nonLocal, ksKind, sa, sb, strings.Join(sig, ";"), final.offered)
}

func main() {
	var cfgs []*c11cfg
	kinds := []string{"round-robin", "dc-aware", "rack-aware"}
	for k, kn := range kinds {
		cfgs = append(cfgs, &c11cfg{name: kn + "-2mut", kind: k, mutators: 2, picks: 3, t: [2]int{2, 3}})
	}
	for k, kn := range kinds {
		for _, sh := range []bool{false, true} {
			n := "token-aware(" + kn
			if sh {
				n += ",shuffle"
			}
			cfgs = append(cfgs, &c11cfg{name: n + ")-1mut", kind: k, token: true, shuffle: sh, mutators: 1, picks: 2, t: [2]int{2, 3}})
			cfgs = append(cfgs, &c11cfg{name: n + ")-2mut", kind: k, token: true, shuffle: sh, mutators: 2, picks: 2, t: [2]int{1, 2}})
		}
	}
	var defs []mcreport.Def
	for _, c := range cfgs {
		c := c
		b := func(t int) vs.Bounds { return vs.Bounds{P: t, D: t, F: t, T: t} }
		defs = append(defs, mcreport.Def{Name: c.name, Quick: b(c.t[0]), Thorough: b(c.t[1]), Build: func() *vs.Scenario {
			return &vs.Scenario{Name: c.name, Cfg: vs.Config{MaxSteps: 20000, Horizon: time.Second, DelayBounded: true}, Body: c.body}
		}})
	}
	mcreport.Main("C11", "exploration",
		"controlled-scheduler part (safety under concurrent topology changes): delay-bounded exhaustive exploration (every execution departing at most T times from the deterministic default schedule; happens-before state caching) of one picker thread (2-3 Pick(query with routing key) + drain) against 1-2 mutator threads delivering AddHost/RemoveHost/HostDown/HostUp/KeyspaceChanged/SetPartitioner to the real RoundRobin, DCAware, RackAware policies and TokenAwareHostPolicy over each, with and without ShuffleReplicas; free choices (all explored): mutator scripts (4 x 4), NonLocalReplicasFallback on/off, keyspace SimpleStrategy rf 2 / NetworkTopologyStrategy {local:2,remote:1}; oracle: no panic on any thread, no nil iterator, no SelectedHost with nil Info(), iterators finite, no host twice within one iterator; at quiescence a fresh pick offers exactly the up hosts the policy was told about",
		[]string{"4 hosts (2 DCs, 2 racks, one Murmur3 token each), 3 in the cluster at the start; each host's membership/status is changed by one mutator only, so the final state is definite",
			"every sync.Mutex/RWMutex acquisition and every sync/atomic operation of policies.go, host_source.go is a scheduling point; plain memory accesses are not (native -race pass)",
			"math/rand (ShuffleReplicas) is the deterministic per-execution generator of the scheduler"},
		defs, 45*time.Second, 8*time.Minute, nil)
}
