//go:build verif

package gocql

import (
	"errors"
	"math/rand"
	"net"
	"strconv"
)

// In-package accessors for check C11 (no logic of their own).

// VerifC11NewHost builds a host the way the host source fills it in.
func VerifC11NewHost(id int, dc, rack string, up bool, tokens []string) *HostInfo {
	st := NodeUp
	if !up {
		st = NodeDown
	}
	return &HostInfo{
		hostId:         "host-" + strconv.Itoa(id),
		connectAddress: net.IPv4(10, 0, 0, byte(id+1)),
		port:           9042,
		dataCenter:     dc,
		rack:           rack,
		tokens:         tokens,
		state:          st,
	}
}

// VerifC11SetUp is what Session.handleNodeConnected / handleNodeDown do to the host
// before notifying the policy.
func VerifC11SetUp(h *HostInfo, up bool) {
	if up {
		h.setState(NodeUp)
	} else {
		h.setState(NodeDown)
	}
}

// VerifC11InitTokenAware does what tokenAwareHostPolicy.Init(session) does, with a
// keyspace-metadata getter supplied by the harness instead of a live session (the same
// substitution policies_test.go makes). ks == nil means the metadata is unavailable.
func VerifC11InitTokenAware(p HostSelectionPolicy, keyspace string, ks func() *KeyspaceMetadata) bool {
	t, ok := p.(*tokenAwareHostPolicy)
	if !ok {
		return false
	}
	t.getKeyspaceName = func() string { return keyspace }
	t.getKeyspaceMetadata = func(name string) (*KeyspaceMetadata, error) {
		if name != keyspace {
			return nil, errors.New("unknown keyspace " + name)
		}
		if m := ks(); m != nil {
			return m, nil
		}
		return nil, errors.New("keyspace metadata unavailable")
	}
	t.logger = nopLogger{}
	return true
}

// VerifC11Query is a Query for the given keyspace whose routing key is routingKey; with
// routingKey == nil it is a bound query without values, for which GetRoutingKey reports
// "no routing key".
func VerifC11Query(keyspace string, routingKey []byte) ExecutableQuery {
	q := &Query{routingInfo: &queryRoutingInfo{}}
	q.getKeyspace = func() string { return keyspace }
	if routingKey != nil {
		q.RoutingKey(routingKey)
	} else {
		q.binding = func(*QueryInfo) ([]interface{}, error) { return nil, nil }
	}
	return q
}

// VerifC11GocqlReplicas returns the replica list the token-aware policy itself holds for
// the key (diagnostics in violation details only; the oracle does not use it).
func VerifC11GocqlReplicas(p HostSelectionPolicy, keyspace string, routingKey []byte) []*HostInfo {
	t, ok := p.(*tokenAwareHostPolicy)
	if !ok {
		return nil
	}
	meta := t.getMetadataReadOnly()
	if meta == nil || meta.tokenRing == nil {
		return nil
	}
	ht := meta.replicas[keyspace].replicasFor(meta.tokenRing.partitioner.Hash(routingKey))
	if ht == nil {
		return nil
	}
	return ht.hosts
}

// VerifC11SetRandSource replaces the source behind the package's random generator (randr,
// used by shuffleHosts for ShuffleReplicas) so that the overlapping-iterations sub-suite
// can dictate - and enumerate - the outcome of every shuffle. Single-threaded callers only.
func VerifC11SetRandSource(src rand.Source) {
	mutRandr.Lock()
	randr = rand.New(src)
	mutRandr.Unlock()
}
