// C13: retries, idempotence and speculative execution follow the documented contract.
// A real Session (instrumented gocql, no control connection) over three scripted
// nodes; one query per execution. Enumerated: per-attempt outcomes, retry-policy
// decisions (a scripted RetryPolicy whose decisions are choice points), retry
// budget, idempotence, speculative policy, context cancellation, schedules.
package main

import (
	"fmt"
	"strings"
	"time"

	"github.com/gocql/gocql"

	"verif/engine/mcreport"
	"verif/engine/refcql/frame"
	"verif/engine/vnode"
	vs "verif/engine/vsched"
	"verif/engine/vsched/vatomic"
	context "verif/engine/vsched/vcontext"
)

type c13cfg struct {
	name      string
	spec      int    // speculative attempts (0: none)
	builtin   string // "", "simple2", "downgrade"
	cancel    bool
	hosts     int  // default 3
	allDown   bool // every host is reported down before the query
	batch     bool // the request is a batch
	clusterRP bool // the cluster has a retry policy (Simple 2); the request opts out with RetryPolicy(nil)
	outcomes  []string
	t         [2]int
}

type attemptRec struct {
	seq     int
	host    string
	outcome string
	cons    uint16
	at      time.Duration
}

type offerRec struct {
	seq  int
	host string
}

type consultRec struct {
	seq      int
	err      string
	decision gocql.RetryType
}

type c13world struct {
	cfg       *c13cfg
	seq       int
	attempts  []attemptRec
	offers    []offerRec
	consults  []consultRec
	attemptQs int // RetryPolicy.Attempt calls
}

func (w *c13world) next() int { w.seq++; return w.seq }

// recPolicy records every host offered to the executor.
type recPolicy struct {
	gocql.HostSelectionPolicy
	w *c13world
}

func (p recPolicy) Pick(q gocql.ExecutableQuery) gocql.NextHost {
	inner := p.HostSelectionPolicy.Pick(q)
	return func() gocql.SelectedHost {
		h := inner()
		if h != nil && p.w != nil {
			p.w.offers = append(p.w.offers, offerRec{p.w.next(), gocql.VerifHostAddr(h.Info())})
		}
		return h
	}
}

var decisions = []gocql.RetryType{gocql.RetryNextHost, gocql.Retry, gocql.Rethrow, gocql.Ignore, gocql.RetryType(0x7f)}

type scriptRP struct {
	max int
	w   *c13world
}

func (p *scriptRP) Attempt(q gocql.RetryableQuery) bool {
	p.w.attemptQs++
	return q.Attempts() <= p.max
}
func (p *scriptRP) GetRetryType(err error) gocql.RetryType {
	d := decisions[vs.Choose(len(decisions), vs.Free)]
	p.w.consults = append(p.w.consults, consultRec{p.w.next(), fmt.Sprint(err), d})
	return d
}

func (w *c13world) handler(ip string) vnode.Handler {
	return vnode.Basic(func(n *vnode.Node, sc *vnode.ServerConn, rec *vnode.ReqRec) vnode.Reply {
		var cons uint16
		switch m := rec.Req.Msg.(type) {
		case *frame.Query:
			cons = m.Params.Consistency
		case *frame.Batch:
			cons = m.Consistency
		default:
			return vnode.Reply{Msg: frame.ResultVoid{}}
		}
		q := &frame.Query{Params: frame.QueryParams{Consistency: cons}}
		out := w.cfg.outcomes[vs.Choose(len(w.cfg.outcomes), vs.CostF)]
		w.attempts = append(w.attempts, attemptRec{w.next(), ip, out, q.Params.Consistency, vs.Clock()})
		switch out {
		case "unavailable":
			return vnode.Reply{Msg: &frame.Error{Code: 0x1000, Message: "unavailable", Consistency: q.Params.Consistency, Required: 2, Alive: 1}}
		case "readtimeout":
			return vnode.Reply{Msg: &frame.Error{Code: 0x1200, Message: "read timeout", Consistency: q.Params.Consistency, Received: 1, BlockFor: 2, DataPresent: 0}}
		case "writetimeout":
			return vnode.Reply{Msg: &frame.Error{Code: 0x1100, Message: "write timeout", Consistency: q.Params.Consistency, Received: 0, BlockFor: 2, WriteType: "SIMPLE"}}
		case "overloaded":
			return vnode.Reply{Msg: &frame.Error{Code: 0x1001, Message: "overloaded"}}
		case "never":
			return vnode.Reply{Never: true}
		case "late":
			return vnode.Reply{Msg: vnode.TextRows("t", "late@"+ip), Delay: 80 * time.Millisecond}
		case "drop":
			return vnode.Reply{Drop: true}
		}
		return vnode.Reply{Msg: vnode.TextRows("t", "ok@"+ip)}
	})
}

func isErrOutcome(o string) bool { return o != "ok" && o != "late" }

func (c *c13cfg) body() {
	gocql.VerifResetGlobals()
	vatomic.Yield = false
	w := &c13world{cfg: c}
	cl := newCluster(true)
	ips := []string{"10.0.0.1", "10.0.0.2", "10.0.0.3"}
	if c.hosts > 0 {
		ips = ips[:c.hosts]
	}
	for _, ip := range ips {
		cl.add(ip, w.handler(ip))
	}
	cfg := gocql.NewCluster(ips...)
	cfg.ProtoVersion = 4
	cfg.Timeout = 100 * time.Millisecond
	cfg.ConnectTimeout = 100 * time.Millisecond
	cfg.NumConns = 1
	cfg.ReconnectInterval = 0
	cfg.WriteCoalesceWaitTime = 0
	cfg.HostDialer = cl.dialer()
	cfg.PoolConfig.HostSelectionPolicy = recPolicy{gocql.RoundRobinHostPolicy(), w}
	cfg.Consistency = gocql.Quorum
	if c.clusterRP {
		cfg.RetryPolicy = &gocql.SimpleRetryPolicy{NumRetries: 2}
	}
	vs.Quiet(true)
	sess, err := gocql.VerifNewSession(*cfg, true)
	vs.Quiet(false)
	if err != nil {
		vs.Failf("harness:session", "NewSession failed in the quiet prefix: %v", err)
		return
	}

	if c.allDown {
		vs.Quiet(true)
		for _, ip := range ips {
			gocql.VerifMarkHostDown(sess, ip)
		}
		vs.WaitQuiescent()
		vs.Quiet(false)
	}
	// configuration: all alternatives are explored (free choices)
	idem := vs.Choose(2, vs.Free) == 1
	var rp gocql.RetryPolicy
	max := -1
	switch c.builtin {
	case "simple2":
		rp = &gocql.SimpleRetryPolicy{NumRetries: 2}
		max = 2
	case "downgrade":
		rp = &gocql.DowngradingConsistencyRetryPolicy{ConsistencyLevelsToTry: []gocql.Consistency{gocql.One}}
	case "nil-over-cluster":
		// the cluster has SimpleRetryPolicy{2}; the request explicitly opts out with RetryPolicy(nil)
	default:
		max = vs.Choose(4, vs.Free) - 1 // -1: no retry policy; 0..2 retries
		if max >= 0 {
			rp = &scriptRP{max: max, w: w}
		}
	}
	ctx, cancel := context.WithCancel(context.Background())
	q := sess.Query("QUERYX 'x'").WithContext(ctx).Idempotent(idem)
	if rp != nil || c.clusterRP {
		q = q.RetryPolicy(rp)
	}
	var batch *gocql.Batch
	if c.batch {
		batch = sess.NewBatch(gocql.UnloggedBatch).WithContext(ctx)
		batch.Query("QUERYX 'b1'")
		batch.Query("QUERYX 'b2'")
		batch.SetConsistency(gocql.Quorum)
		batch = batch.RetryPolicy(rp)
		if idem {
			batch.Entries[0].Idempotent, batch.Entries[1].Idempotent = true, true
		}
	}
	if c.spec > 0 {
		q = q.SetSpeculativeExecutionPolicy(&gocql.SimpleSpeculativeExecution{NumAttempts: c.spec, TimeoutDelay: 50 * time.Millisecond})
	}
	type res struct {
		rows []string
		err  error
		at   time.Duration
		seq  int
	}
	done := make(chan res, 1)
	vs.GoNamed("caller", func() {
		if batch != nil {
			err := sess.ExecuteBatch(batch)
			var rows []string
			if err == nil {
				for _, a := range w.attempts {
					if !isErrOutcome(a.outcome) {
						rows = []string{"ok@" + a.host}
					}
				}
			}
			vs.Send(done, res{rows, err, vs.Clock(), w.next()})
			return
		}
		it := q.Iter()
		var rows []string
		var s string
		for it.Scan(&s) {
			rows = append(rows, s)
		}
		err := it.Close()
		vs.Send(done, res{rows, err, vs.Clock(), w.next()})
	})
	cancelSeq := 0
	if c.cancel {
		vs.GoNamed("canceller", func() {
			cancelSeq = w.next()
			cancel()
		})
	}
	r := vs.Recv[res](done)
	vs.WaitQuiescent()
	cls := gocql.VerifErrClass(r.err)

	// ---- oracle
	desc := func() string {
		var b []string
		for _, a := range w.attempts {
			b = append(b, fmt.Sprintf("#%d attempt %s=%s", a.seq, a.host, a.outcome))
		}
		for _, o := range w.offers {
			b = append(b, fmt.Sprintf("#%d offer %s", o.seq, o.host))
		}
		for _, k := range w.consults {
			b = append(b, fmt.Sprintf("#%d decision %#x for %q", k.seq, uint16(k.decision), k.err))
		}
		return fmt.Sprintf("idempotent=%v retries=%d spec=%d builtin=%q result=%s rows=%v [%s]", idem, max, c.spec, c.builtin, cls, r.rows, strings.Join(b, "; "))
	}
	n := len(w.attempts)
	// exactly one result was delivered (the channel has capacity 1 and the caller returned once); its content:
	if r.err == nil {
		okSeen := false
		for _, a := range w.attempts {
			if !isErrOutcome(a.outcome) && len(r.rows) == 1 && strings.HasSuffix(r.rows[0], "@"+a.host) {
				okSeen = true
			}
		}
		if !okSeen {
			vs.Failf("c13:result-from-nowhere", "caller got rows %v that no attempt produced: %s", r.rows, desc())
		}
	}
	// every attempt goes to the most recently offered host
	for _, a := range w.attempts {
		last := ""
		for _, o := range w.offers {
			if o.seq < a.seq {
				last = o.host
			}
		}
		if c.spec == 0 && a.host != last {
			vs.Failf("c13:attempt-on-unoffered-host", "attempt on %s but the policy's latest offer was %q: %s", a.host, last, desc())
		}
	}
	// non-idempotent queries: never speculative, never retried (documentation: doc.go 'Retries and speculative execution')
	if !idem {
		if n > 1 {
			key := "c13:non-idempotent-query-retried"
			if c.spec > 0 && rp == nil {
				key = "c13:non-idempotent-query-speculated"
			}
			vs.Failf(key, "a query not marked idempotent reached servers %d times: %s", n, desc())
		}
	}
	// whenever at least one attempt was made, an error is the last attempt's - never the executor's own
	// "no hosts available" (that one is for a query that could not be attempted at all)
	if n > 0 && c.spec == 0 && cls == "no-connections" {
		vs.Failf("c13:error-not-last-attempts", "%d attempt(s) were made but the caller got ErrNoConnections instead of the last attempt's error: %s", n, desc())
	}
	if rp == nil && c.spec == 0 && n > 1 {
		vs.Failf("c13:retried-without-retry-policy", "the request has no retry policy (explicit RetryPolicy(nil) over the cluster's: %v) but reached servers %d times: %s", c.clusterRP, n, desc())
	}
	_, dDev, _ := vs.Deviations()
	if c.spec == 0 && c.builtin == "" {
		// sequential executor: replay the contract step by step. What the CLIENT observed for an attempt
		// is the error handed to the policy (or the final result); the node's fate can differ from it only
		// through timing (a reply overtaken by the request timeout).
		budget := 1
		if rp != nil {
			budget = 1 + max
		}
		if n > budget {
			vs.Failf("c13:too-many-attempts", "%d attempts, policy allows %d: %s", n, budget, desc())
		}
		for i, a := range w.attempts {
			if i == n-1 {
				continue
			}
			// another attempt followed: the policy must have been consulted about this one and said Retry / RetryNextHost
			var dec *consultRec
			for k := range w.consults {
				if w.consults[k].seq > a.seq && w.consults[k].seq < w.attempts[i+1].seq {
					dec = &w.consults[k]
				}
			}
			if rp == nil || dec == nil {
				vs.Failf("c13:retry-without-policy-decision", "attempt %d was followed by attempt %d without a retry decision: %s", i, i+1, desc())
				continue
			}
			offeredBetween := false
			for _, o := range w.offers {
				if o.seq > a.seq && o.seq < w.attempts[i+1].seq {
					offeredBetween = true
				}
			}
			switch dec.decision {
			case gocql.Retry:
				// same host, unless that host lost its connection (then the executor moves on: "no connection to host")
				lostConn := a.outcome == "drop" || strings.Contains(dec.err, "EOF") || strings.Contains(dec.err, "closed")
				if (w.attempts[i+1].host != a.host || offeredBetween) && !lostConn {
					vs.Failf("c13:retry-went-elsewhere", "decision Retry after attempt %d on %s but the next attempt went to %s: %s", i, a.host, w.attempts[i+1].host, desc())
				}
			case gocql.RetryNextHost:
				if !offeredBetween {
					vs.Failf("c13:retry-next-host-stayed", "decision RetryNextHost after attempt %d but no new host was requested from the policy: %s", i, desc())
				}
			default:
				vs.Failf("c13:attempt-after-stop-decision", "decision %#x after attempt %d but another attempt followed: %s", uint16(dec.decision), i, desc())
			}
		}
		// the error returned is the last attempt's (timing-free executions only: with an early timer the
		// client may have seen a timeout where the node answered)
		if n > 0 && r.err != nil && cls != "ctx-canceled" && dDev == 0 {
			last := w.attempts[n-1]
			want := map[string]string{"unavailable": "server-error", "readtimeout": "server-error", "writetimeout": "server-error", "overloaded": "server-error", "never": "timeout", "drop": "*"}[last.outcome]
			unknown := len(w.consults) > 0 && w.consults[len(w.consults)-1].decision == gocql.RetryType(0x7f) && w.consults[len(w.consults)-1].seq > last.seq
			switch {
			case unknown:
				if !strings.Contains(r.err.Error(), "unknown retry type") {
					vs.Failf("c13:unknown-decision-not-reported", "policy returned an unknown retry type but the caller got %v: %s", r.err, desc())
				}
			case !isErrOutcome(last.outcome):
				vs.Failf("c13:error-after-success", "last attempt succeeded but the caller got %v: %s", r.err, desc())
			case want != "*" && cls != want:
				vs.Failf("c13:error-not-last-attempts", "caller got %v (%s) but the last attempt's outcome was %s: %s", r.err, cls, last.outcome, desc())
			}
		}
	}
	if c.builtin == "simple2" && idem && c.spec == 0 {
		if n > 3 {
			vs.Failf("c13:too-many-attempts", "SimpleRetryPolicy{2}: %d attempts: %s", n, desc())
		}
		// SimpleRetryPolicy always answers RetryNextHost: consecutive attempts go to different offers
		for i := 0; i+1 < n; i++ {
			if isErrOutcome(w.attempts[i].outcome) && w.attempts[i+1].host == w.attempts[i].host {
				vs.Failf("c13:simple-policy-same-host", "SimpleRetryPolicy retried on the same host %s: %s", w.attempts[i].host, desc())
			}
		}
		if n < 3 && n > 0 && isErrOutcome(w.attempts[n-1].outcome) && cls != "ctx-canceled" && cls != "no-connections" {
			// fewer than 3 attempts although all failed and hosts remained
			if len(w.offers) < 3 {
				vs.Failf("c13:simple-policy-gave-up-early", "SimpleRetryPolicy{2} stopped after %d failed attempts: %s", n, desc())
			}
		}
	}
	if c.spec > 0 {
		perExec := 1
		if rp != nil && max >= 0 {
			perExec = 1 + max
		}
		if c.builtin == "simple2" {
			perExec = 3
		}
		if idem && n > (1+c.spec)*perExec {
			vs.Failf("c13:too-many-attempts", "%d sends, policies allow %d executions x %d attempts: %s", n, 1+c.spec, perExec, desc())
		}
	}
	// cancellation stops further attempts: once the caller has returned with the context's error the executor
	// asks for no further host and takes no further retry decision (an attempt already in flight may still be written)
	if cls == "ctx-canceled" {
		for _, a := range w.attempts {
			if a.seq < r.seq {
				continue
			}
			// was this attempt initiated after the caller had returned? Its host was last offered after the return
			// (another execution may be offered other hosts meanwhile without sending anything), or a retry on
			// that host was decided after the return
			started := false
			lastOffer := 0
			for _, o := range w.offers {
				if o.host == a.host && o.seq < a.seq && o.seq > lastOffer {
					lastOffer = o.seq
				}
			}
			if lastOffer > r.seq {
				started = true
			}
			for _, k := range w.consults {
				if k.seq > r.seq && k.seq < a.seq && k.decision == gocql.Retry {
					started = true
				}
			}
			if started {
				vs.Failf("c13:attempt-after-cancel", "an attempt initiated after the caller returned context.Canceled reached a server: %s", desc())
			}
		}
	}
	_ = cancelSeq
	// no executor goroutine is left behind (threads are named after the function that spawned them)
	for _, t := range vs.LiveThreads() {
		if strings.Contains(t, "queryExecutor") {
			vs.Failf("c13:leaked-goroutine", "executor thread %s is still alive at quiescence after the query returned: %s", t, desc())
		}
	}
	var sig []string
	for _, a := range w.attempts {
		sig = append(sig, a.host[len(a.host)-1:]+a.outcome)
	}
	vs.Observe("idem=%v max=%d res=%s attempts=%s", idem, max, cls, strings.Join(sig, ","))
	vs.Quiet(true)
	sess.Close()
	vs.Quiet(false)
}

func (c *c13cfg) build() *vs.Scenario {
	return &vs.Scenario{Name: c.name, Cfg: vs.Config{MaxSteps: 60000, Horizon: 900 * time.Millisecond, DelayBounded: true}, Body: c.body}
}

func main() {
	errs := []string{"ok", "unavailable", "readtimeout", "writetimeout", "overloaded", "never", "drop"}
	cfgs := []*c13cfg{
		{name: "scripted-policy-sequential", outcomes: errs, t: [2]int{2, 3}},
		{name: "scripted-policy-1host", hosts: 1, outcomes: []string{"ok", "drop", "unavailable", "never"}, t: [2]int{2, 3}},
		{name: "nil-policy-over-cluster-policy-query", builtin: "nil-over-cluster", clusterRP: true, outcomes: []string{"ok", "unavailable", "never"}, t: [2]int{2, 3}},
		{name: "nil-policy-over-cluster-policy-batch", builtin: "nil-over-cluster", clusterRP: true, batch: true, outcomes: []string{"ok", "unavailable", "never"}, t: [2]int{2, 3}},
		{name: "batch-scripted-policy", batch: true, outcomes: []string{"ok", "unavailable", "writetimeout", "never"}, t: [2]int{2, 3}},
		{name: "speculative-all-hosts-down", spec: 1, allDown: true, outcomes: []string{"ok"}, t: [2]int{1, 2}},
		{name: "sequential-all-hosts-down", allDown: true, outcomes: []string{"ok"}, t: [2]int{1, 2}},
		{name: "scripted-policy-cancel", outcomes: []string{"ok", "unavailable", "never"}, cancel: true, t: [2]int{2, 3}},
		{name: "simple2-builtin", builtin: "simple2", outcomes: []string{"ok", "unavailable", "never", "drop"}, t: [2]int{2, 3}},
		{name: "speculative-1", spec: 1, outcomes: []string{"ok", "late", "never", "unavailable"}, t: [2]int{2, 3}},
		{name: "speculative-2-simple2", spec: 2, builtin: "simple2", outcomes: []string{"ok", "late", "never", "unavailable"}, t: [2]int{2, 3}},
		{name: "speculative-1-cancel", spec: 1, cancel: true, outcomes: []string{"ok", "late", "never"}, t: [2]int{2, 3}},
	}
	var defs []mcreport.Def
	for _, c := range cfgs {
		c := c
		b := func(t int) vs.Bounds { return vs.Bounds{P: t, D: t, F: t, T: t} }
		defs = append(defs, mcreport.Def{Name: c.name, Build: c.build, Quick: b(c.t[0]), Thorough: b(c.t[1])})
	}
	mcreport.Main("C13", "model_checking",
		"delay-bounded exhaustive exploration of one query on a real Session over three scripted nodes: configuration choices (idempotent or not, retry budget -1..2, every decision of a scripted RetryPolicy among Retry/RetryNextHost/Rethrow/Ignore/unknown) are free choice points (all explored); per-attempt outcomes (ok, Unavailable, ReadTimeout, WriteTimeout, Overloaded, no reply -> timeout, connection dropped, late reply) cost F, schedule/timer deviations cost P/D, total <= T; node logs and policy consultations are replayed against the documented contract",
		[]string{"3 hosts, 1 connection each, round-robin policy wrapped by a recorder; request timeout 100ms; speculative delay 50ms; no control connection",
			"stream-allocator atomics are not scheduling points (C08); map iteration order fixed; -race pass separate"},
		defs, 75*time.Second, 25*time.Minute, nil)
}
