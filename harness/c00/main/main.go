package main

import (
	"fmt"
	"os"

	"github.com/gocql/gocql"
	"verif/engine/enum"
	"verif/engine/report"
)

func main() {
	r := report.New("C00", "exploration")
	r.SetRule("smoke: 3 hex digits enumerated into a uuid string")
	hex := "0f8"
	enum.All(func(c *enum.Ctx) bool {
		a, b := hex[c.Choose(3)], hex[c.Choose(3)]
		s := fmt.Sprintf("%c%c000000-0000-0000-0000-000000000000", a, b)
		u, err := gocql.VerifSmokeParse(s)
		r.Case(s, err == nil)
		if err != nil || u.String() != s {
			r.Violation("smoke", s, s)
		}
		r.Sample(s)
		return true
	})
	os.Exit(r.Finish(true))
}
