//go:build verif

package gocql

// VerifSmokeParse exposes an internal for the pipeline smoke test.
func VerifSmokeParse(s string) (UUID, error) { return ParseUUID(s) }
