//go:build verif

package gocql

// Glue between the model-checking harnesses (package main of each worker) and
// gocql's internals. This file is instrumented together with gocql.

import (
	"context"
	"net"

	"github.com/gocql/gocql/internal/lru"
)

type VerifNopLogger struct{}

func (VerifNopLogger) Print(v ...interface{})                 {}
func (VerifNopLogger) Printf(format string, v ...interface{}) {}
func (VerifNopLogger) Println(v ...interface{})               {}

// VerifDialFunc adapts a function to HostDialer.
type VerifDialFunc struct {
	Fn              func(ctx context.Context, host *HostInfo) (net.Conn, error)
	DisableCoalesce bool
}

func (d VerifDialFunc) DialHost(ctx context.Context, host *HostInfo) (*DialedHost, error) {
	c, err := d.Fn(ctx, host)
	if err != nil {
		return nil, err
	}
	return &DialedHost{Conn: c, DisableCoalesce: d.DisableCoalesce}, nil
}

// VerifResetGlobals restores package-level mutable state before an execution.
func VerifResetGlobals() {
	if r, ok := interface{}(queryPool).(interface{ Reset() }); ok {
		r.Reset()
	}
	TimeoutLimit = 0
}

// VerifLive is a real *Conn made by the real handshake, attached to a Session
// built as NewSession does up to (not including) Session.init.
type VerifLive struct {
	S      *Session
	C      *Conn
	Errors []string // error-handler callbacks: "closed=<bool> err"
}

func VerifBareSession(cfg ClusterConfig) (*Session, error) {
	if cfg.Logger == nil {
		cfg.Logger = VerifNopLogger{}
	}
	ctx, cancel := context.WithCancel(context.Background())
	s := &Session{
		cons:           cfg.Consistency,
		prefetch:       0.25,
		cfg:            cfg,
		pageSize:       cfg.PageSize,
		stmtsLRU:       &preparedLRU{lru: lru.New(cfg.MaxPreparedStmts)},
		ctx:            ctx,
		cancel:         cancel,
		logger:         cfg.logger(),
		streamObserver: cfg.StreamObserver,
		frameObserver:  cfg.FrameHeaderObserver,
	}
	connCfg, err := connConfig(&s.cfg)
	if err != nil {
		cancel()
		return nil, err
	}
	s.connCfg = connCfg
	return s, nil
}

// VerifDial performs the real connection handshake over clientEnd.
func VerifDial(clientEnd net.Conn, cfg ClusterConfig, disableCoalesce bool) (*VerifLive, error) {
	cfg.HostDialer = VerifDialFunc{Fn: func(context.Context, *HostInfo) (net.Conn, error) { return clientEnd, nil }, DisableCoalesce: disableCoalesce}
	s, err := VerifBareSession(cfg)
	if err != nil {
		return nil, err
	}
	l := &VerifLive{S: s}
	host := &HostInfo{hostId: "verif-host-1", connectAddress: net.IPv4(10, 0, 0, 1), port: 9042}
	c, err := s.connect(s.ctx, host, connErrorHandlerFn(func(conn *Conn, err error, closed bool) {
		l.Errors = append(l.Errors, errString(closed, err))
	}))
	if err != nil {
		s.cancel()
		return nil, err
	}
	l.C = c
	return l, nil
}

func errString(closed bool, err error) string {
	if closed {
		return "closed: " + err.Error()
	}
	return "open: " + err.Error()
}

// Query creates a query with the public API, pinned to the live connection.
func (l *VerifLive) Query(ctx context.Context, stmt string, values ...interface{}) *Query {
	q := l.S.Query(stmt, values...).WithContext(ctx)
	q.conn = l.C
	return q
}

// Exec runs a frame builder that fails to build (C06: frame build failure fate).
func (l *VerifLive) ExecBuildFailure(ctx context.Context) error {
	_, err := l.C.exec(ctx, verifBadFrame{}, nil)
	return err
}

type verifBadFrame struct{}

func (verifBadFrame) buildFrame(framer *framer, streamID int) error {
	return NewErrProtocol("verif: frame build failure")
}

func (l *VerifLive) AvailableStreams() int { return l.C.AvailableStreams() }
func (l *VerifLive) NumStreams() int       { return l.C.streams.NumStreams }
func (l *VerifLive) ConnClosed() bool      { return l.C.Closed() }

// OutstandingCalls is the number of entries in the connection's call table
// (read without the lock: all threads are parked when the harness runs).
func (l *VerifLive) OutstandingCalls() int { return len(l.C.calls) }

// ReserveStreams takes n stream ids out of the allocator (quiet setup for
// exhaustion / reuse scenarios) and returns them.
func (l *VerifLive) ReserveStreams(n int) []int {
	var ids []int
	for i := 0; i < n; i++ {
		id, ok := l.C.streams.GetStream()
		if !ok {
			break
		}
		ids = append(ids, id)
	}
	return ids
}

func (l *VerifLive) ReleaseStream(id int) bool { return l.C.streams.Clear(id) }

func (l *VerifLive) Close() {
	l.C.Close()
	l.S.cancel()
}

// VerifIsTimeout etc. classify errors for oracles.
func VerifErrClass(err error) string {
	switch {
	case err == nil:
		return "ok"
	case err == ErrTimeoutNoResponse:
		return "timeout"
	case err == ErrConnectionClosed:
		return "conn-closed"
	case err == ErrNoStreams:
		return "no-streams"
	case err == context.Canceled:
		return "ctx-canceled"
	case err == context.DeadlineExceeded:
		return "ctx-deadline"
	case err == ErrSessionClosed:
		return "session-closed"
	case err == ErrNoConnections:
		return "no-connections"
	}
	if _, ok := err.(RequestError); ok {
		return "server-error"
	}
	return "other:" + err.Error()
}

// VerifNewSession is NewSession with the unexported test switch for the control connection.
func VerifNewSession(cfg ClusterConfig, disableControlConn bool) (*Session, error) {
	cfg.disableControlConn = disableControlConn
	if cfg.Logger == nil {
		cfg.Logger = VerifNopLogger{}
	}
	return NewSession(cfg)
}

// VerifPoolSizes returns host address -> number of connections in its pool.
func VerifPoolSizes(s *Session) map[string]int {
	out := map[string]int{}
	for _, p := range s.pool.hostConnPools {
		out[p.host.ConnectAddress().String()] = len(p.conns)
	}
	return out
}

func VerifHostAddr(h *HostInfo) string {
	if h == nil {
		return "<nil>"
	}
	return h.ConnectAddress().String()
}

func VerifPreparedLen(s *Session) int { return s.stmtsLRU.lru.Len() }

// VerifPools describes every host pool: address -> (configured size, connections, how many of them are closed, closed flag).
type VerifPoolInfo struct {
	Addr       string
	Size       int
	Conns      int
	ClosedConn int
	PoolClosed bool
	Filling    bool
	HostUp     bool // the session considers the host up (a host convicted down is not refilled until it is reported up again)
}

func VerifPools(s *Session) []VerifPoolInfo {
	var out []VerifPoolInfo
	if s.pool == nil {
		return out
	}
	for _, p := range s.pool.hostConnPools {
		pi := VerifPoolInfo{Addr: p.host.ConnectAddress().String(), Size: p.size, Conns: len(p.conns), PoolClosed: p.closed, Filling: p.filling, HostUp: p.host.IsUp()}
		for _, c := range p.conns {
			if c.closed {
				pi.ClosedConn++
			}
		}
		out = append(out, pi)
	}
	return out
}

// VerifRemoveHost runs Session.removeHost for the host with the given address (as a refresh would).
func VerifRemoveHost(s *Session, ip string) bool {
	for _, h := range s.ring.allHosts() {
		if h.ConnectAddress().String() == ip {
			s.removeHost(h)
			return true
		}
	}
	return false
}

func VerifDebounceRingRefresh(s *Session) { s.debounceRingRefresh() }
func VerifRefreshRing(s *Session) error   { return s.refreshRing() }

// VerifRing is a snapshot of the three ring indexes and the policy/pool views.
type VerifRing struct {
	Hosts    map[string]string // host id -> connect address
	States   map[string]bool   // host id -> up
	IPToUUID map[string]string
	HostList []string // host ids in list order
	PoolIDs  []string // host ids that have a pool
}

func VerifRingSnapshot(s *Session) VerifRing {
	r := VerifRing{Hosts: map[string]string{}, States: map[string]bool{}, IPToUUID: map[string]string{}}
	for id, h := range s.ring.hosts {
		if h == nil {
			r.Hosts[id] = "<nil>"
			continue
		}
		r.Hosts[id] = h.connectAddress.String()
		r.States[id] = h.state == NodeUp
	}
	for ip, id := range s.ring.hostIPToUUID {
		r.IPToUUID[ip] = id
	}
	for _, h := range s.ring.hostList {
		r.HostList = append(r.HostList, h.hostId)
	}
	if s.pool != nil {
		for id := range s.pool.hostConnPools {
			r.PoolIDs = append(r.PoolIDs, id)
		}
	}
	return r
}

// VerifWriteRec is one call of the connection's contextWriter as the request path saw it.
type VerifWriteRec struct {
	Data []byte
	N    int
	Err  error
	Ctx  bool // Err is the context's error
	// CtxEndedAtEntry: the request's context had already ended when writeContext was called
	CtxEndedAtEntry bool
}

type verifRecWriter struct {
	inner contextWriter
	log   *[]VerifWriteRec
}

func (w *verifRecWriter) writeContext(ctx context.Context, p []byte) (int, error) {
	endedAtEntry := ctx.Err() != nil
	n, err := w.inner.writeContext(ctx, p)
	*w.log = append(*w.log, VerifWriteRec{Data: append([]byte(nil), p...), N: n, Err: err, Ctx: err != nil && (err == context.Canceled || err == context.DeadlineExceeded), CtxEndedAtEntry: endedAtEntry})
	return n, err
}

// RecordWrites wraps the connection's writer (direct or coalescing) so that what each
// request was told about its write can be compared with the bytes on the wire.
func (l *VerifLive) RecordWrites() *[]VerifWriteRec {
	log := &[]VerifWriteRec{}
	l.C.w = &verifRecWriter{inner: l.C.w, log: log}
	return log
}

// VerifDebouncer drives a real eventDebouncer: Debounce(tag) hands it a status-change frame carrying tag;
// every batch the debouncer dispatches is reported to the callback as the list of tags.
type VerifDebouncer struct{ d *eventDebouncer }

func VerifNewEventDebouncer(cb func(tags []string)) *VerifDebouncer {
	d := newEventDebouncer("verif", func(frames []frame) {
		var tags []string
		for _, f := range frames {
			if s, ok := f.(*statusChangeEventFrame); ok {
				tags = append(tags, s.change)
			} else {
				tags = append(tags, "?")
			}
		}
		cb(tags)
	}, VerifNopLogger{})
	return &VerifDebouncer{d}
}

func (v *VerifDebouncer) Debounce(tag string) { v.d.debounce(&statusChangeEventFrame{change: tag}) }
func (v *VerifDebouncer) Stop()               { v.d.stop() }

// VerifMarkHostDown delivers a DOWN status for the host with the given address, as the event path would.
func VerifMarkHostDown(s *Session, ip string) {
	for _, h := range s.ring.allHosts() {
		if h.ConnectAddress().String() == ip {
			h.setState(NodeDown)
			s.policy.HostDown(h)
			s.pool.removeHost(h.HostID())
		}
	}
}

// VerifStartPoolFill runs Session.startPoolFill for the host with the given address, as an UP event and
// the reconnect tick for downed hosts do.
func VerifStartPoolFill(s *Session, ip string) bool {
	for _, h := range s.ring.allHosts() {
		if h.ConnectAddress().String() == ip {
			s.startPoolFill(h)
			return true
		}
	}
	return false
}

// VerifHostAddrPort is the host's connect address WITH its port ("ip:port"): what a dialer that serves several
// nodes on one IP address (port-mapped NAT, local clusters) has to route by.
func VerifHostAddrPort(h *HostInfo) string {
	if h == nil {
		return "<nil>"
	}
	return (&net.TCPAddr{IP: h.ConnectAddress(), Port: h.Port()}).String()
}
