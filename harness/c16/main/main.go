// C16: the driver's picture of the cluster follows what the cluster reports.
// Every history (up to a depth bound) over an alphabet of topology changes,
// status events, control-connection loss, refresh failure and queries is applied
// to a real Session (instrumented gocql) whose control connection reads the
// system tables of scripted nodes; after each event the system settles (virtual
// time) and the ring indexes, pools, host states and offered hosts are compared
// with a reference model fed the same history.
package main

import (
	"fmt"
	"os"
	"sort"
	"strings"
	"time"

	"github.com/gocql/gocql"

	"verif/engine/mcreport"
	"verif/engine/refcql/frame"
	"verif/engine/vnode"
	vs "verif/engine/vsched"
	"verif/engine/vsched/vatomic"
	context "verif/engine/vsched/vcontext"
)

type c16cfg struct {
	name     string
	events   []string        // alphabet
	depth    [2]int          // history length quick/thorough
	distinct bool            // nodes have a node-to-node (peer/broadcast) address different from their rpc address
	burst    bool            // each step is a burst of two events with a gap, optionally with a slow system.peers read
	gaps     []time.Duration // burst gaps (default 0, 1.2s, 2.1s; nil also enumerates a slow system.peers read)
	t        [2]int          // schedule/timer deviations on top (total)
}

type recPolicy16 struct {
	gocql.HostSelectionPolicy
	offers *[]string
}

func (p recPolicy16) Pick(q gocql.ExecutableQuery) gocql.NextHost {
	inner := p.HostSelectionPolicy.Pick(q)
	return func() gocql.SelectedHost {
		h := inner()
		if h != nil {
			if h.Info() == nil {
				*p.offers = append(*p.offers, "<nil>")
			} else {
				*p.offers = append(*p.offers, gocql.VerifHostAddr(h.Info()))
			}
		}
		return h
	}
}

var (
	hA  = vhost{id: hostUUID(1), ip: "10.0.0.1", dc: "dc1", rack: "r1", tokens: []string{"1000"}}
	hB  = vhost{id: hostUUID(2), ip: "10.0.0.2", dc: "dc1", rack: "r1", tokens: []string{"2000"}}
	hC  = vhost{id: hostUUID(3), ip: "10.0.0.3", dc: "dc1", rack: "r2", tokens: []string{"3000"}}
	hB4 = vhost{id: hostUUID(2), ip: "10.0.0.4", dc: "dc1", rack: "r1", tokens: []string{"2000"}} // B after an address change
	hD  = vhost{id: hostUUID(4), ip: "10.0.0.2", dc: "dc1", rack: "r1", tokens: []string{"4000"}} // a new node on B's address
	hX  = vhost{id: hostUUID(5), ip: "10.0.0.5", dc: "dc1", rack: "r1", noTok: true}              // invalid peer row
	hE  = vhost{id: hostUUID(6), ip: "10.0.0.4", dc: "dc1", rack: "r2", tokens: []string{"6000"}} // another joining node
)

// withPeer gives a host a node-to-node address distinct from its rpc address.
func withPeer(h vhost, distinct bool) vhost {
	if distinct {
		h.peerIP = strings.Replace(h.ip, "10.0.0.", "10.1.0.", 1)
	}
	return h
}

func has(v *cview, id, ip string) bool {
	for _, h := range v.hosts {
		if h.id == id && h.ip == ip {
			return true
		}
	}
	return false
}

func without(v *cview, id string) {
	var out []vhost
	for _, h := range v.hosts {
		if h.id != id {
			out = append(out, h)
		}
	}
	v.hosts = out
}

// valid nodes of a view: id -> ip (invalid rows dropped, duplicates collapsed)
func validOf(v *cview) map[string]string {
	m := map[string]string{}
	for _, h := range v.hosts {
		if !h.noTok {
			m[h.id] = h.ip
		}
	}
	return m
}

func ipBytes(ip string) []byte {
	var a, b, c, d byte
	fmt.Sscanf(ip, "%d.%d.%d.%d", &a, &b, &c, &d)
	return []byte{a, b, c, d}
}

// debouncerBody: the event debouncer must hand every frame it was given to the dispatch callback exactly
// once and in order, whatever the interleaving of arrivals with the flush (all interleavings, P unbounded).
func debouncerBody() {
	gocql.VerifResetGlobals()
	var got []string
	d := gocql.VerifNewEventDebouncer(func(tags []string) {
		got = append(got, tags...)
	})
	done := make(chan struct{}, 2)
	vs.GoNamed("arrivals-1", func() {
		d.Debounce("e1")
		vs.Sleep(time.Second) // the debounce period: e2 arrives at the instant the first batch is flushed
		d.Debounce("e2")
		vs.Send(done, struct{}{})
	})
	vs.GoNamed("arrivals-2", func() {
		vs.Sleep(time.Second)
		d.Debounce("e3")
		vs.Sleep(2500 * time.Millisecond)
		d.Debounce("e4")
		vs.Send(done, struct{}{})
	})
	vs.Recv[struct{}](done)
	vs.Recv[struct{}](done)
	vs.Settle(3 * time.Second)
	d.Stop()
	want := map[string]int{"e1": 1, "e2": 1, "e3": 1, "e4": 1}
	seen := map[string]int{}
	for _, t := range got {
		seen[t]++
	}
	for t, n := range want {
		if seen[t] != n {
			vs.Failf("c16:event-debouncer:frame-lost-or-duplicated", "frame %s was dispatched %d times (dispatched in all: %v)", t, seen[t], got)
		}
	}
	for t := range seen {
		if want[t] == 0 {
			vs.Failf("c16:event-debouncer:unknown-frame-dispatched", "dispatched %v", got)
		}
	}
	pos := map[string]int{}
	for i, t := range got {
		pos[t] = i
	}
	if seen["e1"] == 1 && seen["e2"] == 1 && pos["e1"] > pos["e2"] {
		vs.Failf("c16:event-debouncer:frames-reordered", "e2 (debounced 1s after e1 by the same goroutine) was dispatched before e1: %v", got)
	}
	vs.Observe("%v", got)
}

func (c *c16cfg) body(depth int) {
	if c.name == "event-debouncer-delivers-every-frame" {
		debouncerBody()
		return
	}
	gocql.VerifResetGlobals()
	vatomic.Yield = false
	cl := newCluster(true)
	view := &cview{hosts: []vhost{hA, hB}}
	if c.distinct {
		for i := range view.hosts {
			view.hosts[i].peerIP = strings.Replace(view.hosts[i].ip, "10.0.0.", "10.1.0.", 1)
		}
	}
	var peersLog, localLog []string
	failNext := false
	var peersDelay time.Duration
	oddHeartbeat := false // the next OPTIONS on a control (registered) connection is answered with READY
	nodes := map[string]*sysnode{}
	for _, ip := range []string{"10.0.0.1", "10.0.0.2", "10.0.0.3", "10.0.0.4", "10.0.0.5"} {
		sn := &sysnode{cl: cl, view: func() *cview { return view }, self: ip, peersLog: &peersLog, localLog: &localLog,
			peersDelay: func() time.Duration { return peersDelay },
			optionsReply: func(sc *vnode.ServerConn) interface{} {
				if !oddHeartbeat {
					return nil
				}
				for _, sn := range nodes {
					for _, reg := range sn.registered {
						if reg == sc {
							oddHeartbeat = false
							return frame.Ready{}
						}
					}
				}
				return nil
			},
			failPeers: func() bool {
				if failNext {
					failNext = false
					return true
				}
				return false
			},
			next: func(n *vnode.Node, sc *vnode.ServerConn, rec *vnode.ReqRec) vnode.Reply {
				if _, ok := rec.Req.Msg.(*frame.Query); ok {
					return vnode.Reply{Msg: vnode.TextRows("t", "ok")}
				}
				return vnode.Reply{Msg: frame.ResultVoid{}}
			}}
		nodes[ip] = sn
		cl.add(ip, sn.wrapRegister(sn.handler()))
	}
	var offers []string
	cfg := gocql.NewCluster("10.0.0.1")
	cfg.ProtoVersion = 4
	cfg.Timeout = 100 * time.Millisecond
	if c.burst {
		cfg.Timeout = 3 * time.Second // a slow (1.5s) system.peers read must not time out
	}
	cfg.ConnectTimeout = 100 * time.Millisecond
	cfg.NumConns = 1
	cfg.ReconnectInterval = 0
	cfg.WriteCoalesceWaitTime = 0
	cfg.HostDialer = cl.dialer()
	cfg.PoolConfig.HostSelectionPolicy = recPolicy16{gocql.RoundRobinHostPolicy(), &offers}
	vs.Quiet(true)
	sess, err := gocql.VerifNewSession(*cfg, false)
	if err != nil {
		vs.Quiet(false)
		vs.Failf("harness:session", "NewSession failed in the quiet prefix: %v", err)
		return
	}
	vs.Settle(500 * time.Millisecond)
	vs.Quiet(false)

	// reference model
	known := validOf(view) // id -> ip, as last reported by a successful refresh
	down := map[string]bool{}
	var hist []string
	ctl := func() *sysnode { // the node currently holding the control connection
		for _, sn := range nodes {
			for _, sc := range sn.registered {
				if !sc.C.Closed() && !sc.C.PeerClosed() {
					return sn
				}
			}
		}
		return nil
	}
	pushTopo := func(change, ip string) {
		if sn := ctl(); sn != nil {
			sn.push(&frame.EventTopologyChange{Change: change, Addr: ipBytes(ip), Port: 9042})
		}
	}
	pushStatus := func(change, ip string) {
		if sn := ctl(); sn != nil {
			sn.push(&frame.EventStatusChange{Change: change, Addr: ipBytes(ip), Port: 9042})
		}
	}

	check := func(ev string) {
		where := fmt.Sprintf("after history %v (cluster view %s)", hist, view)
		snap := gocql.VerifRingSnapshot(sess)
		// I1: the three indexes agree
		for id, addr := range snap.Hosts {
			if addr == "<nil>" {
				vs.Failf("c16:nil-host-in-ring", "ring.hosts[%s] is nil %s", id, where)
				continue
			}
			n := 0
			for _, l := range snap.HostList {
				if l == id {
					n++
				}
			}
			if n != 1 {
				vs.Failf("c16:ring-index-mismatch:host-list", "host %s@%s is %d times in the ring's host list %s; snapshot %+v", id[len(id)-2:], addr, n, where, snap)
			}
			if got, ok := snap.IPToUUID[addr]; !ok {
				vs.Failf("c16:ring-index-mismatch:address-unmapped", "host %s is in the ring at %s but lookup by that address finds nothing %s; snapshot %+v", id[len(id)-2:], addr, where, snap)
			} else if got != id {
				vs.Failf("c16:ring-index-mismatch:address-maps-to-other-host", "address %s maps to host %s but the ring holds %s there %s; snapshot %+v", addr, got[len(got)-2:], id[len(id)-2:], where, snap)
			}
		}
		for ip, id := range snap.IPToUUID {
			if _, ok := snap.Hosts[id]; !ok {
				vs.Failf("c16:ring-index-mismatch:dangling-address", "address %s maps to host %s which is not in the ring %s; snapshot %+v", ip, id[len(id)-2:], where, snap)
			}
		}
		if len(snap.HostList) != len(snap.Hosts) {
			vs.Failf("c16:ring-index-mismatch:host-list", "host list has %d entries, ring has %d hosts %s; snapshot %+v", len(snap.HostList), len(snap.Hosts), where, snap)
		}
		// I2: known hosts = last reported valid nodes
		for id, ip := range known {
			if got, ok := snap.Hosts[id]; !ok {
				vs.Failf("c16:reported-host-unknown", "host %s@%s was reported by the cluster but is not in the ring %s; snapshot %+v", id[len(id)-2:], ip, where, snap)
			} else if got != ip {
				vs.Failf("c16:host-address-stale", "host %s is reported at %s but the ring has it at %s %s", id[len(id)-2:], ip, got, where)
			}
		}
		for id, addr := range snap.Hosts {
			if _, ok := known[id]; !ok {
				vs.Failf("c16:vanished-host-still-known", "host %s@%s is in the ring but the cluster no longer reports it %s; snapshot %+v", id[len(id)-2:], addr, where, snap)
			}
		}
		// I3: pools and states follow: every known host that is not reported down has a pool and is up
		pools := map[string]bool{}
		for _, id := range snap.PoolIDs {
			pools[id] = true
		}
		for id, ip := range known {
			if _, inRing := snap.Hosts[id]; !inRing {
				continue
			}
			if down[id] {
				if pools[id] {
					vs.Failf("c16:pool-for-down-host", "host %s@%s was reported DOWN but still has a connection pool %s", id[len(id)-2:], ip, where)
				}
				continue
			}
			if !pools[id] {
				vs.Failf("c16:no-pool-for-known-host", "host %s@%s is known and not reported down but has no connection pool %s; snapshot %+v", id[len(id)-2:], ip, where, snap)
			} else if !snap.States[id] {
				vs.Failf("c16:known-host-not-up", "host %s@%s is known, connected and not reported down but its state is not UP %s", id[len(id)-2:], ip, where)
			}
		}
		for id := range pools {
			if _, ok := known[id]; !ok {
				vs.Failf("c16:pool-for-vanished-host", "a connection pool exists for host %s which the cluster no longer reports %s", id[len(id)-2:], where)
			}
		}
		_ = ev
	}

	var lastStatus map[string]string // address -> last status event of the current step
	var dBefore int
	viewChanged := false
	apply := func(ev string) bool {
		applied := true
		switch ev {
		case "add-C":
			if has(view, hC.id, hC.ip) {
				applied = false
				break
			}
			view.hosts = append(view.hosts, withPeer(hC, c.distinct))
			pushTopo("NEW_NODE", hC.ip)
		case "remove-B":
			if !has(view, hB.id, hB.ip) {
				applied = false
				break
			}
			without(view, hB.id)
			pushTopo("REMOVED_NODE", hB.ip)
		case "move-B":
			if !has(view, hB.id, hB.ip) {
				applied = false
				break
			}
			without(view, hB.id)
			view.hosts = append(view.hosts, withPeer(hB4, c.distinct))
			pushTopo("NEW_NODE", hB4.ip)
		case "replace-B-by-D":
			if !has(view, hB.id, hB.ip) {
				applied = false
				break
			}
			without(view, hB.id)
			view.hosts = append(view.hosts, withPeer(hD, c.distinct))
			pushTopo("NEW_NODE", hD.ip)
		case "invalid-peer":
			if has(view, hX.id, hX.ip) {
				applied = false
				break
			}
			view.hosts = append(view.hosts, withPeer(hX, c.distinct))
			pushTopo("NEW_NODE", hX.ip)
		case "duplicate-row":
			if !has(view, hB.id, hB.ip) {
				applied = false
				break
			}
			view.hosts = append(view.hosts, withPeer(hB, c.distinct))
			pushTopo("NEW_NODE", hB.ip)
		case "down-B":
			pushStatus("DOWN", hB.ip)
			lastStatus[hB.ip] = "DOWN"
		case "up-B":
			pushStatus("UP", hB.ip)
			lastStatus[hB.ip] = "UP"
		case "add-E":
			if has(view, hE.id, hE.ip) {
				applied = false
				break
			}
			view.hosts = append(view.hosts, withPeer(hE, c.distinct))
			pushTopo("NEW_NODE", hE.ip)
		case "down-unknown":
			pushStatus("DOWN", "10.0.0.9")
		case "up-unknown":
			pushStatus("UP", "10.0.0.9")
		case "control-loss":
			if sn := ctl(); sn != nil {
				for _, sc := range sn.registered {
					if !sc.C.Closed() {
						sc.C.Close()
					}
				}
			}
		case "odd-heartbeat-reply":
			oddHeartbeat = true
		case "refresh-failure":
			failNext = true
			pushTopo("NEW_NODE", "10.0.0.8")
		case "query":
			offers = offers[:0]
			err := sess.Query("QUERYX 'x'").WithContext(context.Background()).Exec()
			for _, o := range offers {
				ok := false
				for id, ip := range known {
					if ip == o && !down[id] {
						ok = true
					}
				}
				if !ok {
					vs.Failf("c16:offered-unknown-or-down-host", "a query was offered host %s which is not a known up host (known %v, down %v) after history %v", o, known, down, hist)
				}
			}
			if _, dq, _ := vs.Deviations(); err != nil && len(known) > len(down) && dq == dBefore {
				vs.Failf("c16:query-failed", "query failed with %v although %d known hosts are up, after history %v", err, len(known)-len(down), hist)
			}
		}
		return applied
	}
	for step := 0; step < depth; step++ {
		ev := c.events[vs.Choose(len(c.events), vs.Free)]
		_, dBefore, _ = vs.Deviations()
		peersBefore := len(peersLog)
		lastStatus = map[string]string{}
		viewBefore := view.String()
		applied := apply(ev)
		if c.burst {
			// a second event follows after a gap, possibly while the refresh caused by the first is in flight
			gaps := c.gaps
			if gaps == nil {
				gaps = []time.Duration{0, 1200 * time.Millisecond, 2100 * time.Millisecond}
			}
			gap := gaps[vs.Choose(len(gaps), vs.Free)]
			peersDelay = 0
			if c.gaps == nil {
				peersDelay = []time.Duration{0, 1500 * time.Millisecond}[vs.Choose(2, vs.Free)]
			}
			ev2 := c.events[vs.Choose(len(c.events), vs.Free)]
			if gap > 0 {
				vs.Sleep(gap)
			}
			a2 := apply(ev2)
			ev = fmt.Sprintf("%s+%v(peers %v)+%s", ev, gap, peersDelay, ev2)
			applied = applied || a2
		}
		if !applied {
			ev += "(n/a)"
		}
		hist = append(hist, ev)
		// settle: let 4s of virtual time pass and wait until nothing is runnable; repeat until the driver's
		// picture stops changing (an early-fired timer - a D deviation, possibly of this very sleep - can
		// make one round end while the event is still being processed)
		prev := ""
		for round := 0; round < 6; round++ {
			vs.Settle(4 * time.Second)
			now := fmt.Sprintf("%+v|%d", gocql.VerifRingSnapshot(sess), len(peersLog))
			if now == prev {
				break
			}
			prev = now
		}
		// reference model update
		refreshed := false
		for _, served := range peersLog[peersBefore:] {
			if served == view.String() {
				refreshed = true
			}
		}
		viewChanged = view.String() != viewBefore
		// status events name an address: they concern whichever known host lives there; the latest one of a burst wins
		for ip, change := range lastStatus {
			for id, kip := range known {
				if kip == ip {
					if change == "DOWN" {
						down[id] = true
					} else {
						delete(down, id)
					}
				}
			}
		}
		// A timer fired early (D deviation) during this event can make the client time out on a system-table
		// read the node did serve: then "served" does not mean "applied". The model cannot tell, so it
		// resynchronises on the driver's own picture for this step (index agreement is still checked).
		_, dAfter, _ := vs.Deviations()
		uncertain := dAfter != dBefore
		if uncertain {
			snap := gocql.VerifRingSnapshot(sess)
			known = map[string]string{}
			for id, addr := range snap.Hosts {
				known[id] = addr
			}
			pools := map[string]bool{}
			for _, id := range snap.PoolIDs {
				pools[id] = true
			}
			down = map[string]bool{}
			for id := range known {
				if !pools[id] {
					down[id] = true
				}
			}
		} else if refreshed {
			// a host re-reported under a new address is removed and added afresh (and connected): no longer down
			for id, ip := range validOf(view) {
				if old, ok := known[id]; ok && old != ip {
					delete(down, id)
				}
			}
			known = validOf(view)
			for id := range down {
				if _, still := known[id]; !still {
					delete(down, id)
				}
			}
		}
		mustRefresh := map[string]bool{"add-C": true, "remove-B": true, "move-B": true, "replace-B-by-D": true, "invalid-peer": true, "duplicate-row": true, "up-unknown": true, "control-loss": true}
		if applied && (mustRefresh[ev] || (c.burst && viewChanged)) && !refreshed && !uncertain {
			_, d, _ := vs.Deviations()
			if d == 0 {
				kev := ev
				if c.burst {
					kev = "a-burst-overlapping-a-slow-refresh"
				}
				vs.Failf("c16:no-refresh-after-"+kev, "event %s did not lead to a successful refresh within 4s after history %v (peers reads: %v)", ev, hist, peersLog[peersBefore:])
			}
		}
		if n := len(peersLog) - peersBefore; n > 3 {
			vs.Failf("c16:unbounded-refreshes", "event %s caused %d system.peers reads (history %v)", ev, n, hist)
		}
		check(ev)
	}
	if dbg := os.Getenv("C16_DEBUG"); dbg != "" && strings.Contains(strings.Join(hist, ","), dbg) {
		fmt.Fprintf(os.Stderr, "C16_DEBUG history=%v choices=%v\n", hist, vs.ChoicesSoFar())
	}
	sort.Strings(hist[:0])
	vs.Observe("%s -> known=%d down=%d", strings.Join(hist, ","), len(known), len(down))
	vs.Quiet(true)
	sess.Close()
	vs.Quiet(false)
}

func (c *c16cfg) build(tier int) func() *vs.Scenario {
	return func() *vs.Scenario {
		return &vs.Scenario{Name: fmt.Sprintf("%s-depth%d", c.name, c.depth[tier]), Cfg: vs.Config{MaxSteps: 400000, Horizon: 120 * time.Second, DelayBounded: c.name != "event-debouncer-delivers-every-frame"}, Body: func() { c.body(c.depth[tier]) }}
	}
}

func main() {
	topo := []string{"add-C", "remove-B", "move-B", "replace-B-by-D", "invalid-peer", "duplicate-row", "query"}
	status := []string{"down-B", "up-B", "down-unknown", "up-unknown", "remove-B", "replace-B-by-D", "query"}
	faults := []string{"control-loss", "refresh-failure", "odd-heartbeat-reply", "add-C", "remove-B", "down-B", "query"}
	cfgs := []*c16cfg{
		{name: "topology-histories", events: topo, depth: [2]int{4, 5}, t: [2]int{0, 0}},
		{name: "status-histories", events: status, depth: [2]int{4, 5}, t: [2]int{0, 0}},
		{name: "fault-histories", events: faults, depth: [2]int{4, 5}, t: [2]int{0, 0}},
		{name: "distinct-rpc-and-peer-addresses", events: []string{"down-B", "up-B", "remove-B", "add-C", "move-B", "replace-B-by-D", "query"}, distinct: true, depth: [2]int{3, 4}, t: [2]int{0, 0}},
		{name: "bursts-with-slow-refresh", events: []string{"add-C", "add-E", "remove-B", "down-B", "up-B"}, burst: true, depth: [2]int{1, 2}, t: [2]int{0, 0}},
		// the second event arrives at the very instant the first one's debounce period ends (the batch is being dispatched)
		{name: "bursts-at-the-debounce-instant-wide", events: []string{"down-B", "up-B", "add-C", "remove-B"}, burst: true, gaps: []time.Duration{time.Second, 2 * time.Second}, depth: [2]int{1, 1}, t: [2]int{0, 2}},
		{name: "event-debouncer-delivers-every-frame", depth: [2]int{0, 0}, t: [2]int{-1, -1}},
		{name: "topology-with-schedule-deviation", events: []string{"replace-B-by-D", "move-B", "remove-B", "query"}, depth: [2]int{2, 2}, t: [2]int{1, 2}},
	}
	tier := 0 // the history depth depends on the tier; shard children inherit VERIF_TIER from bin/check
	if os.Getenv("VERIF_TIER") == "thorough" {
		tier = 1
	}
	var defs []mcreport.Def
	for _, c := range cfgs {
		c := c
		b := func(t int) vs.Bounds {
			if t < 0 {
				return vs.Bounds{P: 4, D: 2, F: 0} // the tiny debouncer scenario: preemption-bounded, generous
			}
			return vs.Bounds{P: t, D: t, F: t, T: t}
		}
		defs = append(defs, mcreport.Def{Name: fmt.Sprintf("%s-depth%d", c.name, c.depth[tier]), Build: c.build(tier), Quick: b(c.t[0]), Thorough: b(c.t[1])})
	}
	mcreport.Main("C16", "model_checking",
		"explicit enumeration of every event history up to the depth bound (3 quick, 4 thorough; each event a free choice point) over three alphabets - topology refreshes (add, remove, address change, new host id on an old address, invalid peer row, duplicate row), status events for known and unknown addresses, control-connection loss and refresh failure - each with a query; after every event the system settles for 4s of virtual time under the default schedule and the ring indexes, pools, host states and offered hosts are compared with a reference model; one alphabet is additionally explored with schedule/timer deviations",
		[]string{"5 scripted nodes that serve system.local / system.peers from the harness's cluster view and push events on the control connection; 1 connection per host; ReconnectInterval 0; events reach the driver only through the control connection",
			"histories are run under the default schedule (T=0) except where stated: interleavings inside one event's processing are explored only in the dedicated scenario"},
		defs, 80*time.Second, 25*time.Minute, nil)
}
