// C16: the driver's picture of the cluster follows what the cluster reports.
// Every history (up to a depth bound) over an alphabet of topology changes,
// status events, control-connection loss, refresh failure and queries is applied
// to a real Session (instrumented gocql) whose control connection reads the
// system tables of scripted nodes; after each event the system settles (virtual
// time) and the ring indexes, pools, host states, offered hosts and the selection
// policy's content are compared with a reference model fed the same history.
// Configuration dimensions: a HostFilter (by data centre / by address set; the model
// subtracts the nodes it rejects) and a token-aware selection policy.
// Input dimensions: the KIND of invalid system.peers row (which of the columns a valid
// peer must have - rpc_address, host_id, data_center, rack, tokens - is missing: each
// single column in the history alphabets, every subset at session creation / with a
// later refresh) and bursts of k events for unknown and known addresses inside one
// debounce window with a bound on the system.peers reads that does not depend on k.
package main

import (
	"errors"
	"fmt"
	"os"
	"sort"
	"strings"
	"time"

	"github.com/gocql/gocql"

	"verif/engine/mcreport"
	"verif/engine/refcass"
	"verif/engine/refcql/frame"
	"verif/engine/vnode"
	vs "verif/engine/vsched"
	"verif/engine/vsched/vatomic"
	context "verif/engine/vsched/vcontext"
)

type c16cfg struct {
	name     string
	events   []string        // alphabet
	depth    [2]int          // history length quick/thorough
	distinct bool            // nodes have a node-to-node (peer/broadcast) address different from their rpc address
	burst    bool            // each step is a burst of two events with a gap, optionally with a slow system.peers read
	gaps     []time.Duration // burst gaps (default 0, 1.2s, 2.1s; nil also enumerates a slow system.peers read)
	t        [2]int          // schedule/timer deviations on top (total)
	// filter: the session is configured with a HostFilter: "dc" = DataCentreHostFilter("dc1"), "addr" =
	// WhiteListHostFilter(10.0.0.1-4). The cluster then also has nodes the filter rejects (hF from the start, hG joining,
	// B turning into a rejected node) and a rejected node (hF) is one of the two contact points.
	filter string
	// tokenAware: the selection policy is TokenAwareHostPolicy(RoundRobinHostPolicy()) with a session keyspace
	// (SimpleStrategy rf 1); nodes own widely spaced Murmur3 tokens and queries carry routing keys of every token range.
	tokenAware bool
	// kburst: each step is a burst of k status/topology events inside ONE event-debounce window (every event follows the
	// previous one after 0 or 400ms; the debouncer's window is 1s and restarts with every event): a motif of 1..motifMax
	// letters of the alphabet, repeated reps times (burst lengths k, 2k, 4k, ...), "fresh" letters naming a new unknown
	// address at every occurrence. The number of system.peers reads of the step must not exceed maxReadsPerStep whatever k.
	kburst   bool
	motifMax [2]int
	reps     [2][]int
	// subsets: the kind of invalid system.peers row is a free choice: every non-empty subset of the five columns a valid
	// peer must have served as NULL, and each single column served as a zero-length value; the row's peer address equal to /
	// different from the rpc address; the row present when the session is created / appearing with a later refresh.
	subsets bool
}

// maxReadsPerStep: the bound on system.peers reads one step (an event, a burst of events) may cause. "A burst of events
// leads to a bounded number of refreshes": the bound is the same for every burst length the scenarios enumerate (1..8
// quick, 1..24 thorough), so a number of refreshes that grows with the burst length exceeds it.
const maxReadsPerStep = 3

type recPolicy16 struct {
	gocql.HostSelectionPolicy
	offers *[]string
	noInit bool // the wrapped policy was initialised by the harness (VerifC16TokenAwarePolicy)
}

func (p recPolicy16) Init(s *gocql.Session) {
	if !p.noInit {
		p.HostSelectionPolicy.Init(s)
	}
}

// dbgLogger16 prints the driver's log lines with the virtual clock (development aid: C16_LOG=1 with -replay).
type dbgLogger16 struct{}

func (dbgLogger16) Print(v ...interface{}) {
	fmt.Fprintln(os.Stderr, append([]interface{}{"LOG", vs.Clock()}, v...)...)
}
func (dbgLogger16) Printf(format string, v ...interface{}) {
	fmt.Fprintf(os.Stderr, "LOG %v "+strings.TrimRight(format, "\n")+"\n", append([]interface{}{vs.Clock()}, v...)...)
}
func (dbgLogger16) Println(v ...interface{}) {
	fmt.Fprintln(os.Stderr, append([]interface{}{"LOG", vs.Clock()}, v...)...)
}

func (p recPolicy16) Pick(q gocql.ExecutableQuery) gocql.NextHost {
	inner := p.HostSelectionPolicy.Pick(q)
	return func() gocql.SelectedHost {
		h := inner()
		if h != nil {
			if h.Info() == nil {
				*p.offers = append(*p.offers, "<nil>")
			} else {
				*p.offers = append(*p.offers, gocql.VerifHostAddr(h.Info()))
			}
		}
		return h
	}
}

var (
	hA  = vhost{id: hostUUID(1), ip: "10.0.0.1", dc: "dc1", rack: "r1", tokens: []string{"1000"}}
	hB  = vhost{id: hostUUID(2), ip: "10.0.0.2", dc: "dc1", rack: "r1", tokens: []string{"2000"}}
	hC  = vhost{id: hostUUID(3), ip: "10.0.0.3", dc: "dc1", rack: "r2", tokens: []string{"3000"}}
	hB4 = vhost{id: hostUUID(2), ip: "10.0.0.4", dc: "dc1", rack: "r1", tokens: []string{"2000"}} // B after an address change
	hD  = vhost{id: hostUUID(4), ip: "10.0.0.2", dc: "dc1", rack: "r1", tokens: []string{"4000"}} // a new node on B's address
	hX  = vhost{id: hostUUID(5), ip: "10.0.0.5", dc: "dc1", rack: "r1", noTok: true}              // invalid peer row
	hE  = vhost{id: hostUUID(6), ip: "10.0.0.4", dc: "dc1", rack: "r2", tokens: []string{"6000"}} // another joining node
	// host-filter scenarios: nodes both filters reject (another data centre, addresses outside the accepted set)
	hF = vhost{id: hostUUID(7), ip: "10.0.0.6", dc: "dc2", rack: "r1", tokens: []string{"7000"}} // in the cluster from the start; also a contact point
	hG = vhost{id: hostUUID(8), ip: "10.0.0.7", dc: "dc2", rack: "r1", tokens: []string{"8000"}} // joins later
	// B as the cluster reports it after it turned into a node the filter rejects
	hBdc2  = vhost{id: hostUUID(2), ip: "10.0.0.2", dc: "dc2", rack: "r1", tokens: []string{"2000"}} // data-centre filter: re-labelled into dc2, same address
	hBaddr = vhost{id: hostUUID(2), ip: "10.0.0.8", dc: "dc1", rack: "r1", tokens: []string{"2000"}} // address-set filter: moved to an address outside the set
)

// the addresses the "addr" filter accepts
var acceptedAddrs = []string{"10.0.0.1", "10.0.0.2", "10.0.0.3", "10.0.0.4"}

// rejected is the harness's own statement of what the configured filter rejects (independent of gocql's filters).
func (c *c16cfg) rejected(h vhost) bool {
	switch c.filter {
	case "dc":
		return h.dc != "dc1"
	case "addr":
		for _, a := range acceptedAddrs {
			if a == h.ip {
				return false
			}
		}
		return true
	}
	return false
}

// knownOf: the nodes the session must know for a view: valid nodes minus those the host filter rejects (id -> ip).
func (c *c16cfg) knownOf(v *cview) map[string]string {
	m := map[string]string{}
	for _, h := range v.hosts {
		if !h.invalid() && !c.rejected(h) {
			m[h.id] = h.ip
		}
	}
	return m
}

// wide Murmur3 tokens for the token-aware scenario (by host id): every token range can be hit by a routing key
var wideTokens = map[string]string{
	hostUUID(1): "-6000000000000000000", hostUUID(2): "-2000000000000000000", hostUUID(3): "2000000000000000000",
	hostUUID(4): "6000000000000000000", hostUUID(6): "4000000000000000000",
}

// host applies the scenario's variations to a node: distinct peer address, wide tokens.
func (c *c16cfg) host(h vhost) vhost {
	h = withPeer(h, c.distinct)
	if c.tokenAware && !h.invalid() {
		if t, ok := wideTokens[h.id]; ok {
			h.tokens = []string{t}
		}
	}
	return h
}

// routing keys whose Murmur3 token falls into each of the ranges delimited by the wide tokens
// (<= -6e18, (-6e18,-2e18], (-2e18,2e18], (2e18,4e18], (4e18,6e18], > 6e18), found by search with the reference hash
var routingKeys [][]byte

func findRoutingKeys() {
	bounds := []int64{-6000000000000000000, -2000000000000000000, 2000000000000000000, 4000000000000000000, 6000000000000000000}
	found := make([][]byte, len(bounds)+1)
	n := 0
	for i := 0; i < 10000 && n < len(found); i++ {
		k := []byte(fmt.Sprintf("k%d", i))
		t := refcass.Murmur3Token(k)
		r := 0
		for r < len(bounds) && t > bounds[r] {
			r++
		}
		if found[r] == nil {
			found[r] = k
			n++
		}
	}
	if n != len(found) {
		panic("c16: no routing key found for some token range")
	}
	routingKeys = found
}

// withPeer gives a host a node-to-node address distinct from its rpc address.
func withPeer(h vhost, distinct bool) vhost {
	if distinct {
		h.peerIP = strings.Replace(h.ip, "10.0.0.", "10.1.0.", 1)
	}
	return h
}

func has(v *cview, id, ip string) bool {
	for _, h := range v.hosts {
		if h.id == id && h.ip == ip {
			return true
		}
	}
	return false
}

func without(v *cview, id string) {
	var out []vhost
	for _, h := range v.hosts {
		if h.id != id {
			out = append(out, h)
		}
	}
	v.hosts = out
}

func ipBytes(ip string) []byte {
	var a, b, c, d byte
	fmt.Sscanf(ip, "%d.%d.%d.%d", &a, &b, &c, &d)
	return []byte{a, b, c, d}
}

// debouncerBody: the event debouncer must hand every frame it was given to the dispatch callback exactly
// once and in order, whatever the interleaving of arrivals with the flush (all interleavings, P unbounded).
func debouncerBody() {
	gocql.VerifResetGlobals()
	var got []string
	d := gocql.VerifNewEventDebouncer(func(tags []string) {
		got = append(got, tags...)
	})
	done := make(chan struct{}, 2)
	vs.GoNamed("arrivals-1", func() {
		d.Debounce("e1")
		vs.Sleep(time.Second) // the debounce period: e2 arrives at the instant the first batch is flushed
		d.Debounce("e2")
		vs.Send(done, struct{}{})
	})
	vs.GoNamed("arrivals-2", func() {
		vs.Sleep(time.Second)
		d.Debounce("e3")
		vs.Sleep(2500 * time.Millisecond)
		d.Debounce("e4")
		vs.Send(done, struct{}{})
	})
	vs.Recv[struct{}](done)
	vs.Recv[struct{}](done)
	vs.Settle(3 * time.Second)
	d.Stop()
	want := map[string]int{"e1": 1, "e2": 1, "e3": 1, "e4": 1}
	seen := map[string]int{}
	for _, t := range got {
		seen[t]++
	}
	for t, n := range want {
		if seen[t] != n {
			vs.Failf("c16:event-debouncer:frame-lost-or-duplicated", "frame %s was dispatched %d times (dispatched in all: %v)", t, seen[t], got)
		}
	}
	for t := range seen {
		if want[t] == 0 {
			vs.Failf("c16:event-debouncer:unknown-frame-dispatched", "dispatched %v", got)
		}
	}
	pos := map[string]int{}
	for i, t := range got {
		pos[t] = i
	}
	if seen["e1"] == 1 && seen["e2"] == 1 && pos["e1"] > pos["e2"] {
		vs.Failf("c16:event-debouncer:frames-reordered", "e2 (debounced 1s after e1 by the same goroutine) was dispatched before e1: %v", got)
	}
	vs.Observe("%v", got)
}

// columnSubsets: every non-empty subset of the columns a valid peer must have (in validityCols order).
func columnSubsets() [][]string {
	var out [][]string
	for m := 1; m < 1<<len(validityCols); m++ {
		var cols []string
		for i, col := range validityCols {
			if m&(1<<i) != 0 {
				cols = append(cols, col)
			}
		}
		out = append(out, cols)
	}
	return out
}

func (c *c16cfg) body(depth int, tier int) {
	if c.name == "event-debouncer-delivers-every-frame" {
		debouncerBody()
		return
	}
	gocql.VerifResetGlobals()
	vatomic.Yield = false
	cl := newCluster(true)
	view := &cview{hosts: []vhost{c.host(hA), c.host(hB)}}
	if c.filter != "" {
		view.hosts = append(view.hosts, c.host(hF))
	}
	// subsets scenario: the invalid row of node X (kind, peer address, when it appears) is chosen first
	var xRow vhost
	var forced []string // letters applied before the freely chosen ones
	if c.subsets {
		xRow = hX
		xRow.noTok = false
		xRow.tokens = []string{"5000"}
		subs := columnSubsets()
		if k := vs.Choose(len(subs)+len(validityCols), vs.Free); k < len(subs) {
			xRow.nullCols = subs[k]
		} else {
			xRow.emptyCols = []string{validityCols[k-len(subs)]}
		}
		xRow = withPeer(xRow, vs.Choose(2, vs.Free) == 1)
		if vs.Choose(2, vs.Free) == 0 {
			view.hosts = append(view.hosts, xRow) // reported when the session is created
		} else {
			forced = []string{"X-reported-as-chosen"} // appears with a later refresh
		}
	}
	var peersLog, localLog []string
	// host-filter scenarios: lastRejContact = number of system.peers reads served so far at the moment a node the
	// filter rejects (hF, hG) last received a request (-1: never). A rejected contact point the control connection
	// tried becomes known to the session until the next ring refresh removes it again.
	lastRejContact := -1
	blocked := false // nodes the filter accepts refuse new connections
	failNext := false
	var peersDelay time.Duration
	oddHeartbeat := false // the next OPTIONS on a control (registered) connection is answered with READY
	nodes := map[string]*sysnode{}
	ips := []string{"10.0.0.1", "10.0.0.2", "10.0.0.3", "10.0.0.4", "10.0.0.5"}
	if c.filter != "" {
		ips = append(ips, hF.ip, hG.ip, hBaddr.ip)
		cl.dialFate = func(ip string, n int) error {
			if blocked && ip != hF.ip && ip != hG.ip && ip != hBaddr.ip {
				return errors.New("connect: connection refused (scripted)")
			}
			return nil
		}
	}
	for _, ip := range ips {
		sn := &sysnode{cl: cl, view: func() *cview { return view }, self: ip, peersLog: &peersLog, localLog: &localLog,
			peersDelay: func() time.Duration { return peersDelay },
			optionsReply: func(sc *vnode.ServerConn) interface{} {
				if !oddHeartbeat {
					return nil
				}
				for _, sn := range nodes {
					for _, reg := range sn.registered {
						if reg == sc {
							oddHeartbeat = false
							return frame.Ready{}
						}
					}
				}
				return nil
			},
			failPeers: func() bool {
				if failNext {
					failNext = false
					return true
				}
				return false
			},
			next: func(n *vnode.Node, sc *vnode.ServerConn, rec *vnode.ReqRec) vnode.Reply {
				if q, ok := rec.Req.Msg.(*frame.Query); ok {
					if strings.HasPrefix(strings.ToUpper(strings.TrimSpace(q.Statement)), "USE ") {
						return vnode.Reply{Msg: frame.ResultSetKeyspace{Keyspace: "ks"}}
					}
					return vnode.Reply{Msg: vnode.TextRows("t", "ok")}
				}
				return vnode.Reply{Msg: frame.ResultVoid{}}
			}}
		nodes[ip] = sn
		h := sn.wrapRegister(sn.handler())
		if ip == hF.ip || ip == hG.ip {
			inner := h
			h = func(n *vnode.Node, sc *vnode.ServerConn, rec *vnode.ReqRec) vnode.Reply {
				lastRejContact = len(peersLog)
				return inner(n, sc, rec)
			}
		}
		cl.add(ip, h)
	}
	var offers []string
	cfg := gocql.NewCluster("10.0.0.1")
	switch c.filter {
	case "dc":
		cfg.Hosts = []string{"10.0.0.1", hF.ip}
		cfg.HostFilter = gocql.DataCentreHostFilter("dc1")
	case "addr":
		cfg.Hosts = []string{"10.0.0.1", hF.ip}
		cfg.HostFilter = gocql.WhiteListHostFilter(acceptedAddrs...)
	}
	cfg.ProtoVersion = 4
	cfg.Timeout = 100 * time.Millisecond
	if c.burst {
		cfg.Timeout = 3 * time.Second // a slow (1.5s) system.peers read must not time out
	}
	cfg.ConnectTimeout = 100 * time.Millisecond
	cfg.NumConns = 1
	cfg.ReconnectInterval = 0
	cfg.WriteCoalesceWaitTime = 0
	cfg.HostDialer = cl.dialer()
	pol := recPolicy16{HostSelectionPolicy: gocql.RoundRobinHostPolicy(), offers: &offers}
	if c.tokenAware {
		cfg.Keyspace = "ks"
		pol.HostSelectionPolicy = gocql.VerifC16TokenAwarePolicy("ks", func(keyspace string) (*gocql.KeyspaceMetadata, error) {
			return &gocql.KeyspaceMetadata{Name: keyspace, DurableWrites: true, StrategyClass: "org.apache.cassandra.locator.SimpleStrategy",
				StrategyOptions: map[string]interface{}{"class": "org.apache.cassandra.locator.SimpleStrategy", "replication_factor": "1"}}, nil
		})
		pol.noInit = true
	}
	cfg.PoolConfig.HostSelectionPolicy = pol
	if os.Getenv("C16_LOG") != "" {
		cfg.Logger = dbgLogger16{}
	}
	vs.Quiet(true)
	sess, err := gocql.VerifNewSession(*cfg, false)
	if err != nil {
		vs.Quiet(false)
		vs.Failf("harness:session", "NewSession failed in the quiet prefix: %v", err)
		return
	}
	vs.Settle(500 * time.Millisecond)
	vs.Quiet(false)
	if lastRejContact >= 0 {
		lastRejContact = len(peersLog) // the initial host lookup is not a ring refresh
	}
	// the routing keys queries are made with: none (nil) with the plain policy, one per token range with the token-aware one
	keys := [][]byte{nil}
	if c.tokenAware {
		keys = routingKeys
	}
	offeredOK := func(o string, known map[string]string, down map[string]bool) bool {
		for id, ip := range known {
			if ip == o && !down[id] {
				return true
			}
		}
		return false
	}
	// rejectedNow: the host id is one the filter rejects (a node of the current view, or one of the static rejected nodes)
	rejectedNow := func(id string) bool {
		if c.filter == "" {
			return false
		}
		if id == hF.id || id == hG.id {
			return true
		}
		for _, h := range view.hosts {
			if h.id == id && c.rejected(h) {
				return true
			}
		}
		return false
	}
	rejectedAddr := func(ip string) bool {
		if c.filter == "" {
			return false
		}
		if ip == hF.ip || ip == hG.ip || ip == hBaddr.ip {
			return true
		}
		for _, h := range view.hosts {
			if h.ip == ip && c.rejected(h) {
				return true
			}
		}
		return false
	}

	// reference model
	known := c.knownOf(view) // id -> ip, as last reported by a successful refresh
	down := map[string]bool{}
	var hist []string
	var reads []int          // system.peers reads per step
	ctl := func() *sysnode { // the node currently holding the control connection
		for _, sn := range nodes {
			for _, sc := range sn.registered {
				if !sc.C.Closed() && !sc.C.PeerClosed() {
					return sn
				}
			}
		}
		return nil
	}
	pushTopo := func(change, ip string) {
		if sn := ctl(); sn != nil {
			sn.push(&frame.EventTopologyChange{Change: change, Addr: ipBytes(ip), Port: 9042})
		}
	}
	// a node that leaves the cluster or its address cannot announce that itself: if it holds the control
	// connection, that connection breaks instead (the driver reconnects elsewhere and refreshes)
	pushDeparture := func(change, evIP, goneIP string) {
		if sn := ctl(); sn != nil && sn.self == goneIP {
			for _, sc := range sn.registered {
				if !sc.C.Closed() {
					sc.C.Close()
				}
			}
			return
		}
		pushTopo(change, evIP)
	}
	pushStatus := func(change, ip string) {
		if sn := ctl(); sn != nil {
			sn.push(&frame.EventStatusChange{Change: change, Addr: ipBytes(ip), Port: 9042})
		}
	}

	// invalidRow: the invalid system.peers row of the current view a ring entry (host id / address) comes from, if any.
	// Every consequence of such a row being accepted (ring entry, pool = the node was dialled, policy offering) is reported
	// under the one key c16:invalid-peer-known:without-<missing columns>.
	invalidRow := func(id, addr string) (string, bool) {
		for _, h := range view.hosts {
			if h.invalid() && (h.id == id || h.ip == addr || h.nodeIP() == addr) {
				var cols []string
				for _, col := range validityCols {
					if h.absent(col) {
						cols = append(cols, col)
					}
				}
				return "without-" + strings.Join(cols, "+"), true
			}
		}
		return "", false
	}

	check := func(ev string) {
		where := fmt.Sprintf("after history %v (cluster view %s)", hist, view)
		snap := gocql.VerifRingSnapshot(sess)
		// I1: the three indexes agree
		for id, addr := range snap.Hosts {
			if addr == "<nil>" {
				vs.Failf("c16:nil-host-in-ring", "ring.hosts[%s] is nil %s", id, where)
				continue
			}
			n := 0
			for _, l := range snap.HostList {
				if l == id {
					n++
				}
			}
			if n != 1 {
				vs.Failf("c16:ring-index-mismatch:host-list", "host %s@%s is %d times in the ring's host list %s; snapshot %+v", id[len(id)-2:], addr, n, where, snap)
			}
			if got, ok := snap.IPToUUID[addr]; !ok {
				vs.Failf("c16:ring-index-mismatch:address-unmapped", "host %s is in the ring at %s but lookup by that address finds nothing %s; snapshot %+v", id[len(id)-2:], addr, where, snap)
			} else if got != id {
				vs.Failf("c16:ring-index-mismatch:address-maps-to-other-host", "address %s maps to host %s but the ring holds %s there %s; snapshot %+v", addr, got[len(got)-2:], id[len(id)-2:], where, snap)
			}
		}
		for ip, id := range snap.IPToUUID {
			if _, ok := snap.Hosts[id]; !ok {
				vs.Failf("c16:ring-index-mismatch:dangling-address", "address %s maps to host %s which is not in the ring %s; snapshot %+v", ip, id[len(id)-2:], where, snap)
			}
		}
		if len(snap.HostList) != len(snap.Hosts) {
			vs.Failf("c16:ring-index-mismatch:host-list", "host list has %d entries, ring has %d hosts %s; snapshot %+v", len(snap.HostList), len(snap.Hosts), where, snap)
		}
		// I2: known hosts = last reported valid nodes
		for id, ip := range known {
			if got, ok := snap.Hosts[id]; !ok {
				vs.Failf("c16:reported-host-unknown", "host %s@%s was reported by the cluster but is not in the ring %s; snapshot %+v", id[len(id)-2:], ip, where, snap)
			} else if got != ip {
				vs.Failf("c16:host-address-stale", "host %s is reported at %s but the ring has it at %s %s", id[len(id)-2:], ip, got, where)
			}
		}
		for id, addr := range snap.Hosts {
			if _, ok := known[id]; !ok {
				if rejectedNow(id) {
					// (until /repo c858f28 the control connection stored a contact point's details before evaluating the filter,
					// and the oracle had to wait for the next refresh; a rejected node must now never be known at rest)
					vs.Failf("c16:host-filter:rejected-host-known", "host %s@%s is rejected by the host filter (%s) but is in the ring %s; snapshot %+v", id[len(id)-2:], addr, c.filter, where, snap)
					continue
				}
				if kind, inv := invalidRow(id, addr); inv {
					vs.Failf("c16:invalid-peer-known:"+kind, "host %s@%s is in the ring but its system.peers row is not a valid peer (%s) %s; snapshot %+v", id[len(id)-2:], addr, kind, where, snap)
					continue
				}
				vs.Failf("c16:vanished-host-still-known", "host %s@%s is in the ring but the cluster no longer reports it %s; snapshot %+v", id[len(id)-2:], addr, where, snap)
			}
		}
		// I3: pools and states follow: every known host that is not reported down has a pool and is up
		pools := map[string]bool{}
		for _, id := range snap.PoolIDs {
			pools[id] = true
		}
		for id, ip := range known {
			if _, inRing := snap.Hosts[id]; !inRing {
				continue
			}
			if down[id] {
				if pools[id] {
					vs.Failf("c16:pool-for-down-host", "host %s@%s was reported DOWN but still has a connection pool %s", id[len(id)-2:], ip, where)
				}
				continue
			}
			if !pools[id] {
				vs.Failf("c16:no-pool-for-known-host", "host %s@%s is known and not reported down but has no connection pool %s; snapshot %+v", id[len(id)-2:], ip, where, snap)
			} else if !snap.States[id] {
				vs.Failf("c16:known-host-not-up", "host %s@%s is known, connected and not reported down but its state is not UP %s", id[len(id)-2:], ip, where)
			}
		}
		for id := range pools {
			if _, ok := known[id]; !ok {
				if rejectedNow(id) {
					vs.Failf("c16:host-filter:pool-for-rejected-host", "a connection pool exists for host %s which the host filter (%s) rejects %s", id[len(id)-2:], c.filter, where)
					continue
				}
				if kind, inv := invalidRow(id, snap.Hosts[id]); inv {
					vs.Failf("c16:invalid-peer-known:"+kind, "a connection pool exists for host %s whose system.peers row is not a valid peer (%s): the node was dialled %s", id[len(id)-2:], kind, where)
					continue
				}
				vs.Failf("c16:pool-for-vanished-host", "a connection pool exists for host %s which the cluster no longer reports %s", id[len(id)-2:], where)
			}
		}
		// I4: the selection policy at rest: drain the policy's host iterator for a query of every routing key
		// (no request is sent): it must offer known, not-down hosts only
		for _, key := range keys {
			offers = offers[:0]
			q := sess.Query("QUERYX 'x'")
			if key != nil {
				q = q.RoutingKey(key)
			}
			next := pol.Pick(q)
			for n := 0; n < 64; n++ {
				if next() == nil {
					break
				}
			}
			for _, o := range offers {
				if offeredOK(o, known, down) {
					continue
				}
				if kind, inv := invalidRow("", o); inv {
					vs.Failf("c16:invalid-peer-known:"+kind, "the selection policy at rest offers host %s whose system.peers row is not a valid peer (%s) %s", o, kind, where)
				} else if rejectedAddr(o) {
					vs.Failf("c16:host-filter:rejected-host-in-policy", "the selection policy offers host %s which the host filter (%s) rejects (routing key %q) %s", o, c.filter, key, where)
				} else {
					vs.Failf("c16:policy-offers-unknown-or-down-host", "the selection policy at rest offers host %s which is not a known up host (routing key %q; offered in all: %v; known %v, down %v) %s", o, key, offers, known, down, where)
				}
			}
		}
		offers = offers[:0]
		_ = ev
	}

	var lastStatus map[string]string // address -> last status event of the current step
	var dBefore int
	viewChanged := false
	fresh := 0
	apply := func(ev string) bool {
		applied := true
		switch ev {
		case "add-C":
			if has(view, hC.id, hC.ip) {
				applied = false
				break
			}
			view.hosts = append(view.hosts, c.host(hC))
			pushTopo("NEW_NODE", hC.ip)
		case "remove-B":
			if !has(view, hB.id, hB.ip) {
				applied = false
				break
			}
			without(view, hB.id)
			pushDeparture("REMOVED_NODE", hB.ip, hB.ip)
		case "move-B":
			if !has(view, hB.id, hB.ip) {
				applied = false
				break
			}
			without(view, hB.id)
			view.hosts = append(view.hosts, c.host(hB4))
			pushTopo("NEW_NODE", hB4.ip)
		case "replace-B-by-D":
			if !has(view, hB.id, hB.ip) {
				applied = false
				break
			}
			without(view, hB.id)
			view.hosts = append(view.hosts, c.host(hD))
			pushTopo("NEW_NODE", hD.ip)
		case "invalid-peer":
			if has(view, hX.id, hX.ip) {
				applied = false
				break
			}
			view.hosts = append(view.hosts, c.host(hX))
			pushTopo("NEW_NODE", hX.ip)
		case "duplicate-row":
			if !has(view, hB.id, hB.ip) {
				applied = false
				break
			}
			view.hosts = append(view.hosts, c.host(hB))
			pushTopo("NEW_NODE", hB.ip)
		case "down-B":
			pushStatus("DOWN", hB.ip)
			lastStatus[hB.ip] = "DOWN"
		case "up-B":
			pushStatus("UP", hB.ip)
			lastStatus[hB.ip] = "UP"
		case "add-E":
			if has(view, hE.id, hE.ip) {
				applied = false
				break
			}
			view.hosts = append(view.hosts, c.host(hE))
			pushTopo("NEW_NODE", hE.ip)
		case "add-G(rejected)":
			if has(view, hG.id, hG.ip) {
				applied = false
				break
			}
			view.hosts = append(view.hosts, c.host(hG))
			pushTopo("NEW_NODE", hG.ip)
		case "remove-F(rejected)":
			if !has(view, hF.id, hF.ip) {
				applied = false
				break
			}
			without(view, hF.id)
			pushTopo("REMOVED_NODE", hF.ip)
		case "up-F(rejected)":
			pushStatus("UP", hF.ip)
		case "down-F(rejected)":
			pushStatus("DOWN", hF.ip)
		case "B-turns-rejected":
			// the cluster re-reports B as a node the filter rejects: re-labelled into another data centre (same
			// address) under the data-centre filter, moved to an address outside the set under the address filter
			if !has(view, hB.id, hB.ip) || rejectedNow(hB.id) {
				applied = false
				break
			}
			nb := hBdc2
			if c.filter == "addr" {
				nb = hBaddr
			}
			without(view, hB.id)
			view.hosts = append(view.hosts, c.host(nb))
			if nb.ip != hB.ip {
				pushDeparture("NEW_NODE", nb.ip, hB.ip)
			} else {
				pushTopo("NEW_NODE", nb.ip)
			}
		case "B-returns":
			// B is reported (again) as the accepted node it was at the start
			if has(view, hB.id, hB.ip) && !rejectedNow(hB.id) {
				applied = false
				break
			}
			without(view, hB.id)
			view.hosts = append(view.hosts, c.host(hB))
			pushTopo("NEW_NODE", hB.ip)
		case "control-loss-while-accepted-nodes-refuse-connections":
			// the control connection is lost while the accepted nodes refuse new connections for 2.5s: the reconnection
			// attempts fall back to the contact points, one of which (hF) the filter rejects; then the nodes accept again
			blocked = true
			if sn := ctl(); sn != nil {
				for _, sc := range sn.registered {
					if !sc.C.Closed() {
						sc.C.Close()
					}
				}
			}
			vs.Sleep(2500 * time.Millisecond)
			blocked = false
		case "X-reported-as-chosen":
			view.hosts = append(view.hosts, xRow)
			pushTopo("NEW_NODE", xRow.ip)
		case "X-reported-complete", "B-reported-complete", "X-reported-without:rpc_address", "X-reported-without:host_id", "X-reported-without:data_center", "X-reported-without:rack", "X-reported-without:tokens",
			"B-reported-without:rpc_address", "B-reported-without:host_id", "B-reported-without:data_center", "B-reported-without:rack", "B-reported-without:tokens":
			// node X (10.0.0.5, not a member at the start) / the known node B is reported by system.peers with a complete row or
			// with one of the columns a valid peer must have NULL; a topology event announces the change
			row := c.host(hB)
			if ev[0] == 'X' {
				row = hX
				row.noTok, row.tokens = false, []string{"5000"}
				if c.subsets {
					row.peerIP = xRow.peerIP
				}
				row = c.host(row)
			}
			if i := strings.Index(ev, ":"); i >= 0 {
				row.nullCols = []string{ev[i+1:]}
			}
			before := view.String()
			replaced := false
			for i, h := range view.hosts {
				if h.id == row.id {
					view.hosts[i] = row
					replaced = true
				}
			}
			if !replaced {
				view.hosts = append(view.hosts, row)
			}
			if view.String() == before {
				applied = false
				break
			}
			pushTopo("NEW_NODE", row.ip)
		case "X-leaves":
			if !has(view, hX.id, hX.ip) {
				applied = false
				break
			}
			without(view, hX.id)
			pushTopo("REMOVED_NODE", hX.ip)
		case "up-X":
			pushStatus("UP", hX.ip)
			lastStatus[hX.ip] = "UP"
		case "down-X":
			pushStatus("DOWN", hX.ip)
			lastStatus[hX.ip] = "DOWN"
		case "topology-event":
			pushTopo("NEW_NODE", hA.ip)
		case "up-fresh-unknown", "down-fresh-unknown", "new-node-fresh-unknown":
			// an event for an address no node was ever reported at, a new one at every occurrence
			fresh++
			ip := fmt.Sprintf("10.0.0.%d", 20+fresh)
			switch ev {
			case "up-fresh-unknown":
				pushStatus("UP", ip)
			case "down-fresh-unknown":
				pushStatus("DOWN", ip)
			default:
				pushTopo("NEW_NODE", ip)
			}
		case "down-unknown":
			pushStatus("DOWN", "10.0.0.9")
		case "up-unknown":
			pushStatus("UP", "10.0.0.9")
		case "control-loss":
			if sn := ctl(); sn != nil {
				for _, sc := range sn.registered {
					if !sc.C.Closed() {
						sc.C.Close()
					}
				}
			}
		case "odd-heartbeat-reply":
			oddHeartbeat = true
		case "refresh-failure":
			failNext = true
			pushTopo("NEW_NODE", "10.0.0.8")
		case "query":
			for _, key := range keys {
				offers = offers[:0]
				q := sess.Query("QUERYX 'x'")
				if key != nil {
					q = q.RoutingKey(key)
				}
				err := q.WithContext(context.Background()).Exec()
				for _, o := range offers {
					if kind, inv := invalidRow("", o); inv && !offeredOK(o, known, down) {
						vs.Failf("c16:invalid-peer-known:"+kind, "a query was offered host %s whose system.peers row is not a valid peer (%s) after history %v", o, kind, hist)
					} else if !offeredOK(o, known, down) {
						vs.Failf("c16:offered-unknown-or-down-host", "a query (routing key %q) was offered host %s which is not a known up host (known %v, down %v) after history %v", key, o, known, down, hist)
					}
				}
				if _, dq, _ := vs.Deviations(); err != nil && len(known) > len(down) && dq == dBefore {
					vs.Failf("c16:query-failed", "query failed with %v although %d known hosts are up, after history %v", err, len(known)-len(down), hist)
				}
			}
		}
		return applied
	}
	if c.subsets {
		check("session-creation")
	}
	for step := 0; step < len(forced)+depth; step++ {
		var ev string
		burstNeedsRefresh := false
		if step < len(forced) {
			ev = forced[step]
		} else if !c.kburst {
			ev = c.events[vs.Choose(len(c.events), vs.Free)]
		}
		_, dBefore, _ = vs.Deviations()
		peersBefore := len(peersLog)
		lastStatus = map[string]string{}
		viewBefore := view.String()
		applied := true
		if c.kburst {
			motif := make([]string, 1+vs.Choose(c.motifMax[tier], vs.Free))
			for i := range motif {
				motif[i] = c.events[vs.Choose(len(c.events), vs.Free)]
				if strings.HasPrefix(motif[i], "up-") && strings.HasSuffix(motif[i], "unknown") || strings.HasPrefix(motif[i], "new-node") {
					burstNeedsRefresh = true
				}
			}
			reps := c.reps[tier][vs.Choose(len(c.reps[tier]), vs.Free)]
			spacing := []time.Duration{0, 400 * time.Millisecond}[vs.Choose(2, vs.Free)]
			n := 0
			for r := 0; r < reps; r++ {
				for _, m := range motif {
					if n > 0 && spacing > 0 {
						vs.Sleep(spacing)
					}
					apply(m)
					n++
				}
			}
			ev = fmt.Sprintf("burst-of-%d[%s]x%d/%v", n, strings.Join(motif, ","), reps, spacing)
		} else {
			applied = apply(ev)
		}
		if c.burst {
			// a second event follows after a gap, possibly while the refresh caused by the first is in flight
			gaps := c.gaps
			if gaps == nil {
				gaps = []time.Duration{0, 1200 * time.Millisecond, 2100 * time.Millisecond}
			}
			gap := gaps[vs.Choose(len(gaps), vs.Free)]
			peersDelay = 0
			if c.gaps == nil {
				peersDelay = []time.Duration{0, 1500 * time.Millisecond}[vs.Choose(2, vs.Free)]
			}
			ev2 := c.events[vs.Choose(len(c.events), vs.Free)]
			if gap > 0 {
				vs.Sleep(gap)
			}
			a2 := apply(ev2)
			ev = fmt.Sprintf("%s+%v(peers %v)+%s", ev, gap, peersDelay, ev2)
			applied = applied || a2
		}
		if !applied {
			ev += "(n/a)"
		}
		hist = append(hist, ev)
		// settle: let 4s of virtual time pass and wait until nothing is runnable; repeat until the driver's
		// picture stops changing (an early-fired timer - a D deviation, possibly of this very sleep - can
		// make one round end while the event is still being processed)
		prev := ""
		for round := 0; round < 6; round++ {
			vs.Settle(4 * time.Second)
			now := fmt.Sprintf("%+v|%d", gocql.VerifRingSnapshot(sess), len(peersLog))
			if now == prev {
				break
			}
			prev = now
		}
		// reference model update
		refreshed := false
		for _, served := range peersLog[peersBefore:] {
			if served == view.String() {
				refreshed = true
			}
		}
		viewChanged = view.String() != viewBefore
		// status events name an address: they concern whichever known host lives there; the latest one of a burst wins
		for ip, change := range lastStatus {
			for id, kip := range known {
				if kip == ip {
					if change == "DOWN" {
						down[id] = true
					} else {
						delete(down, id)
					}
				}
			}
		}
		// A timer fired early (D deviation) during this event can make the client time out on a system-table
		// read the node did serve: then "served" does not mean "applied". The model cannot tell, so it
		// resynchronises on the driver's own picture for this step (index agreement is still checked).
		_, dAfter, _ := vs.Deviations()
		uncertain := dAfter != dBefore
		if uncertain {
			snap := gocql.VerifRingSnapshot(sess)
			known = map[string]string{}
			for id, addr := range snap.Hosts {
				known[id] = addr
			}
			pools := map[string]bool{}
			for _, id := range snap.PoolIDs {
				pools[id] = true
			}
			down = map[string]bool{}
			for id := range known {
				if !pools[id] {
					down[id] = true
				}
			}
			if lastRejContact >= 0 {
				lastRejContact = len(peersLog) // "served" does not mean "applied": wait for another refresh
			}
		} else if refreshed {
			// a host re-reported under a new address is removed and added afresh (and connected): no longer down
			for id, ip := range c.knownOf(view) {
				if old, ok := known[id]; ok && old != ip {
					delete(down, id)
				}
			}
			known = c.knownOf(view)
			for id := range down {
				if _, still := known[id]; !still {
					delete(down, id)
				}
			}
		}
		needsRefresh := burstNeedsRefresh || strings.HasPrefix(ev, "X-reported") || strings.HasPrefix(ev, "B-reported") || ev == "X-leaves" || ev == "topology-event"
		mustRefresh := map[string]bool{"add-C": true, "remove-B": true, "move-B": true, "replace-B-by-D": true, "invalid-peer": true, "duplicate-row": true, "up-unknown": true, "control-loss": true,
			"add-G(rejected)": true, "remove-F(rejected)": true, "B-turns-rejected": true, "B-returns": true, "control-loss-while-accepted-nodes-refuse-connections": true}
		if applied && (mustRefresh[ev] || needsRefresh || (c.burst && viewChanged)) && !refreshed && !uncertain {
			_, d, _ := vs.Deviations()
			if d == 0 {
				kev := ev
				if c.burst {
					kev = "a-burst-overlapping-a-slow-refresh"
				}
				if c.kburst {
					kev = "a-burst-with-an-UP-or-NEW_NODE-for-an-unknown-address"
				}
				vs.Failf("c16:no-refresh-after-"+kev, "event %s did not lead to a successful refresh within 4s after history %v (peers reads: %v)", ev, hist, peersLog[peersBefore:])
			}
		}
		if n := len(peersLog) - peersBefore; n > maxReadsPerStep {
			vs.Failf("c16:unbounded-refreshes", "event %s caused %d system.peers reads, more than the bound %d that holds for every burst length (history %v)", ev, n, maxReadsPerStep, hist)
		}
		reads = append(reads, len(peersLog)-peersBefore)
		check(ev)
	}
	if dbg := os.Getenv("C16_DEBUG"); dbg != "" && strings.Contains(strings.Join(hist, ","), dbg) {
		fmt.Fprintf(os.Stderr, "C16_DEBUG history=%v reads=%v choices=%v\n", hist, reads, vs.ChoicesSoFar())
	}
	sort.Strings(hist[:0])
	if c.subsets {
		vs.Observe("X=%s/%s %s -> known=%d down=%d", (&cview{hosts: []vhost{xRow}}).String(), xRow.nodeIP(), strings.Join(hist, ","), len(known), len(down))
	} else if c.kburst {
		vs.Observe("%s -> known=%d down=%d reads=%v", strings.Join(hist, ","), len(known), len(down), reads)
	} else {
		vs.Observe("%s -> known=%d down=%d", strings.Join(hist, ","), len(known), len(down))
	}
	vs.Quiet(true)
	sess.Close()
	vs.Quiet(false)
}

func (c *c16cfg) build(tier int) func() *vs.Scenario {
	return func() *vs.Scenario {
		return &vs.Scenario{Name: fmt.Sprintf("%s-depth%d", c.name, c.depth[tier]), Cfg: vs.Config{MaxSteps: 400000, Horizon: 120 * time.Second, DelayBounded: c.name != "event-debouncer-delivers-every-frame"}, Body: func() { c.body(c.depth[tier], tier) }}
	}
}

func main() {
	topo := []string{"add-C", "remove-B", "move-B", "replace-B-by-D", "invalid-peer", "duplicate-row", "query"}
	status := []string{"down-B", "up-B", "down-unknown", "up-unknown", "remove-B", "replace-B-by-D", "query"}
	faults := []string{"control-loss", "refresh-failure", "odd-heartbeat-reply", "add-C", "remove-B", "down-B", "query"}
	filterTopo := []string{"add-G(rejected)", "remove-F(rejected)", "B-turns-rejected", "B-returns", "add-C", "remove-B", "up-F(rejected)", "query"}
	filterFaults := []string{"control-loss-while-accepted-nodes-refuse-connections", "control-loss", "refresh-failure", "down-F(rejected)", "add-G(rejected)", "B-turns-rejected", "remove-F(rejected)", "query"}
	cfgs := []*c16cfg{
		{name: "topology-histories", events: topo, depth: [2]int{4, 5}, t: [2]int{0, 0}},
		{name: "status-histories", events: status, depth: [2]int{4, 5}, t: [2]int{0, 0}},
		{name: "fault-histories", events: faults, depth: [2]int{4, 5}, t: [2]int{0, 0}},
		{name: "distinct-rpc-and-peer-addresses", events: []string{"down-B", "up-B", "remove-B", "add-C", "move-B", "replace-B-by-D", "query"}, distinct: true, depth: [2]int{3, 4}, t: [2]int{0, 0}},
		{name: "bursts-with-slow-refresh", events: []string{"add-C", "add-E", "remove-B", "down-B", "up-B", "up-unknown"}, burst: true, depth: [2]int{1, 2}, t: [2]int{0, 0}},
		// the second event arrives at the very instant the first one's debounce period ends (the batch is being dispatched)
		{name: "bursts-at-the-debounce-instant-wide", events: []string{"down-B", "up-B", "add-C", "remove-B"}, burst: true, gaps: []time.Duration{time.Second, 2 * time.Second}, depth: [2]int{1, 1}, t: [2]int{0, 2}},
		{name: "event-debouncer-delivers-every-frame", depth: [2]int{0, 0}, t: [2]int{-1, -1}},
		{name: "topology-with-schedule-deviation", events: []string{"replace-B-by-D", "move-B", "remove-B", "query"}, depth: [2]int{2, 2}, t: [2]int{1, 2}},
		// a HostFilter in the session configuration (by data centre / by address set), rejected nodes in the cluster and among the contact points
		{name: "host-filter-by-dc-topology-histories", filter: "dc", events: filterTopo, depth: [2]int{3, 4}, t: [2]int{0, 0}},
		{name: "host-filter-by-address-topology-histories", filter: "addr", events: filterTopo, depth: [2]int{3, 4}, t: [2]int{0, 0}},
		{name: "host-filter-by-dc-fault-histories", filter: "dc", events: filterFaults, depth: [2]int{3, 4}, t: [2]int{0, 0}},
		{name: "host-filter-by-address-fault-histories", filter: "addr", events: filterFaults, depth: [2]int{3, 4}, t: [2]int{0, 0}},
		// a token-aware selection policy with a session keyspace; queries routed to every token range
		// kinds of invalid system.peers rows: a joining node X / the known node B reported without one of the columns a valid peer must have
		{name: "invalid-peer-row-kinds-new-node-histories", events: []string{"X-reported-without:rpc_address", "X-reported-without:host_id", "X-reported-without:data_center", "X-reported-without:rack", "X-reported-without:tokens",
			"X-reported-complete", "X-leaves", "up-X", "query"}, depth: [2]int{3, 4}, t: [2]int{0, 0}},
		{name: "invalid-peer-row-kinds-known-node-histories", events: []string{"B-reported-without:rpc_address", "B-reported-without:host_id", "B-reported-without:data_center", "B-reported-without:rack", "B-reported-without:tokens",
			"B-reported-complete", "remove-B", "up-B", "down-B", "query"}, depth: [2]int{3, 4}, t: [2]int{0, 0}},
		// every subset of missing columns x peer address = / != rpc address x present at session creation / appearing later, then a short history
		{name: "invalid-peer-row-column-subsets", subsets: true, events: []string{"X-reported-complete", "up-X", "topology-event", "query"}, depth: [2]int{1, 2}, t: [2]int{0, 0}},
		// bursts of k events inside one debounce window for unknown and known addresses: the number of system.peers reads is bounded whatever k
		{name: "status-event-bursts-of-k", kburst: true, events: []string{"up-fresh-unknown", "down-fresh-unknown", "up-unknown", "up-B", "down-B", "new-node-fresh-unknown"},
			motifMax: [2]int{2, 3}, reps: [2][]int{{1, 2, 4}, {1, 2, 4, 8}}, depth: [2]int{1, 1}, t: [2]int{0, 0}},
		{name: "token-aware-policy-histories", tokenAware: true, events: []string{"add-C", "remove-B", "move-B", "replace-B-by-D", "down-B", "up-B", "query"}, depth: [2]int{3, 4}, t: [2]int{0, 0}},
	}
	findRoutingKeys()
	tier := 0 // the history depth depends on the tier; shard children inherit VERIF_TIER from bin/check
	if os.Getenv("VERIF_TIER") == "thorough" {
		tier = 1
	}
	var defs []mcreport.Def
	for _, c := range cfgs {
		c := c
		b := func(t int) vs.Bounds {
			if t < 0 {
				return vs.Bounds{P: 4, D: 2, F: 0} // the tiny debouncer scenario: preemption-bounded, generous
			}
			return vs.Bounds{P: t, D: t, F: t, T: t}
		}
		defs = append(defs, mcreport.Def{Name: fmt.Sprintf("%s-depth%d", c.name, c.depth[tier]), Build: c.build(tier), Quick: b(c.t[0]), Thorough: b(c.t[1])})
	}
	mcreport.Main("C16", "model_checking",
		"explicit enumeration of every event history up to the depth bound (3 quick, 4 thorough; each event a free choice point) over three alphabets - topology refreshes (add, remove, address change, new host id on an old address, invalid peer row, duplicate row), status events for known and unknown addresses, control-connection loss and refresh failure - each with a query; after every event the system settles for 4s of virtual time under the default schedule and the ring indexes, pools, host states, the hosts offered to queries and the complete content of the selection policy (its host iterator drained at rest) are compared with a reference model; one alphabet is additionally explored with schedule/timer deviations. Session-configuration dimensions: a HostFilter (none / DataCentreHostFilter / WhiteListHostFilter address set) x two 8-letter alphabets (histories of length 3 quick, 4 thorough) with nodes the filter rejects in the cluster from the start, joining, leaving, getting UP/DOWN events, a known node turning into a rejected one (re-labelled into another data centre / moved to an address outside the set) and returning, and a rejected node among the contact points that control-connection reconnection attempts reach while the accepted nodes refuse connections (the model subtracts rejected nodes; a rejected node must have no pool and not be in the policy ever, and not be in the ring once a refresh has completed since it was last contacted); the selection policy (round-robin / token-aware over round-robin with a session keyspace, nodes owning widely spaced Murmur3 tokens, queries and policy drains for a routing key of every token range). Kinds of invalid system.peers rows (a valid peer has rpc_address, host_id, data_center, rack and tokens): two alphabets in which a joining node X / the known node B is reported with each ONE of the five columns NULL, complete again, leaving, with UP/DOWN events and queries (9 and 10 letters, histories of length 3 quick / 4 thorough), and the column-subset space: every non-empty subset of the five columns NULL (31) plus each single column as a zero-length value / empty set (5) x peer address equal to / different from the rpc address x row present when the session is created / appearing with a later refresh, followed by every history of length 1 (2 thorough) over {row completed, UP for X, another topology event, query}; a node whose row is invalid must not be in any ring index, have a pool (be dialled) or be offered by the policy. Bursts of k events inside one event-debounce window (every event 0 or 400ms after the previous one; the 1s window restarts with each event): every motif of 1-2 (thorough 1-3) letters over {UP / DOWN / NEW_NODE for a fresh unknown address at every occurrence, UP for one fixed unknown address, UP / DOWN for the known node B} repeated 1, 2, 4 (thorough also 8) times = burst lengths 1..8 (1..24), x the two spacings; the number of system.peers reads a step causes must not exceed 3 - the bound the two-event burst scenarios already use - for every burst length, and a burst with an UP or NEW_NODE for an unknown address must lead to a refresh",
		[]string{"5 (8 with a host filter) scripted nodes that serve system.local / system.peers from the harness's cluster view and push events on the control connection; 1 connection per host; ReconnectInterval 0; events reach the driver only through the control connection",
			"histories are run under the default schedule (T=0) except where stated: interleavings inside one event's processing are explored only in the dedicated scenario",
			"the token-aware policy gets its keyspace metadata (SimpleStrategy rf 1) from the harness instead of the schema tables (the substitution policies_test.go makes); replica placement itself is C10's"},
		defs, 80*time.Second, 54*time.Minute, nil) // thorough: the budget is shared by the scenarios (17 x ~3.1 min, the share the scenarios had before the invalid-row / k-burst scenarios were added: 13 x ~3.1 min)
}
