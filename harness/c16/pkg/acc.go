//go:build verif

package gocql

// In-package accessors for check C16 (no logic of their own).

// VerifC16TokenAwarePolicy is TokenAwareHostPolicy(RoundRobinHostPolicy()) initialised the way
// tokenAwareHostPolicy.Init(session) does it, except that the keyspace metadata getter is supplied by
// the harness (the substitution policies_test.go makes; the scripted nodes serve no schema tables).
// The session must not call Init on it again (the harness's recording wrapper swallows Init).
func VerifC16TokenAwarePolicy(keyspace string, fetch func(keyspace string) (*KeyspaceMetadata, error)) HostSelectionPolicy {
	p := TokenAwareHostPolicy(RoundRobinHostPolicy())
	t := p.(*tokenAwareHostPolicy)
	t.getKeyspaceName = func() string { return keyspace }
	t.getKeyspaceMetadata = fetch
	t.logger = nopLogger{}
	return p
}
