//go:build verif

package gocql

import (
	"context"
	"net"

	"github.com/gocql/gocql/internal/lru"
)

// VerifLive is a real *Conn, set up by the real connection handshake
// (Session.connect -> dial -> Conn.init -> startupCoordinator) over an in-memory
// net.Conn, attached to a Session that is built like NewSession does it up to
// (not including) Session.init: no control connection, no pool, no ring.
// Queries are created with the public API on S, pinned to the connection with
// Bind, and run with the public Query.Iter(), which calls Conn.executeQuery: the
// real code that turns a response frame into an Iter (skip-metadata included).
type VerifLive struct {
	S *Session
	C *Conn
}

type verifPipeDialer struct{ conn net.Conn }

func (d verifPipeDialer) DialHost(ctx context.Context, host *HostInfo) (*DialedHost, error) {
	return &DialedHost{Conn: d.conn, DisableCoalesce: true}, nil
}

type verifNopLogger struct{}

func (verifNopLogger) Print(v ...interface{})                 {}
func (verifNopLogger) Printf(format string, v ...interface{}) {}
func (verifNopLogger) Println(v ...interface{})               {}

// VerifDial performs the real handshake on clientEnd. cfg is a public
// ClusterConfig (ProtoVersion, Compressor, Authenticator, ... as the application
// would set them).
func VerifDial(clientEnd net.Conn, cfg ClusterConfig) (*VerifLive, error) {
	cfg.HostDialer = verifPipeDialer{clientEnd}
	cfg.Logger = verifNopLogger{}
	ctx, cancel := context.WithCancel(context.Background())
	s := &Session{
		cons:     cfg.Consistency,
		prefetch: 0.25,
		cfg:      cfg,
		pageSize: cfg.PageSize,
		stmtsLRU: &preparedLRU{lru: lru.New(cfg.MaxPreparedStmts)},
		ctx:      ctx,
		cancel:   cancel,
		logger:   cfg.logger(),
	}
	connCfg, err := connConfig(&s.cfg)
	if err != nil {
		cancel()
		return nil, err
	}
	s.connCfg = connCfg
	host := &HostInfo{hostId: "verif-host-1", connectAddress: net.IPv4(127, 0, 0, 1), port: 9042}
	c, err := s.connect(ctx, host, connErrorHandlerFn(func(conn *Conn, err error, closed bool) {}))
	if err != nil {
		cancel()
		return nil, err
	}
	return &VerifLive{S: s, C: c}, nil
}

// Bind pins a query created with the public API (l.S.Query(...)) to the live
// connection, the way Conn.query does for the driver's own internal queries:
// q.Iter() / q.Exec() / q.Scan() then run Conn.executeQuery on it.
func (l *VerifLive) Bind(q *Query) *Query {
	q.conn = l.C
	return q
}

func (l *VerifLive) ExecBatch(b *Batch) *Iter { return l.C.executeBatch(b.Context(), b) }
func (l *VerifLive) Close() {
	l.C.Close()
	l.S.cancel()
}
