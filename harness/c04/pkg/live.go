//go:build verif

package gocql

import (
	"context"
	"fmt"
	"net"
	"sync"

	"github.com/gocql/gocql/internal/lru"
)

// VerifLive is a real *Conn, set up by the real connection handshake
// (Session.connect -> dial -> Conn.init -> startupCoordinator) over an in-memory
// net.Conn, attached to a Session that is built like NewSession does it up to
// (not including) Session.init: no control connection, no pool, no ring.
// Queries are created with the public API on S, pinned to the connection with
// Bind, and run with the public Query.Iter(), which calls Conn.executeQuery: the
// real code that turns a response frame into an Iter (skip-metadata included).
type VerifLive struct {
	S *Session
	C *Conn

	evMu     sync.Mutex
	evFrames []frame // EVENT frames the session's debouncers were handed (see DrainEvents)
}

type verifPipeDialer struct{ conn net.Conn }

func (d verifPipeDialer) DialHost(ctx context.Context, host *HostInfo) (*DialedHost, error) {
	return &DialedHost{Conn: d.conn, DisableCoalesce: true}, nil
}

type verifNopLogger struct{}

func (verifNopLogger) Print(v ...interface{})                 {}
func (verifNopLogger) Printf(format string, v ...interface{}) {}
func (verifNopLogger) Println(v ...interface{})               {}

// VerifDial performs the real handshake on clientEnd. cfg is a public
// ClusterConfig (ProtoVersion, Compressor, Authenticator, ... as the application
// would set them).
func VerifDial(clientEnd net.Conn, cfg ClusterConfig) (*VerifLive, error) {
	cfg.HostDialer = verifPipeDialer{clientEnd}
	if cfg.Logger == nil {
		cfg.Logger = verifNopLogger{}
	}
	ctx, cancel := context.WithCancel(context.Background())
	s := &Session{
		cons:     cfg.Consistency,
		prefetch: 0.25,
		cfg:      cfg,
		pageSize: cfg.PageSize,
		stmtsLRU: &preparedLRU{lru: lru.New(cfg.MaxPreparedStmts)},
		ctx:      ctx,
		cancel:   cancel,
		logger:   cfg.logger(),
	}
	connCfg, err := connConfig(&s.cfg)
	if err != nil {
		cancel()
		return nil, err
	}
	s.connCfg = connCfg
	// as NewSession does: the public observers of the ClusterConfig and the two event debouncers
	// (Conn.recv hands every EVENT frame to Session.handleEvent, which parses it and passes it on
	// to one of them). Their callbacks only record the frames.
	s.frameObserver = cfg.FrameHeaderObserver
	s.streamObserver = cfg.StreamObserver
	l := &VerifLive{S: s}
	s.nodeEvents = newEventDebouncer("NodeEvents", l.recordEvents, s.logger)
	s.schemaEvents = newEventDebouncer("SchemaEvents", l.recordEvents, s.logger)
	host := &HostInfo{hostId: "verif-host-1", connectAddress: net.IPv4(127, 0, 0, 1), port: 9042}
	c, err := s.connect(ctx, host, connErrorHandlerFn(func(conn *Conn, err error, closed bool) {}))
	if err != nil {
		cancel()
		s.nodeEvents.stop()
		s.schemaEvents.stop()
		return nil, err
	}
	l.C = c
	return l, nil
}

func (l *VerifLive) recordEvents(frames []frame) {
	l.evMu.Lock()
	l.evFrames = append(l.evFrames, frames...)
	l.evMu.Unlock()
}

// DrainEvents returns the view of every EVENT frame that Session.handleEvent has parsed and
// handed to a debouncer since the last call (taken out of the debouncers' buffers, so that
// nothing waits for their one-second timers).
func (l *VerifLive) DrainEvents() []*VerifView {
	for _, d := range []*eventDebouncer{l.S.nodeEvents, l.S.schemaEvents} {
		d.mu.Lock()
		ev := d.events
		d.events = nil
		d.mu.Unlock()
		l.recordEvents(ev)
	}
	l.evMu.Lock()
	frames := l.evFrames
	l.evFrames = nil
	l.evMu.Unlock()
	var out []*VerifView
	for _, fr := range frames {
		view := &VerifView{FrameType: fmt.Sprintf("%T", fr)}
		h := fr.Header()
		view.VersionByte, view.Flags, view.Stream, view.Op, view.Length = byte(h.version), h.flags, h.stream, byte(h.op), h.length
		view.Warnings = h.warnings
		verifFill(view, fr)
		out = append(out, view)
	}
	return out
}

type verifNopTracer struct{}

func (verifNopTracer) Trace(traceId []byte) {}

// Options sends an OPTIONS request on the live connection and parses the response, the way
// Conn.heartBeat does (c.exec(ctx, &writeOptionsFrame{}, nil); framer.parseFrame()). The
// request carries the tracing flag (a tracer is passed to exec), which is how the scripted
// node tells it from the connection's own heartbeat OPTIONS.
func (l *VerifLive) Options(ctx context.Context) (*VerifView, error) {
	framer, err := l.C.exec(ctx, &writeOptionsFrame{}, verifNopTracer{})
	if err != nil {
		return nil, err
	}
	fr, err := framer.parseFrame()
	if err != nil {
		return nil, err
	}
	view := &VerifView{FrameType: fmt.Sprintf("%T", fr)}
	h := fr.Header()
	view.VersionByte, view.Flags, view.Stream, view.Op, view.Length = byte(h.version), h.flags, h.stream, byte(h.op), h.length
	view.TraceID = framer.traceID
	view.Warnings = framer.header.warnings
	view.HasPayload = framer.customPayload != nil
	view.Payload = framer.customPayload
	view.Remaining = len(framer.buf)
	verifFill(view, fr)
	return view, nil
}

func (l *VerifLive) Closed() bool { return l.C.Closed() }

// Bind pins a query created with the public API (l.S.Query(...)) to the live
// connection, the way Conn.query does for the driver's own internal queries:
// q.Iter() / q.Exec() / q.Scan() then run Conn.executeQuery on it.
func (l *VerifLive) Bind(q *Query) *Query {
	q.conn = l.C
	return q
}

func (l *VerifLive) ExecBatch(b *Batch) *Iter { return l.C.executeBatch(b.Context(), b) }
func (l *VerifLive) Close() {
	l.C.Close()
	l.S.cancel()
	l.S.nodeEvents.stop()
	l.S.schemaEvents.stop()
}
