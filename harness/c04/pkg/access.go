//go:build verif

package gocql

import (
	"bytes"
	"fmt"
	"reflect"
)

// In-package accessors for check C04. They push raw response bytes through the
// driver's real receive path exactly as Conn.recv does it
//
//	head, err := readHeader(r, headerBuf)            (frame.go)
//	framer := newFramer(c.compressor, c.version)
//	err = framer.readFrame(r, &head)
//	frame, err := framer.parseFrame()
//
// and copy what the driver decoded into neutral structs. No decoding logic lives here.

type VerifType struct {
	GoType   string // NativeType, CollectionType, TupleTypeInfo, UDTTypeInfo
	ID       int
	Proto    byte
	Custom   string
	Key      *VerifType
	Elem     *VerifType
	Elems    []VerifType
	Keyspace string
	Name     string
	Fields   []VerifField
}

type VerifField struct {
	Name string
	Type VerifType
}

func VerifTypeOf(t TypeInfo) VerifType {
	if t == nil {
		return VerifType{GoType: "nil"}
	}
	out := VerifType{ID: int(t.Type()), Proto: t.Version(), Custom: t.Custom()}
	switch x := t.(type) {
	case NativeType:
		out.GoType = "NativeType"
	case CollectionType:
		out.GoType = "CollectionType"
		if x.Key != nil {
			k := VerifTypeOf(x.Key)
			out.Key = &k
		}
		if x.Elem != nil {
			e := VerifTypeOf(x.Elem)
			out.Elem = &e
		}
	case TupleTypeInfo:
		out.GoType = "TupleTypeInfo"
		for _, e := range x.Elems {
			out.Elems = append(out.Elems, VerifTypeOf(e))
		}
	case UDTTypeInfo:
		out.GoType = "UDTTypeInfo"
		out.Keyspace, out.Name = x.KeySpace, x.Name
		for _, f := range x.Elements {
			out.Fields = append(out.Fields, VerifField{f.Name, VerifTypeOf(f.Type)})
		}
	default:
		out.GoType = fmt.Sprintf("%T", t)
	}
	return out
}

type VerifColumn struct {
	Keyspace, Table, Name string
	Type                  VerifType
}

type VerifMeta struct {
	Flags          int
	PagingState    []byte
	ColCount       int
	ActualColCount int
	Columns        []VerifColumn
	// prepared only
	PKeys    []int
	Keyspace string
	Table    string
}

func verifCols(cols []ColumnInfo) []VerifColumn {
	var out []VerifColumn
	for _, c := range cols {
		out = append(out, VerifColumn{c.Keyspace, c.Table, c.Name, VerifTypeOf(c.TypeInfo)})
	}
	return out
}

func verifMeta(m resultMetadata) VerifMeta {
	return VerifMeta{Flags: m.flags, PagingState: m.pagingState, ColCount: m.colCount, ActualColCount: m.actualColCount, Columns: verifCols(m.columns)}
}

// VerifView is the driver's view of one response frame.
type VerifView struct {
	Stage     string // "", or where it stopped: readHeader | readFrame | parseFrame
	Err       string
	Panic     string
	FrameType string // Go type of the parsed frame

	// header as the driver decoded it
	VersionByte byte
	Flags       byte
	Stream      int
	Op          byte
	Length      int
	// flag driven prefixes
	TraceID    []byte
	Warnings   []string
	HasPayload bool
	Payload    map[string][]byte
	// bytes of the body the parser left unread (for rows: before the row content is iterated)
	Remaining int

	// READY / AUTHENTICATE / AUTH_* / SUPPORTED / set_keyspace
	Class     string
	Data      []byte
	Supported map[string][]string
	Keyspace  string

	// ERROR
	IsError         bool
	ErrCode         int
	ErrMessage      string
	ErrorString     string
	Consistency     uint16
	Required        int
	Alive           int
	Received        int
	BlockFor        int
	NumFailures     int
	WriteType       string
	HasContentions  bool
	Contentions     uint64
	DataPresentByte byte
	DataPresentBool bool
	ErrorMap        map[string]uint16
	Table           string
	Function        string
	ArgTypes        []string
	StatementID     []byte

	// schema change / events
	Change string
	Object string
	Args   []string
	Host   []byte
	Port   int

	// rows / prepared
	Meta       VerifMeta
	NumRows    int
	PreparedID []byte
	ReqMeta    VerifMeta
	RespMeta   VerifMeta
}

// VerifHandle keeps the framer and parsed frame so that an Iter can be built.
type VerifHandle struct {
	framer *framer
	frame  frame
}

// VerifParse runs readHeader -> readFrame -> parseFrame on raw.
func VerifParse(version byte, comp Compressor, raw []byte) (view *VerifView, h *VerifHandle) {
	view = &VerifView{}
	defer func() {
		if p := recover(); p != nil {
			view.Panic = fmt.Sprint(p)
			h = nil
		}
	}()
	r := bytes.NewReader(raw)
	var headerBuf [maxFrameHeaderSize]byte
	view.Stage = "readHeader"
	head, err := readHeader(r, headerBuf[:])
	if err != nil {
		view.Err = err.Error()
		return view, nil
	}
	view.VersionByte, view.Flags, view.Stream, view.Op, view.Length = byte(head.version), head.flags, head.stream, byte(head.op), head.length
	view.Stage = "readFrame"
	f := newFramer(comp, version)
	if err := f.readFrame(r, &head); err != nil {
		view.Err = err.Error()
		return view, nil
	}
	if r.Len() != 0 {
		view.Err = fmt.Sprintf("readFrame left %d bytes of the input unread", r.Len())
		return view, nil
	}
	view.Stage = "parseFrame"
	fr, err := f.parseFrame()
	if err != nil {
		view.Err = err.Error()
		return view, nil
	}
	view.Stage = ""
	view.FrameType = fmt.Sprintf("%T", fr)
	view.TraceID = f.traceID
	view.Warnings = f.header.warnings
	view.HasPayload = f.customPayload != nil
	view.Payload = f.customPayload
	view.Remaining = len(f.buf)
	hh := fr.Header()
	if hh.stream != head.stream || hh.op != head.op || hh.version != head.version {
		// result rows frames do not carry the header; everything else must
		if _, ok := fr.(*resultRowsFrame); !ok {
			if _, isErr := fr.(errorFrame); !isErr {
				view.Err = fmt.Sprintf("frame.Header() = %v differs from the header read %v", hh, head)
			}
		}
	}
	verifFill(view, fr)
	return view, &VerifHandle{framer: f, frame: fr}
}

// verifFill copies the fields of a parsed frame into the view.
func verifFill(view *VerifView, fr interface{}) {
	if e, ok := fr.(error); ok {
		view.IsError = true
		view.ErrorString = e.Error()
	}
	if re, ok := fr.(RequestError); ok {
		view.ErrCode, view.ErrMessage = re.Code(), re.Message()
	}
	switch x := fr.(type) {
	case *readyFrame:
	case *authenticateFrame:
		view.Class = x.class
	case *authChallengeFrame:
		view.Data = x.data
	case *authSuccessFrame:
		view.Data = x.data
	case *supportedFrame:
		view.Supported = x.supported
	case errorFrame:
	case *RequestErrUnavailable:
		view.Consistency, view.Required, view.Alive = uint16(x.Consistency), x.Required, x.Alive
	case *RequestErrWriteTimeout:
		view.Consistency, view.Received, view.BlockFor, view.WriteType = uint16(x.Consistency), x.Received, x.BlockFor, x.WriteType
		// a Contentions field does not exist in every version of the driver
		if fv := reflect.ValueOf(x).Elem().FieldByName("Contentions"); fv.IsValid() && fv.CanUint() {
			view.HasContentions, view.Contentions = true, fv.Uint()
		}
	case *RequestErrReadTimeout:
		view.Consistency, view.Received, view.BlockFor, view.DataPresentByte = uint16(x.Consistency), x.Received, x.BlockFor, x.DataPresent
	case *RequestErrAlreadyExists:
		view.Keyspace, view.Table = x.Keyspace, x.Table
	case *RequestErrUnprepared:
		view.StatementID = x.StatementId
	case *RequestErrReadFailure:
		view.Consistency, view.Received, view.BlockFor, view.NumFailures, view.DataPresentBool, view.ErrorMap = uint16(x.Consistency), x.Received, x.BlockFor, x.NumFailures, x.DataPresent, x.ErrorMap
	case *RequestErrWriteFailure:
		view.Consistency, view.Received, view.BlockFor, view.NumFailures, view.WriteType, view.ErrorMap = uint16(x.Consistency), x.Received, x.BlockFor, x.NumFailures, x.WriteType, x.ErrorMap
	case *RequestErrFunctionFailure:
		view.Keyspace, view.Function, view.ArgTypes = x.Keyspace, x.Function, x.ArgTypes
	case *RequestErrCDCWriteFailure:
	case *RequestErrCASWriteUnknown:
		view.Consistency, view.Received, view.BlockFor = uint16(x.Consistency), x.Received, x.BlockFor
	case *resultVoidFrame:
	case *resultKeyspaceFrame:
		view.Keyspace = x.keyspace
	case *resultRowsFrame:
		view.Meta = verifMeta(x.meta)
		view.NumRows = x.numRows
	case *resultPreparedFrame:
		view.PreparedID = x.preparedID
		view.ReqMeta = verifMeta(x.reqMeta.resultMetadata)
		view.ReqMeta.PKeys, view.ReqMeta.Keyspace, view.ReqMeta.Table = x.reqMeta.pkeyColumns, x.reqMeta.keyspace, x.reqMeta.table
		view.RespMeta = verifMeta(x.respMeta)
	case *schemaChangeKeyspace:
		view.Change, view.Keyspace = x.change, x.keyspace
	case *schemaChangeTable:
		view.Change, view.Keyspace, view.Object = x.change, x.keyspace, x.object
	case *schemaChangeType:
		view.Change, view.Keyspace, view.Object = x.change, x.keyspace, x.object
	case *schemaChangeFunction:
		view.Change, view.Keyspace, view.Object, view.Args = x.change, x.keyspace, x.name, x.args
	case *schemaChangeAggregate:
		view.Change, view.Keyspace, view.Object, view.Args = x.change, x.keyspace, x.name, x.args
	case *statusChangeEventFrame:
		view.Change, view.Host, view.Port = x.change, []byte(x.host), x.port
	case *topologyChangeEventFrame:
		view.Change, view.Host, view.Port = x.change, []byte(x.host), x.port
	default:
		view.Err = fmt.Sprintf("verif: unhandled frame type %T", fr)
	}
}

// VerifErrorView is the view of an error value the public API returned (Iter.Close()).
func VerifErrorView(err error) *VerifView {
	view := &VerifView{FrameType: fmt.Sprintf("%T", err)}
	verifFill(view, err)
	return view
}

// Iter builds the *Iter the way Conn.executeQuery does for a *resultRowsFrame
// (conn.go: `iter := &Iter{meta: x.meta, framer: framer, numRows: x.numRows}` and,
// when the request asked to skip metadata, `iter.meta = info.response;
// iter.meta.pagingState = copyBytes(x.meta.pagingState)` with info taken from the
// parsed PREPARED frame). prepared is nil when metadata was not skipped.
// (The real executeQuery is exercised end to end by the live part of the check.)
func (h *VerifHandle) Iter(prepared *VerifHandle) (*Iter, error) {
	x, ok := h.frame.(*resultRowsFrame)
	if !ok {
		return nil, fmt.Errorf("not a rows frame: %T", h.frame)
	}
	iter := &Iter{meta: x.meta, framer: h.framer, numRows: x.numRows}
	if prepared != nil {
		p, ok := prepared.frame.(*resultPreparedFrame)
		if !ok {
			return nil, fmt.Errorf("companion is not a prepared frame: %T", prepared.frame)
		}
		info := &preparedStatment{id: copyBytes(p.preparedID), request: p.reqMeta, response: p.respMeta}
		iter.meta = info.response
		iter.meta.pagingState = copyBytes(x.meta.pagingState)
	}
	return iter, nil
}

// VerifIterRemaining is the number of body bytes the iterator has not consumed
// (-1 once the iterator was closed and dropped its framer).
func VerifIterRemaining(it *Iter) int {
	if it.framer == nil {
		return -1
	}
	return len(it.framer.buf)
}
